#!/bin/sh
# ./run.sh <property id> <quick|thorough>
# Rebuilds the checker if its sources are newer than the binary, then decides the property on
# /repo's current working tree. Exit 0: held; exit 1: VIOLATION line(s); exit 2: cannot decide.
set -u
cd "$(dirname "$0")"
export GOFLAGS=-mod=mod GOPROXY=off GOSUMDB=off GOTOOLCHAIN=local GOWORK=off
PROP="${1:?property id}"
TIER="${2:-${VERIF_TIER:-quick}}"
REPO="${IKE_REPO:-/repo}"
if [ ! -x bin/ikelint ] || [ -n "$(find checker -name '*.go' -newer bin/ikelint 2>/dev/null | head -1)" ] || [ checker/go.mod -nt bin/ikelint ]; then
  (cd checker && go build -o ../bin/ikelint ./cmd/ikelint) || { echo "CANNOT-DECIDE: checker does not build"; exit 2; }
fi
mkdir -p evidence
# engine self-test on the fixture module: a rule that stopped firing on its must-flag miniature
# (or fires on its must-pass miniature) makes the run undecidable (exit 2)
./bin/ikelint -selftest "$(pwd)/fixtures" >/dev/null || { ./bin/ikelint -selftest "$(pwd)/fixtures"; echo "CANNOT-DECIDE: checker self-test failed"; exit 2; }
exec ./bin/ikelint -repo "$REPO" -prop "$PROP" -tier "$TIER" -out "$(pwd)/evidence" -known "$(pwd)/known_findings.json"
