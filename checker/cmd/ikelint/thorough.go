package main

import (
	"encoding/json"
	"fmt"
	"io/fs"
	"os"
	"os/exec"
	"path/filepath"
	"regexp"
	"sort"
	"strings"

	"ikeverif/checker/lint"
)

// The thorough tier adds two things to the quick analysis, both static:
//
//  1. Sensitivity replay. Every seeded faulty variant kept under /verif/seeded/<prop>-*/ is applied to a
//     scratch copy of the CURRENT working tree (outside /repo and /verif, removed afterwards) and the same
//     property is analysed on the copy by a child process; the variant must be reported. This re-validates
//     on every run, against today's source, that the rules still bite on the breakages they were built or
//     confirmed against. A variant whose patch no longer applies is listed as "not applicable to this tree".
//  2. (C02, C04, C10) Site cross-check against the compiler: every bounds check the Go compiler could not
//     eliminate (-d=ssa/check_bce) inside a function the panic prover analysed must be one of the prover's
//     own obligations, so the prover's site enumeration cannot silently miss a class of constructs.

type seedResult struct {
	Name    string   `json:"name"`
	Applies bool     `json:"patch_applies"`
	Flagged bool     `json:"flagged"`
	Rules   []string `json:"rules,omitempty"`
	Note    string   `json:"note,omitempty"`
}

func copyTree(src, dst string) error {
	return filepath.WalkDir(src, func(p string, d fs.DirEntry, err error) error {
		if err != nil {
			return err
		}
		rel, _ := filepath.Rel(src, p)
		if d.IsDir() {
			if d.Name() == ".git" {
				return filepath.SkipDir
			}
			return os.MkdirAll(filepath.Join(dst, rel), 0o755)
		}
		if !d.Type().IsRegular() {
			return nil
		}
		b, err := os.ReadFile(p)
		if err != nil {
			return err
		}
		return os.WriteFile(filepath.Join(dst, rel), b, 0o644)
	})
}

var ruleLine = regexp.MustCompile(`^\s*(VIOLATED|UNDECIDED) (\S+) at`)

func replaySeeded(prop, repo, seededDir, known string) ([]seedResult, []string) {
	var out []seedResult
	var lost []string
	ents, err := os.ReadDir(seededDir)
	if err != nil {
		return nil, nil
	}
	exe, _ := os.Executable()
	for _, e := range ents {
		if !e.IsDir() || !strings.HasPrefix(e.Name(), prop+"-") {
			continue
		}
		patch := filepath.Join(seededDir, e.Name(), "patch.diff")
		if _, err := os.Stat(patch); err != nil {
			continue
		}
		res := seedResult{Name: e.Name()}
		tmp, err := os.MkdirTemp("", "ikelint-seed-")
		if err != nil {
			res.Note = err.Error()
			out = append(out, res)
			continue
		}
		func() {
			defer os.RemoveAll(tmp)
			if err := copyTree(repo, tmp); err != nil {
				res.Note = "copy failed: " + err.Error()
				return
			}
			ap := exec.Command("git", "apply", "--whitespace=nowarn", patch)
			ap.Dir = tmp
			ap.Env = append(os.Environ(), "GIT_CEILING_DIRECTORIES="+filepath.Dir(tmp))
			if b, err := ap.CombinedOutput(); err != nil {
				res.Note = "patch does not apply to the current tree: " + firstLine(string(b))
				return
			}
			res.Applies = true
			ch := exec.Command(exe, "-repo", tmp, "-prop", prop, "-tier", "quick", "-no-evidence", "-known", known)
			b, _ := ch.CombinedOutput()
			code := ch.ProcessState.ExitCode()
			seen := map[string]bool{}
			for _, l := range strings.Split(string(b), "\n") {
				if m := ruleLine.FindStringSubmatch(l); m != nil && !seen[m[2]] {
					seen[m[2]] = true
					res.Rules = append(res.Rules, m[2])
				}
			}
			sort.Strings(res.Rules)
			res.Flagged = code == 1 && strings.Contains(string(b), "VIOLATION property="+prop)
			if code != 0 && code != 1 {
				res.Note = "the variant does not load: " + firstLine(string(b))
			}
		}()
		if res.Applies && !res.Flagged {
			lost = append(lost, e.Name())
		}
		out = append(out, res)
	}
	return out, lost
}

func firstLine(s string) string {
	s = strings.TrimSpace(s)
	if i := strings.IndexByte(s, '\n'); i >= 0 {
		s = s[:i]
	}
	if len(s) > 200 {
		s = s[:200]
	}
	return s
}

var bceLine = regexp.MustCompile(`^(\S+\.go):(\d+):(\d+): Found (IsInBounds|IsSliceInBounds)`)

// bceCrossCheck lists the compiler's unproven bounds checks and matches them against the report's
// bounds obligations by file:line. Sites in functions the prover did not analyse are out of scope.
func bceCrossCheck(ctx *lint.Ctx, rep *lint.Report, repo string) (map[string]any, []string) {
	cmd := exec.Command("go", "build", "-gcflags=-d=ssa/check_bce/debug=1", "./...")
	cmd.Dir = repo
	cmd.Env = append(os.Environ(), "GOFLAGS=-mod=mod", "GOPROXY=off", "GOSUMDB=off", "GOTOOLCHAIN=local", "GOWORK=off")
	b, err := cmd.CombinedOutput()
	if err != nil && !strings.Contains(string(b), "Found Is") {
		return map[string]any{"error": "go build failed: " + firstLine(string(b))}, nil
	}
	have := map[string]bool{}
	proverFns := map[string]bool{} // functions the panic prover (E2) produced obligations for
	for _, o := range rep.Obls {
		if strings.Contains(o.Rule, "bounds.") || strings.Contains(o.Rule, "hygiene") {
			have[o.Pos] = true
		}
		if strings.Contains(o.Rule, "bounds.") || strings.Contains(o.Rule, "term.") || strings.Contains(o.Rule, "ext.") || strings.Contains(o.Rule, "panic.") {
			if i := strings.Index(o.Key, ": "); i > 0 {
				proverFns[o.Key[:i]] = true
			}
		}
	}
	total, inScope, matched := 0, 0, 0
	var missing []string
	for _, l := range strings.Split(string(b), "\n") {
		m := bceLine.FindStringSubmatch(strings.TrimSpace(l))
		if m == nil {
			continue
		}
		total++
		m[1] = strings.TrimPrefix(m[1], "./")
		var line int
		fmt.Sscan(m[2], &line)
		fn := ctx.FuncAtLine(m[1], line)
		if fn == "" || !proverFns[fn] {
			continue
		}
		inScope++
		if have[m[1]+":"+m[2]] {
			matched++
		} else {
			missing = append(missing, fmt.Sprintf("%s:%s (%s in %s)", m[1], m[2], m[4], fn))
		}
	}
	sort.Strings(missing)
	info := map[string]any{
		"compiler_unproven_bounds_checks": total,
		"inside_analysed_functions":       inScope,
		"matched_by_prover_obligations":   matched,
		"unmatched":                       missing,
		"rule":                            "every bounds check the compiler cannot eliminate inside an analysed function has a prover obligation at the same file:line",
	}
	return info, missing
}

// replayNeutral applies the behaviour-preserving variants kept for this property (neutral/<prop>-*) to a
// scratch copy of the current tree and requires the property's check to stay silent on each. A variant the
// checks are known not to handle (meta.json "expected_alarms") is listed and skipped.
func replayNeutral(prop, repo, neutralDir, known string) ([]seedResult, []string) {
	var out []seedResult
	var noisy []string
	ents, err := os.ReadDir(neutralDir)
	if err != nil {
		return nil, nil
	}
	exe, _ := os.Executable()
	for _, e := range ents {
		if !e.IsDir() || !strings.HasPrefix(e.Name(), prop+"-") {
			continue
		}
		patch := filepath.Join(neutralDir, e.Name(), "patch.diff")
		if _, err := os.Stat(patch); err != nil {
			continue
		}
		res := seedResult{Name: e.Name()}
		expected := false
		if b, err := os.ReadFile(filepath.Join(neutralDir, e.Name(), "meta.json")); err == nil {
			var m struct {
				Expected []string `json:"expected_alarms"`
			}
			_ = json.Unmarshal(b, &m)
			for _, p := range m.Expected {
				if p == prop {
					expected = true
				}
			}
		}
		if expected {
			res.Note = "known limitation: this rewrite is reported as undecided (DESIGN.md 8.8); skipped"
			out = append(out, res)
			continue
		}
		tmp, err := os.MkdirTemp("", "ikelint-neutral-")
		if err != nil {
			continue
		}
		func() {
			defer os.RemoveAll(tmp)
			if err := copyTree(repo, tmp); err != nil {
				res.Note = "copy failed: " + err.Error()
				return
			}
			ap := exec.Command("git", "apply", "--whitespace=nowarn", patch)
			ap.Dir = tmp
			ap.Env = append(os.Environ(), "GIT_CEILING_DIRECTORIES="+filepath.Dir(tmp))
			if b, err := ap.CombinedOutput(); err != nil {
				res.Note = "patch does not apply to the current tree: " + firstLine(string(b))
				return
			}
			res.Applies = true
			ch := exec.Command(exe, "-repo", tmp, "-prop", prop, "-tier", "quick", "-no-evidence", "-known", known)
			b, _ := ch.CombinedOutput()
			code := ch.ProcessState.ExitCode()
			res.Flagged = code != 0
			if code != 0 {
				for _, l := range strings.Split(string(b), "\n") {
					if m := ruleLine.FindStringSubmatch(l); m != nil {
						res.Rules = append(res.Rules, m[2])
					}
				}
			}
		}()
		if res.Applies && res.Flagged {
			noisy = append(noisy, e.Name())
		}
		out = append(out, res)
	}
	return out, noisy
}

func thoroughExtras(prop, repo, seededDir, known string, ctx *lint.Ctx, rep *lint.Report) (problems []string) {
	res, lost := replaySeeded(prop, repo, seededDir, known)
	if res == nil {
		res = []seedResult{}
	}
	var gen []any
	b, _ := json.Marshal(res)
	_ = json.Unmarshal(b, &gen)
	rep.Extra["seeded_variants_replayed"] = gen
	for _, n := range lost {
		problems = append(problems, "SENSITIVITY-LOST property="+prop+" seeded variant "+n+" applies to this tree but is no longer reported")
	}
	// the tree under analysis is silent (otherwise the run fails anyway): are the behaviour-preserving
	// variants of this property's own code silent too?
	nres, noisy := replayNeutral(prop, repo, filepath.Join(filepath.Dir(seededDir), "neutral"), known)
	if nres == nil {
		nres = []seedResult{}
	}
	var ngen []any
	nb, _ := json.Marshal(nres)
	_ = json.Unmarshal(nb, &ngen)
	rep.Extra["neutral_variants_replayed"] = ngen
	for _, n := range noisy {
		problems = append(problems, "FALSE-ALARM property="+prop+" behaviour-preserving variant "+n+" is reported")
	}
	if prop == "C02" || prop == "C04" || prop == "C10" {
		info, missing := bceCrossCheck(ctx, rep, repo)
		rep.Extra["compiler_bce_crosscheck"] = info
		for _, m := range missing {
			problems = append(problems, "SITE-NOT-ENUMERATED property="+prop+" "+m)
		}
	}
	return problems
}
