// Command ikelint decides the properties of /verif/properties.jsonl on the source of free5gc/ike
// by static analysis (go/types + go/ssa); it never runs code of the analysed repository.
package main

import (
	"encoding/json"
	"flag"
	"fmt"
	"os"
	"path/filepath"
	"runtime/debug"
	"strconv"
	"strings"
	"time"

	"ikeverif/checker/lint"
)

func main() {
	repo := flag.String("repo", "/repo", "directory of the free5gc/ike working tree")
	prop := flag.String("prop", "", "property id (C01..C20)")
	tier := flag.String("tier", "quick", "quick | thorough")
	out := flag.String("out", "/verif/evidence", "evidence directory")
	known := flag.String("known", "/verif/known_findings.json", "known findings file")
	explain := flag.String("explain", "", "print a replay file")
	goarch := flag.String("goarch", "", "GOARCH to load with (thorough tier adds 386)")
	noEvidence := flag.Bool("no-evidence", false, "do not write evidence (used for scratch variants)")
	dump := flag.String("dump", "", "debug: dump internal tables (slots) or every obligation of -prop (obligations)")
	selftest := flag.String("selftest", "", "analyse the fixture module in this directory and verify the engines' must-flag / must-pass expectations")
	specDir := flag.String("spec", "", "directory of the reference tables (default: <dir of executable>/../spec)")
	seededDir := flag.String("seeded", "", "directory of the seeded variants replayed by the thorough tier (default: <dir of executable>/../seeded)")
	flag.Parse()
	if *explain != "" {
		b, err := os.ReadFile(*explain)
		if err != nil {
			fmt.Println(err)
			os.Exit(2)
		}
		var m map[string]any
		_ = json.Unmarshal(b, &m)
		fmt.Printf("property %v\nrule     %v\n         %v\nsite     %v\nkey      %v\nverdict  %v\n%v\n", m["property"], m["rule"], m["rule_statement"], m["pos"], m["key"], m["verdict"], m["detail"])
		return
	}
	if *specDir != "" {
		lint.SpecDir = *specDir
	} else if exe, err := os.Executable(); err == nil {
		lint.SpecDir = filepath.Join(filepath.Dir(filepath.Dir(exe)), "spec")
	}
	if *selftest != "" {
		n, fails := lint.SelfTest(*selftest)
		for _, f := range fails {
			fmt.Println("SELFTEST-FAIL:", f)
		}
		fmt.Printf("selftest: %d fixture functions, %d failure(s)\n", n, len(fails))
		if len(fails) > 0 {
			os.Exit(2)
		}
		return
	}
	if strings.HasPrefix(*dump, "ssa:") {
		abs, _ := filepath.Abs(*repo)
		ctx, err := lint.Load(abs, "", lint.ModulePath, 11)
		if err != nil {
			fmt.Println(err)
			os.Exit(2)
		}
		for _, l := range ctx.Inlined {
			fmt.Println("inlined:", l)
		}
		for _, l := range ctx.ConstTables {
			fmt.Println("const table:", l)
		}
		for _, l := range ctx.Unrolled {
			fmt.Println("normalised:", l)
		}
		for _, fn := range ctx.ModFuncs {
			if strings.Contains(fn.String(), strings.TrimPrefix(*dump, "ssa:")) {
				fn.WriteTo(os.Stdout)
			}
		}
		return
	}
	if *dump == "consts" {
		abs, _ := filepath.Abs(*repo)
		ctx, err := lint.Load(abs, "", lint.ModulePath, 11)
		if err != nil {
			fmt.Println(err)
			os.Exit(2)
		}
		fmt.Print(ctx.ConstTable())
		return
	}
	if *dump == "exported" {
		abs, _ := filepath.Abs(*repo)
		ctx, err := lint.Load(abs, "", lint.ModulePath, 11)
		if err != nil {
			fmt.Println(err)
			os.Exit(2)
		}
		for _, fn := range ctx.ModFuncs {
			if fn.Parent() == nil && fn.Object() != nil && fn.Object().Exported() {
				fmt.Println(ctx.FuncName(fn))
			}
		}
		return
	}
	if *dump == "anchors" {
		abs, _ := filepath.Abs(*repo)
		ctx, err := lint.Load(abs, "", lint.ModulePath, 11)
		if err != nil {
			fmt.Println(err)
			os.Exit(2)
		}
		fmt.Print(ctx.AnchorTable())
		return
	}
	if *dump == "slots" {
		abs, _ := filepath.Abs(*repo)
		ctx, err := lint.Load(abs, "", lint.ModulePath, 11)
		if err != nil {
			fmt.Println(err)
			os.Exit(2)
		}
		fmt.Print(ctx.BuildSlotTables().Dump())
		return
	}
	run, ok := lint.Registry[*prop]
	if !ok {
		fmt.Fprintf(os.Stderr, "unknown or unimplemented property %q\n", *prop)
		os.Exit(2)
	}
	seed := int64(0)
	if s := os.Getenv("VERIF_SEED"); s != "" {
		if v, err := strconv.ParseInt(s, 10, 64); err == nil {
			seed = v
		}
	}
	start := time.Now()
	abs, _ := filepath.Abs(*repo)
	archs := []string{*goarch}
	// Note: the repository does not type-check for 32-bit targets (message/header.go compares an int
	// with 0xFFFFFFFF), so every successful build has a 64-bit int; there is no 386 tier.
	kf, err := lint.LoadKnown(*known)
	if err != nil {
		fmt.Println("CANNOT-DECIDE:", err)
		os.Exit(2)
	}
	var rep *lint.Report
	var lastCtx *lint.Ctx
	for _, arch := range archs {
		r := lint.NewReport(*prop, run.Level)
		// An internal error of the checker (a panic in a normalisation or a rule) on some tree is not a verdict
		// on that tree, but it must not look like a pass or an unexplained crash either: it becomes one
		// undecided obligation, reported like every other undecided one.
		func() {
			defer func() {
				if p := recover(); p != nil {
					stack := string(debug.Stack())
					if len(stack) > 3000 {
						stack = stack[:3000]
					}
					r.Add(lint.Obligation{Rule: "meta.checker-panic", Key: "internal error of the checker while analysing this tree", Pos: "-", Verdict: lint.Undecided, NonTrivial: true,
						Detail: fmt.Sprintf("the analysis could not be completed (%v); nothing is decided for this tree\n%s", p, stack)})
				}
			}()
			ctx, err := lint.Load(abs, arch, lint.ModulePath, 11)
			if err != nil {
				// A tree that does not load cannot be decided; report it as a violation of the meta rule so
				// that the caller sees a failing check rather than a silent pass.
				fmt.Println("CANNOT-DECIDE:", err)
				os.Exit(2)
			}
			lastCtx = ctx
			run.Fn(ctx, r)
			ctx.ErrorHygiene(r, *prop+".", *prop == "C02" || *prop == "C04")
			r.Assumptions = append(r.Assumptions, ctx.AnchorNotes...)
		}()
		if rep == nil {
			rep = r
		} else {
			rep.Merge(r, "GOARCH="+arch)
		}
	}
	if *dump == "obligations" {
		for _, o := range rep.Obls {
			fmt.Printf("%-10s %s | %s | %s | %s\n", o.Verdict, o.Rule, o.Key, o.Pos, o.Detail)
		}
	}
	var problems []string
	if *tier == "thorough" && lastCtx != nil {
		sd := *seededDir
		if sd == "" {
			if exe, err := os.Executable(); err == nil {
				sd = filepath.Join(filepath.Dir(filepath.Dir(exe)), "seeded")
			}
		}
		problems = thoroughExtras(*prop, abs, sd, *known, lastCtx, rep)
	}
	evDir := *out
	if *noEvidence {
		evDir, _ = os.MkdirTemp("", "ikelint-ev")
	}
	exit := func(code int) {
		if *noEvidence {
			os.RemoveAll(evDir) // scratch run: the replay files are not kept
		}
		os.Exit(code)
	}
	cmd := "ikelint " + strings.Join(os.Args[1:], " ")
	oc, err := rep.Finish(*tier, seed, start, evDir, kf, cmd, nil)
	if err != nil {
		fmt.Println("CANNOT-DECIDE:", err)
		exit(2)
	}
	fmt.Printf("%s tier=%s obligations=%d violations=%d functions=%d wall=%.1fs\n", *prop, *tier, len(rep.Obls), oc.Violations, len(rep.Funcs), time.Since(start).Seconds())
	for _, l := range oc.KnownLines {
		fmt.Println(l)
	}
	for _, l := range oc.ViolationLog {
		fmt.Println(l)
	}
	for _, p := range oc.ReplayPaths {
		fmt.Printf("VIOLATION property=%s replay=%s\n", *prop, p)
	}
	for _, p := range problems {
		fmt.Println(p)
	}
	if oc.Exit == 0 && len(problems) > 0 {
		// the analysis found no violation, but the checker itself lost sensitivity or missed a site:
		// that is a defect of the machinery, reported as "cannot decide" rather than as a violation.
		exit(2)
	}
	exit(oc.Exit)
}
