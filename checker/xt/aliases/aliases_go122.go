// Copyright 2024 The Go Authors. All rights reserved.
// Use of this source code is governed by a BSD-style
// license that can be found in the LICENSE file.

package aliases

import (
	"go/ast"
	"go/parser"
	"go/token"
	"go/types"
)

// Rhs returns the type on the right-hand side of the alias declaration.
func Rhs(alias *types.Alias) types.Type {
	if alias, ok := any(alias).(interface{ Rhs() types.Type }); ok {
		return alias.Rhs() // go1.23+
	}

	// go1.22's Alias didn't have the Rhs method,
	// so Unalias is the best we can do.
	return types.Unalias(alias)
}

// TypeParams returns the type parameter list of the alias.
func TypeParams(alias *types.Alias) *types.TypeParamList {
	if alias, ok := any(alias).(interface{ TypeParams() *types.TypeParamList }); ok {
		return alias.TypeParams() // go1.23+
	}
	return nil
}

// SetTypeParams sets the type parameters of the alias type.
func SetTypeParams(alias *types.Alias, tparams []*types.TypeParam) {
	if alias, ok := any(alias).(interface {
		SetTypeParams(tparams []*types.TypeParam)
	}); ok {
		alias.SetTypeParams(tparams) // go1.23+
	} else if len(tparams) > 0 {
		panic("cannot set type parameters of an Alias type in go1.22")
	}
}

// TypeArgs returns the type arguments used to instantiate the Alias type.
func TypeArgs(alias *types.Alias) *types.TypeList {
	if alias, ok := any(alias).(interface{ TypeArgs() *types.TypeList }); ok {
		return alias.TypeArgs() // go1.23+
	}
	return nil // empty (go1.22)
}

// Origin returns the generic Alias type of which alias is an instance.
// If alias is not an instance of a generic alias, Origin returns alias.
func Origin(alias *types.Alias) *types.Alias {
	if alias, ok := any(alias).(interface{ Origin() *types.Alias }); ok {
		return alias.Origin() // go1.23+
	}
	return alias // not an instance of a generic alias (go1.22)
}

// Enabled reports whether [NewAlias] should create [types.Alias] types.
//
// This function is expensive! Call it sparingly.
func Enabled() bool {
	// The only reliable way to compute the answer is to invoke go/types.
	// We don't parse the GODEBUG environment variable, because
	// (a) it's tricky to do so in a manner that is consistent
	//     with the godebug package; in particular, a simple
	//     substring check is not good enough. The value is a
	//     rightmost-wins list of options. But more importantly:
	// (b) it is impossible to detect changes to the effective
	//     setting caused by os.Setenv("GODEBUG"), as happens in
	//     many tests. Therefore any attempt to cache the result
	//     is just incorrect.
	fset := token.NewFileSet()
	f, _ := parser.ParseFile(fset, "a.go", "package p; type A = int", parser.SkipObjectResolution)
	pkg, _ := new(types.Config).Check("p", fset, []*ast.File{f}, nil)
	_, enabled := pkg.Scope().Lookup("A").Type().(*types.Alias)
	return enabled
}
