// Copyright 2024 The Go Authors. All rights reserved.
// Use of this source code is governed by a BSD-style
// license that can be found in the LICENSE file.

package aliases

import (
	"go/token"
	"go/types"
)

// Package aliases defines backward compatible shims
// for the types.Alias type representation added in 1.22.
// This defines placeholders for x/tools until 1.26.

// NewAlias creates a new TypeName in Package pkg that
// is an alias for the type rhs.
//
// The enabled parameter determines whether the resulting [TypeName]'s
// type is an [types.Alias]. Its value must be the result of a call to
// [Enabled], which computes the effective value of
// GODEBUG=gotypesalias=... by invoking the type checker. The Enabled
// function is expensive and should be called once per task (e.g.
// package import), not once per call to NewAlias.
//
// Precondition: enabled || len(tparams)==0.
// If materialized aliases are disabled, there must not be any type parameters.
func NewAlias(enabled bool, pos token.Pos, pkg *types.Package, name string, rhs types.Type, tparams []*types.TypeParam) *types.TypeName {
	if enabled {
		tname := types.NewTypeName(pos, pkg, name, nil)
		SetTypeParams(types.NewAlias(tname, rhs), tparams)
		return tname
	}
	if len(tparams) > 0 {
		panic("cannot create an alias with type parameters when gotypesalias is not enabled")
	}
	return types.NewTypeName(pos, pkg, name, rhs)
}
