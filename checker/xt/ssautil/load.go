// Copyright 2015 The Go Authors. All rights reserved.
// Use of this source code is governed by a BSD-style
// license that can be found in the LICENSE file.

package ssautil

// This file defines utility functions for constructing programs in SSA form.

import (
	"go/ast"
	"go/token"
	"go/types"

	"golang.org/x/tools/go/packages"
	"ikeverif/checker/xt/ssa"
)

// Packages creates an SSA program for a set of packages.
//
// The packages must have been loaded from source syntax using the
// [packages.Load] function in [packages.LoadSyntax] or
// [packages.LoadAllSyntax] mode.
//
// Packages creates an SSA package for each well-typed package in the
// initial list, plus all their dependencies. The resulting list of
// packages corresponds to the list of initial packages, and may contain
// a nil if SSA code could not be constructed for the corresponding initial
// package due to type errors.
//
// Code for bodies of functions is not built until [Program.Build] is
// called on the resulting Program. SSA code is constructed only for
// the initial packages with well-typed syntax trees.
//
// The mode parameter controls diagnostics and checking during SSA construction.
func Packages(initial []*packages.Package, mode ssa.BuilderMode) (*ssa.Program, []*ssa.Package) {
	// TODO(adonovan): opt: this calls CreatePackage far more than
	// necessary: for all dependencies, not just the (non-initial)
	// direct dependencies of the initial packages.
	//
	// But can it reasonably be changed without breaking the
	// spirit and/or letter of the law above? Clients may notice
	// if we call CreatePackage less, as methods like
	// Program.FuncValue will return nil. Or must we provide a new
	// function (and perhaps deprecate this one)? Is it worth it?
	//
	// Tim King makes the interesting point that it would be
	// possible to entirely alleviate the client from the burden
	// of calling CreatePackage for non-syntax packages, if we
	// were to treat vars and funcs lazily in the same way we now
	// treat methods. (In essence, try to move away from the
	// notion of ssa.Packages, and make the Program answer
	// all reasonable questions about any types.Object.)

	return doPackages(initial, mode, false)
}

// AllPackages creates an SSA program for a set of packages plus all
// their dependencies.
//
// The packages must have been loaded from source syntax using the
// [packages.Load] function in [packages.LoadAllSyntax] mode.
//
// AllPackages creates an SSA package for each well-typed package in the
// initial list, plus all their dependencies. The resulting list of
// packages corresponds to the list of initial packages, and may contain
// a nil if SSA code could not be constructed for the corresponding
// initial package due to type errors.
//
// Code for bodies of functions is not built until Build is called on
// the resulting Program. SSA code is constructed for all packages with
// well-typed syntax trees.
//
// The mode parameter controls diagnostics and checking during SSA construction.
func AllPackages(initial []*packages.Package, mode ssa.BuilderMode) (*ssa.Program, []*ssa.Package) {
	return doPackages(initial, mode, true)
}

func doPackages(initial []*packages.Package, mode ssa.BuilderMode, deps bool) (*ssa.Program, []*ssa.Package) {

	var fset *token.FileSet
	if len(initial) > 0 {
		fset = initial[0].Fset
	}

	prog := ssa.NewProgram(fset, mode)

	isInitial := make(map[*packages.Package]bool, len(initial))
	for _, p := range initial {
		isInitial[p] = true
	}

	ssamap := make(map[*packages.Package]*ssa.Package)
	packages.Visit(initial, nil, func(p *packages.Package) {
		if p.Types != nil && !p.IllTyped {
			var files []*ast.File
			var info *types.Info
			if deps || isInitial[p] {
				files = p.Syntax
				info = p.TypesInfo
			}
			ssamap[p] = prog.CreatePackage(p.Types, files, info, true)
		}
	})

	var ssapkgs []*ssa.Package
	for _, p := range initial {
		ssapkgs = append(ssapkgs, ssamap[p]) // may be nil
	}
	return prog, ssapkgs
}

// BuildPackage builds an SSA program with SSA intermediate
// representation (IR) for all functions of a single package.
//
// It populates pkg by type-checking the specified file syntax trees.  All
// dependencies are loaded using the importer specified by tc, which
// typically loads compiler export data; SSA code cannot be built for
// those packages.  BuildPackage then constructs an [ssa.Program] with all
// dependency packages created, and builds and returns the SSA package
// corresponding to pkg.
//
// The caller must have set pkg.Path to the import path.
//
// The operation fails if there were any type-checking or import errors.
//
// See ../example_test.go for an example.
func BuildPackage(tc *types.Config, fset *token.FileSet, pkg *types.Package, files []*ast.File, mode ssa.BuilderMode) (*ssa.Package, *types.Info, error) {
	if fset == nil {
		panic("no token.FileSet")
	}
	if pkg.Path() == "" {
		panic("package has no import path")
	}

	info := &types.Info{
		Types:        make(map[ast.Expr]types.TypeAndValue),
		Defs:         make(map[*ast.Ident]types.Object),
		Uses:         make(map[*ast.Ident]types.Object),
		Implicits:    make(map[ast.Node]types.Object),
		Instances:    make(map[*ast.Ident]types.Instance),
		Scopes:       make(map[ast.Node]*types.Scope),
		Selections:   make(map[*ast.SelectorExpr]*types.Selection),
		FileVersions: make(map[*ast.File]string),
	}
	if err := types.NewChecker(tc, fset, pkg, info).Files(files); err != nil {
		return nil, nil, err
	}

	prog := ssa.NewProgram(fset, mode)

	// Create SSA packages for all imports.
	// Order is not significant.
	created := make(map[*types.Package]bool)
	var createAll func(pkgs []*types.Package)
	createAll = func(pkgs []*types.Package) {
		for _, p := range pkgs {
			if !created[p] {
				created[p] = true
				prog.CreatePackage(p, nil, nil, true)
				createAll(p.Imports())
			}
		}
	}
	createAll(pkg.Imports())

	// TODO(adonovan): we could replace createAll with just:
	//
	// // Create SSA packages for all imports.
	// for _, p := range pkg.Imports() {
	// 	prog.CreatePackage(p, nil, nil, true)
	// }
	//
	// (with minor changes to changes to ../builder_test.go as
	// shown in CL 511715 PS 10.) But this would strictly violate
	// the letter of the doc comment above, which says "all
	// dependencies created".
	//
	// Tim makes the good point with some extra work we could
	// remove the need for any CreatePackage calls except the
	// ones with syntax (i.e. primary packages). Of course
	// You wouldn't have ssa.Packages and Members for as
	// many things but no-one really uses that anyway.
	// I wish I had done this from the outset.

	// Create and build the primary package.
	ssapkg := prog.CreatePackage(pkg, files, info, false)
	ssapkg.Build()
	return ssapkg, info, nil
}
