// Copyright 2015 The Go Authors. All rights reserved.
// Use of this source code is governed by a BSD-style
// license that can be found in the LICENSE file.

package ssautil

// This file contains deprecated public APIs.
// We discourage their use.

import (
	"golang.org/x/tools/go/loader"
	"ikeverif/checker/xt/ssa"
)

// CreateProgram returns a new program in SSA form, given a program
// loaded from source.  An SSA package is created for each transitively
// error-free package of lprog.
//
// Code for bodies of functions is not built until Build is called
// on the result.
//
// The mode parameter controls diagnostics and checking during SSA construction.
//
// Deprecated: Use [golang.org/x/tools/go/packages] and the [Packages]
// function instead; see ssa.Example_loadPackages.
func CreateProgram(lprog *loader.Program, mode ssa.BuilderMode) *ssa.Program {
	prog := ssa.NewProgram(lprog.Fset, mode)

	for _, info := range lprog.AllPackages {
		if info.TransitivelyErrorFree {
			prog.CreatePackage(info.Pkg, info.Files, &info.Info, info.Importable)
		}
	}

	return prog
}
