// Copyright 2013 The Go Authors. All rights reserved.
// Use of this source code is governed by a BSD-style
// license that can be found in the LICENSE file.

package ssautil

import (
	"go/ast"
	"go/types"

	"ikeverif/checker/xt/ssa"

	_ "unsafe" // for linkname hack
)

// This file defines utilities for visiting the SSA representation of
// a Program.
//
// TODO(adonovan): test coverage.

// AllFunctions finds and returns the set of functions potentially
// needed by program prog, as determined by a simple linker-style
// reachability algorithm starting from the members and method-sets of
// each package.  The result may include anonymous functions and
// synthetic wrappers.
//
// Precondition: all packages are built.
//
// TODO(adonovan): this function is underspecified. It doesn't
// actually work like a linker, which computes reachability from main
// using something like go/callgraph/cha (without materializing the
// call graph). In fact, it treats all public functions and all
// methods of public non-parameterized types as roots, even though
// they may be unreachable--but only in packages created from syntax.
//
// I think we should deprecate AllFunctions function in favor of two
// clearly defined ones:
//
//  1. The first would efficiently compute CHA reachability from a set
//     of main packages, making it suitable for a whole-program
//     analysis context with InstantiateGenerics, in conjunction with
//     Program.Build.
//
//  2. The second would return only the set of functions corresponding
//     to source Func{Decl,Lit} syntax, like SrcFunctions in
//     go/analysis/passes/buildssa; this is suitable for
//     package-at-a-time (or handful of packages) context.
//     ssa.Package could easily expose it as a field.
//
// We could add them unexported for now and use them via the linkname hack.
func AllFunctions(prog *ssa.Program) map[*ssa.Function]bool {
	seen := make(map[*ssa.Function]bool)

	var function func(fn *ssa.Function)
	function = func(fn *ssa.Function) {
		if !seen[fn] {
			seen[fn] = true
			var buf [10]*ssa.Value // avoid alloc in common case
			for _, b := range fn.Blocks {
				for _, instr := range b.Instrs {
					for _, op := range instr.Operands(buf[:0]) {
						if fn, ok := (*op).(*ssa.Function); ok {
							function(fn)
						}
					}
				}
			}
		}
	}

	// TODO(adonovan): opt: provide a way to share a builder
	// across a sequence of MethodValue calls.

	methodsOf := func(T types.Type) {
		if !types.IsInterface(T) {
			mset := prog.MethodSets.MethodSet(T)
			for i := 0; i < mset.Len(); i++ {
				function(prog.MethodValue(mset.At(i)))
			}
		}
	}

	// Historically, Program.RuntimeTypes used to include the type
	// of any exported member of a package loaded from syntax that
	// has a non-parameterized type, plus all types
	// reachable from that type using reflection, even though
	// these runtime types may not be required for them.
	//
	// Rather than break existing programs that rely on
	// AllFunctions visiting extra methods that are unreferenced
	// by IR and unreachable via reflection, we moved the logic
	// here, unprincipled though it is.
	// (See doc comment for better ideas.)
	//
	// Nonetheless, after the move, we no longer visit every
	// method of any type recursively reachable from T, only the
	// methods of T and *T themselves, and we only apply this to
	// named types T, and not to the type of every exported
	// package member.
	exportedTypeHack := func(t *ssa.Type) {
		if isSyntactic(t.Package()) &&
			ast.IsExported(t.Name()) &&
			!types.IsInterface(t.Type()) {
			// Consider only named types.
			// (Ignore aliases and unsafe.Pointer.)
			if named, ok := t.Type().(*types.Named); ok {
				if named.TypeParams() == nil {
					methodsOf(named)                   //  T
					methodsOf(types.NewPointer(named)) // *T
				}
			}
		}
	}

	for _, pkg := range prog.AllPackages() {
		for _, mem := range pkg.Members {
			switch mem := mem.(type) {
			case *ssa.Function:
				// Visit all package-level declared functions.
				function(mem)

			case *ssa.Type:
				exportedTypeHack(mem)
			}
		}
	}

	// Visit all methods of types for which runtime types were
	// materialized, as they are reachable through reflection.
	for _, T := range prog.RuntimeTypes() {
		methodsOf(T)
	}

	return seen
}

// MainPackages returns the subset of the specified packages
// named "main" that define a main function.
// The result may include synthetic "testmain" packages.
func MainPackages(pkgs []*ssa.Package) []*ssa.Package {
	var mains []*ssa.Package
	for _, pkg := range pkgs {
		if pkg.Pkg.Name() == "main" && pkg.Func("main") != nil {
			mains = append(mains, pkg)
		}
	}
	return mains
}

// TODO(adonovan): propose a principled API for this. One possibility
// is a new field, Package.SrcFunctions []*Function, which would
// contain the list of SrcFunctions described in point 2 of the
// AllFunctions doc comment, or nil if the package is not from syntax.
// But perhaps overloading nil vs empty slice is too subtle.
//
//go:linkname isSyntactic golang.org/x/tools/go/ssa.isSyntactic
func isSyntactic(pkg *ssa.Package) bool
