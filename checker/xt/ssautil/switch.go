// Copyright 2013 The Go Authors. All rights reserved.
// Use of this source code is governed by a BSD-style
// license that can be found in the LICENSE file.

package ssautil

// This file implements discovery of switch and type-switch constructs
// from low-level control flow.
//
// Many techniques exist for compiling a high-level switch with
// constant cases to efficient machine code.  The optimal choice will
// depend on the data type, the specific case values, the code in the
// body of each case, and the hardware.
// Some examples:
// - a lookup table (for a switch that maps constants to constants)
// - a computed goto
// - a binary tree
// - a perfect hash
// - a two-level switch (to partition constant strings by their first byte).

import (
	"bytes"
	"fmt"
	"go/token"
	"go/types"

	"ikeverif/checker/xt/ssa"
)

// A ConstCase represents a single constant comparison.
// It is part of a Switch.
type ConstCase struct {
	Block *ssa.BasicBlock // block performing the comparison
	Body  *ssa.BasicBlock // body of the case
	Value *ssa.Const      // case comparand
}

// A TypeCase represents a single type assertion.
// It is part of a Switch.
type TypeCase struct {
	Block   *ssa.BasicBlock // block performing the type assert
	Body    *ssa.BasicBlock // body of the case
	Type    types.Type      // case type
	Binding ssa.Value       // value bound by this case
}

// A Switch is a logical high-level control flow operation
// (a multiway branch) discovered by analysis of a CFG containing
// only if/else chains.  It is not part of the ssa.Instruction set.
//
// One of ConstCases and TypeCases has length >= 2;
// the other is nil.
//
// In a value switch, the list of cases may contain duplicate constants.
// A type switch may contain duplicate types, or types assignable
// to an interface type also in the list.
// TODO(adonovan): eliminate such duplicates.
type Switch struct {
	Start      *ssa.BasicBlock // block containing start of if/else chain
	X          ssa.Value       // the switch operand
	ConstCases []ConstCase     // ordered list of constant comparisons
	TypeCases  []TypeCase      // ordered list of type assertions
	Default    *ssa.BasicBlock // successor if all comparisons fail
}

func (sw *Switch) String() string {
	// We represent each block by the String() of its
	// first Instruction, e.g. "print(42:int)".
	var buf bytes.Buffer
	if sw.ConstCases != nil {
		fmt.Fprintf(&buf, "switch %s {\n", sw.X.Name())
		for _, c := range sw.ConstCases {
			fmt.Fprintf(&buf, "case %s: %s\n", c.Value, c.Body.Instrs[0])
		}
	} else {
		fmt.Fprintf(&buf, "switch %s.(type) {\n", sw.X.Name())
		for _, c := range sw.TypeCases {
			fmt.Fprintf(&buf, "case %s %s: %s\n",
				c.Binding.Name(), c.Type, c.Body.Instrs[0])
		}
	}
	if sw.Default != nil {
		fmt.Fprintf(&buf, "default: %s\n", sw.Default.Instrs[0])
	}
	fmt.Fprintf(&buf, "}")
	return buf.String()
}

// Switches examines the control-flow graph of fn and returns the
// set of inferred value and type switches.  A value switch tests an
// ssa.Value for equality against two or more compile-time constant
// values.  Switches involving link-time constants (addresses) are
// ignored.  A type switch type-asserts an ssa.Value against two or
// more types.
//
// The switches are returned in dominance order.
//
// The resulting switches do not necessarily correspond to uses of the
// 'switch' keyword in the source: for example, a single source-level
// switch statement with non-constant cases may result in zero, one or
// many Switches, one per plural sequence of constant cases.
// Switches may even be inferred from if/else- or goto-based control flow.
// (In general, the control flow constructs of the source program
// cannot be faithfully reproduced from the SSA representation.)
func Switches(fn *ssa.Function) []Switch {
	// Traverse the CFG in dominance order, so we don't
	// enter an if/else-chain in the middle.
	var switches []Switch
	seen := make(map[*ssa.BasicBlock]bool) // TODO(adonovan): opt: use ssa.blockSet
	for _, b := range fn.DomPreorder() {
		if x, k := isComparisonBlock(b); x != nil {
			// Block b starts a switch.
			sw := Switch{Start: b, X: x}
			valueSwitch(&sw, k, seen)
			if len(sw.ConstCases) > 1 {
				switches = append(switches, sw)
			}
		}

		if y, x, T := isTypeAssertBlock(b); y != nil {
			// Block b starts a type switch.
			sw := Switch{Start: b, X: x}
			typeSwitch(&sw, y, T, seen)
			if len(sw.TypeCases) > 1 {
				switches = append(switches, sw)
			}
		}
	}
	return switches
}

func valueSwitch(sw *Switch, k *ssa.Const, seen map[*ssa.BasicBlock]bool) {
	b := sw.Start
	x := sw.X
	for x == sw.X {
		if seen[b] {
			break
		}
		seen[b] = true

		sw.ConstCases = append(sw.ConstCases, ConstCase{
			Block: b,
			Body:  b.Succs[0],
			Value: k,
		})
		b = b.Succs[1]
		if len(b.Instrs) > 2 {
			// Block b contains not just 'if x == k',
			// so it may have side effects that
			// make it unsafe to elide.
			break
		}
		if len(b.Preds) != 1 {
			// Block b has multiple predecessors,
			// so it cannot be treated as a case.
			break
		}
		x, k = isComparisonBlock(b)
	}
	sw.Default = b
}

func typeSwitch(sw *Switch, y ssa.Value, T types.Type, seen map[*ssa.BasicBlock]bool) {
	b := sw.Start
	x := sw.X
	for x == sw.X {
		if seen[b] {
			break
		}
		seen[b] = true

		sw.TypeCases = append(sw.TypeCases, TypeCase{
			Block:   b,
			Body:    b.Succs[0],
			Type:    T,
			Binding: y,
		})
		b = b.Succs[1]
		if len(b.Instrs) > 4 {
			// Block b contains not just
			//  {TypeAssert; Extract #0; Extract #1; If}
			// so it may have side effects that
			// make it unsafe to elide.
			break
		}
		if len(b.Preds) != 1 {
			// Block b has multiple predecessors,
			// so it cannot be treated as a case.
			break
		}
		y, x, T = isTypeAssertBlock(b)
	}
	sw.Default = b
}

// isComparisonBlock returns the operands (v, k) if a block ends with
// a comparison v==k, where k is a compile-time constant.
func isComparisonBlock(b *ssa.BasicBlock) (v ssa.Value, k *ssa.Const) {
	if n := len(b.Instrs); n >= 2 {
		if i, ok := b.Instrs[n-1].(*ssa.If); ok {
			if binop, ok := i.Cond.(*ssa.BinOp); ok && binop.Block() == b && binop.Op == token.EQL {
				if k, ok := binop.Y.(*ssa.Const); ok {
					return binop.X, k
				}
				if k, ok := binop.X.(*ssa.Const); ok {
					return binop.Y, k
				}
			}
		}
	}
	return
}

// isTypeAssertBlock returns the operands (y, x, T) if a block ends with
// a type assertion "if y, ok := x.(T); ok {".
func isTypeAssertBlock(b *ssa.BasicBlock) (y, x ssa.Value, T types.Type) {
	if n := len(b.Instrs); n >= 4 {
		if i, ok := b.Instrs[n-1].(*ssa.If); ok {
			if ext1, ok := i.Cond.(*ssa.Extract); ok && ext1.Block() == b && ext1.Index == 1 {
				if ta, ok := ext1.Tuple.(*ssa.TypeAssert); ok && ta.Block() == b {
					// hack: relies upon instruction ordering.
					if ext0, ok := b.Instrs[n-3].(*ssa.Extract); ok {
						return ext0, ta.X, ta.AssertedType
					}
				}
			}
		}
	}
	return
}
