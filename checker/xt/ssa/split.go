// Added for /verif (not part of x/tools): splitting of a control-flow merge that selects among integer
// constants (a `switch kind { case A: n = 4; case B: n = 16 }` followed by code that slices a buffer at
// offsets computed from n). The blocks dominated by the merge are duplicated once per incoming edge and the
// φ-nodes of the merge are replaced by the edge's values, which gives back the form in which every variant
// has its own straight-line code with constant offsets (what the if/else chain it was written as, or will be
// rewritten into, looks like). The transformation preserves the function's behaviour.

package ssa

import (
	"fmt"
	"go/constant"
	"go/token"
	"go/types"
)

const (
	splitMaxRegion = 48 // blocks dominated by the merge
	splitMaxPreds  = 4
	splitMaxPerFn  = 3
)

// SplitConstMerges applies the transformation to every function of fns; one note per split.
func SplitConstMerges(fns []*Function) []string {
	var notes []string
	for _, f := range fns {
		if f.Blocks == nil || f.Recover != nil {
			continue
		}
		n := 0
		for n < splitMaxPerFn {
			note, ok := splitOne(f)
			if !ok {
				break
			}
			n++
			notes = append(notes, f.String()+": "+note)
		}
		if n > 0 {
			foldConstants(f)
			rebuild(f)
			simplifyPhis(f)
			mergeLinearBlocks(f)
		}
	}
	return notes
}

// reachesSliceBound: v flows (through integer arithmetic, conversions, len of a slice cut with it) into the
// bound of a slice expression, an index or a make length.
func reachesSliceBound(v Value, depth int, seen map[Value]bool) bool {
	if depth > 6 || seen[v] {
		return false
	}
	seen[v] = true
	refs := v.Referrers()
	if refs == nil {
		return false
	}
	for _, u := range *refs {
		switch x := u.(type) {
		case *Slice:
			if x.Low == v || x.High == v || x.Max == v {
				return true
			}
			if x.X == v && reachesSliceBound(x, depth+1, seen) {
				return true
			}
		case *IndexAddr:
			if x.Index == v {
				return true
			}
		case *Index:
			if x.Index == v {
				return true
			}
		case *MakeSlice:
			return true
		case *BinOp:
			switch x.Op {
			case token.ADD, token.SUB, token.MUL, token.QUO, token.SHL, token.SHR:
				if reachesSliceBound(x, depth+1, seen) {
					return true
				}
			}
		case *Convert:
			if reachesSliceBound(x, depth+1, seen) {
				return true
			}
		case *ChangeType:
			if reachesSliceBound(x, depth+1, seen) {
				return true
			}
		case *Call:
			if b, ok := x.Call.Value.(*Builtin); ok && b.Name() == "len" {
				if reachesSliceBound(x, depth+1, seen) {
					return true
				}
			}
		}
	}
	return false
}

func splitOne(f *Function) (string, bool) {
	for _, m := range f.Blocks {
		if len(m.Preds) < 2 || len(m.Preds) > splitMaxPreds {
			continue
		}
		// the deciding φ: integer, every edge a constant, at least two different values, feeding a slice bound
		var decide *Phi
		for _, ins := range m.Instrs {
			p, ok := ins.(*Phi)
			if !ok {
				break
			}
			if bt, ok := p.Type().Underlying().(*types.Basic); !ok || bt.Info()&types.IsInteger == 0 {
				continue
			}
			vals := map[string]bool{}
			all := true
			for _, e := range p.Edges {
				c, ok := e.(*Const)
				if !ok || c.Value == nil || c.Value.Kind() != constant.Int {
					all = false
					break
				}
				vals[c.Value.ExactString()] = true
			}
			if all && len(vals) >= 2 && reachesSliceBound(p, 0, map[Value]bool{}) {
				decide = p
				break
			}
		}
		if decide == nil {
			continue
		}
		// distinct predecessors, each with one edge to m; m is not a loop header
		okPreds := true
		seenP := map[*BasicBlock]bool{}
		for _, p := range m.Preds {
			if seenP[p] || m.Dominates(p) {
				okPreds = false
			}
			seenP[p] = true
			n := 0
			for _, s := range p.Succs {
				if s == m {
					n++
				}
			}
			if n != 1 {
				okPreds = false
			}
		}
		if !okPreds {
			continue
		}
		var region []*BasicBlock
		in := map[*BasicBlock]bool{}
		for _, b := range f.Blocks {
			if m.Dominates(b) {
				region = append(region, b)
				in[b] = true
			}
		}
		if len(region) > splitMaxRegion {
			continue
		}
		doSplit(f, m, region, in)
		return fmt.Sprintf("merge %q selecting among the constants of %s duplicated per incoming edge (%d blocks x %d edges)", m.Comment, decide.Name(), len(region), len(m.Preds)), true
	}
	return "", false
}

func doSplit(f *Function, m *BasicBlock, region []*BasicBlock, in map[*BasicBlock]bool) {
	K := len(m.Preds)
	preds := append([]*BasicBlock(nil), m.Preds...)
	var phis []*Phi
	for _, ins := range m.Instrs {
		p, ok := ins.(*Phi)
		if !ok {
			break
		}
		phis = append(phis, p)
	}
	// exit edges: (block in region, index of the edge in the target's predecessor list)
	type exitEdge struct {
		from *BasicBlock
		to   *BasicBlock
		idx  int
	}
	var exits []exitEdge
	for _, b := range region {
		for _, s := range b.Succs {
			if in[s] {
				continue
			}
			for i, p := range s.Preds {
				if p == b {
					dup := false
					for _, e := range exits {
						if e.from == b && e.to == s && e.idx == i {
							dup = true
						}
					}
					if !dup {
						exits = append(exits, exitEdge{b, s, i})
					}
				}
			}
		}
	}
	var newBlocks []*BasicBlock
	for k := 1; k < K; k++ {
		vmap := map[Value]Value{}
		bmap := map[*BasicBlock]*BasicBlock{}
		for _, p := range phis {
			vmap[p] = p.Edges[k]
		}
		for _, b := range region {
			nb := &BasicBlock{Comment: fmt.Sprintf("split%d.%s", k, b.Comment), parent: f}
			bmap[b] = nb
			newBlocks = append(newBlocks, nb)
		}
		var cloned []Instruction
		for _, b := range region {
			nb := bmap[b]
			for _, ins := range b.Instrs {
				if p, isPhi := ins.(*Phi); isPhi && b == m {
					_ = p
					continue
				}
				ni := cloneInstr(ins)
				if ni == nil {
					panic("ssa split: cannot clone " + ins.String())
				}
				ni.(blockSetter).setBlock(nb)
				if v, ok := ins.(Value); ok {
					vmap[v] = ni.(Value)
				}
				if a, ok := ni.(*Alloc); ok && !a.Heap {
					a.index = len(f.Locals)
					f.Locals = append(f.Locals, a)
				}
				nb.Instrs = append(nb.Instrs, ni)
				cloned = append(cloned, ni)
			}
		}
		var rands []*Value
		for _, ni := range cloned {
			rands = ni.Operands(rands[:0])
			for _, p := range rands {
				if *p != nil {
					if nv, ok := vmap[*p]; ok {
						*p = nv
					}
				}
			}
		}
		for _, b := range region {
			nb := bmap[b]
			for _, s := range b.Succs {
				if in[s] {
					nb.Succs = append(nb.Succs, bmap[s])
				} else {
					nb.Succs = append(nb.Succs, s)
				}
			}
			if b == m {
				nb.Preds = []*BasicBlock{preds[k]}
				continue
			}
			for _, p := range b.Preds {
				nb.Preds = append(nb.Preds, bmap[p])
			}
		}
		for i, s := range preds[k].Succs {
			if s == m {
				preds[k].Succs[i] = bmap[m]
			}
		}
		for _, e := range exits {
			e.to.Preds = append(e.to.Preds, bmap[e.from])
			for _, ins := range e.to.Instrs {
				p, ok := ins.(*Phi)
				if !ok {
					break
				}
				v := p.Edges[e.idx]
				if nv, ok := vmap[v]; ok {
					v = nv
				}
				p.Edges = append(p.Edges, v)
			}
		}
	}
	// the original keeps edge 0
	for _, p := range phis {
		replaceAll(p, p.Edges[0])
	}
	m.Instrs = m.Instrs[len(phis):]
	m.Preds = []*BasicBlock{preds[0]}
	// splice the copies behind the region's last block
	last := region[len(region)-1]
	var blocks []*BasicBlock
	for _, b := range f.Blocks {
		blocks = append(blocks, b)
		if b == last {
			blocks = append(blocks, newBlocks...)
		}
	}
	f.Blocks = blocks
	rebuild(f)
}

// CanonCompares rewrites comparisons with the constant on the left (`7 == x`, `4 > n`) into the usual
// constant-on-the-right form (`x == 7`, `n < 4`); the number of comparisons rewritten is returned.
func CanonCompares(fns []*Function) int {
	n := 0
	mirror := map[token.Token]token.Token{token.EQL: token.EQL, token.NEQ: token.NEQ, token.LSS: token.GTR, token.GTR: token.LSS, token.LEQ: token.GEQ, token.GEQ: token.LEQ}
	for _, f := range fns {
		for _, b := range f.Blocks {
			for _, ins := range b.Instrs {
				bo, ok := ins.(*BinOp)
				if !ok {
					continue
				}
				m, isCmp := mirror[bo.Op]
				if !isCmp {
					continue
				}
				if _, xk := bo.X.(*Const); !xk {
					continue
				}
				if _, yk := bo.Y.(*Const); yk {
					continue
				}
				bo.X, bo.Y, bo.Op = bo.Y, bo.X, m
				n++
			}
		}
	}
	return n
}

// FoldInlined folds constants in the functions named by the "caller <- callee" notes of an inlining pass (an
// argument that was a constant at the call site may now meet an operation of the inlined body: bits/8 with
// bits = 128) and merges the jump-only blocks inlining leaves behind.
func FoldInlined(fns []*Function, inlined []string) {
	callers := map[string]bool{}
	for _, n := range inlined {
		for i := 0; i+4 <= len(n); i++ {
			if n[i:i+4] == " <- " {
				callers[n[:i]] = true
				break
			}
		}
	}
	for _, f := range fns {
		if f.Blocks == nil || !callers[f.String()] || f.Recover != nil {
			continue
		}
		foldConstants(f)
		rebuild(f)
		simplifyPhis(f)
		mergeLinearBlocks(f)
	}
}
