// Copyright 2013 The Go Authors. All rights reserved.
// Use of this source code is governed by a BSD-style
// license that can be found in the LICENSE file.

package ssa

// This file defines the Const SSA value type.

import (
	"fmt"
	"go/constant"
	"go/token"
	"go/types"
	"strconv"

	"ikeverif/checker/xt/typeparams"
	"ikeverif/checker/xt/typesinternal"
)

// NewConst returns a new constant of the specified value and type.
// val must be valid according to the specification of Const.Value.
func NewConst(val constant.Value, typ types.Type) *Const {
	if val == nil {
		switch soleTypeKind(typ) {
		case types.IsBoolean:
			val = constant.MakeBool(false)
		case types.IsInteger:
			val = constant.MakeInt64(0)
		case types.IsString:
			val = constant.MakeString("")
		}
	}
	return &Const{typ, val}
}

// soleTypeKind returns a BasicInfo for which constant.Value can
// represent all zero values for the types in the type set.
//
//	types.IsBoolean for false is a representative.
//	types.IsInteger for 0
//	types.IsString for ""
//	0 otherwise.
func soleTypeKind(typ types.Type) types.BasicInfo {
	// State records the set of possible zero values (false, 0, "").
	// Candidates (perhaps all) are eliminated during the type-set
	// iteration, which executes at least once.
	state := types.IsBoolean | types.IsInteger | types.IsString
	underIs(typeSetOf(typ), func(ut types.Type) bool {
		var c types.BasicInfo
		if t, ok := ut.(*types.Basic); ok {
			c = t.Info()
		}
		if c&types.IsNumeric != 0 { // int/float/complex
			c = types.IsInteger
		}
		state = state & c
		return state != 0
	})
	return state
}

// intConst returns an 'int' constant that evaluates to i.
// (i is an int64 in case the host is narrower than the target.)
func intConst(i int64) *Const {
	return NewConst(constant.MakeInt64(i), tInt)
}

// stringConst returns a 'string' constant that evaluates to s.
func stringConst(s string) *Const {
	return NewConst(constant.MakeString(s), tString)
}

// zeroConst returns a new "zero" constant of the specified type.
func zeroConst(t types.Type) *Const {
	return NewConst(nil, t)
}

func (c *Const) RelString(from *types.Package) string {
	var s string
	if c.Value == nil {
		s, _ = typesinternal.ZeroString(c.typ, types.RelativeTo(from))
	} else if c.Value.Kind() == constant.String {
		s = constant.StringVal(c.Value)
		const max = 20
		// TODO(adonovan): don't cut a rune in half.
		if len(s) > max {
			s = s[:max-3] + "..." // abbreviate
		}
		s = strconv.Quote(s)
	} else {
		s = c.Value.String()
	}
	return s + ":" + relType(c.Type(), from)
}

func (c *Const) Name() string {
	return c.RelString(nil)
}

func (c *Const) String() string {
	return c.Name()
}

func (c *Const) Type() types.Type {
	return c.typ
}

func (c *Const) Referrers() *[]Instruction {
	return nil
}

func (c *Const) Parent() *Function { return nil }

func (c *Const) Pos() token.Pos {
	return token.NoPos
}

// IsNil returns true if this constant is a nil value of
// a nillable reference type (pointer, slice, channel, map, or function),
// a basic interface type, or
// a type parameter all of whose possible instantiations are themselves nillable.
func (c *Const) IsNil() bool {
	return c.Value == nil && nillable(c.typ)
}

// nillable reports whether *new(T) == nil is legal for type T.
func nillable(t types.Type) bool {
	if typeparams.IsTypeParam(t) {
		return underIs(typeSetOf(t), func(u types.Type) bool {
			// empty type set (u==nil) => any underlying types => not nillable
			return u != nil && nillable(u)
		})
	}
	switch t.Underlying().(type) {
	case *types.Pointer, *types.Slice, *types.Chan, *types.Map, *types.Signature:
		return true
	case *types.Interface:
		return true // basic interface.
	default:
		return false
	}
}

// TODO(adonovan): move everything below into golang.org/x/tools/go/ssa/interp.

// Int64 returns the numeric value of this constant truncated to fit
// a signed 64-bit integer.
func (c *Const) Int64() int64 {
	switch x := constant.ToInt(c.Value); x.Kind() {
	case constant.Int:
		if i, ok := constant.Int64Val(x); ok {
			return i
		}
		return 0
	case constant.Float:
		f, _ := constant.Float64Val(x)
		return int64(f)
	}
	panic(fmt.Sprintf("unexpected constant value: %T", c.Value))
}

// Uint64 returns the numeric value of this constant truncated to fit
// an unsigned 64-bit integer.
func (c *Const) Uint64() uint64 {
	switch x := constant.ToInt(c.Value); x.Kind() {
	case constant.Int:
		if u, ok := constant.Uint64Val(x); ok {
			return u
		}
		return 0
	case constant.Float:
		f, _ := constant.Float64Val(x)
		return uint64(f)
	}
	panic(fmt.Sprintf("unexpected constant value: %T", c.Value))
}

// Float64 returns the numeric value of this constant truncated to fit
// a float64.
func (c *Const) Float64() float64 {
	x := constant.ToFloat(c.Value) // (c.Value == nil) => x.Kind() == Unknown
	f, _ := constant.Float64Val(x)
	return f
}

// Complex128 returns the complex value of this constant truncated to
// fit a complex128.
func (c *Const) Complex128() complex128 {
	x := constant.ToComplex(c.Value) // (c.Value == nil) => x.Kind() == Unknown
	re, _ := constant.Float64Val(constant.Real(x))
	im, _ := constant.Float64Val(constant.Imag(x))
	return complex(re, im)
}
