// Copyright 2022 The Go Authors. All rights reserved.
// Use of this source code is governed by a BSD-style
// license that can be found in the LICENSE file.

package ssa

import (
	"fmt"
	"go/types"
	"sync"
)

// A generic records information about a generic origin function,
// including a cache of existing instantiations.
type generic struct {
	instancesMu sync.Mutex
	instances   map[*typeList]*Function // canonical type arguments to an instance.
}

// instance returns a Function that is the instantiation of generic
// origin function fn with the type arguments targs.
//
// Any created instance is added to cr.
//
// Acquires fn.generic.instancesMu.
func (fn *Function) instance(targs []types.Type, b *builder) *Function {
	key := fn.Prog.canon.List(targs)

	gen := fn.generic

	gen.instancesMu.Lock()
	defer gen.instancesMu.Unlock()
	inst, ok := gen.instances[key]
	if !ok {
		inst = createInstance(fn, targs)
		inst.buildshared = b.shared()
		b.enqueue(inst)

		if gen.instances == nil {
			gen.instances = make(map[*typeList]*Function)
		}
		gen.instances[key] = inst
	} else {
		b.waitForSharedFunction(inst)
	}
	return inst
}

// createInstance returns the instantiation of generic function fn using targs.
//
// Requires fn.generic.instancesMu.
func createInstance(fn *Function, targs []types.Type) *Function {
	prog := fn.Prog

	// Compute signature.
	var sig *types.Signature
	var obj *types.Func
	if recv := fn.Signature.Recv(); recv != nil {
		// method
		obj = prog.canon.instantiateMethod(fn.object, targs, prog.ctxt)
		sig = obj.Type().(*types.Signature)
	} else {
		// function
		instSig, err := types.Instantiate(prog.ctxt, fn.Signature, targs, false)
		if err != nil {
			panic(err)
		}
		instance, ok := instSig.(*types.Signature)
		if !ok {
			panic("Instantiate of a Signature returned a non-signature")
		}
		obj = fn.object // instantiation does not exist yet
		sig = prog.canon.Type(instance).(*types.Signature)
	}

	// Choose strategy (instance or wrapper).
	var (
		synthetic string
		subst     *subster
		build     buildFunc
	)
	if prog.mode&InstantiateGenerics != 0 && !prog.isParameterized(targs...) {
		synthetic = fmt.Sprintf("instance of %s", fn.Name())
		if fn.syntax != nil {
			subst = makeSubster(prog.ctxt, obj, fn.typeparams, targs, false)
			build = (*builder).buildFromSyntax
		} else {
			build = (*builder).buildParamsOnly
		}
	} else {
		synthetic = fmt.Sprintf("instantiation wrapper of %s", fn.Name())
		build = (*builder).buildInstantiationWrapper
	}

	/* generic instance or instantiation wrapper */
	return &Function{
		name:           fmt.Sprintf("%s%s", fn.Name(), targs), // may not be unique
		object:         obj,
		Signature:      sig,
		Synthetic:      synthetic,
		syntax:         fn.syntax,    // \
		info:           fn.info,      //  } empty for non-created packages
		goversion:      fn.goversion, // /
		build:          build,
		topLevelOrigin: fn,
		pos:            obj.Pos(),
		Pkg:            nil,
		Prog:           fn.Prog,
		typeparams:     fn.typeparams, // share with origin
		typeargs:       targs,
		subst:          subst,
	}
}

// isParameterized reports whether any of the specified types contains
// a free type parameter. It is safe to call concurrently.
func (prog *Program) isParameterized(ts ...types.Type) bool {
	prog.hasParamsMu.Lock()
	defer prog.hasParamsMu.Unlock()

	// TODO(adonovan): profile. If this operation is expensive,
	// handle the most common but shallow cases such as T, pkg.T,
	// *T without consulting the cache under the lock.

	for _, t := range ts {
		if prog.hasParams.Has(t) {
			return true
		}
	}
	return false
}
