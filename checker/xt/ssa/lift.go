// Copyright 2013 The Go Authors. All rights reserved.
// Use of this source code is governed by a BSD-style
// license that can be found in the LICENSE file.

package ssa

// This file defines the lifting pass which tries to "lift" Alloc
// cells (new/local variables) into SSA registers, replacing loads
// with the dominating stored value, eliminating loads and stores, and
// inserting φ-nodes as needed.

// Cited papers and resources:
//
// Ron Cytron et al. 1991. Efficiently computing SSA form...
// http://doi.acm.org/10.1145/115372.115320
//
// Cooper, Harvey, Kennedy.  2001.  A Simple, Fast Dominance Algorithm.
// Software Practice and Experience 2001, 4:1-10.
// http://www.hipersoft.rice.edu/grads/publications/dom14.pdf
//
// Daniel Berlin, llvmdev mailing list, 2012.
// http://lists.cs.uiuc.edu/pipermail/llvmdev/2012-January/046638.html
// (Be sure to expand the whole thread.)

// TODO(adonovan): opt: there are many optimizations worth evaluating, and
// the conventional wisdom for SSA construction is that a simple
// algorithm well engineered often beats those of better asymptotic
// complexity on all but the most egregious inputs.
//
// Danny Berlin suggests that the Cooper et al. algorithm for
// computing the dominance frontier is superior to Cytron et al.
// Furthermore he recommends that rather than computing the DF for the
// whole function then renaming all alloc cells, it may be cheaper to
// compute the DF for each alloc cell separately and throw it away.
//
// Consider exploiting liveness information to avoid creating dead
// φ-nodes which we then immediately remove.
//
// Also see many other "TODO: opt" suggestions in the code.

import (
	"fmt"
	"go/token"
	"math/big"
	"os"

	"ikeverif/checker/xt/typeparams"
)

// If true, show diagnostic information at each step of lifting.
// Very verbose.
const debugLifting = false

// domFrontier maps each block to the set of blocks in its dominance
// frontier.  The outer slice is conceptually a map keyed by
// Block.Index.  The inner slice is conceptually a set, possibly
// containing duplicates.
//
// TODO(adonovan): opt: measure impact of dups; consider a packed bit
// representation, e.g. big.Int, and bitwise parallel operations for
// the union step in the Children loop.
//
// domFrontier's methods mutate the slice's elements but not its
// length, so their receivers needn't be pointers.
type domFrontier [][]*BasicBlock

func (df domFrontier) add(u, v *BasicBlock) {
	p := &df[u.Index]
	*p = append(*p, v)
}

// build builds the dominance frontier df for the dominator (sub)tree
// rooted at u, using the Cytron et al. algorithm.
//
// TODO(adonovan): opt: consider Berlin approach, computing pruned SSA
// by pruning the entire IDF computation, rather than merely pruning
// the DF -> IDF step.
func (df domFrontier) build(u *BasicBlock) {
	// Encounter each node u in postorder of dom tree.
	for _, child := range u.dom.children {
		df.build(child)
	}
	for _, vb := range u.Succs {
		if v := vb.dom; v.idom != u {
			df.add(u, vb)
		}
	}
	for _, w := range u.dom.children {
		for _, vb := range df[w.Index] {
			// TODO(adonovan): opt: use word-parallel bitwise union.
			if v := vb.dom; v.idom != u {
				df.add(u, vb)
			}
		}
	}
}

func buildDomFrontier(fn *Function) domFrontier {
	df := make(domFrontier, len(fn.Blocks))
	df.build(fn.Blocks[0])
	if fn.Recover != nil {
		df.build(fn.Recover)
	}
	return df
}

func removeInstr(refs []Instruction, instr Instruction) []Instruction {
	return removeInstrsIf(refs, func(i Instruction) bool { return i == instr })
}

func removeInstrsIf(refs []Instruction, p func(Instruction) bool) []Instruction {
	// TODO(taking): replace with go1.22 slices.DeleteFunc.
	i := 0
	for _, ref := range refs {
		if p(ref) {
			continue
		}
		refs[i] = ref
		i++
	}
	for j := i; j != len(refs); j++ {
		refs[j] = nil // aid GC
	}
	return refs[:i]
}

// lift replaces local and new Allocs accessed only with
// load/store by SSA registers, inserting φ-nodes where necessary.
// The result is a program in classical pruned SSA form.
//
// Preconditions:
// - fn has no dead blocks (blockopt has run).
// - Def/use info (Operands and Referrers) is up-to-date.
// - The dominator tree is up-to-date.
func lift(fn *Function) {
	// TODO(adonovan): opt: lots of little optimizations may be
	// worthwhile here, especially if they cause us to avoid
	// buildDomFrontier.  For example:
	//
	// - Alloc never loaded?  Eliminate.
	// - Alloc never stored?  Replace all loads with a zero constant.
	// - Alloc stored once?  Replace loads with dominating store;
	//   don't forget that an Alloc is itself an effective store
	//   of zero.
	// - Alloc used only within a single block?
	//   Use degenerate algorithm avoiding φ-nodes.
	// - Consider synergy with scalar replacement of aggregates (SRA).
	//   e.g. *(&x.f) where x is an Alloc.
	//   Perhaps we'd get better results if we generated this as x.f
	//   i.e. Field(x, .f) instead of Load(FieldIndex(x, .f)).
	//   Unclear.
	//
	// But we will start with the simplest correct code.
	df := buildDomFrontier(fn)

	if debugLifting {
		title := false
		for i, blocks := range df {
			if blocks != nil {
				if !title {
					fmt.Fprintf(os.Stderr, "Dominance frontier of %s:\n", fn)
					title = true
				}
				fmt.Fprintf(os.Stderr, "\t%s: %s\n", fn.Blocks[i], blocks)
			}
		}
	}

	newPhis := make(newPhiMap)

	// During this pass we will replace some BasicBlock.Instrs
	// (allocs, loads and stores) with nil, keeping a count in
	// BasicBlock.gaps.  At the end we will reset Instrs to the
	// concatenation of all non-dead newPhis and non-nil Instrs
	// for the block, reusing the original array if space permits.

	// While we're here, we also eliminate 'rundefers'
	// instructions and ssa:deferstack() in functions that contain no
	// 'defer' instructions. For now, we also eliminate
	// 's = ssa:deferstack()' calls if s doesn't escape, replacing s
	// with nil in Defer{DeferStack: s}. This has the same meaning,
	// but allows eliminating the intrinsic function `ssa:deferstack()`
	// (unless it is needed due to range-over-func instances). This gives
	// ssa users more time to support range-over-func.
	usesDefer := false
	deferstackAlloc, deferstackCall := deferstackPreamble(fn)
	eliminateDeferStack := deferstackAlloc != nil && !deferstackAlloc.Heap

	// A counter used to generate ~unique ids for Phi nodes, as an
	// aid to debugging.  We use large numbers to make them highly
	// visible.  All nodes are renumbered later.
	fresh := 1000

	// Determine which allocs we can lift and number them densely.
	// The renaming phase uses this numbering for compact maps.
	numAllocs := 0
	for _, b := range fn.Blocks {
		b.gaps = 0
		b.rundefers = 0
		for _, instr := range b.Instrs {
			switch instr := instr.(type) {
			case *Alloc:
				index := -1
				if liftAlloc(df, instr, newPhis, &fresh) {
					index = numAllocs
					numAllocs++
				}
				instr.index = index
			case *Defer:
				usesDefer = true
				if eliminateDeferStack {
					// Clear DeferStack and remove references to loads
					if instr.DeferStack != nil {
						if refs := instr.DeferStack.Referrers(); refs != nil {
							*refs = removeInstr(*refs, instr)
						}
						instr.DeferStack = nil
					}
				}
			case *RunDefers:
				b.rundefers++
			}
		}
	}

	// renaming maps an alloc (keyed by index) to its replacement
	// value.  Initially the renaming contains nil, signifying the
	// zero constant of the appropriate type; we construct the
	// Const lazily at most once on each path through the domtree.
	// TODO(adonovan): opt: cache per-function not per subtree.
	renaming := make([]Value, numAllocs)

	// Renaming.
	rename(fn.Blocks[0], renaming, newPhis)

	// Eliminate dead φ-nodes.
	removeDeadPhis(fn.Blocks, newPhis)

	// Eliminate ssa:deferstack() call.
	if eliminateDeferStack {
		b := deferstackCall.block
		for i, instr := range b.Instrs {
			if instr == deferstackCall {
				b.Instrs[i] = nil
				b.gaps++
				break
			}
		}
	}

	// Prepend remaining live φ-nodes to each block.
	for _, b := range fn.Blocks {
		nps := newPhis[b]
		j := len(nps)

		rundefersToKill := b.rundefers
		if usesDefer {
			rundefersToKill = 0
		}

		if j+b.gaps+rundefersToKill == 0 {
			continue // fast path: no new phis or gaps
		}

		// Compact nps + non-nil Instrs into a new slice.
		// TODO(adonovan): opt: compact in situ (rightwards)
		// if Instrs has sufficient space or slack.
		dst := make([]Instruction, len(b.Instrs)+j-b.gaps-rundefersToKill)
		for i, np := range nps {
			dst[i] = np.phi
		}
		for _, instr := range b.Instrs {
			if instr == nil {
				continue
			}
			if !usesDefer {
				if _, ok := instr.(*RunDefers); ok {
					continue
				}
			}
			dst[j] = instr
			j++
		}
		b.Instrs = dst
	}

	// Remove any fn.Locals that were lifted.
	j := 0
	for _, l := range fn.Locals {
		if l.index < 0 {
			fn.Locals[j] = l
			j++
		}
	}
	// Nil out fn.Locals[j:] to aid GC.
	for i := j; i < len(fn.Locals); i++ {
		fn.Locals[i] = nil
	}
	fn.Locals = fn.Locals[:j]
}

// removeDeadPhis removes φ-nodes not transitively needed by a
// non-Phi, non-DebugRef instruction.
func removeDeadPhis(blocks []*BasicBlock, newPhis newPhiMap) {
	// First pass: find the set of "live" φ-nodes: those reachable
	// from some non-Phi instruction.
	//
	// We compute reachability in reverse, starting from each φ,
	// rather than forwards, starting from each live non-Phi
	// instruction, because this way visits much less of the
	// Value graph.
	livePhis := make(map[*Phi]bool)
	for _, npList := range newPhis {
		for _, np := range npList {
			phi := np.phi
			if !livePhis[phi] && phiHasDirectReferrer(phi) {
				markLivePhi(livePhis, phi)
			}
		}
	}

	// Existing φ-nodes due to && and || operators
	// are all considered live (see Go issue 19622).
	for _, b := range blocks {
		for _, phi := range b.phis() {
			markLivePhi(livePhis, phi.(*Phi))
		}
	}

	// Second pass: eliminate unused phis from newPhis.
	for block, npList := range newPhis {
		j := 0
		for _, np := range npList {
			if livePhis[np.phi] {
				npList[j] = np
				j++
			} else {
				// discard it, first removing it from referrers
				for _, val := range np.phi.Edges {
					if refs := val.Referrers(); refs != nil {
						*refs = removeInstr(*refs, np.phi)
					}
				}
				np.phi.block = nil
			}
		}
		newPhis[block] = npList[:j]
	}
}

// markLivePhi marks phi, and all φ-nodes transitively reachable via
// its Operands, live.
func markLivePhi(livePhis map[*Phi]bool, phi *Phi) {
	livePhis[phi] = true
	for _, rand := range phi.Operands(nil) {
		if q, ok := (*rand).(*Phi); ok {
			if !livePhis[q] {
				markLivePhi(livePhis, q)
			}
		}
	}
}

// phiHasDirectReferrer reports whether phi is directly referred to by
// a non-Phi instruction.  Such instructions are the
// roots of the liveness traversal.
func phiHasDirectReferrer(phi *Phi) bool {
	for _, instr := range *phi.Referrers() {
		if _, ok := instr.(*Phi); !ok {
			return true
		}
	}
	return false
}

type blockSet struct{ big.Int } // (inherit methods from Int)

// add adds b to the set and returns true if the set changed.
func (s *blockSet) add(b *BasicBlock) bool {
	i := b.Index
	if s.Bit(i) != 0 {
		return false
	}
	s.SetBit(&s.Int, i, 1)
	return true
}

// take removes an arbitrary element from a set s and
// returns its index, or returns -1 if empty.
func (s *blockSet) take() int {
	l := s.BitLen()
	for i := 0; i < l; i++ {
		if s.Bit(i) == 1 {
			s.SetBit(&s.Int, i, 0)
			return i
		}
	}
	return -1
}

// newPhi is a pair of a newly introduced φ-node and the lifted Alloc
// it replaces.
type newPhi struct {
	phi   *Phi
	alloc *Alloc
}

// newPhiMap records for each basic block, the set of newPhis that
// must be prepended to the block.
type newPhiMap map[*BasicBlock][]newPhi

// liftAlloc determines whether alloc can be lifted into registers,
// and if so, it populates newPhis with all the φ-nodes it may require
// and returns true.
//
// fresh is a source of fresh ids for phi nodes.
func liftAlloc(df domFrontier, alloc *Alloc, newPhis newPhiMap, fresh *int) bool {
	// Don't lift result values in functions that defer
	// calls that may recover from panic.
	if fn := alloc.Parent(); fn.Recover != nil {
		for _, nr := range fn.results {
			if nr == alloc {
				return false
			}
		}
	}

	// Compute defblocks, the set of blocks containing a
	// definition of the alloc cell.
	var defblocks blockSet
	for _, instr := range *alloc.Referrers() {
		// Bail out if we discover the alloc is not liftable;
		// the only operations permitted to use the alloc are
		// loads/stores into the cell, and DebugRef.
		switch instr := instr.(type) {
		case *Store:
			if instr.Val == alloc {
				return false // address used as value
			}
			if instr.Addr != alloc {
				panic("Alloc.Referrers is inconsistent")
			}
			defblocks.add(instr.Block())
		case *UnOp:
			if instr.Op != token.MUL {
				return false // not a load
			}
			if instr.X != alloc {
				panic("Alloc.Referrers is inconsistent")
			}
		case *DebugRef:
			// ok
		default:
			return false // some other instruction
		}
	}
	// The Alloc itself counts as a (zero) definition of the cell.
	defblocks.add(alloc.Block())

	if debugLifting {
		fmt.Fprintln(os.Stderr, "\tlifting ", alloc, alloc.Name())
	}

	fn := alloc.Parent()

	// Φ-insertion.
	//
	// What follows is the body of the main loop of the insert-φ
	// function described by Cytron et al, but instead of using
	// counter tricks, we just reset the 'hasAlready' and 'work'
	// sets each iteration.  These are bitmaps so it's pretty cheap.
	//
	// TODO(adonovan): opt: recycle slice storage for W,
	// hasAlready, defBlocks across liftAlloc calls.
	var hasAlready blockSet

	// Initialize W and work to defblocks.
	var work blockSet = defblocks // blocks seen
	var W blockSet                // blocks to do
	W.Set(&defblocks.Int)

	// Traverse iterated dominance frontier, inserting φ-nodes.
	for i := W.take(); i != -1; i = W.take() {
		u := fn.Blocks[i]
		for _, v := range df[u.Index] {
			if hasAlready.add(v) {
				// Create φ-node.
				// It will be prepended to v.Instrs later, if needed.
				phi := &Phi{
					Edges:   make([]Value, len(v.Preds)),
					Comment: alloc.Comment,
				}
				// This is merely a debugging aid:
				phi.setNum(*fresh)
				*fresh++

				phi.pos = alloc.Pos()
				phi.setType(typeparams.MustDeref(alloc.Type()))
				phi.block = v
				if debugLifting {
					fmt.Fprintf(os.Stderr, "\tplace %s = %s at block %s\n", phi.Name(), phi, v)
				}
				newPhis[v] = append(newPhis[v], newPhi{phi, alloc})

				if work.add(v) {
					W.add(v)
				}
			}
		}
	}

	return true
}

// replaceAll replaces all intraprocedural uses of x with y,
// updating x.Referrers and y.Referrers.
// Precondition: x.Referrers() != nil, i.e. x must be local to some function.
func replaceAll(x, y Value) {
	var rands []*Value
	pxrefs := x.Referrers()
	pyrefs := y.Referrers()
	for _, instr := range *pxrefs {
		rands = instr.Operands(rands[:0]) // recycle storage
		for _, rand := range rands {
			if *rand != nil {
				if *rand == x {
					*rand = y
				}
			}
		}
		if pyrefs != nil {
			*pyrefs = append(*pyrefs, instr) // dups ok
		}
	}
	*pxrefs = nil // x is now unreferenced
}

// renamed returns the value to which alloc is being renamed,
// constructing it lazily if it's the implicit zero initialization.
func renamed(renaming []Value, alloc *Alloc) Value {
	v := renaming[alloc.index]
	if v == nil {
		v = zeroConst(typeparams.MustDeref(alloc.Type()))
		renaming[alloc.index] = v
	}
	return v
}

// rename implements the (Cytron et al) SSA renaming algorithm, a
// preorder traversal of the dominator tree replacing all loads of
// Alloc cells with the value stored to that cell by the dominating
// store instruction.  For lifting, we need only consider loads,
// stores and φ-nodes.
//
// renaming is a map from *Alloc (keyed by index number) to its
// dominating stored value; newPhis[x] is the set of new φ-nodes to be
// prepended to block x.
func rename(u *BasicBlock, renaming []Value, newPhis newPhiMap) {
	// Each φ-node becomes the new name for its associated Alloc.
	for _, np := range newPhis[u] {
		phi := np.phi
		alloc := np.alloc
		renaming[alloc.index] = phi
	}

	// Rename loads and stores of allocs.
	for i, instr := range u.Instrs {
		switch instr := instr.(type) {
		case *Alloc:
			if instr.index >= 0 { // store of zero to Alloc cell
				// Replace dominated loads by the zero value.
				renaming[instr.index] = nil
				if debugLifting {
					fmt.Fprintf(os.Stderr, "\tkill alloc %s\n", instr)
				}
				// Delete the Alloc.
				u.Instrs[i] = nil
				u.gaps++
			}

		case *Store:
			if alloc, ok := instr.Addr.(*Alloc); ok && alloc.index >= 0 { // store to Alloc cell
				// Replace dominated loads by the stored value.
				renaming[alloc.index] = instr.Val
				if debugLifting {
					fmt.Fprintf(os.Stderr, "\tkill store %s; new value: %s\n",
						instr, instr.Val.Name())
				}
				// Remove the store from the referrer list of the stored value.
				if refs := instr.Val.Referrers(); refs != nil {
					*refs = removeInstr(*refs, instr)
				}
				// Delete the Store.
				u.Instrs[i] = nil
				u.gaps++
			}

		case *UnOp:
			if instr.Op == token.MUL {
				if alloc, ok := instr.X.(*Alloc); ok && alloc.index >= 0 { // load of Alloc cell
					newval := renamed(renaming, alloc)
					if debugLifting {
						fmt.Fprintf(os.Stderr, "\tupdate load %s = %s with %s\n",
							instr.Name(), instr, newval.Name())
					}
					// Replace all references to
					// the loaded value by the
					// dominating stored value.
					replaceAll(instr, newval)
					// Delete the Load.
					u.Instrs[i] = nil
					u.gaps++
				}
			}

		case *DebugRef:
			if alloc, ok := instr.X.(*Alloc); ok && alloc.index >= 0 { // ref of Alloc cell
				if instr.IsAddr {
					instr.X = renamed(renaming, alloc)
					instr.IsAddr = false

					// Add DebugRef to instr.X's referrers.
					if refs := instr.X.Referrers(); refs != nil {
						*refs = append(*refs, instr)
					}
				} else {
					// A source expression denotes the address
					// of an Alloc that was optimized away.
					instr.X = nil

					// Delete the DebugRef.
					u.Instrs[i] = nil
					u.gaps++
				}
			}
		}
	}

	// For each φ-node in a CFG successor, rename the edge.
	for _, v := range u.Succs {
		phis := newPhis[v]
		if len(phis) == 0 {
			continue
		}
		i := v.predIndex(u)
		for _, np := range phis {
			phi := np.phi
			alloc := np.alloc
			newval := renamed(renaming, alloc)
			if debugLifting {
				fmt.Fprintf(os.Stderr, "\tsetphi %s edge %s -> %s (#%d) (alloc=%s) := %s\n",
					phi.Name(), u, v, i, alloc.Name(), newval.Name())
			}
			phi.Edges[i] = newval
			if prefs := newval.Referrers(); prefs != nil {
				*prefs = append(*prefs, phi)
			}
		}
	}

	// Continue depth-first recursion over domtree, pushing a
	// fresh copy of the renaming map for each subtree.
	for i, v := range u.dom.children {
		r := renaming
		if i < len(u.dom.children)-1 {
			// On all but the final iteration, we must make
			// a copy to avoid destructive update.
			r = make([]Value, len(renaming))
			copy(r, renaming)
		}
		rename(v, r, newPhis)
	}

}

// deferstackPreamble returns the *Alloc and ssa:deferstack() call for fn.deferstack.
func deferstackPreamble(fn *Function) (*Alloc, *Call) {
	if alloc, _ := fn.vars[fn.deferstack].(*Alloc); alloc != nil {
		for _, ref := range *alloc.Referrers() {
			if ref, _ := ref.(*Store); ref != nil && ref.Addr == alloc {
				if call, _ := ref.Val.(*Call); call != nil {
					return alloc, call
				}
			}
		}
	}
	return nil, nil
}
