// Added for /verif (not part of x/tools): a slice filled by index from a range over a map.
//
//	keys := make([]K, len(m)); n := 0; for k := range m { keys[n] = k; n++ }
//
// collects the keys of m exactly as
//
//	keys := make([]K, 0, len(m)); for k := range m { keys = append(keys, k) }
//
// does: a range over a map that is not updated in the loop runs len(m) times, slot n receives the n-th key, no
// slot is left over. NormalizeIndexFill rewrites the first form into the second, which is the form the client
// analyses of collect-then-sort read. Conditions: the slice is made with length and capacity len(m) of the
// ranged map (the same value, or loads of the same field with no store to that field in the function); the
// counter starts at 0 and is incremented by one on every back edge; the store executes in every iteration; the
// loop is left only from its header; inside the loop the slice is used by that store only and the counter by
// the store and its increment only; the loop neither updates a map nor calls anything.
package ssa

import (
	"go/constant"
	"go/token"
	"go/types"
)

func sameMapValue(f *Function, a, b Value) bool {
	if a == b {
		return true
	}
	la, ok1 := a.(*UnOp)
	lb, ok2 := b.(*UnOp)
	if !ok1 || !ok2 || la.Op != token.MUL || lb.Op != token.MUL {
		return false
	}
	fa, ok1 := la.X.(*FieldAddr)
	fb, ok2 := lb.X.(*FieldAddr)
	if !ok1 || !ok2 || fa.X != fb.X || fa.Field != fb.Field {
		return false
	}
	for _, blk := range f.Blocks {
		for _, ins := range blk.Instrs {
			if st, ok := ins.(*Store); ok {
				if sa, ok := st.Addr.(*FieldAddr); ok && sa.Field == fa.Field && types.Identical(sa.X.Type(), fa.X.Type()) {
					return false
				}
			}
		}
	}
	return true
}

func lenOfMap(v Value) Value {
	call, ok := v.(*Call)
	if !ok {
		return nil
	}
	if bi, ok := call.Call.Value.(*Builtin); !ok || bi.Name() != "len" {
		return nil
	}
	if _, isMap := call.Call.Args[0].Type().Underlying().(*types.Map); !isMap {
		return nil
	}
	return call.Call.Args[0]
}

// NormalizeIndexFill rewrites fns and returns one note per rewritten loop.
func NormalizeIndexFill(fns []*Function) []string {
	var notes []string
	for _, f := range fns {
		if f.Blocks == nil {
			continue
		}
		n := 0
		for again := true; again; {
			again = false
			for _, b := range f.Blocks {
				for _, ins := range b.Instrs {
					mk, ok := ins.(*MakeSlice)
					if !ok {
						continue
					}
					if indexFillOf(f, mk) {
						n++
						again = true
						rebuild(f)
						break
					}
				}
				if again {
					break
				}
			}
		}
		if n > 0 {
			notes = append(notes, f.String()+": "+itoa(n)+" slice(s) filled by index from a range over a map rewritten as appends")
		}
	}
	return notes
}

func indexFillOf(f *Function, mk *MakeSlice) bool {
	m := lenOfMap(mk.Len)
	if m == nil || lenOfMap(mk.Cap) == nil || !sameMapValue(f, m, lenOfMap(mk.Cap)) {
		return false
	}
	sliceT, ok := mk.Type().Underlying().(*types.Slice)
	if !ok {
		return false
	}
	// the one store through the slice
	var ia *IndexAddr
	for _, ref := range *mk.Referrers() {
		if x, ok := ref.(*IndexAddr); ok && x.X == Value(mk) {
			if _, isPhi := x.Index.(*Phi); isPhi {
				if ia != nil {
					return false
				}
				ia = x
			}
		}
	}
	if ia == nil {
		return false
	}
	ctr := ia.Index.(*Phi)
	h := ctr.Block()
	if !isLoopHeader(h) {
		return false
	}
	var st *Store
	for _, ref := range *ia.Referrers() {
		s, ok := ref.(*Store)
		if !ok || s.Addr != Value(ia) || st != nil {
			return false
		}
		st = s
	}
	if st == nil || st.Block() != ia.Block() {
		return false
	}
	// the loop: blocks dominated by h from which h is reachable along back edges
	body := map[*BasicBlock]bool{h: true}
	var work []*BasicBlock
	for _, p := range h.Preds {
		if h.Dominates(p) {
			work = append(work, p)
		}
	}
	for len(work) > 0 {
		x := work[len(work)-1]
		work = work[:len(work)-1]
		if body[x] {
			continue
		}
		body[x] = true
		work = append(work, x.Preds...)
	}
	if !body[st.Block()] {
		return false
	}
	// the range over the same map drives the loop
	var rg *Range
	for blk := range body {
		for _, ins := range blk.Instrs {
			switch x := ins.(type) {
			case *Next:
				r, ok := x.Iter.(*Range)
				if !ok || body[r.Block()] || (rg != nil && rg != r) {
					return false
				}
				rg = r
			case *MapUpdate:
				return false
			case *Call:
				if _, isBuiltin := x.Call.Value.(*Builtin); !isBuiltin {
					return false
				}
			case *Go, *Defer:
				return false
			}
		}
	}
	if rg == nil || !sameMapValue(f, rg.X, m) {
		return false
	}
	// left only from the header
	for blk := range body {
		if blk == h {
			continue
		}
		for _, s := range blk.Succs {
			if !body[s] {
				return false
			}
		}
	}
	// counter: 0 on entry, +1 on every back edge, used by the store and the increment only
	var incs []*BinOp
	for i, e := range ctr.Edges {
		if body[h.Preds[i]] {
			bo, ok := e.(*BinOp)
			if !ok || bo.Op != token.ADD || bo.X != Value(ctr) {
				return false
			}
			k, ok := bo.Y.(*Const)
			if !ok || k.Value == nil || constant.Compare(k.Value, token.NEQ, constant.MakeInt64(1)) {
				return false
			}
			if !st.Block().Dominates(h.Preds[i]) {
				return false
			}
			incs = append(incs, bo)
			continue
		}
		k, ok := e.(*Const)
		if !ok || k.Value == nil || constant.Compare(k.Value, token.NEQ, constant.MakeInt64(0)) {
			return false
		}
	}
	for _, ref := range *ctr.Referrers() {
		okRef := ref == Instruction(ia)
		for _, bo := range incs {
			if ref == Instruction(bo) {
				okRef = true
			}
		}
		if !okRef {
			return false
		}
	}
	for _, bo := range incs {
		for _, ref := range *bo.Referrers() {
			if ref != Instruction(ctr) {
				return false
			}
		}
	}
	// the slice: inside the loop used by the store only; outside only where the header dominates
	for _, ref := range *mk.Referrers() {
		if ref == Instruction(ia) {
			continue
		}
		if body[ref.Block()] || !h.Dominates(ref.Block()) {
			return false
		}
	}
	if body[mk.Block()] {
		return false
	}

	// rewrite
	acc := &Phi{Comment: "collected"}
	acc.setType(mk.Type())
	acc.setPos(mk.Pos())
	acc.setBlock(h)
	blk := st.Block()
	arrT := types.NewArray(sliceT.Elem(), 1)
	arr := &Alloc{Comment: "varargs", Heap: true}
	arr.setType(types.NewPointer(arrT))
	arr.setPos(st.Pos())
	arr.setBlock(blk)
	ia0 := &IndexAddr{X: arr, Index: NewConst(constant.MakeInt64(0), tInt)}
	ia0.setType(types.NewPointer(sliceT.Elem()))
	ia0.setBlock(blk)
	st0 := &Store{Addr: ia0, Val: st.Val}
	st0.setBlock(blk)
	sl := &Slice{X: arr}
	sl.setType(types.NewSlice(sliceT.Elem()))
	sl.setBlock(blk)
	sig := types.NewSignatureType(nil, nil, nil,
		types.NewTuple(types.NewParam(token.NoPos, nil, "", mk.Type()), types.NewParam(token.NoPos, nil, "", sl.Type())),
		types.NewTuple(types.NewParam(token.NoPos, nil, "", mk.Type())), true)
	ap := &Call{Call: CallCommon{Value: &Builtin{name: "append", sig: sig}, Args: []Value{acc, sl}}}
	ap.setType(mk.Type())
	ap.setPos(st.Pos())
	ap.setBlock(blk)
	var out []Instruction
	for _, ins := range blk.Instrs {
		switch ins {
		case Instruction(ia):
			continue
		case Instruction(st):
			out = append(out, arr, ia0, st0, sl, ap)
			continue
		}
		out = append(out, ins)
	}
	blk.Instrs = out
	// every later use reads the collected slice
	for _, ref := range *mk.Referrers() {
		if ref == Instruction(ia) {
			continue
		}
		for _, op := range ref.Operands(nil) {
			if *op == Value(mk) {
				*op = acc
			}
		}
	}
	acc.Edges = make([]Value, len(h.Preds))
	for i, p := range h.Preds {
		if body[p] {
			acc.Edges[i] = ap
		} else {
			acc.Edges[i] = mk
		}
	}
	h.Instrs = append([]Instruction{acc}, h.Instrs...)
	mk.Len = NewConst(constant.MakeInt64(0), tInt)
	return true
}
