// Copyright 2013 The Go Authors. All rights reserved.
// Use of this source code is governed by a BSD-style
// license that can be found in the LICENSE file.

package ssa

// This file defines the builder, which builds SSA-form IR for function bodies.
//
// SSA construction has two phases, "create" and "build". First, one
// or more packages are created in any order by a sequence of calls to
// CreatePackage, either from syntax or from mere type information.
// Each created package has a complete set of Members (const, var,
// type, func) that can be accessed through methods like
// Program.FuncValue.
//
// It is not necessary to call CreatePackage for all dependencies of
// each syntax package, only for its direct imports. (In future
// perhaps even this restriction may be lifted.)
//
// Second, packages created from syntax are built, by one or more
// calls to Package.Build, which may be concurrent; or by a call to
// Program.Build, which builds all packages in parallel. Building
// traverses the type-annotated syntax tree of each function body and
// creates SSA-form IR, a control-flow graph of instructions,
// populating fields such as Function.Body, .Params, and others.
//
// Building may create additional methods, including:
// - wrapper methods (e.g. for embeddding, or implicit &recv)
// - bound method closures (e.g. for use(recv.f))
// - thunks (e.g. for use(I.f) or use(T.f))
// - generic instances (e.g. to produce f[int] from f[any]).
// As these methods are created, they are added to the build queue,
// and then processed in turn, until a fixed point is reached,
// Since these methods might belong to packages that were not
// created (by a call to CreatePackage), their Pkg field is unset.
//
// Instances of generic functions may be either instantiated (f[int]
// is a copy of f[T] with substitutions) or wrapped (f[int] delegates
// to f[T]), depending on the availability of generic syntax and the
// InstantiateGenerics mode flag.
//
// Each package has an initializer function named "init" that calls
// the initializer functions of each direct import, computes and
// assigns the initial value of each global variable, and calls each
// source-level function named "init". (These generate SSA functions
// named "init#1", "init#2", etc.)
//
// Runtime types
//
// Each MakeInterface operation is a conversion from a non-interface
// type to an interface type. The semantics of this operation requires
// a runtime type descriptor, which is the type portion of an
// interface, and the value abstracted by reflect.Type.
//
// The program accumulates all non-parameterized types that are
// encountered as MakeInterface operands, along with all types that
// may be derived from them using reflection. This set is available as
// Program.RuntimeTypes, and the methods of these types may be
// reachable via interface calls or reflection even if they are never
// referenced from the SSA IR. (In practice, algorithms such as RTA
// that compute reachability from package main perform their own
// tracking of runtime types at a finer grain, so this feature is not
// very useful.)
//
// Function literals
//
// Anonymous functions must be built as soon as they are encountered,
// as it may affect locals of the enclosing function, but they are not
// marked 'built' until the end of the outermost enclosing function.
// (Among other things, this causes them to be logged in top-down order.)
//
// The Function.build fields determines the algorithm for building the
// function body. It is cleared to mark that building is complete.

import (
	"fmt"
	"go/ast"
	"go/constant"
	"go/token"
	"go/types"
	"os"
	"runtime"
	"sync"

	"ikeverif/checker/xt/typeparams"
	"ikeverif/checker/xt/versions"
)

type opaqueType struct{ name string }

func (t *opaqueType) String() string         { return t.name }
func (t *opaqueType) Underlying() types.Type { return t }

var (
	varOk    = newVar("ok", tBool)
	varIndex = newVar("index", tInt)

	// Type constants.
	tBool       = types.Typ[types.Bool]
	tByte       = types.Typ[types.Byte]
	tInt        = types.Typ[types.Int]
	tInvalid    = types.Typ[types.Invalid]
	tString     = types.Typ[types.String]
	tUntypedNil = types.Typ[types.UntypedNil]

	tRangeIter  = &opaqueType{"iter"}                         // the type of all "range" iterators
	tDeferStack = types.NewPointer(&opaqueType{"deferStack"}) // the type of a "deferStack" from ssa:deferstack()
	tEface      = types.NewInterfaceType(nil, nil).Complete()

	// SSA Value constants.
	vZero  = intConst(0)
	vOne   = intConst(1)
	vTrue  = NewConst(constant.MakeBool(true), tBool)
	vFalse = NewConst(constant.MakeBool(false), tBool)

	jReady = intConst(0)  // range-over-func jump is READY
	jBusy  = intConst(-1) // range-over-func jump is BUSY
	jDone  = intConst(-2) // range-over-func jump is DONE

	// The ssa:deferstack intrinsic returns the current function's defer stack.
	vDeferStack = &Builtin{
		name: "ssa:deferstack",
		sig:  types.NewSignatureType(nil, nil, nil, nil, types.NewTuple(anonVar(tDeferStack)), false),
	}
)

// builder holds state associated with the package currently being built.
// Its methods contain all the logic for AST-to-SSA conversion.
//
// All Functions belong to the same Program.
//
// builders are not thread-safe.
type builder struct {
	fns []*Function // Functions that have finished their CREATE phases.

	finished int // finished is the length of the prefix of fns containing built functions.

	// The task of building shared functions within the builder.
	// Shared functions are ones the the builder may either create or lookup.
	// These may be built by other builders in parallel.
	// The task is done when the builder has finished iterating, and it
	// waits for all shared functions to finish building.
	// nil implies there are no hared functions to wait on.
	buildshared *task
}

// shared is done when the builder has built all of the
// enqueued functions to a fixed-point.
func (b *builder) shared() *task {
	if b.buildshared == nil { // lazily-initialize
		b.buildshared = &task{done: make(chan unit)}
	}
	return b.buildshared
}

// enqueue fn to be built by the builder.
func (b *builder) enqueue(fn *Function) {
	b.fns = append(b.fns, fn)
}

// waitForSharedFunction indicates that the builder should wait until
// the potentially shared function fn has finished building.
//
// This should include any functions that may be built by other
// builders.
func (b *builder) waitForSharedFunction(fn *Function) {
	if fn.buildshared != nil { // maybe need to wait?
		s := b.shared()
		s.addEdge(fn.buildshared)
	}
}

// cond emits to fn code to evaluate boolean condition e and jump
// to t or f depending on its value, performing various simplifications.
//
// Postcondition: fn.currentBlock is nil.
func (b *builder) cond(fn *Function, e ast.Expr, t, f *BasicBlock) {
	switch e := e.(type) {
	case *ast.ParenExpr:
		b.cond(fn, e.X, t, f)
		return

	case *ast.BinaryExpr:
		switch e.Op {
		case token.LAND:
			ltrue := fn.newBasicBlock("cond.true")
			b.cond(fn, e.X, ltrue, f)
			fn.currentBlock = ltrue
			b.cond(fn, e.Y, t, f)
			return

		case token.LOR:
			lfalse := fn.newBasicBlock("cond.false")
			b.cond(fn, e.X, t, lfalse)
			fn.currentBlock = lfalse
			b.cond(fn, e.Y, t, f)
			return
		}

	case *ast.UnaryExpr:
		if e.Op == token.NOT {
			b.cond(fn, e.X, f, t)
			return
		}
	}

	// A traditional compiler would simplify "if false" (etc) here
	// but we do not, for better fidelity to the source code.
	//
	// The value of a constant condition may be platform-specific,
	// and may cause blocks that are reachable in some configuration
	// to be hidden from subsequent analyses such as bug-finding tools.
	emitIf(fn, b.expr(fn, e), t, f)
}

// logicalBinop emits code to fn to evaluate e, a &&- or
// ||-expression whose reified boolean value is wanted.
// The value is returned.
func (b *builder) logicalBinop(fn *Function, e *ast.BinaryExpr) Value {
	rhs := fn.newBasicBlock("binop.rhs")
	done := fn.newBasicBlock("binop.done")

	// T(e) = T(e.X) = T(e.Y) after untyped constants have been
	// eliminated.
	// TODO(adonovan): not true; MyBool==MyBool yields UntypedBool.
	t := fn.typeOf(e)

	var short Value // value of the short-circuit path
	switch e.Op {
	case token.LAND:
		b.cond(fn, e.X, rhs, done)
		short = NewConst(constant.MakeBool(false), t)

	case token.LOR:
		b.cond(fn, e.X, done, rhs)
		short = NewConst(constant.MakeBool(true), t)
	}

	// Is rhs unreachable?
	if rhs.Preds == nil {
		// Simplify false&&y to false, true||y to true.
		fn.currentBlock = done
		return short
	}

	// Is done unreachable?
	if done.Preds == nil {
		// Simplify true&&y (or false||y) to y.
		fn.currentBlock = rhs
		return b.expr(fn, e.Y)
	}

	// All edges from e.X to done carry the short-circuit value.
	var edges []Value
	for range done.Preds {
		edges = append(edges, short)
	}

	// The edge from e.Y to done carries the value of e.Y.
	fn.currentBlock = rhs
	edges = append(edges, b.expr(fn, e.Y))
	emitJump(fn, done)
	fn.currentBlock = done

	phi := &Phi{Edges: edges, Comment: e.Op.String()}
	phi.pos = e.OpPos
	phi.typ = t
	return done.emit(phi)
}

// exprN lowers a multi-result expression e to SSA form, emitting code
// to fn and returning a single Value whose type is a *types.Tuple.
// The caller must access the components via Extract.
//
// Multi-result expressions include CallExprs in a multi-value
// assignment or return statement, and "value,ok" uses of
// TypeAssertExpr, IndexExpr (when X is a map), and UnaryExpr (when Op
// is token.ARROW).
func (b *builder) exprN(fn *Function, e ast.Expr) Value {
	typ := fn.typeOf(e).(*types.Tuple)
	switch e := e.(type) {
	case *ast.ParenExpr:
		return b.exprN(fn, e.X)

	case *ast.CallExpr:
		// Currently, no built-in function nor type conversion
		// has multiple results, so we can avoid some of the
		// cases for single-valued CallExpr.
		var c Call
		b.setCall(fn, e, &c.Call)
		c.typ = typ
		return fn.emit(&c)

	case *ast.IndexExpr:
		mapt := typeparams.CoreType(fn.typeOf(e.X)).(*types.Map) // ,ok must be a map.
		lookup := &Lookup{
			X:       b.expr(fn, e.X),
			Index:   emitConv(fn, b.expr(fn, e.Index), mapt.Key()),
			CommaOk: true,
		}
		lookup.setType(typ)
		lookup.setPos(e.Lbrack)
		return fn.emit(lookup)

	case *ast.TypeAssertExpr:
		return emitTypeTest(fn, b.expr(fn, e.X), typ.At(0).Type(), e.Lparen)

	case *ast.UnaryExpr: // must be receive <-
		unop := &UnOp{
			Op:      token.ARROW,
			X:       b.expr(fn, e.X),
			CommaOk: true,
		}
		unop.setType(typ)
		unop.setPos(e.OpPos)
		return fn.emit(unop)
	}
	panic(fmt.Sprintf("exprN(%T) in %s", e, fn))
}

// builtin emits to fn SSA instructions to implement a call to the
// built-in function obj with the specified arguments
// and return type.  It returns the value defined by the result.
//
// The result is nil if no special handling was required; in this case
// the caller should treat this like an ordinary library function
// call.
func (b *builder) builtin(fn *Function, obj *types.Builtin, args []ast.Expr, typ types.Type, pos token.Pos) Value {
	typ = fn.typ(typ)
	switch obj.Name() {
	case "make":
		switch ct := typeparams.CoreType(typ).(type) {
		case *types.Slice:
			n := b.expr(fn, args[1])
			m := n
			if len(args) == 3 {
				m = b.expr(fn, args[2])
			}
			if m, ok := m.(*Const); ok {
				// treat make([]T, n, m) as new([m]T)[:n]
				cap := m.Int64()
				at := types.NewArray(ct.Elem(), cap)
				v := &Slice{
					X:    emitNew(fn, at, pos, "makeslice"),
					High: n,
				}
				v.setPos(pos)
				v.setType(typ)
				return fn.emit(v)
			}
			v := &MakeSlice{
				Len: n,
				Cap: m,
			}
			v.setPos(pos)
			v.setType(typ)
			return fn.emit(v)

		case *types.Map:
			var res Value
			if len(args) == 2 {
				res = b.expr(fn, args[1])
			}
			v := &MakeMap{Reserve: res}
			v.setPos(pos)
			v.setType(typ)
			return fn.emit(v)

		case *types.Chan:
			var sz Value = vZero
			if len(args) == 2 {
				sz = b.expr(fn, args[1])
			}
			v := &MakeChan{Size: sz}
			v.setPos(pos)
			v.setType(typ)
			return fn.emit(v)
		}

	case "new":
		return emitNew(fn, typeparams.MustDeref(typ), pos, "new")

	case "len", "cap":
		// Special case: len or cap of an array or *array is
		// based on the type, not the value which may be nil.
		// We must still evaluate the value, though.  (If it
		// was side-effect free, the whole call would have
		// been constant-folded.)
		t := typeparams.Deref(fn.typeOf(args[0]))
		if at, ok := typeparams.CoreType(t).(*types.Array); ok {
			b.expr(fn, args[0]) // for effects only
			return intConst(at.Len())
		}
		// Otherwise treat as normal.

	case "panic":
		fn.emit(&Panic{
			X:   emitConv(fn, b.expr(fn, args[0]), tEface),
			pos: pos,
		})
		fn.currentBlock = fn.newBasicBlock("unreachable")
		return vTrue // any non-nil Value will do
	}
	return nil // treat all others as a regular function call
}

// addr lowers a single-result addressable expression e to SSA form,
// emitting code to fn and returning the location (an lvalue) defined
// by the expression.
//
// If escaping is true, addr marks the base variable of the
// addressable expression e as being a potentially escaping pointer
// value.  For example, in this code:
//
//	a := A{
//	  b: [1]B{B{c: 1}}
//	}
//	return &a.b[0].c
//
// the application of & causes a.b[0].c to have its address taken,
// which means that ultimately the local variable a must be
// heap-allocated.  This is a simple but very conservative escape
// analysis.
//
// Operations forming potentially escaping pointers include:
// - &x, including when implicit in method call or composite literals.
// - a[:] iff a is an array (not *array)
// - references to variables in lexically enclosing functions.
func (b *builder) addr(fn *Function, e ast.Expr, escaping bool) lvalue {
	switch e := e.(type) {
	case *ast.Ident:
		if isBlankIdent(e) {
			return blank{}
		}
		obj := fn.objectOf(e).(*types.Var)
		var v Value
		if g := fn.Prog.packageLevelMember(obj); g != nil {
			v = g.(*Global) // var (address)
		} else {
			v = fn.lookup(obj, escaping)
		}
		return &address{addr: v, pos: e.Pos(), expr: e}

	case *ast.CompositeLit:
		typ := typeparams.Deref(fn.typeOf(e))
		var v *Alloc
		if escaping {
			v = emitNew(fn, typ, e.Lbrace, "complit")
		} else {
			v = emitLocal(fn, typ, e.Lbrace, "complit")
		}
		var sb storebuf
		b.compLit(fn, v, e, true, &sb)
		sb.emit(fn)
		return &address{addr: v, pos: e.Lbrace, expr: e}

	case *ast.ParenExpr:
		return b.addr(fn, e.X, escaping)

	case *ast.SelectorExpr:
		sel := fn.selection(e)
		if sel == nil {
			// qualified identifier
			return b.addr(fn, e.Sel, escaping)
		}
		if sel.kind != types.FieldVal {
			panic(sel)
		}
		wantAddr := true
		v := b.receiver(fn, e.X, wantAddr, escaping, sel)
		index := sel.index[len(sel.index)-1]
		fld := fieldOf(typeparams.MustDeref(v.Type()), index) // v is an addr.

		// Due to the two phases of resolving AssignStmt, a panic from x.f = p()
		// when x is nil is required to come after the side-effects of
		// evaluating x and p().
		emit := func(fn *Function) Value {
			return emitFieldSelection(fn, v, index, true, e.Sel)
		}
		return &lazyAddress{addr: emit, t: fld.Type(), pos: e.Sel.Pos(), expr: e.Sel}

	case *ast.IndexExpr:
		xt := fn.typeOf(e.X)
		elem, mode := indexType(xt)
		var x Value
		var et types.Type
		switch mode {
		case ixArrVar: // array, array|slice, array|*array, or array|*array|slice.
			x = b.addr(fn, e.X, escaping).address(fn)
			et = types.NewPointer(elem)
		case ixVar: // *array, slice, *array|slice
			x = b.expr(fn, e.X)
			et = types.NewPointer(elem)
		case ixMap:
			mt := typeparams.CoreType(xt).(*types.Map)
			return &element{
				m:   b.expr(fn, e.X),
				k:   emitConv(fn, b.expr(fn, e.Index), mt.Key()),
				t:   mt.Elem(),
				pos: e.Lbrack,
			}
		default:
			panic("unexpected container type in IndexExpr: " + xt.String())
		}
		index := b.expr(fn, e.Index)
		if isUntyped(index.Type()) {
			index = emitConv(fn, index, tInt)
		}
		// Due to the two phases of resolving AssignStmt, a panic from x[i] = p()
		// when x is nil or i is out-of-bounds is required to come after the
		// side-effects of evaluating x, i and p().
		emit := func(fn *Function) Value {
			v := &IndexAddr{
				X:     x,
				Index: index,
			}
			v.setPos(e.Lbrack)
			v.setType(et)
			return fn.emit(v)
		}
		return &lazyAddress{addr: emit, t: typeparams.MustDeref(et), pos: e.Lbrack, expr: e}

	case *ast.StarExpr:
		return &address{addr: b.expr(fn, e.X), pos: e.Star, expr: e}
	}

	panic(fmt.Sprintf("unexpected address expression: %T", e))
}

type store struct {
	lhs lvalue
	rhs Value
}

type storebuf struct{ stores []store }

func (sb *storebuf) store(lhs lvalue, rhs Value) {
	sb.stores = append(sb.stores, store{lhs, rhs})
}

func (sb *storebuf) emit(fn *Function) {
	for _, s := range sb.stores {
		s.lhs.store(fn, s.rhs)
	}
}

// assign emits to fn code to initialize the lvalue loc with the value
// of expression e.  If isZero is true, assign assumes that loc holds
// the zero value for its type.
//
// This is equivalent to loc.store(fn, b.expr(fn, e)), but may generate
// better code in some cases, e.g., for composite literals in an
// addressable location.
//
// If sb is not nil, assign generates code to evaluate expression e, but
// not to update loc.  Instead, the necessary stores are appended to the
// storebuf sb so that they can be executed later.  This allows correct
// in-place update of existing variables when the RHS is a composite
// literal that may reference parts of the LHS.
func (b *builder) assign(fn *Function, loc lvalue, e ast.Expr, isZero bool, sb *storebuf) {
	// Can we initialize it in place?
	if e, ok := unparen(e).(*ast.CompositeLit); ok {
		// A CompositeLit never evaluates to a pointer,
		// so if the type of the location is a pointer,
		// an &-operation is implied.
		if !is[blank](loc) && isPointerCore(loc.typ()) { // avoid calling blank.typ()
			ptr := b.addr(fn, e, true).address(fn)
			// copy address
			if sb != nil {
				sb.store(loc, ptr)
			} else {
				loc.store(fn, ptr)
			}
			return
		}

		if _, ok := loc.(*address); ok {
			if isNonTypeParamInterface(loc.typ()) {
				// e.g. var x interface{} = T{...}
				// Can't in-place initialize an interface value.
				// Fall back to copying.
			} else {
				// x = T{...} or x := T{...}
				addr := loc.address(fn)
				if sb != nil {
					b.compLit(fn, addr, e, isZero, sb)
				} else {
					var sb storebuf
					b.compLit(fn, addr, e, isZero, &sb)
					sb.emit(fn)
				}

				// Subtle: emit debug ref for aggregate types only;
				// slice and map are handled by store ops in compLit.
				switch typeparams.CoreType(loc.typ()).(type) {
				case *types.Struct, *types.Array:
					emitDebugRef(fn, e, addr, true)
				}

				return
			}
		}
	}

	// simple case: just copy
	rhs := b.expr(fn, e)
	if sb != nil {
		sb.store(loc, rhs)
	} else {
		loc.store(fn, rhs)
	}
}

// expr lowers a single-result expression e to SSA form, emitting code
// to fn and returning the Value defined by the expression.
func (b *builder) expr(fn *Function, e ast.Expr) Value {
	e = unparen(e)

	tv := fn.info.Types[e]

	// Is expression a constant?
	if tv.Value != nil {
		return NewConst(tv.Value, fn.typ(tv.Type))
	}

	var v Value
	if tv.Addressable() {
		// Prefer pointer arithmetic ({Index,Field}Addr) followed
		// by Load over subelement extraction (e.g. Index, Field),
		// to avoid large copies.
		v = b.addr(fn, e, false).load(fn)
	} else {
		v = b.expr0(fn, e, tv)
	}
	if fn.debugInfo() {
		emitDebugRef(fn, e, v, false)
	}
	return v
}

func (b *builder) expr0(fn *Function, e ast.Expr, tv types.TypeAndValue) Value {
	switch e := e.(type) {
	case *ast.BasicLit:
		panic("non-constant BasicLit") // unreachable

	case *ast.FuncLit:
		/* function literal */
		anon := &Function{
			name:           fmt.Sprintf("%s$%d", fn.Name(), 1+len(fn.AnonFuncs)),
			Signature:      fn.typeOf(e.Type).(*types.Signature),
			pos:            e.Type.Func,
			parent:         fn,
			anonIdx:        int32(len(fn.AnonFuncs)),
			Pkg:            fn.Pkg,
			Prog:           fn.Prog,
			syntax:         e,
			info:           fn.info,
			goversion:      fn.goversion,
			build:          (*builder).buildFromSyntax,
			topLevelOrigin: nil,           // use anonIdx to lookup an anon instance's origin.
			typeparams:     fn.typeparams, // share the parent's type parameters.
			typeargs:       fn.typeargs,   // share the parent's type arguments.
			subst:          fn.subst,      // share the parent's type substitutions.
			uniq:           fn.uniq,       // start from parent's unique values
		}
		fn.AnonFuncs = append(fn.AnonFuncs, anon)
		// Build anon immediately, as it may cause fn's locals to escape.
		// (It is not marked 'built' until the end of the enclosing FuncDecl.)
		anon.build(b, anon)
		fn.uniq = anon.uniq // resume after anon's unique values
		if anon.FreeVars == nil {
			return anon
		}
		v := &MakeClosure{Fn: anon}
		v.setType(fn.typ(tv.Type))
		for _, fv := range anon.FreeVars {
			v.Bindings = append(v.Bindings, fv.outer)
			fv.outer = nil
		}
		return fn.emit(v)

	case *ast.TypeAssertExpr: // single-result form only
		return emitTypeAssert(fn, b.expr(fn, e.X), fn.typ(tv.Type), e.Lparen)

	case *ast.CallExpr:
		if fn.info.Types[e.Fun].IsType() {
			// Explicit type conversion, e.g. string(x) or big.Int(x)
			x := b.expr(fn, e.Args[0])
			y := emitConv(fn, x, fn.typ(tv.Type))
			if y != x {
				switch y := y.(type) {
				case *Convert:
					y.pos = e.Lparen
				case *ChangeType:
					y.pos = e.Lparen
				case *MakeInterface:
					y.pos = e.Lparen
				case *SliceToArrayPointer:
					y.pos = e.Lparen
				case *UnOp: // conversion from slice to array.
					y.pos = e.Lparen
				}
			}
			return y
		}
		// Call to "intrinsic" built-ins, e.g. new, make, panic.
		if id, ok := unparen(e.Fun).(*ast.Ident); ok {
			if obj, ok := fn.info.Uses[id].(*types.Builtin); ok {
				if v := b.builtin(fn, obj, e.Args, fn.typ(tv.Type), e.Lparen); v != nil {
					return v
				}
			}
		}
		// Regular function call.
		var v Call
		b.setCall(fn, e, &v.Call)
		v.setType(fn.typ(tv.Type))
		return fn.emit(&v)

	case *ast.UnaryExpr:
		switch e.Op {
		case token.AND: // &X --- potentially escaping.
			addr := b.addr(fn, e.X, true)
			if _, ok := unparen(e.X).(*ast.StarExpr); ok {
				// &*p must panic if p is nil (http://golang.org/s/go12nil).
				// For simplicity, we'll just (suboptimally) rely
				// on the side effects of a load.
				// TODO(adonovan): emit dedicated nilcheck.
				addr.load(fn)
			}
			return addr.address(fn)
		case token.ADD:
			return b.expr(fn, e.X)
		case token.NOT, token.ARROW, token.SUB, token.XOR: // ! <- - ^
			v := &UnOp{
				Op: e.Op,
				X:  b.expr(fn, e.X),
			}
			v.setPos(e.OpPos)
			v.setType(fn.typ(tv.Type))
			return fn.emit(v)
		default:
			panic(e.Op)
		}

	case *ast.BinaryExpr:
		switch e.Op {
		case token.LAND, token.LOR:
			return b.logicalBinop(fn, e)
		case token.SHL, token.SHR:
			fallthrough
		case token.ADD, token.SUB, token.MUL, token.QUO, token.REM, token.AND, token.OR, token.XOR, token.AND_NOT:
			return emitArith(fn, e.Op, b.expr(fn, e.X), b.expr(fn, e.Y), fn.typ(tv.Type), e.OpPos)

		case token.EQL, token.NEQ, token.GTR, token.LSS, token.LEQ, token.GEQ:
			cmp := emitCompare(fn, e.Op, b.expr(fn, e.X), b.expr(fn, e.Y), e.OpPos)
			// The type of x==y may be UntypedBool.
			return emitConv(fn, cmp, types.Default(fn.typ(tv.Type)))
		default:
			panic("illegal op in BinaryExpr: " + e.Op.String())
		}

	case *ast.SliceExpr:
		var low, high, max Value
		var x Value
		xtyp := fn.typeOf(e.X)
		switch typeparams.CoreType(xtyp).(type) {
		case *types.Array:
			// Potentially escaping.
			x = b.addr(fn, e.X, true).address(fn)
		case *types.Basic, *types.Slice, *types.Pointer: // *array
			x = b.expr(fn, e.X)
		default:
			// core type exception?
			if isBytestring(xtyp) {
				x = b.expr(fn, e.X) // bytestring is handled as string and []byte.
			} else {
				panic("unexpected sequence type in SliceExpr")
			}
		}
		if e.Low != nil {
			low = b.expr(fn, e.Low)
		}
		if e.High != nil {
			high = b.expr(fn, e.High)
		}
		if e.Slice3 {
			max = b.expr(fn, e.Max)
		}
		v := &Slice{
			X:    x,
			Low:  low,
			High: high,
			Max:  max,
		}
		v.setPos(e.Lbrack)
		v.setType(fn.typ(tv.Type))
		return fn.emit(v)

	case *ast.Ident:
		obj := fn.info.Uses[e]
		// Universal built-in or nil?
		switch obj := obj.(type) {
		case *types.Builtin:
			return &Builtin{name: obj.Name(), sig: fn.instanceType(e).(*types.Signature)}
		case *types.Nil:
			return zeroConst(fn.instanceType(e))
		}

		// Package-level func or var?
		// (obj must belong to same package or a direct import.)
		if v := fn.Prog.packageLevelMember(obj); v != nil {
			if g, ok := v.(*Global); ok {
				return emitLoad(fn, g) // var (address)
			}
			callee := v.(*Function) // (func)
			if callee.typeparams.Len() > 0 {
				targs := fn.subst.types(instanceArgs(fn.info, e))
				callee = callee.instance(targs, b)
			}
			return callee
		}
		// Local var.
		return emitLoad(fn, fn.lookup(obj.(*types.Var), false)) // var (address)

	case *ast.SelectorExpr:
		sel := fn.selection(e)
		if sel == nil {
			// builtin unsafe.{Add,Slice}
			if obj, ok := fn.info.Uses[e.Sel].(*types.Builtin); ok {
				return &Builtin{name: obj.Name(), sig: fn.typ(tv.Type).(*types.Signature)}
			}
			// qualified identifier
			return b.expr(fn, e.Sel)
		}
		switch sel.kind {
		case types.MethodExpr:
			// (*T).f or T.f, the method f from the method-set of type T.
			// The result is a "thunk".
			thunk := createThunk(fn.Prog, sel)
			b.enqueue(thunk)
			return emitConv(fn, thunk, fn.typ(tv.Type))

		case types.MethodVal:
			// e.f where e is an expression and f is a method.
			// The result is a "bound".
			obj := sel.obj.(*types.Func)
			rt := fn.typ(recvType(obj))
			wantAddr := isPointer(rt)
			escaping := true
			v := b.receiver(fn, e.X, wantAddr, escaping, sel)

			if types.IsInterface(rt) {
				// If v may be an interface type I (after instantiating),
				// we must emit a check that v is non-nil.
				if recv, ok := types.Unalias(sel.recv).(*types.TypeParam); ok {
					// Emit a nil check if any possible instantiation of the
					// type parameter is an interface type.
					if typeSetOf(recv).Len() > 0 {
						// recv has a concrete term its typeset.
						// So it cannot be instantiated as an interface.
						//
						// Example:
						// func _[T interface{~int; Foo()}] () {
						//    var v T
						//    _ = v.Foo // <-- MethodVal
						// }
					} else {
						// rt may be instantiated as an interface.
						// Emit nil check: typeassert (any(v)).(any).
						emitTypeAssert(fn, emitConv(fn, v, tEface), tEface, token.NoPos)
					}
				} else {
					// non-type param interface
					// Emit nil check: typeassert v.(I).
					emitTypeAssert(fn, v, rt, e.Sel.Pos())
				}
			}
			if targs := receiverTypeArgs(obj); len(targs) > 0 {
				// obj is generic.
				obj = fn.Prog.canon.instantiateMethod(obj, fn.subst.types(targs), fn.Prog.ctxt)
			}
			bound := createBound(fn.Prog, obj)
			b.enqueue(bound)

			c := &MakeClosure{
				Fn:       bound,
				Bindings: []Value{v},
			}
			c.setPos(e.Sel.Pos())
			c.setType(fn.typ(tv.Type))
			return fn.emit(c)

		case types.FieldVal:
			indices := sel.index
			last := len(indices) - 1
			v := b.expr(fn, e.X)
			v = emitImplicitSelections(fn, v, indices[:last], e.Pos())
			v = emitFieldSelection(fn, v, indices[last], false, e.Sel)
			return v
		}

		panic("unexpected expression-relative selector")

	case *ast.IndexListExpr:
		// f[X, Y] must be a generic function
		if !instance(fn.info, e.X) {
			panic("unexpected expression-could not match index list to instantiation")
		}
		return b.expr(fn, e.X) // Handle instantiation within the *Ident or *SelectorExpr cases.

	case *ast.IndexExpr:
		if instance(fn.info, e.X) {
			return b.expr(fn, e.X) // Handle instantiation within the *Ident or *SelectorExpr cases.
		}
		// not a generic instantiation.
		xt := fn.typeOf(e.X)
		switch et, mode := indexType(xt); mode {
		case ixVar:
			// Addressable slice/array; use IndexAddr and Load.
			return b.addr(fn, e, false).load(fn)

		case ixArrVar, ixValue:
			// An array in a register, a string or a combined type that contains
			// either an [_]array (ixArrVar) or string (ixValue).

			// Note: for ixArrVar and CoreType(xt)==nil can be IndexAddr and Load.
			index := b.expr(fn, e.Index)
			if isUntyped(index.Type()) {
				index = emitConv(fn, index, tInt)
			}
			v := &Index{
				X:     b.expr(fn, e.X),
				Index: index,
			}
			v.setPos(e.Lbrack)
			v.setType(et)
			return fn.emit(v)

		case ixMap:
			ct := typeparams.CoreType(xt).(*types.Map)
			v := &Lookup{
				X:     b.expr(fn, e.X),
				Index: emitConv(fn, b.expr(fn, e.Index), ct.Key()),
			}
			v.setPos(e.Lbrack)
			v.setType(ct.Elem())
			return fn.emit(v)
		default:
			panic("unexpected container type in IndexExpr: " + xt.String())
		}

	case *ast.CompositeLit, *ast.StarExpr:
		// Addressable types (lvalues)
		return b.addr(fn, e, false).load(fn)
	}

	panic(fmt.Sprintf("unexpected expr: %T", e))
}

// stmtList emits to fn code for all statements in list.
func (b *builder) stmtList(fn *Function, list []ast.Stmt) {
	for _, s := range list {
		b.stmt(fn, s)
	}
}

// receiver emits to fn code for expression e in the "receiver"
// position of selection e.f (where f may be a field or a method) and
// returns the effective receiver after applying the implicit field
// selections of sel.
//
// wantAddr requests that the result is an address.  If
// !sel.indirect, this may require that e be built in addr() mode; it
// must thus be addressable.
//
// escaping is defined as per builder.addr().
func (b *builder) receiver(fn *Function, e ast.Expr, wantAddr, escaping bool, sel *selection) Value {
	var v Value
	if wantAddr && !sel.indirect && !isPointerCore(fn.typeOf(e)) {
		v = b.addr(fn, e, escaping).address(fn)
	} else {
		v = b.expr(fn, e)
	}

	last := len(sel.index) - 1
	// The position of implicit selection is the position of the inducing receiver expression.
	v = emitImplicitSelections(fn, v, sel.index[:last], e.Pos())
	if types.IsInterface(v.Type()) {
		// When v is an interface, sel.Kind()==MethodValue and v.f is invoked.
		// So v is not loaded, even if v has a pointer core type.
	} else if !wantAddr && isPointerCore(v.Type()) {
		v = emitLoad(fn, v)
	}
	return v
}

// setCallFunc populates the function parts of a CallCommon structure
// (Func, Method, Recv, Args[0]) based on the kind of invocation
// occurring in e.
func (b *builder) setCallFunc(fn *Function, e *ast.CallExpr, c *CallCommon) {
	c.pos = e.Lparen

	// Is this a method call?
	if selector, ok := unparen(e.Fun).(*ast.SelectorExpr); ok {
		sel := fn.selection(selector)
		if sel != nil && sel.kind == types.MethodVal {
			obj := sel.obj.(*types.Func)
			recv := recvType(obj)

			wantAddr := isPointer(recv)
			escaping := true
			v := b.receiver(fn, selector.X, wantAddr, escaping, sel)
			if types.IsInterface(recv) {
				// Invoke-mode call.
				c.Value = v // possibly type param
				c.Method = obj
			} else {
				// "Call"-mode call.
				c.Value = fn.Prog.objectMethod(obj, b)
				c.Args = append(c.Args, v)
			}
			return
		}

		// sel.kind==MethodExpr indicates T.f() or (*T).f():
		// a statically dispatched call to the method f in the
		// method-set of T or *T.  T may be an interface.
		//
		// e.Fun would evaluate to a concrete method, interface
		// wrapper function, or promotion wrapper.
		//
		// For now, we evaluate it in the usual way.
		//
		// TODO(adonovan): opt: inline expr() here, to make the
		// call static and to avoid generation of wrappers.
		// It's somewhat tricky as it may consume the first
		// actual parameter if the call is "invoke" mode.
		//
		// Examples:
		//  type T struct{}; func (T) f() {}   // "call" mode
		//  type T interface { f() }           // "invoke" mode
		//
		//  type S struct{ T }
		//
		//  var s S
		//  S.f(s)
		//  (*S).f(&s)
		//
		// Suggested approach:
		// - consume the first actual parameter expression
		//   and build it with b.expr().
		// - apply implicit field selections.
		// - use MethodVal logic to populate fields of c.
	}

	// Evaluate the function operand in the usual way.
	c.Value = b.expr(fn, e.Fun)
}

// emitCallArgs emits to f code for the actual parameters of call e to
// a (possibly built-in) function of effective type sig.
// The argument values are appended to args, which is then returned.
func (b *builder) emitCallArgs(fn *Function, sig *types.Signature, e *ast.CallExpr, args []Value) []Value {
	// f(x, y, z...): pass slice z straight through.
	if e.Ellipsis != 0 {
		for i, arg := range e.Args {
			v := emitConv(fn, b.expr(fn, arg), sig.Params().At(i).Type())
			args = append(args, v)
		}
		return args
	}

	offset := len(args) // 1 if call has receiver, 0 otherwise

	// Evaluate actual parameter expressions.
	//
	// If this is a chained call of the form f(g()) where g has
	// multiple return values (MRV), they are flattened out into
	// args; a suffix of them may end up in a varargs slice.
	for _, arg := range e.Args {
		v := b.expr(fn, arg)
		if ttuple, ok := v.Type().(*types.Tuple); ok { // MRV chain
			for i, n := 0, ttuple.Len(); i < n; i++ {
				args = append(args, emitExtract(fn, v, i))
			}
		} else {
			args = append(args, v)
		}
	}

	// Actual->formal assignability conversions for normal parameters.
	np := sig.Params().Len() // number of normal parameters
	if sig.Variadic() {
		np--
	}
	for i := 0; i < np; i++ {
		args[offset+i] = emitConv(fn, args[offset+i], sig.Params().At(i).Type())
	}

	// Actual->formal assignability conversions for variadic parameter,
	// and construction of slice.
	if sig.Variadic() {
		varargs := args[offset+np:]
		st := sig.Params().At(np).Type().(*types.Slice)
		vt := st.Elem()
		if len(varargs) == 0 {
			args = append(args, zeroConst(st))
		} else {
			// Replace a suffix of args with a slice containing it.
			at := types.NewArray(vt, int64(len(varargs)))
			a := emitNew(fn, at, token.NoPos, "varargs")
			a.setPos(e.Rparen)
			for i, arg := range varargs {
				iaddr := &IndexAddr{
					X:     a,
					Index: intConst(int64(i)),
				}
				iaddr.setType(types.NewPointer(vt))
				fn.emit(iaddr)
				emitStore(fn, iaddr, arg, arg.Pos())
			}
			s := &Slice{X: a}
			s.setType(st)
			args[offset+np] = fn.emit(s)
			args = args[:offset+np+1]
		}
	}
	return args
}

// setCall emits to fn code to evaluate all the parameters of a function
// call e, and populates *c with those values.
func (b *builder) setCall(fn *Function, e *ast.CallExpr, c *CallCommon) {
	// First deal with the f(...) part and optional receiver.
	b.setCallFunc(fn, e, c)

	// Then append the other actual parameters.
	sig, _ := typeparams.CoreType(fn.typeOf(e.Fun)).(*types.Signature)
	if sig == nil {
		panic(fmt.Sprintf("no signature for call of %s", e.Fun))
	}
	c.Args = b.emitCallArgs(fn, sig, e, c.Args)
}

// assignOp emits to fn code to perform loc <op>= val.
func (b *builder) assignOp(fn *Function, loc lvalue, val Value, op token.Token, pos token.Pos) {
	loc.store(fn, emitArith(fn, op, loc.load(fn), val, loc.typ(), pos))
}

// localValueSpec emits to fn code to define all of the vars in the
// function-local ValueSpec, spec.
func (b *builder) localValueSpec(fn *Function, spec *ast.ValueSpec) {
	switch {
	case len(spec.Values) == len(spec.Names):
		// e.g. var x, y = 0, 1
		// 1:1 assignment
		for i, id := range spec.Names {
			if !isBlankIdent(id) {
				emitLocalVar(fn, identVar(fn, id))
			}
			lval := b.addr(fn, id, false) // non-escaping
			b.assign(fn, lval, spec.Values[i], true, nil)
		}

	case len(spec.Values) == 0:
		// e.g. var x, y int
		// Locals are implicitly zero-initialized.
		for _, id := range spec.Names {
			if !isBlankIdent(id) {
				lhs := emitLocalVar(fn, identVar(fn, id))
				if fn.debugInfo() {
					emitDebugRef(fn, id, lhs, true)
				}
			}
		}

	default:
		// e.g. var x, y = pos()
		tuple := b.exprN(fn, spec.Values[0])
		for i, id := range spec.Names {
			if !isBlankIdent(id) {
				emitLocalVar(fn, identVar(fn, id))
				lhs := b.addr(fn, id, false) // non-escaping
				lhs.store(fn, emitExtract(fn, tuple, i))
			}
		}
	}
}

// assignStmt emits code to fn for a parallel assignment of rhss to lhss.
// isDef is true if this is a short variable declaration (:=).
//
// Note the similarity with localValueSpec.
func (b *builder) assignStmt(fn *Function, lhss, rhss []ast.Expr, isDef bool) {
	// Side effects of all LHSs and RHSs must occur in left-to-right order.
	lvals := make([]lvalue, len(lhss))
	isZero := make([]bool, len(lhss))
	for i, lhs := range lhss {
		var lval lvalue = blank{}
		if !isBlankIdent(lhs) {
			if isDef {
				if obj, ok := fn.info.Defs[lhs.(*ast.Ident)].(*types.Var); ok {
					emitLocalVar(fn, obj)
					isZero[i] = true
				}
			}
			lval = b.addr(fn, lhs, false) // non-escaping
		}
		lvals[i] = lval
	}
	if len(lhss) == len(rhss) {
		// Simple assignment:   x     = f()        (!isDef)
		// Parallel assignment: x, y  = f(), g()   (!isDef)
		// or short var decl:   x, y := f(), g()   (isDef)
		//
		// In all cases, the RHSs may refer to the LHSs,
		// so we need a storebuf.
		var sb storebuf
		for i := range rhss {
			b.assign(fn, lvals[i], rhss[i], isZero[i], &sb)
		}
		sb.emit(fn)
	} else {
		// e.g. x, y = pos()
		tuple := b.exprN(fn, rhss[0])
		emitDebugRef(fn, rhss[0], tuple, false)
		for i, lval := range lvals {
			lval.store(fn, emitExtract(fn, tuple, i))
		}
	}
}

// arrayLen returns the length of the array whose composite literal elements are elts.
func (b *builder) arrayLen(fn *Function, elts []ast.Expr) int64 {
	var max int64 = -1
	var i int64 = -1
	for _, e := range elts {
		if kv, ok := e.(*ast.KeyValueExpr); ok {
			i = b.expr(fn, kv.Key).(*Const).Int64()
		} else {
			i++
		}
		if i > max {
			max = i
		}
	}
	return max + 1
}

// compLit emits to fn code to initialize a composite literal e at
// address addr with type typ.
//
// Nested composite literals are recursively initialized in place
// where possible. If isZero is true, compLit assumes that addr
// holds the zero value for typ.
//
// Because the elements of a composite literal may refer to the
// variables being updated, as in the second line below,
//
//	x := T{a: 1}
//	x = T{a: x.a}
//
// all the reads must occur before all the writes.  Thus all stores to
// loc are emitted to the storebuf sb for later execution.
//
// A CompositeLit may have pointer type only in the recursive (nested)
// case when the type name is implicit.  e.g. in []*T{{}}, the inner
// literal has type *T behaves like &T{}.
// In that case, addr must hold a T, not a *T.
func (b *builder) compLit(fn *Function, addr Value, e *ast.CompositeLit, isZero bool, sb *storebuf) {
	typ := typeparams.Deref(fn.typeOf(e)) // retain the named/alias/param type, if any
	switch t := typeparams.CoreType(typ).(type) {
	case *types.Struct:
		if !isZero && len(e.Elts) != t.NumFields() {
			// memclear
			zt := typeparams.MustDeref(addr.Type())
			sb.store(&address{addr, e.Lbrace, nil}, zeroConst(zt))
			isZero = true
		}
		for i, e := range e.Elts {
			fieldIndex := i
			pos := e.Pos()
			if kv, ok := e.(*ast.KeyValueExpr); ok {
				fname := kv.Key.(*ast.Ident).Name
				for i, n := 0, t.NumFields(); i < n; i++ {
					sf := t.Field(i)
					if sf.Name() == fname {
						fieldIndex = i
						pos = kv.Colon
						e = kv.Value
						break
					}
				}
			}
			sf := t.Field(fieldIndex)
			faddr := &FieldAddr{
				X:     addr,
				Field: fieldIndex,
			}
			faddr.setPos(pos)
			faddr.setType(types.NewPointer(sf.Type()))
			fn.emit(faddr)
			b.assign(fn, &address{addr: faddr, pos: pos, expr: e}, e, isZero, sb)
		}

	case *types.Array, *types.Slice:
		var at *types.Array
		var array Value
		switch t := t.(type) {
		case *types.Slice:
			at = types.NewArray(t.Elem(), b.arrayLen(fn, e.Elts))
			array = emitNew(fn, at, e.Lbrace, "slicelit")
		case *types.Array:
			at = t
			array = addr

			if !isZero && int64(len(e.Elts)) != at.Len() {
				// memclear
				zt := typeparams.MustDeref(array.Type())
				sb.store(&address{array, e.Lbrace, nil}, zeroConst(zt))
			}
		}

		var idx *Const
		for _, e := range e.Elts {
			pos := e.Pos()
			if kv, ok := e.(*ast.KeyValueExpr); ok {
				idx = b.expr(fn, kv.Key).(*Const)
				pos = kv.Colon
				e = kv.Value
			} else {
				var idxval int64
				if idx != nil {
					idxval = idx.Int64() + 1
				}
				idx = intConst(idxval)
			}
			iaddr := &IndexAddr{
				X:     array,
				Index: idx,
			}
			iaddr.setType(types.NewPointer(at.Elem()))
			fn.emit(iaddr)
			if t != at { // slice
				// backing array is unaliased => storebuf not needed.
				b.assign(fn, &address{addr: iaddr, pos: pos, expr: e}, e, true, nil)
			} else {
				b.assign(fn, &address{addr: iaddr, pos: pos, expr: e}, e, true, sb)
			}
		}

		if t != at { // slice
			s := &Slice{X: array}
			s.setPos(e.Lbrace)
			s.setType(typ)
			sb.store(&address{addr: addr, pos: e.Lbrace, expr: e}, fn.emit(s))
		}

	case *types.Map:
		m := &MakeMap{Reserve: intConst(int64(len(e.Elts)))}
		m.setPos(e.Lbrace)
		m.setType(typ)
		fn.emit(m)
		for _, e := range e.Elts {
			e := e.(*ast.KeyValueExpr)

			// If a key expression in a map literal is itself a
			// composite literal, the type may be omitted.
			// For example:
			//	map[*struct{}]bool{{}: true}
			// An &-operation may be implied:
			//	map[*struct{}]bool{&struct{}{}: true}
			wantAddr := false
			if _, ok := unparen(e.Key).(*ast.CompositeLit); ok {
				wantAddr = isPointerCore(t.Key())
			}

			var key Value
			if wantAddr {
				// A CompositeLit never evaluates to a pointer,
				// so if the type of the location is a pointer,
				// an &-operation is implied.
				key = b.addr(fn, e.Key, true).address(fn)
			} else {
				key = b.expr(fn, e.Key)
			}

			loc := element{
				m:   m,
				k:   emitConv(fn, key, t.Key()),
				t:   t.Elem(),
				pos: e.Colon,
			}

			// We call assign() only because it takes care
			// of any &-operation required in the recursive
			// case, e.g.,
			// map[int]*struct{}{0: {}} implies &struct{}{}.
			// In-place update is of course impossible,
			// and no storebuf is needed.
			b.assign(fn, &loc, e.Value, true, nil)
		}
		sb.store(&address{addr: addr, pos: e.Lbrace, expr: e}, m)

	default:
		panic("unexpected CompositeLit type: " + typ.String())
	}
}

// switchStmt emits to fn code for the switch statement s, optionally
// labelled by label.
func (b *builder) switchStmt(fn *Function, s *ast.SwitchStmt, label *lblock) {
	// We treat SwitchStmt like a sequential if-else chain.
	// Multiway dispatch can be recovered later by ssautil.Switches()
	// to those cases that are free of side effects.
	if s.Init != nil {
		b.stmt(fn, s.Init)
	}
	var tag Value = vTrue
	if s.Tag != nil {
		tag = b.expr(fn, s.Tag)
	}
	done := fn.newBasicBlock("switch.done")
	if label != nil {
		label._break = done
	}
	// We pull the default case (if present) down to the end.
	// But each fallthrough label must point to the next
	// body block in source order, so we preallocate a
	// body block (fallthru) for the next case.
	// Unfortunately this makes for a confusing block order.
	var dfltBody *[]ast.Stmt
	var dfltFallthrough *BasicBlock
	var fallthru, dfltBlock *BasicBlock
	ncases := len(s.Body.List)
	for i, clause := range s.Body.List {
		body := fallthru
		if body == nil {
			body = fn.newBasicBlock("switch.body") // first case only
		}

		// Preallocate body block for the next case.
		fallthru = done
		if i+1 < ncases {
			fallthru = fn.newBasicBlock("switch.body")
		}

		cc := clause.(*ast.CaseClause)
		if cc.List == nil {
			// Default case.
			dfltBody = &cc.Body
			dfltFallthrough = fallthru
			dfltBlock = body
			continue
		}

		var nextCond *BasicBlock
		for _, cond := range cc.List {
			nextCond = fn.newBasicBlock("switch.next")
			// TODO(adonovan): opt: when tag==vTrue, we'd
			// get better code if we use b.cond(cond)
			// instead of BinOp(EQL, tag, b.expr(cond))
			// followed by If.  Don't forget conversions
			// though.
			cond := emitCompare(fn, token.EQL, tag, b.expr(fn, cond), cond.Pos())
			emitIf(fn, cond, body, nextCond)
			fn.currentBlock = nextCond
		}
		fn.currentBlock = body
		fn.targets = &targets{
			tail:         fn.targets,
			_break:       done,
			_fallthrough: fallthru,
		}
		b.stmtList(fn, cc.Body)
		fn.targets = fn.targets.tail
		emitJump(fn, done)
		fn.currentBlock = nextCond
	}
	if dfltBlock != nil {
		emitJump(fn, dfltBlock)
		fn.currentBlock = dfltBlock
		fn.targets = &targets{
			tail:         fn.targets,
			_break:       done,
			_fallthrough: dfltFallthrough,
		}
		b.stmtList(fn, *dfltBody)
		fn.targets = fn.targets.tail
	}
	emitJump(fn, done)
	fn.currentBlock = done
}

// typeSwitchStmt emits to fn code for the type switch statement s, optionally
// labelled by label.
func (b *builder) typeSwitchStmt(fn *Function, s *ast.TypeSwitchStmt, label *lblock) {
	// We treat TypeSwitchStmt like a sequential if-else chain.
	// Multiway dispatch can be recovered later by ssautil.Switches().

	// Typeswitch lowering:
	//
	// var x X
	// switch y := x.(type) {
	// case T1, T2: S1                  // >1 	(y := x)
	// case nil:    SN                  // nil 	(y := x)
	// default:     SD                  // 0 types 	(y := x)
	// case T3:     S3                  // 1 type 	(y := x.(T3))
	// }
	//
	//      ...s.Init...
	// 	x := eval x
	// .caseT1:
	// 	t1, ok1 := typeswitch,ok x <T1>
	// 	if ok1 then goto S1 else goto .caseT2
	// .caseT2:
	// 	t2, ok2 := typeswitch,ok x <T2>
	// 	if ok2 then goto S1 else goto .caseNil
	// .S1:
	//      y := x
	// 	...S1...
	// 	goto done
	// .caseNil:
	// 	if t2, ok2 := typeswitch,ok x <T2>
	// 	if x == nil then goto SN else goto .caseT3
	// .SN:
	//      y := x
	// 	...SN...
	// 	goto done
	// .caseT3:
	// 	t3, ok3 := typeswitch,ok x <T3>
	// 	if ok3 then goto S3 else goto default
	// .S3:
	//      y := t3
	// 	...S3...
	// 	goto done
	// .default:
	//      y := x
	// 	...SD...
	// 	goto done
	// .done:
	if s.Init != nil {
		b.stmt(fn, s.Init)
	}

	var x Value
	switch ass := s.Assign.(type) {
	case *ast.ExprStmt: // x.(type)
		x = b.expr(fn, unparen(ass.X).(*ast.TypeAssertExpr).X)
	case *ast.AssignStmt: // y := x.(type)
		x = b.expr(fn, unparen(ass.Rhs[0]).(*ast.TypeAssertExpr).X)
	}

	done := fn.newBasicBlock("typeswitch.done")
	if label != nil {
		label._break = done
	}
	var default_ *ast.CaseClause
	for _, clause := range s.Body.List {
		cc := clause.(*ast.CaseClause)
		if cc.List == nil {
			default_ = cc
			continue
		}
		body := fn.newBasicBlock("typeswitch.body")
		var next *BasicBlock
		var casetype types.Type
		var ti Value // ti, ok := typeassert,ok x <Ti>
		for _, cond := range cc.List {
			next = fn.newBasicBlock("typeswitch.next")
			casetype = fn.typeOf(cond)
			var condv Value
			if casetype == tUntypedNil {
				condv = emitCompare(fn, token.EQL, x, zeroConst(x.Type()), cond.Pos())
				ti = x
			} else {
				yok := emitTypeTest(fn, x, casetype, cc.Case)
				ti = emitExtract(fn, yok, 0)
				condv = emitExtract(fn, yok, 1)
			}
			emitIf(fn, condv, body, next)
			fn.currentBlock = next
		}
		if len(cc.List) != 1 {
			ti = x
		}
		fn.currentBlock = body
		b.typeCaseBody(fn, cc, ti, done)
		fn.currentBlock = next
	}
	if default_ != nil {
		b.typeCaseBody(fn, default_, x, done)
	} else {
		emitJump(fn, done)
	}
	fn.currentBlock = done
}

func (b *builder) typeCaseBody(fn *Function, cc *ast.CaseClause, x Value, done *BasicBlock) {
	if obj, ok := fn.info.Implicits[cc].(*types.Var); ok {
		// In a switch y := x.(type), each case clause
		// implicitly declares a distinct object y.
		// In a single-type case, y has that type.
		// In multi-type cases, 'case nil' and default,
		// y has the same type as the interface operand.
		emitStore(fn, emitLocalVar(fn, obj), x, obj.Pos())
	}
	fn.targets = &targets{
		tail:   fn.targets,
		_break: done,
	}
	b.stmtList(fn, cc.Body)
	fn.targets = fn.targets.tail
	emitJump(fn, done)
}

// selectStmt emits to fn code for the select statement s, optionally
// labelled by label.
func (b *builder) selectStmt(fn *Function, s *ast.SelectStmt, label *lblock) {
	// A blocking select of a single case degenerates to a
	// simple send or receive.
	// TODO(adonovan): opt: is this optimization worth its weight?
	if len(s.Body.List) == 1 {
		clause := s.Body.List[0].(*ast.CommClause)
		if clause.Comm != nil {
			b.stmt(fn, clause.Comm)
			done := fn.newBasicBlock("select.done")
			if label != nil {
				label._break = done
			}
			fn.targets = &targets{
				tail:   fn.targets,
				_break: done,
			}
			b.stmtList(fn, clause.Body)
			fn.targets = fn.targets.tail
			emitJump(fn, done)
			fn.currentBlock = done
			return
		}
	}

	// First evaluate all channels in all cases, and find
	// the directions of each state.
	var states []*SelectState
	blocking := true
	debugInfo := fn.debugInfo()
	for _, clause := range s.Body.List {
		var st *SelectState
		switch comm := clause.(*ast.CommClause).Comm.(type) {
		case nil: // default case
			blocking = false
			continue

		case *ast.SendStmt: // ch<- i
			ch := b.expr(fn, comm.Chan)
			chtyp := typeparams.CoreType(fn.typ(ch.Type())).(*types.Chan)
			st = &SelectState{
				Dir:  types.SendOnly,
				Chan: ch,
				Send: emitConv(fn, b.expr(fn, comm.Value), chtyp.Elem()),
				Pos:  comm.Arrow,
			}
			if debugInfo {
				st.DebugNode = comm
			}

		case *ast.AssignStmt: // x := <-ch
			recv := unparen(comm.Rhs[0]).(*ast.UnaryExpr)
			st = &SelectState{
				Dir:  types.RecvOnly,
				Chan: b.expr(fn, recv.X),
				Pos:  recv.OpPos,
			}
			if debugInfo {
				st.DebugNode = recv
			}

		case *ast.ExprStmt: // <-ch
			recv := unparen(comm.X).(*ast.UnaryExpr)
			st = &SelectState{
				Dir:  types.RecvOnly,
				Chan: b.expr(fn, recv.X),
				Pos:  recv.OpPos,
			}
			if debugInfo {
				st.DebugNode = recv
			}
		}
		states = append(states, st)
	}

	// We dispatch on the (fair) result of Select using a
	// sequential if-else chain, in effect:
	//
	// idx, recvOk, r0...r_n-1 := select(...)
	// if idx == 0 {  // receive on channel 0  (first receive => r0)
	//     x, ok := r0, recvOk
	//     ...state0...
	// } else if v == 1 {   // send on channel 1
	//     ...state1...
	// } else {
	//     ...default...
	// }
	sel := &Select{
		States:   states,
		Blocking: blocking,
	}
	sel.setPos(s.Select)
	var vars []*types.Var
	vars = append(vars, varIndex, varOk)
	for _, st := range states {
		if st.Dir == types.RecvOnly {
			chtyp := typeparams.CoreType(fn.typ(st.Chan.Type())).(*types.Chan)
			vars = append(vars, anonVar(chtyp.Elem()))
		}
	}
	sel.setType(types.NewTuple(vars...))

	fn.emit(sel)
	idx := emitExtract(fn, sel, 0)

	done := fn.newBasicBlock("select.done")
	if label != nil {
		label._break = done
	}

	var defaultBody *[]ast.Stmt
	state := 0
	r := 2 // index in 'sel' tuple of value; increments if st.Dir==RECV
	for _, cc := range s.Body.List {
		clause := cc.(*ast.CommClause)
		if clause.Comm == nil {
			defaultBody = &clause.Body
			continue
		}
		body := fn.newBasicBlock("select.body")
		next := fn.newBasicBlock("select.next")
		emitIf(fn, emitCompare(fn, token.EQL, idx, intConst(int64(state)), token.NoPos), body, next)
		fn.currentBlock = body
		fn.targets = &targets{
			tail:   fn.targets,
			_break: done,
		}
		switch comm := clause.Comm.(type) {
		case *ast.ExprStmt: // <-ch
			if debugInfo {
				v := emitExtract(fn, sel, r)
				emitDebugRef(fn, states[state].DebugNode.(ast.Expr), v, false)
			}
			r++

		case *ast.AssignStmt: // x := <-states[state].Chan
			if comm.Tok == token.DEFINE {
				emitLocalVar(fn, identVar(fn, comm.Lhs[0].(*ast.Ident)))
			}
			x := b.addr(fn, comm.Lhs[0], false) // non-escaping
			v := emitExtract(fn, sel, r)
			if debugInfo {
				emitDebugRef(fn, states[state].DebugNode.(ast.Expr), v, false)
			}
			x.store(fn, v)

			if len(comm.Lhs) == 2 { // x, ok := ...
				if comm.Tok == token.DEFINE {
					emitLocalVar(fn, identVar(fn, comm.Lhs[1].(*ast.Ident)))
				}
				ok := b.addr(fn, comm.Lhs[1], false) // non-escaping
				ok.store(fn, emitExtract(fn, sel, 1))
			}
			r++
		}
		b.stmtList(fn, clause.Body)
		fn.targets = fn.targets.tail
		emitJump(fn, done)
		fn.currentBlock = next
		state++
	}
	if defaultBody != nil {
		fn.targets = &targets{
			tail:   fn.targets,
			_break: done,
		}
		b.stmtList(fn, *defaultBody)
		fn.targets = fn.targets.tail
	} else {
		// A blocking select must match some case.
		// (This should really be a runtime.errorString, not a string.)
		fn.emit(&Panic{
			X: emitConv(fn, stringConst("blocking select matched no case"), tEface),
		})
		fn.currentBlock = fn.newBasicBlock("unreachable")
	}
	emitJump(fn, done)
	fn.currentBlock = done
}

// forStmt emits to fn code for the for statement s, optionally
// labelled by label.
func (b *builder) forStmt(fn *Function, s *ast.ForStmt, label *lblock) {
	// Use forStmtGo122 instead if it applies.
	if s.Init != nil {
		if assign, ok := s.Init.(*ast.AssignStmt); ok && assign.Tok == token.DEFINE {
			if versions.AtLeast(fn.goversion, versions.Go1_22) {
				b.forStmtGo122(fn, s, label)
				return
			}
		}
	}

	//     ...init...
	//     jump loop
	// loop:
	//     if cond goto body else done
	// body:
	//     ...body...
	//     jump post
	// post:                                 (target of continue)
	//     ...post...
	//     jump loop
	// done:                                 (target of break)
	if s.Init != nil {
		b.stmt(fn, s.Init)
	}

	body := fn.newBasicBlock("for.body")
	done := fn.newBasicBlock("for.done") // target of 'break'
	loop := body                         // target of back-edge
	if s.Cond != nil {
		loop = fn.newBasicBlock("for.loop")
	}
	cont := loop // target of 'continue'
	if s.Post != nil {
		cont = fn.newBasicBlock("for.post")
	}
	if label != nil {
		label._break = done
		label._continue = cont
	}
	emitJump(fn, loop)
	fn.currentBlock = loop
	if loop != body {
		b.cond(fn, s.Cond, body, done)
		fn.currentBlock = body
	}
	fn.targets = &targets{
		tail:      fn.targets,
		_break:    done,
		_continue: cont,
	}
	b.stmt(fn, s.Body)
	fn.targets = fn.targets.tail
	emitJump(fn, cont)

	if s.Post != nil {
		fn.currentBlock = cont
		b.stmt(fn, s.Post)
		emitJump(fn, loop) // back-edge
	}
	fn.currentBlock = done
}

// forStmtGo122 emits to fn code for the for statement s, optionally
// labelled by label. s must define its variables.
//
// This allocates once per loop iteration. This is only correct in
// GoVersions >= go1.22.
func (b *builder) forStmtGo122(fn *Function, s *ast.ForStmt, label *lblock) {
	//     i_outer = alloc[T]
	//     *i_outer = ...init...        // under objects[i] = i_outer
	//     jump loop
	// loop:
	//     i = phi [head: i_outer, loop: i_next]
	//     ...cond...                   // under objects[i] = i
	//     if cond goto body else done
	// body:
	//     ...body...                   // under objects[i] = i (same as loop)
	//     jump post
	// post:
	//     tmp = *i
	//     i_next = alloc[T]
	//     *i_next = tmp
	//     ...post...                   // under objects[i] = i_next
	//     goto loop
	// done:

	init := s.Init.(*ast.AssignStmt)
	startingBlocks := len(fn.Blocks)

	pre := fn.currentBlock               // current block before starting
	loop := fn.newBasicBlock("for.loop") // target of back-edge
	body := fn.newBasicBlock("for.body")
	post := fn.newBasicBlock("for.post") // target of 'continue'
	done := fn.newBasicBlock("for.done") // target of 'break'

	// For each of the n loop variables, we create five SSA values,
	// outer, phi, next, load, and store in pre, loop, and post.
	// There is no limit on n.
	type loopVar struct {
		obj   *types.Var
		outer *Alloc
		phi   *Phi
		load  *UnOp
		next  *Alloc
		store *Store
	}
	vars := make([]loopVar, len(init.Lhs))
	for i, lhs := range init.Lhs {
		v := identVar(fn, lhs.(*ast.Ident))
		typ := fn.typ(v.Type())

		fn.currentBlock = pre
		outer := emitLocal(fn, typ, v.Pos(), v.Name())

		fn.currentBlock = loop
		phi := &Phi{Comment: v.Name()}
		phi.pos = v.Pos()
		phi.typ = outer.Type()
		fn.emit(phi)

		fn.currentBlock = post
		// If next is local, it reuses the address and zeroes the old value so
		// load before allocating next.
		load := emitLoad(fn, phi)
		next := emitLocal(fn, typ, v.Pos(), v.Name())
		store := emitStore(fn, next, load, token.NoPos)

		phi.Edges = []Value{outer, next} // pre edge is emitted before post edge.

		vars[i] = loopVar{v, outer, phi, load, next, store}
	}

	// ...init... under fn.objects[v] = i_outer
	fn.currentBlock = pre
	for _, v := range vars {
		fn.vars[v.obj] = v.outer
	}
	const isDef = false // assign to already-allocated outers
	b.assignStmt(fn, init.Lhs, init.Rhs, isDef)
	if label != nil {
		label._break = done
		label._continue = post
	}
	emitJump(fn, loop)

	// ...cond... under fn.objects[v] = i
	fn.currentBlock = loop
	for _, v := range vars {
		fn.vars[v.obj] = v.phi
	}
	if s.Cond != nil {
		b.cond(fn, s.Cond, body, done)
	} else {
		emitJump(fn, body)
	}

	// ...body... under fn.objects[v] = i
	fn.currentBlock = body
	fn.targets = &targets{
		tail:      fn.targets,
		_break:    done,
		_continue: post,
	}
	b.stmt(fn, s.Body)
	fn.targets = fn.targets.tail
	emitJump(fn, post)

	// ...post... under fn.objects[v] = i_next
	for _, v := range vars {
		fn.vars[v.obj] = v.next
	}
	fn.currentBlock = post
	if s.Post != nil {
		b.stmt(fn, s.Post)
	}
	emitJump(fn, loop) // back-edge
	fn.currentBlock = done

	// For each loop variable that does not escape,
	// (the common case), fuse its next cells into its
	// (local) outer cell as they have disjoint live ranges.
	//
	// It is sufficient to test whether i_next escapes,
	// because its Heap flag will be marked true if either
	// the cond or post expression causes i to escape
	// (because escape distributes over phi).
	var nlocals int
	for _, v := range vars {
		if !v.next.Heap {
			nlocals++
		}
	}
	if nlocals > 0 {
		replace := make(map[Value]Value, 2*nlocals)
		dead := make(map[Instruction]bool, 4*nlocals)
		for _, v := range vars {
			if !v.next.Heap {
				replace[v.next] = v.outer
				replace[v.phi] = v.outer
				dead[v.phi], dead[v.next], dead[v.load], dead[v.store] = true, true, true, true
			}
		}

		// Replace all uses of i_next and phi with i_outer.
		// Referrers have not been built for fn yet so only update Instruction operands.
		// We need only look within the blocks added by the loop.
		var operands []*Value // recycle storage
		for _, b := range fn.Blocks[startingBlocks:] {
			for _, instr := range b.Instrs {
				operands = instr.Operands(operands[:0])
				for _, ptr := range operands {
					k := *ptr
					if v := replace[k]; v != nil {
						*ptr = v
					}
				}
			}
		}

		// Remove instructions for phi, load, and store.
		// lift() will remove the unused i_next *Alloc.
		isDead := func(i Instruction) bool { return dead[i] }
		loop.Instrs = removeInstrsIf(loop.Instrs, isDead)
		post.Instrs = removeInstrsIf(post.Instrs, isDead)
	}
}

// rangeIndexed emits to fn the header for an integer-indexed loop
// over array, *array or slice value x.
// The v result is defined only if tv is non-nil.
// forPos is the position of the "for" token.
func (b *builder) rangeIndexed(fn *Function, x Value, tv types.Type, pos token.Pos) (k, v Value, loop, done *BasicBlock) {
	//
	//     length = len(x)
	//     index = -1
	// loop:                                     (target of continue)
	//     index++
	//     if index < length goto body else done
	// body:
	//     k = index
	//     v = x[index]
	//     ...body...
	//     jump loop
	// done:                                     (target of break)

	// Determine number of iterations.
	var length Value
	dt := typeparams.Deref(x.Type())
	if arr, ok := typeparams.CoreType(dt).(*types.Array); ok {
		// For array or *array, the number of iterations is
		// known statically thanks to the type.  We avoid a
		// data dependence upon x, permitting later dead-code
		// elimination if x is pure, static unrolling, etc.
		// Ranging over a nil *array may have >0 iterations.
		// We still generate code for x, in case it has effects.
		length = intConst(arr.Len())
	} else {
		// length = len(x).
		var c Call
		c.Call.Value = makeLen(x.Type())
		c.Call.Args = []Value{x}
		c.setType(tInt)
		length = fn.emit(&c)
	}

	index := emitLocal(fn, tInt, token.NoPos, "rangeindex")
	emitStore(fn, index, intConst(-1), pos)

	loop = fn.newBasicBlock("rangeindex.loop")
	emitJump(fn, loop)
	fn.currentBlock = loop

	incr := &BinOp{
		Op: token.ADD,
		X:  emitLoad(fn, index),
		Y:  vOne,
	}
	incr.setType(tInt)
	emitStore(fn, index, fn.emit(incr), pos)

	body := fn.newBasicBlock("rangeindex.body")
	done = fn.newBasicBlock("rangeindex.done")
	emitIf(fn, emitCompare(fn, token.LSS, incr, length, token.NoPos), body, done)
	fn.currentBlock = body

	k = emitLoad(fn, index)
	if tv != nil {
		switch t := typeparams.CoreType(x.Type()).(type) {
		case *types.Array:
			instr := &Index{
				X:     x,
				Index: k,
			}
			instr.setType(t.Elem())
			instr.setPos(x.Pos())
			v = fn.emit(instr)

		case *types.Pointer: // *array
			instr := &IndexAddr{
				X:     x,
				Index: k,
			}
			instr.setType(types.NewPointer(t.Elem().Underlying().(*types.Array).Elem()))
			instr.setPos(x.Pos())
			v = emitLoad(fn, fn.emit(instr))

		case *types.Slice:
			instr := &IndexAddr{
				X:     x,
				Index: k,
			}
			instr.setType(types.NewPointer(t.Elem()))
			instr.setPos(x.Pos())
			v = emitLoad(fn, fn.emit(instr))

		default:
			panic("rangeIndexed x:" + t.String())
		}
	}
	return
}

// rangeIter emits to fn the header for a loop using
// Range/Next/Extract to iterate over map or string value x.
// tk and tv are the types of the key/value results k and v, or nil
// if the respective component is not wanted.
func (b *builder) rangeIter(fn *Function, x Value, tk, tv types.Type, pos token.Pos) (k, v Value, loop, done *BasicBlock) {
	//
	//     it = range x
	// loop:                                   (target of continue)
	//     okv = next it                       (ok, key, value)
	//     ok = extract okv #0
	//     if ok goto body else done
	// body:
	//     k = extract okv #1
	//     v = extract okv #2
	//     ...body...
	//     jump loop
	// done:                                   (target of break)
	//

	if tk == nil {
		tk = tInvalid
	}
	if tv == nil {
		tv = tInvalid
	}

	rng := &Range{X: x}
	rng.setPos(pos)
	rng.setType(tRangeIter)
	it := fn.emit(rng)

	loop = fn.newBasicBlock("rangeiter.loop")
	emitJump(fn, loop)
	fn.currentBlock = loop

	okv := &Next{
		Iter:     it,
		IsString: isBasic(typeparams.CoreType(x.Type())),
	}
	okv.setType(types.NewTuple(
		varOk,
		newVar("k", tk),
		newVar("v", tv),
	))
	fn.emit(okv)

	body := fn.newBasicBlock("rangeiter.body")
	done = fn.newBasicBlock("rangeiter.done")
	emitIf(fn, emitExtract(fn, okv, 0), body, done)
	fn.currentBlock = body

	if tk != tInvalid {
		k = emitExtract(fn, okv, 1)
	}
	if tv != tInvalid {
		v = emitExtract(fn, okv, 2)
	}
	return
}

// rangeChan emits to fn the header for a loop that receives from
// channel x until it fails.
// tk is the channel's element type, or nil if the k result is
// not wanted
// pos is the position of the '=' or ':=' token.
func (b *builder) rangeChan(fn *Function, x Value, tk types.Type, pos token.Pos) (k Value, loop, done *BasicBlock) {
	//
	// loop:                                   (target of continue)
	//     ko = <-x                            (key, ok)
	//     ok = extract ko #1
	//     if ok goto body else done
	// body:
	//     k = extract ko #0
	//     ...body...
	//     goto loop
	// done:                                   (target of break)

	loop = fn.newBasicBlock("rangechan.loop")
	emitJump(fn, loop)
	fn.currentBlock = loop
	recv := &UnOp{
		Op:      token.ARROW,
		X:       x,
		CommaOk: true,
	}
	recv.setPos(pos)
	recv.setType(types.NewTuple(
		newVar("k", typeparams.CoreType(x.Type()).(*types.Chan).Elem()),
		varOk,
	))
	ko := fn.emit(recv)
	body := fn.newBasicBlock("rangechan.body")
	done = fn.newBasicBlock("rangechan.done")
	emitIf(fn, emitExtract(fn, ko, 1), body, done)
	fn.currentBlock = body
	if tk != nil {
		k = emitExtract(fn, ko, 0)
	}
	return
}

// rangeInt emits to fn the header for a range loop with an integer operand.
// tk is the key value's type, or nil if the k result is not wanted.
// pos is the position of the "for" token.
func (b *builder) rangeInt(fn *Function, x Value, tk types.Type, pos token.Pos) (k Value, loop, done *BasicBlock) {
	//
	//     iter = 0
	//     if 0 < x goto body else done
	// loop:                                   (target of continue)
	//     iter++
	//     if iter < x goto body else done
	// body:
	//     k = x
	//     ...body...
	//     jump loop
	// done:                                   (target of break)

	if isUntyped(x.Type()) {
		x = emitConv(fn, x, tInt)
	}

	T := x.Type()
	iter := emitLocal(fn, T, token.NoPos, "rangeint.iter")
	// x may be unsigned. Avoid initializing x to -1.

	body := fn.newBasicBlock("rangeint.body")
	done = fn.newBasicBlock("rangeint.done")
	emitIf(fn, emitCompare(fn, token.LSS, zeroConst(T), x, token.NoPos), body, done)

	loop = fn.newBasicBlock("rangeint.loop")
	fn.currentBlock = loop

	incr := &BinOp{
		Op: token.ADD,
		X:  emitLoad(fn, iter),
		Y:  emitConv(fn, vOne, T),
	}
	incr.setType(T)
	emitStore(fn, iter, fn.emit(incr), pos)
	emitIf(fn, emitCompare(fn, token.LSS, incr, x, token.NoPos), body, done)
	fn.currentBlock = body

	if tk != nil {
		// Integer types (int, uint8, etc.) are named and
		// we know that k is assignable to x when tk != nil.
		// This implies tk and T are identical so no conversion is needed.
		k = emitLoad(fn, iter)
	}

	return
}

// rangeStmt emits to fn code for the range statement s, optionally
// labelled by label.
func (b *builder) rangeStmt(fn *Function, s *ast.RangeStmt, label *lblock) {
	var tk, tv types.Type
	if s.Key != nil && !isBlankIdent(s.Key) {
		tk = fn.typeOf(s.Key)
	}
	if s.Value != nil && !isBlankIdent(s.Value) {
		tv = fn.typeOf(s.Value)
	}

	// create locals for s.Key and s.Value.
	createVars := func() {
		// Unlike a short variable declaration, a RangeStmt
		// using := never redeclares an existing variable; it
		// always creates a new one.
		if tk != nil {
			emitLocalVar(fn, identVar(fn, s.Key.(*ast.Ident)))
		}
		if tv != nil {
			emitLocalVar(fn, identVar(fn, s.Value.(*ast.Ident)))
		}
	}

	afterGo122 := versions.AtLeast(fn.goversion, versions.Go1_22)
	if s.Tok == token.DEFINE && !afterGo122 {
		// pre-go1.22: If iteration variables are defined (:=), this
		// occurs once outside the loop.
		createVars()
	}

	x := b.expr(fn, s.X)

	var k, v Value
	var loop, done *BasicBlock
	switch rt := typeparams.CoreType(x.Type()).(type) {
	case *types.Slice, *types.Array, *types.Pointer: // *array
		k, v, loop, done = b.rangeIndexed(fn, x, tv, s.For)

	case *types.Chan:
		k, loop, done = b.rangeChan(fn, x, tk, s.For)

	case *types.Map:
		k, v, loop, done = b.rangeIter(fn, x, tk, tv, s.For)

	case *types.Basic:
		switch {
		case rt.Info()&types.IsString != 0:
			k, v, loop, done = b.rangeIter(fn, x, tk, tv, s.For)

		case rt.Info()&types.IsInteger != 0:
			k, loop, done = b.rangeInt(fn, x, tk, s.For)

		default:
			panic("Cannot range over basic type: " + rt.String())
		}

	case *types.Signature:
		// Special case rewrite (fn.goversion >= go1.23):
		// 	for x := range f { ... }
		// into
		// 	f(func(x T) bool { ... })
		b.rangeFunc(fn, x, tk, tv, s, label)
		return

	default:
		panic("Cannot range over: " + rt.String())
	}

	if s.Tok == token.DEFINE && afterGo122 {
		// go1.22: If iteration variables are defined (:=), this occurs inside the loop.
		createVars()
	}

	// Evaluate both LHS expressions before we update either.
	var kl, vl lvalue
	if tk != nil {
		kl = b.addr(fn, s.Key, false) // non-escaping
	}
	if tv != nil {
		vl = b.addr(fn, s.Value, false) // non-escaping
	}
	if tk != nil {
		kl.store(fn, k)
	}
	if tv != nil {
		vl.store(fn, v)
	}

	if label != nil {
		label._break = done
		label._continue = loop
	}

	fn.targets = &targets{
		tail:      fn.targets,
		_break:    done,
		_continue: loop,
	}
	b.stmt(fn, s.Body)
	fn.targets = fn.targets.tail
	emitJump(fn, loop) // back-edge
	fn.currentBlock = done
}

// rangeFunc emits to fn code for the range-over-func rng.Body of the iterator
// function x, optionally labelled by label. It creates a new anonymous function
// yield for rng and builds the function.
func (b *builder) rangeFunc(fn *Function, x Value, tk, tv types.Type, rng *ast.RangeStmt, label *lblock) {
	// Consider the SSA code for the outermost range-over-func in fn:
	//
	//   func fn(...) (ret R) {
	//     ...
	//     for k, v = range x {
	// 	     ...
	//     }
	//     ...
	//   }
	//
	// The code emitted into fn will look something like this.
	//
	// loop:
	//     jump := READY
	//     y := make closure yield [ret, deferstack, jump, k, v]
	//     x(y)
	//     switch jump {
	//        [see resuming execution]
	//     }
	//     goto done
	// done:
	//     ...
	//
	// where yield is a new synthetic yield function:
	//
	// func yield(_k tk, _v tv) bool
	//   free variables: [ret, stack, jump, k, v]
	// {
	//    entry:
	//      if jump != READY then goto invalid else valid
	//    invalid:
	//      panic("iterator called when it is not in a ready state")
	//    valid:
	//      jump = BUSY
	//      k = _k
	//      v = _v
	//    ...
	//    cont:
	//      jump = READY
	//      return true
	// }
	//
	// Yield state:
	//
	// Each range loop has an associated jump variable that records
	// the state of the iterator. A yield function is initially
	// in a READY (0) and callable state.  If the yield function is called
	// and is not in READY state, it panics. When it is called in a callable
	// state, it becomes BUSY. When execution reaches the end of the body
	// of the loop (or a continue statement targeting the loop is executed),
	// the yield function returns true and resumes being in a READY state.
	// After the iterator function x(y) returns, then if the yield function
	// is in a READY state, the yield enters the DONE state.
	//
	// Each lowered control statement (break X, continue X, goto Z, or return)
	// that exits the loop sets the variable to a unique positive EXIT value,
	// before returning false from the yield function.
	//
	// If the yield function returns abruptly due to a panic or GoExit,
	// it remains in a BUSY state. The generated code asserts that, after
	// the iterator call x(y) returns normally, the jump variable state
	// is DONE.
	//
	// Resuming execution:
	//
	// The code generated for the range statement checks the jump
	// variable to determine how to resume execution.
	//
	//    switch jump {
	//    case BUSY:  panic("...")
	//    case DONE:  goto done
	//    case READY: state = DONE; goto done
	//    case 123:   ... // action for exit 123.
	//    case 456:   ... // action for exit 456.
	//    ...
	//    }
	//
	// Forward goto statements within a yield are jumps to labels that
	// have not yet been traversed in fn. They may be in the Body of the
	// function. What we emit for these is:
	//
	//    goto target
	//  target:
	//    ...
	//
	// We leave an unresolved exit in yield.exits to check at the end
	// of building yield if it encountered target in the body. If it
	// encountered target, no additional work is required. Otherwise,
	// the yield emits a new early exit in the basic block for target.
	// We expect that blockopt will fuse the early exit into the case
	// block later. The unresolved exit is then added to yield.parent.exits.

	loop := fn.newBasicBlock("rangefunc.loop")
	done := fn.newBasicBlock("rangefunc.done")

	// These are targets within y.
	fn.targets = &targets{
		tail:   fn.targets,
		_break: done,
		// _continue is within y.
	}
	if label != nil {
		label._break = done
		// _continue is within y
	}

	emitJump(fn, loop)
	fn.currentBlock = loop

	// loop:
	//     jump := READY

	anonIdx := len(fn.AnonFuncs)

	jump := newVar(fmt.Sprintf("jump$%d", anonIdx+1), tInt)
	emitLocalVar(fn, jump) // zero value is READY

	xsig := typeparams.CoreType(x.Type()).(*types.Signature)
	ysig := typeparams.CoreType(xsig.Params().At(0).Type()).(*types.Signature)

	/* synthetic yield function for body of range-over-func loop */
	y := &Function{
		name:           fmt.Sprintf("%s$%d", fn.Name(), anonIdx+1),
		Signature:      ysig,
		Synthetic:      "range-over-func yield",
		pos:            rng.Range,
		parent:         fn,
		anonIdx:        int32(len(fn.AnonFuncs)),
		Pkg:            fn.Pkg,
		Prog:           fn.Prog,
		syntax:         rng,
		info:           fn.info,
		goversion:      fn.goversion,
		build:          (*builder).buildYieldFunc,
		topLevelOrigin: nil,
		typeparams:     fn.typeparams,
		typeargs:       fn.typeargs,
		subst:          fn.subst,
		jump:           jump,
		deferstack:     fn.deferstack,
		returnVars:     fn.returnVars, // use the parent's return variables
		uniq:           fn.uniq,       // start from parent's unique values
	}

	// If the RangeStmt has a label, this is how it is passed to buildYieldFunc.
	if label != nil {
		y.lblocks = map[*types.Label]*lblock{label.label: nil}
	}
	fn.AnonFuncs = append(fn.AnonFuncs, y)

	// Build y immediately. It may:
	// * cause fn's locals to escape, and
	// * create new exit nodes in exits.
	// (y is not marked 'built' until the end of the enclosing FuncDecl.)
	unresolved := len(fn.exits)
	y.build(b, y)
	fn.uniq = y.uniq // resume after y's unique values

	// Emit the call of y.
	//   c := MakeClosure y
	//   x(c)
	c := &MakeClosure{Fn: y}
	c.setType(ysig)
	for _, fv := range y.FreeVars {
		c.Bindings = append(c.Bindings, fv.outer)
		fv.outer = nil
	}
	fn.emit(c)
	call := Call{
		Call: CallCommon{
			Value: x,
			Args:  []Value{c},
			pos:   token.NoPos,
		},
	}
	call.setType(xsig.Results())
	fn.emit(&call)

	exits := fn.exits[unresolved:]
	b.buildYieldResume(fn, jump, exits, done)

	emitJump(fn, done)
	fn.currentBlock = done
	// pop the stack for the range-over-func
	fn.targets = fn.targets.tail
}

// buildYieldResume emits to fn code for how to resume execution once a call to
// the iterator function over the yield function returns x(y). It does this by building
// a switch over the value of jump for when it is READY, BUSY, or EXIT(id).
func (b *builder) buildYieldResume(fn *Function, jump *types.Var, exits []*exit, done *BasicBlock) {
	//    v := *jump
	//    switch v {
	//    case BUSY:    panic("...")
	//    case READY:   jump = DONE; goto done
	//    case EXIT(a): ...
	//    case EXIT(b): ...
	//    ...
	//    }
	v := emitLoad(fn, fn.lookup(jump, false))

	// case BUSY: panic("...")
	isbusy := fn.newBasicBlock("rangefunc.resume.busy")
	ifready := fn.newBasicBlock("rangefunc.resume.ready.check")
	emitIf(fn, emitCompare(fn, token.EQL, v, jBusy, token.NoPos), isbusy, ifready)
	fn.currentBlock = isbusy
	fn.emit(&Panic{
		X: emitConv(fn, stringConst("iterator call did not preserve panic"), tEface),
	})
	fn.currentBlock = ifready

	// case READY: jump = DONE; goto done
	isready := fn.newBasicBlock("rangefunc.resume.ready")
	ifexit := fn.newBasicBlock("rangefunc.resume.exits")
	emitIf(fn, emitCompare(fn, token.EQL, v, jReady, token.NoPos), isready, ifexit)
	fn.currentBlock = isready
	storeVar(fn, jump, jDone, token.NoPos)
	emitJump(fn, done)
	fn.currentBlock = ifexit

	for _, e := range exits {
		id := intConst(e.id)

		//  case EXIT(id): { /* do e */ }
		cond := emitCompare(fn, token.EQL, v, id, e.pos)
		matchb := fn.newBasicBlock("rangefunc.resume.match")
		cndb := fn.newBasicBlock("rangefunc.resume.cnd")
		emitIf(fn, cond, matchb, cndb)
		fn.currentBlock = matchb

		// Cases to fill in the { /* do e */ } bit.
		switch {
		case e.label != nil: // forward goto?
			// case EXIT(id): goto lb // label
			lb := fn.lblockOf(e.label)
			// Do not mark lb as resolved.
			// If fn does not contain label, lb remains unresolved and
			// fn must itself be a range-over-func function. lb will be:
			//   lb:
			//     fn.jump = id
			//     return false
			emitJump(fn, lb._goto)

		case e.to != fn: // e jumps to an ancestor of fn?
			// case EXIT(id): { fn.jump = id; return false }
			// fn is a range-over-func function.
			storeVar(fn, fn.jump, id, token.NoPos)
			fn.emit(&Return{Results: []Value{vFalse}, pos: e.pos})

		case e.block == nil && e.label == nil: // return from fn?
			// case EXIT(id): { return ... }
			fn.emit(new(RunDefers))
			results := make([]Value, len(fn.results))
			for i, r := range fn.results {
				results[i] = emitLoad(fn, r)
			}
			fn.emit(&Return{Results: results, pos: e.pos})

		case e.block != nil:
			// case EXIT(id): goto block
			emitJump(fn, e.block)

		default:
			panic("unreachable")
		}
		fn.currentBlock = cndb
	}
}

// stmt lowers statement s to SSA form, emitting code to fn.
func (b *builder) stmt(fn *Function, _s ast.Stmt) {
	// The label of the current statement.  If non-nil, its _goto
	// target is always set; its _break and _continue are set only
	// within the body of switch/typeswitch/select/for/range.
	// It is effectively an additional default-nil parameter of stmt().
	var label *lblock
start:
	switch s := _s.(type) {
	case *ast.EmptyStmt:
		// ignore.  (Usually removed by gofmt.)

	case *ast.DeclStmt: // Con, Var or Typ
		d := s.Decl.(*ast.GenDecl)
		if d.Tok == token.VAR {
			for _, spec := range d.Specs {
				if vs, ok := spec.(*ast.ValueSpec); ok {
					b.localValueSpec(fn, vs)
				}
			}
		}

	case *ast.LabeledStmt:
		if s.Label.Name == "_" {
			// Blank labels can't be the target of a goto, break,
			// or continue statement, so we don't need a new block.
			_s = s.Stmt
			goto start
		}
		label = fn.lblockOf(fn.label(s.Label))
		label.resolved = true
		emitJump(fn, label._goto)
		fn.currentBlock = label._goto
		_s = s.Stmt
		goto start // effectively: tailcall stmt(fn, s.Stmt, label)

	case *ast.ExprStmt:
		b.expr(fn, s.X)

	case *ast.SendStmt:
		chtyp := typeparams.CoreType(fn.typeOf(s.Chan)).(*types.Chan)
		fn.emit(&Send{
			Chan: b.expr(fn, s.Chan),
			X:    emitConv(fn, b.expr(fn, s.Value), chtyp.Elem()),
			pos:  s.Arrow,
		})

	case *ast.IncDecStmt:
		op := token.ADD
		if s.Tok == token.DEC {
			op = token.SUB
		}
		loc := b.addr(fn, s.X, false)
		b.assignOp(fn, loc, NewConst(constant.MakeInt64(1), loc.typ()), op, s.Pos())

	case *ast.AssignStmt:
		switch s.Tok {
		case token.ASSIGN, token.DEFINE:
			b.assignStmt(fn, s.Lhs, s.Rhs, s.Tok == token.DEFINE)

		default: // +=, etc.
			op := s.Tok + token.ADD - token.ADD_ASSIGN
			b.assignOp(fn, b.addr(fn, s.Lhs[0], false), b.expr(fn, s.Rhs[0]), op, s.Pos())
		}

	case *ast.GoStmt:
		// The "intrinsics" new/make/len/cap are forbidden here.
		// panic is treated like an ordinary function call.
		v := Go{pos: s.Go}
		b.setCall(fn, s.Call, &v.Call)
		fn.emit(&v)

	case *ast.DeferStmt:
		// The "intrinsics" new/make/len/cap are forbidden here.
		// panic is treated like an ordinary function call.
		deferstack := emitLoad(fn, fn.lookup(fn.deferstack, false))
		v := Defer{pos: s.Defer, DeferStack: deferstack}
		b.setCall(fn, s.Call, &v.Call)
		fn.emit(&v)

		// A deferred call can cause recovery from panic,
		// and control resumes at the Recover block.
		createRecoverBlock(fn.source)

	case *ast.ReturnStmt:
		b.returnStmt(fn, s)

	case *ast.BranchStmt:
		b.branchStmt(fn, s)

	case *ast.BlockStmt:
		b.stmtList(fn, s.List)

	case *ast.IfStmt:
		if s.Init != nil {
			b.stmt(fn, s.Init)
		}
		then := fn.newBasicBlock("if.then")
		done := fn.newBasicBlock("if.done")
		els := done
		if s.Else != nil {
			els = fn.newBasicBlock("if.else")
		}
		b.cond(fn, s.Cond, then, els)
		fn.currentBlock = then
		b.stmt(fn, s.Body)
		emitJump(fn, done)

		if s.Else != nil {
			fn.currentBlock = els
			b.stmt(fn, s.Else)
			emitJump(fn, done)
		}

		fn.currentBlock = done

	case *ast.SwitchStmt:
		b.switchStmt(fn, s, label)

	case *ast.TypeSwitchStmt:
		b.typeSwitchStmt(fn, s, label)

	case *ast.SelectStmt:
		b.selectStmt(fn, s, label)

	case *ast.ForStmt:
		b.forStmt(fn, s, label)

	case *ast.RangeStmt:
		b.rangeStmt(fn, s, label)

	default:
		panic(fmt.Sprintf("unexpected statement kind: %T", s))
	}
}

func (b *builder) branchStmt(fn *Function, s *ast.BranchStmt) {
	var block *BasicBlock
	if s.Label == nil {
		block = targetedBlock(fn, s.Tok)
	} else {
		target := fn.label(s.Label)
		block = labelledBlock(fn, target, s.Tok)
		if block == nil { // forward goto
			lb := fn.lblockOf(target)
			block = lb._goto // jump to lb._goto
			if fn.jump != nil {
				// fn is a range-over-func and the goto may exit fn.
				// Create an exit and resolve it at the end of
				// builder.buildYieldFunc.
				labelExit(fn, target, s.Pos())
			}
		}
	}
	to := block.parent

	if to == fn {
		emitJump(fn, block)
	} else { // break outside of fn.
		// fn must be a range-over-func
		e := blockExit(fn, block, s.Pos())
		storeVar(fn, fn.jump, intConst(e.id), e.pos)
		fn.emit(&Return{Results: []Value{vFalse}, pos: e.pos})
	}
	fn.currentBlock = fn.newBasicBlock("unreachable")
}

func (b *builder) returnStmt(fn *Function, s *ast.ReturnStmt) {
	var results []Value

	sig := fn.source.Signature // signature of the enclosing source function

	// Convert return operands to result type.
	if len(s.Results) == 1 && sig.Results().Len() > 1 {
		// Return of one expression in a multi-valued function.
		tuple := b.exprN(fn, s.Results[0])
		ttuple := tuple.Type().(*types.Tuple)
		for i, n := 0, ttuple.Len(); i < n; i++ {
			results = append(results,
				emitConv(fn, emitExtract(fn, tuple, i),
					sig.Results().At(i).Type()))
		}
	} else {
		// 1:1 return, or no-arg return in non-void function.
		for i, r := range s.Results {
			v := emitConv(fn, b.expr(fn, r), sig.Results().At(i).Type())
			results = append(results, v)
		}
	}

	// Store the results.
	for i, r := range results {
		var result Value // fn.source.result[i] conceptually
		if fn == fn.source {
			result = fn.results[i]
		} else { // lookup needed?
			result = fn.lookup(fn.returnVars[i], false)
		}
		emitStore(fn, result, r, s.Return)
	}

	if fn.jump != nil {
		// Return from body of a range-over-func.
		// The return statement is syntactically within the loop,
		// but the generated code is in the 'switch jump {...}' after it.
		e := returnExit(fn, s.Pos())
		storeVar(fn, fn.jump, intConst(e.id), e.pos)
		fn.emit(&Return{Results: []Value{vFalse}, pos: e.pos})
		fn.currentBlock = fn.newBasicBlock("unreachable")
		return
	}

	// Run function calls deferred in this
	// function when explicitly returning from it.
	fn.emit(new(RunDefers))
	// Reload (potentially) named result variables to form the result tuple.
	results = results[:0]
	for _, nr := range fn.results {
		results = append(results, emitLoad(fn, nr))
	}
	fn.emit(&Return{Results: results, pos: s.Return})
	fn.currentBlock = fn.newBasicBlock("unreachable")
}

// A buildFunc is a strategy for building the SSA body for a function.
type buildFunc = func(*builder, *Function)

// iterate causes all created but unbuilt functions to be built. As
// this may create new methods, the process is iterated until it
// converges.
//
// Waits for any dependencies to finish building.
func (b *builder) iterate() {
	for ; b.finished < len(b.fns); b.finished++ {
		fn := b.fns[b.finished]
		b.buildFunction(fn)
	}

	b.buildshared.markDone()
	b.buildshared.wait()
}

// buildFunction builds SSA code for the body of function fn.  Idempotent.
func (b *builder) buildFunction(fn *Function) {
	if fn.build != nil {
		assert(fn.parent == nil, "anonymous functions should not be built by buildFunction()")

		if fn.Prog.mode&LogSource != 0 {
			defer logStack("build %s @ %s", fn, fn.Prog.Fset.Position(fn.pos))()
		}
		fn.build(b, fn)
		fn.done()
	}
}

// buildParamsOnly builds fn.Params from fn.Signature, but does not build fn.Body.
func (b *builder) buildParamsOnly(fn *Function) {
	// For external (C, asm) functions or functions loaded from
	// export data, we must set fn.Params even though there is no
	// body code to reference them.
	if recv := fn.Signature.Recv(); recv != nil {
		fn.addParamVar(recv)
	}
	params := fn.Signature.Params()
	for i, n := 0, params.Len(); i < n; i++ {
		fn.addParamVar(params.At(i))
	}
}

// buildFromSyntax builds fn.Body from fn.syntax, which must be non-nil.
func (b *builder) buildFromSyntax(fn *Function) {
	var (
		recvField *ast.FieldList
		body      *ast.BlockStmt
		functype  *ast.FuncType
	)
	switch syntax := fn.syntax.(type) {
	case *ast.FuncDecl:
		functype = syntax.Type
		recvField = syntax.Recv
		body = syntax.Body
		if body == nil {
			b.buildParamsOnly(fn) // no body (non-Go function)
			return
		}
	case *ast.FuncLit:
		functype = syntax.Type
		body = syntax.Body
	case nil:
		panic("no syntax")
	default:
		panic(syntax) // unexpected syntax
	}
	fn.source = fn
	fn.startBody()
	fn.createSyntacticParams(recvField, functype)
	fn.createDeferStack()
	b.stmt(fn, body)
	if cb := fn.currentBlock; cb != nil && (cb == fn.Blocks[0] || cb == fn.Recover || cb.Preds != nil) {
		// Control fell off the end of the function's body block.
		//
		// Block optimizations eliminate the current block, if
		// unreachable.  It is a builder invariant that
		// if this no-arg return is ill-typed for
		// fn.Signature.Results, this block must be
		// unreachable.  The sanity checker checks this.
		fn.emit(new(RunDefers))
		fn.emit(new(Return))
	}
	fn.finishBody()
}

// buildYieldFunc builds the body of the yield function created
// from a range-over-func *ast.RangeStmt.
func (b *builder) buildYieldFunc(fn *Function) {
	// See builder.rangeFunc for detailed documentation on how fn is set up.
	//
	// In pseudo-Go this roughly builds:
	// func yield(_k tk, _v tv) bool {
	// 	   if jump != READY { panic("yield function called after range loop exit") }
	//     jump = BUSY
	//     k, v = _k, _v // assign the iterator variable (if needed)
	//     ... // rng.Body
	//   continue:
	//     jump = READY
	//     return true
	// }
	s := fn.syntax.(*ast.RangeStmt)
	fn.source = fn.parent.source
	fn.startBody()
	params := fn.Signature.Params()
	for i := 0; i < params.Len(); i++ {
		fn.addParamVar(params.At(i))
	}

	// Initial targets
	ycont := fn.newBasicBlock("yield-continue")
	// lblocks is either {} or is {label: nil} where label is the label of syntax.
	for label := range fn.lblocks {
		fn.lblocks[label] = &lblock{
			label:     label,
			resolved:  true,
			_goto:     ycont,
			_continue: ycont,
			// `break label` statement targets fn.parent.targets._break
		}
	}
	fn.targets = &targets{
		tail:      fn.targets,
		_continue: ycont,
		// `break` statement targets fn.parent.targets._break.
	}

	// continue:
	//   jump = READY
	//   return true
	saved := fn.currentBlock
	fn.currentBlock = ycont
	storeVar(fn, fn.jump, jReady, s.Body.Rbrace)
	// A yield function's own deferstack is always empty, so rundefers is not needed.
	fn.emit(&Return{Results: []Value{vTrue}, pos: token.NoPos})

	// Emit header:
	//
	//   if jump != READY { panic("yield iterator accessed after exit") }
	//   jump = BUSY
	//   k, v = _k, _v
	fn.currentBlock = saved
	yloop := fn.newBasicBlock("yield-loop")
	invalid := fn.newBasicBlock("yield-invalid")

	jumpVal := emitLoad(fn, fn.lookup(fn.jump, true))
	emitIf(fn, emitCompare(fn, token.EQL, jumpVal, jReady, token.NoPos), yloop, invalid)
	fn.currentBlock = invalid
	fn.emit(&Panic{
		X: emitConv(fn, stringConst("yield function called after range loop exit"), tEface),
	})

	fn.currentBlock = yloop
	storeVar(fn, fn.jump, jBusy, s.Body.Rbrace)

	// Initialize k and v from params.
	var tk, tv types.Type
	if s.Key != nil && !isBlankIdent(s.Key) {
		tk = fn.typeOf(s.Key) // fn.parent.typeOf is identical
	}
	if s.Value != nil && !isBlankIdent(s.Value) {
		tv = fn.typeOf(s.Value)
	}
	if s.Tok == token.DEFINE {
		if tk != nil {
			emitLocalVar(fn, identVar(fn, s.Key.(*ast.Ident)))
		}
		if tv != nil {
			emitLocalVar(fn, identVar(fn, s.Value.(*ast.Ident)))
		}
	}
	var k, v Value
	if len(fn.Params) > 0 {
		k = fn.Params[0]
	}
	if len(fn.Params) > 1 {
		v = fn.Params[1]
	}
	var kl, vl lvalue
	if tk != nil {
		kl = b.addr(fn, s.Key, false) // non-escaping
	}
	if tv != nil {
		vl = b.addr(fn, s.Value, false) // non-escaping
	}
	if tk != nil {
		kl.store(fn, k)
	}
	if tv != nil {
		vl.store(fn, v)
	}

	// Build the body of the range loop.
	b.stmt(fn, s.Body)
	if cb := fn.currentBlock; cb != nil && (cb == fn.Blocks[0] || cb == fn.Recover || cb.Preds != nil) {
		// Control fell off the end of the function's body block.
		// Block optimizations eliminate the current block, if
		// unreachable.
		emitJump(fn, ycont)
	}
	// pop the stack for the yield function
	fn.targets = fn.targets.tail

	// Clean up exits and promote any unresolved exits to fn.parent.
	for _, e := range fn.exits {
		if e.label != nil {
			lb := fn.lblocks[e.label]
			if lb.resolved {
				// label was resolved. Do not turn lb into an exit.
				// e does not need to be handled by the parent.
				continue
			}

			// _goto becomes an exit.
			//   _goto:
			//     jump = id
			//     return false
			fn.currentBlock = lb._goto
			id := intConst(e.id)
			storeVar(fn, fn.jump, id, e.pos)
			fn.emit(&Return{Results: []Value{vFalse}, pos: e.pos})
		}

		if e.to != fn { // e needs to be handled by the parent too.
			fn.parent.exits = append(fn.parent.exits, e)
		}
	}

	fn.finishBody()
}

// addMakeInterfaceType records non-interface type t as the type of
// the operand a MakeInterface operation, for [Program.RuntimeTypes].
//
// Acquires prog.makeInterfaceTypesMu.
func addMakeInterfaceType(prog *Program, t types.Type) {
	prog.makeInterfaceTypesMu.Lock()
	defer prog.makeInterfaceTypesMu.Unlock()
	if prog.makeInterfaceTypes == nil {
		prog.makeInterfaceTypes = make(map[types.Type]unit)
	}
	prog.makeInterfaceTypes[t] = unit{}
}

// Build calls Package.Build for each package in prog.
// Building occurs in parallel unless the BuildSerially mode flag was set.
//
// Build is intended for whole-program analysis; a typical compiler
// need only build a single package.
//
// Build is idempotent and thread-safe.
func (prog *Program) Build() {
	var wg sync.WaitGroup
	for _, p := range prog.packages {
		if prog.mode&BuildSerially != 0 {
			p.Build()
		} else {
			wg.Add(1)
			cpuLimit <- unit{} // acquire a token
			go func(p *Package) {
				p.Build()
				wg.Done()
				<-cpuLimit // release a token
			}(p)
		}
	}
	wg.Wait()
}

// cpuLimit is a counting semaphore to limit CPU parallelism.
var cpuLimit = make(chan unit, runtime.GOMAXPROCS(0))

// Build builds SSA code for all functions and vars in package p.
//
// CreatePackage must have been called for all of p's direct imports
// (and hence its direct imports must have been error-free). It is not
// necessary to call CreatePackage for indirect dependencies.
// Functions will be created for all necessary methods in those
// packages on demand.
//
// Build is idempotent and thread-safe.
func (p *Package) Build() { p.buildOnce.Do(p.build) }

func (p *Package) build() {
	if p.info == nil {
		return // synthetic package, e.g. "testmain"
	}
	if p.Prog.mode&LogSource != 0 {
		defer logStack("build %s", p)()
	}

	b := builder{fns: p.created}
	b.iterate()

	// We no longer need transient information: ASTs or go/types deductions.
	p.info = nil
	p.created = nil
	p.files = nil
	p.initVersion = nil

	if p.Prog.mode&SanityCheckFunctions != 0 {
		sanityCheckPackage(p)
	}
}

// buildPackageInit builds fn.Body for the synthetic package initializer.
func (b *builder) buildPackageInit(fn *Function) {
	p := fn.Pkg
	fn.startBody()

	var done *BasicBlock

	if p.Prog.mode&BareInits == 0 {
		// Make init() skip if package is already initialized.
		initguard := p.Var("init$guard")
		doinit := fn.newBasicBlock("init.start")
		done = fn.newBasicBlock("init.done")
		emitIf(fn, emitLoad(fn, initguard), done, doinit)
		fn.currentBlock = doinit
		emitStore(fn, initguard, vTrue, token.NoPos)

		// Call the init() function of each package we import.
		for _, pkg := range p.Pkg.Imports() {
			prereq := p.Prog.packages[pkg]
			if prereq == nil {
				panic(fmt.Sprintf("Package(%q).Build(): unsatisfied import: Program.CreatePackage(%q) was not called", p.Pkg.Path(), pkg.Path()))
			}
			var v Call
			v.Call.Value = prereq.init
			v.Call.pos = fn.pos
			v.setType(types.NewTuple())
			fn.emit(&v)
		}
	}

	// Initialize package-level vars in correct order.
	if len(p.info.InitOrder) > 0 && len(p.files) == 0 {
		panic("no source files provided for package. cannot initialize globals")
	}

	for _, varinit := range p.info.InitOrder {
		if fn.Prog.mode&LogSource != 0 {
			fmt.Fprintf(os.Stderr, "build global initializer %v @ %s\n",
				varinit.Lhs, p.Prog.Fset.Position(varinit.Rhs.Pos()))
		}
		// Initializers for global vars are evaluated in dependency
		// order, but may come from arbitrary files of the package
		// with different versions, so we transiently update
		// fn.goversion for each one. (Since init is a synthetic
		// function it has no syntax of its own that needs a version.)
		fn.goversion = p.initVersion[varinit.Rhs]
		if len(varinit.Lhs) == 1 {
			// 1:1 initialization: var x, y = a(), b()
			var lval lvalue
			if v := varinit.Lhs[0]; v.Name() != "_" {
				lval = &address{addr: p.objects[v].(*Global), pos: v.Pos()}
			} else {
				lval = blank{}
			}
			b.assign(fn, lval, varinit.Rhs, true, nil)
		} else {
			// n:1 initialization: var x, y :=  f()
			tuple := b.exprN(fn, varinit.Rhs)
			for i, v := range varinit.Lhs {
				if v.Name() == "_" {
					continue
				}
				emitStore(fn, p.objects[v].(*Global), emitExtract(fn, tuple, i), v.Pos())
			}
		}
	}

	// The rest of the init function is synthetic:
	// no syntax, info, goversion.
	fn.info = nil
	fn.goversion = ""

	// Call all of the declared init() functions in source order.
	for _, file := range p.files {
		for _, decl := range file.Decls {
			if decl, ok := decl.(*ast.FuncDecl); ok {
				id := decl.Name
				if !isBlankIdent(id) && id.Name == "init" && decl.Recv == nil {
					declaredInit := p.objects[p.info.Defs[id]].(*Function)
					var v Call
					v.Call.Value = declaredInit
					v.setType(types.NewTuple())
					p.init.emit(&v)
				}
			}
		}
	}

	// Finish up init().
	if p.Prog.mode&BareInits == 0 {
		emitJump(fn, done)
		fn.currentBlock = done
	}
	fn.emit(new(Return))
	fn.finishBody()
}
