// Copyright 2024 The Go Authors. All rights reserved.
// Use of this source code is governed by a BSD-style
// license that can be found in the LICENSE file.

package ssa

import (
	"sync/atomic"
)

// Each task has two states: it is initially "active",
// and transitions to "done".
//
// tasks form a directed graph. An edge from x to y (with y in x.edges)
// indicates that the task x waits on the task y to be done.
// Cycles are permitted.
//
// Calling x.wait() blocks the calling goroutine until task x,
// and all the tasks transitively reachable from x are done.
//
// The nil *task is always considered done.
type task struct {
	done       chan unit      // close when the task is done.
	edges      map[*task]unit // set of predecessors of this task.
	transitive atomic.Bool    // true once it is known all predecessors are done.
}

func (x *task) isTransitivelyDone() bool { return x == nil || x.transitive.Load() }

// addEdge creates an edge from x to y, indicating that
// x.wait() will not return before y is done.
// All calls to x.addEdge(...) should happen before x.markDone().
func (x *task) addEdge(y *task) {
	if x == y || y.isTransitivelyDone() {
		return // no work remaining
	}

	// heuristic done check
	select {
	case <-x.done:
		panic("cannot add an edge to a done task")
	default:
	}

	if x.edges == nil {
		x.edges = make(map[*task]unit)
	}
	x.edges[y] = unit{}
}

// markDone changes the task's state to markDone.
func (x *task) markDone() {
	if x != nil {
		close(x.done)
	}
}

// wait blocks until x and all the tasks it can reach through edges are done.
func (x *task) wait() {
	if x.isTransitivelyDone() {
		return // already known to be done. Skip allocations.
	}

	// Use BFS to wait on u.done to be closed, for all u transitively
	// reachable from x via edges.
	//
	// This work can be repeated by multiple workers doing wait().
	//
	// Note: Tarjan's SCC algorithm is able to mark SCCs as transitively done
	// as soon as the SCC has been visited. This is theoretically faster, but is
	// a more complex algorithm. Until we have evidence, we need the more complex
	// algorithm, the simpler algorithm BFS is implemented.
	//
	// In Go 1.23, ssa/TestStdlib reaches <=3 *tasks per wait() in most schedules
	// On some schedules, there is a cycle building net/http and internal/trace/testtrace
	// due to slices functions.
	work := []*task{x}
	enqueued := map[*task]unit{x: {}}
	for i := 0; i < len(work); i++ {
		u := work[i]
		if u.isTransitivelyDone() { // already transitively done
			work[i] = nil
			continue
		}
		<-u.done // wait for u to be marked done.

		for v := range u.edges {
			if _, ok := enqueued[v]; !ok {
				enqueued[v] = unit{}
				work = append(work, v)
			}
		}
	}

	// work is transitively closed over dependencies.
	// u in work is done (or transitively done and skipped).
	// u is transitively done.
	for _, u := range work {
		if u != nil {
			x.transitive.Store(true)
		}
	}
}
