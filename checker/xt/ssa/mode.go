// Copyright 2015 The Go Authors. All rights reserved.
// Use of this source code is governed by a BSD-style
// license that can be found in the LICENSE file.

package ssa

// This file defines the BuilderMode type and its command-line flag.

import (
	"bytes"
	"fmt"
)

// BuilderMode is a bitmask of options for diagnostics and checking.
//
// *BuilderMode satisfies the flag.Value interface.  Example:
//
//	var mode = ssa.BuilderMode(0)
//	func init() { flag.Var(&mode, "build", ssa.BuilderModeDoc) }
type BuilderMode uint

const (
	PrintPackages        BuilderMode = 1 << iota // Print package inventory to stdout
	PrintFunctions                               // Print function SSA code to stdout
	LogSource                                    // Log source locations as SSA builder progresses
	SanityCheckFunctions                         // Perform sanity checking of function bodies
	NaiveForm                                    // Build naïve SSA form: don't replace local loads/stores with registers
	BuildSerially                                // Build packages serially, not in parallel.
	GlobalDebug                                  // Enable debug info for all packages
	BareInits                                    // Build init functions without guards or calls to dependent inits
	InstantiateGenerics                          // Instantiate generics functions (monomorphize) while building
)

const BuilderModeDoc = `Options controlling the SSA builder.
The value is a sequence of zero or more of these letters:
C	perform sanity [C]hecking of the SSA form.
D	include [D]ebug info for every function.
P	print [P]ackage inventory.
F	print [F]unction SSA code.
S	log [S]ource locations as SSA builder progresses.
L	build distinct packages seria[L]ly instead of in parallel.
N	build [N]aive SSA form: don't replace local loads/stores with registers.
I	build bare [I]nit functions: no init guards or calls to dependent inits.
G   instantiate [G]eneric function bodies via monomorphization
`

func (m BuilderMode) String() string {
	var buf bytes.Buffer
	if m&GlobalDebug != 0 {
		buf.WriteByte('D')
	}
	if m&PrintPackages != 0 {
		buf.WriteByte('P')
	}
	if m&PrintFunctions != 0 {
		buf.WriteByte('F')
	}
	if m&LogSource != 0 {
		buf.WriteByte('S')
	}
	if m&SanityCheckFunctions != 0 {
		buf.WriteByte('C')
	}
	if m&NaiveForm != 0 {
		buf.WriteByte('N')
	}
	if m&BuildSerially != 0 {
		buf.WriteByte('L')
	}
	if m&BareInits != 0 {
		buf.WriteByte('I')
	}
	if m&InstantiateGenerics != 0 {
		buf.WriteByte('G')
	}
	return buf.String()
}

// Set parses the flag characters in s and updates *m.
func (m *BuilderMode) Set(s string) error {
	var mode BuilderMode
	for _, c := range s {
		switch c {
		case 'D':
			mode |= GlobalDebug
		case 'P':
			mode |= PrintPackages
		case 'F':
			mode |= PrintFunctions
		case 'S':
			mode |= LogSource | BuildSerially
		case 'C':
			mode |= SanityCheckFunctions
		case 'N':
			mode |= NaiveForm
		case 'L':
			mode |= BuildSerially
		case 'I':
			mode |= BareInits
		case 'G':
			mode |= InstantiateGenerics
		default:
			return fmt.Errorf("unknown BuilderMode option: %q", c)
		}
	}
	*m = mode
	return nil
}

// Get returns m.
func (m BuilderMode) Get() interface{} { return m }
