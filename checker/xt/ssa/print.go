// Copyright 2013 The Go Authors. All rights reserved.
// Use of this source code is governed by a BSD-style
// license that can be found in the LICENSE file.

package ssa

// This file implements the String() methods for all Value and
// Instruction types.

import (
	"bytes"
	"fmt"
	"go/types"
	"io"
	"reflect"
	"sort"
	"strings"

	"golang.org/x/tools/go/types/typeutil"
	"ikeverif/checker/xt/typeparams"
)

// relName returns the name of v relative to i.
// In most cases, this is identical to v.Name(), but references to
// Functions (including methods) and Globals use RelString and
// all types are displayed with relType, so that only cross-package
// references are package-qualified.
func relName(v Value, i Instruction) string {
	var from *types.Package
	if i != nil {
		from = i.Parent().relPkg()
	}
	switch v := v.(type) {
	case Member: // *Function or *Global
		return v.RelString(from)
	case *Const:
		return v.RelString(from)
	}
	return v.Name()
}

func relType(t types.Type, from *types.Package) string {
	return types.TypeString(t, types.RelativeTo(from))
}

func relTerm(term *types.Term, from *types.Package) string {
	s := relType(term.Type(), from)
	if term.Tilde() {
		return "~" + s
	}
	return s
}

func relString(m Member, from *types.Package) string {
	// NB: not all globals have an Object (e.g. init$guard),
	// so use Package().Object not Object.Package().
	if pkg := m.Package().Pkg; pkg != nil && pkg != from {
		return fmt.Sprintf("%s.%s", pkg.Path(), m.Name())
	}
	return m.Name()
}

// Value.String()
//
// This method is provided only for debugging.
// It never appears in disassembly, which uses Value.Name().

func (v *Parameter) String() string {
	from := v.Parent().relPkg()
	return fmt.Sprintf("parameter %s : %s", v.Name(), relType(v.Type(), from))
}

func (v *FreeVar) String() string {
	from := v.Parent().relPkg()
	return fmt.Sprintf("freevar %s : %s", v.Name(), relType(v.Type(), from))
}

func (v *Builtin) String() string {
	return fmt.Sprintf("builtin %s", v.Name())
}

// Instruction.String()

func (v *Alloc) String() string {
	op := "local"
	if v.Heap {
		op = "new"
	}
	from := v.Parent().relPkg()
	return fmt.Sprintf("%s %s (%s)", op, relType(typeparams.MustDeref(v.Type()), from), v.Comment)
}

func (v *Phi) String() string {
	var b bytes.Buffer
	b.WriteString("phi [")
	for i, edge := range v.Edges {
		if i > 0 {
			b.WriteString(", ")
		}
		// Be robust against malformed CFG.
		if v.block == nil {
			b.WriteString("??")
			continue
		}
		block := -1
		if i < len(v.block.Preds) {
			block = v.block.Preds[i].Index
		}
		fmt.Fprintf(&b, "%d: ", block)
		edgeVal := "<nil>" // be robust
		if edge != nil {
			edgeVal = relName(edge, v)
		}
		b.WriteString(edgeVal)
	}
	b.WriteString("]")
	if v.Comment != "" {
		b.WriteString(" #")
		b.WriteString(v.Comment)
	}
	return b.String()
}

func printCall(v *CallCommon, prefix string, instr Instruction) string {
	var b bytes.Buffer
	b.WriteString(prefix)
	if !v.IsInvoke() {
		b.WriteString(relName(v.Value, instr))
	} else {
		fmt.Fprintf(&b, "invoke %s.%s", relName(v.Value, instr), v.Method.Name())
	}
	b.WriteString("(")
	for i, arg := range v.Args {
		if i > 0 {
			b.WriteString(", ")
		}
		b.WriteString(relName(arg, instr))
	}
	if v.Signature().Variadic() {
		b.WriteString("...")
	}
	b.WriteString(")")
	return b.String()
}

func (c *CallCommon) String() string {
	return printCall(c, "", nil)
}

func (v *Call) String() string {
	return printCall(&v.Call, "", v)
}

func (v *BinOp) String() string {
	return fmt.Sprintf("%s %s %s", relName(v.X, v), v.Op.String(), relName(v.Y, v))
}

func (v *UnOp) String() string {
	return fmt.Sprintf("%s%s%s", v.Op, relName(v.X, v), commaOk(v.CommaOk))
}

func printConv(prefix string, v, x Value) string {
	from := v.Parent().relPkg()
	return fmt.Sprintf("%s %s <- %s (%s)",
		prefix,
		relType(v.Type(), from),
		relType(x.Type(), from),
		relName(x, v.(Instruction)))
}

func (v *ChangeType) String() string          { return printConv("changetype", v, v.X) }
func (v *Convert) String() string             { return printConv("convert", v, v.X) }
func (v *ChangeInterface) String() string     { return printConv("change interface", v, v.X) }
func (v *SliceToArrayPointer) String() string { return printConv("slice to array pointer", v, v.X) }
func (v *MakeInterface) String() string       { return printConv("make", v, v.X) }

func (v *MultiConvert) String() string {
	from := v.Parent().relPkg()

	var b strings.Builder
	b.WriteString(printConv("multiconvert", v, v.X))
	b.WriteString(" [")
	for i, s := range v.from {
		for j, d := range v.to {
			if i != 0 || j != 0 {
				b.WriteString(" | ")
			}
			fmt.Fprintf(&b, "%s <- %s", relTerm(d, from), relTerm(s, from))
		}
	}
	b.WriteString("]")
	return b.String()
}

func (v *MakeClosure) String() string {
	var b bytes.Buffer
	fmt.Fprintf(&b, "make closure %s", relName(v.Fn, v))
	if v.Bindings != nil {
		b.WriteString(" [")
		for i, c := range v.Bindings {
			if i > 0 {
				b.WriteString(", ")
			}
			b.WriteString(relName(c, v))
		}
		b.WriteString("]")
	}
	return b.String()
}

func (v *MakeSlice) String() string {
	from := v.Parent().relPkg()
	return fmt.Sprintf("make %s %s %s",
		relType(v.Type(), from),
		relName(v.Len, v),
		relName(v.Cap, v))
}

func (v *Slice) String() string {
	var b bytes.Buffer
	b.WriteString("slice ")
	b.WriteString(relName(v.X, v))
	b.WriteString("[")
	if v.Low != nil {
		b.WriteString(relName(v.Low, v))
	}
	b.WriteString(":")
	if v.High != nil {
		b.WriteString(relName(v.High, v))
	}
	if v.Max != nil {
		b.WriteString(":")
		b.WriteString(relName(v.Max, v))
	}
	b.WriteString("]")
	return b.String()
}

func (v *MakeMap) String() string {
	res := ""
	if v.Reserve != nil {
		res = relName(v.Reserve, v)
	}
	from := v.Parent().relPkg()
	return fmt.Sprintf("make %s %s", relType(v.Type(), from), res)
}

func (v *MakeChan) String() string {
	from := v.Parent().relPkg()
	return fmt.Sprintf("make %s %s", relType(v.Type(), from), relName(v.Size, v))
}

func (v *FieldAddr) String() string {
	// Be robust against a bad index.
	name := "?"
	if fld := fieldOf(typeparams.MustDeref(v.X.Type()), v.Field); fld != nil {
		name = fld.Name()
	}
	return fmt.Sprintf("&%s.%s [#%d]", relName(v.X, v), name, v.Field)
}

func (v *Field) String() string {
	// Be robust against a bad index.
	name := "?"
	if fld := fieldOf(v.X.Type(), v.Field); fld != nil {
		name = fld.Name()
	}
	return fmt.Sprintf("%s.%s [#%d]", relName(v.X, v), name, v.Field)
}

func (v *IndexAddr) String() string {
	return fmt.Sprintf("&%s[%s]", relName(v.X, v), relName(v.Index, v))
}

func (v *Index) String() string {
	return fmt.Sprintf("%s[%s]", relName(v.X, v), relName(v.Index, v))
}

func (v *Lookup) String() string {
	return fmt.Sprintf("%s[%s]%s", relName(v.X, v), relName(v.Index, v), commaOk(v.CommaOk))
}

func (v *Range) String() string {
	return "range " + relName(v.X, v)
}

func (v *Next) String() string {
	return "next " + relName(v.Iter, v)
}

func (v *TypeAssert) String() string {
	from := v.Parent().relPkg()
	return fmt.Sprintf("typeassert%s %s.(%s)", commaOk(v.CommaOk), relName(v.X, v), relType(v.AssertedType, from))
}

func (v *Extract) String() string {
	return fmt.Sprintf("extract %s #%d", relName(v.Tuple, v), v.Index)
}

func (s *Jump) String() string {
	// Be robust against malformed CFG.
	block := -1
	if s.block != nil && len(s.block.Succs) == 1 {
		block = s.block.Succs[0].Index
	}
	return fmt.Sprintf("jump %d", block)
}

func (s *If) String() string {
	// Be robust against malformed CFG.
	tblock, fblock := -1, -1
	if s.block != nil && len(s.block.Succs) == 2 {
		tblock = s.block.Succs[0].Index
		fblock = s.block.Succs[1].Index
	}
	return fmt.Sprintf("if %s goto %d else %d", relName(s.Cond, s), tblock, fblock)
}

func (s *Go) String() string {
	return printCall(&s.Call, "go ", s)
}

func (s *Panic) String() string {
	return "panic " + relName(s.X, s)
}

func (s *Return) String() string {
	var b bytes.Buffer
	b.WriteString("return")
	for i, r := range s.Results {
		if i == 0 {
			b.WriteString(" ")
		} else {
			b.WriteString(", ")
		}
		b.WriteString(relName(r, s))
	}
	return b.String()
}

func (*RunDefers) String() string {
	return "rundefers"
}

func (s *Send) String() string {
	return fmt.Sprintf("send %s <- %s", relName(s.Chan, s), relName(s.X, s))
}

func (s *Defer) String() string {
	prefix := "defer "
	if s.DeferStack != nil {
		prefix += "[" + relName(s.DeferStack, s) + "] "
	}
	c := printCall(&s.Call, prefix, s)
	return c
}

func (s *Select) String() string {
	var b bytes.Buffer
	for i, st := range s.States {
		if i > 0 {
			b.WriteString(", ")
		}
		if st.Dir == types.RecvOnly {
			b.WriteString("<-")
			b.WriteString(relName(st.Chan, s))
		} else {
			b.WriteString(relName(st.Chan, s))
			b.WriteString("<-")
			b.WriteString(relName(st.Send, s))
		}
	}
	non := ""
	if !s.Blocking {
		non = "non"
	}
	return fmt.Sprintf("select %sblocking [%s]", non, b.String())
}

func (s *Store) String() string {
	return fmt.Sprintf("*%s = %s", relName(s.Addr, s), relName(s.Val, s))
}

func (s *MapUpdate) String() string {
	return fmt.Sprintf("%s[%s] = %s", relName(s.Map, s), relName(s.Key, s), relName(s.Value, s))
}

func (s *DebugRef) String() string {
	p := s.Parent().Prog.Fset.Position(s.Pos())
	var descr interface{}
	if s.object != nil {
		descr = s.object // e.g. "var x int"
	} else {
		descr = reflect.TypeOf(s.Expr) // e.g. "*ast.CallExpr"
	}
	var addr string
	if s.IsAddr {
		addr = "address of "
	}
	return fmt.Sprintf("; %s%s @ %d:%d is %s", addr, descr, p.Line, p.Column, s.X.Name())
}

func (p *Package) String() string {
	return "package " + p.Pkg.Path()
}

var _ io.WriterTo = (*Package)(nil) // *Package implements io.Writer

func (p *Package) WriteTo(w io.Writer) (int64, error) {
	var buf bytes.Buffer
	WritePackage(&buf, p)
	n, err := w.Write(buf.Bytes())
	return int64(n), err
}

// WritePackage writes to buf a human-readable summary of p.
func WritePackage(buf *bytes.Buffer, p *Package) {
	fmt.Fprintf(buf, "%s:\n", p)

	var names []string
	maxname := 0
	for name := range p.Members {
		if l := len(name); l > maxname {
			maxname = l
		}
		names = append(names, name)
	}

	from := p.Pkg
	sort.Strings(names)
	for _, name := range names {
		switch mem := p.Members[name].(type) {
		case *NamedConst:
			fmt.Fprintf(buf, "  const %-*s %s = %s\n",
				maxname, name, mem.Name(), mem.Value.RelString(from))

		case *Function:
			fmt.Fprintf(buf, "  func  %-*s %s\n",
				maxname, name, relType(mem.Type(), from))

		case *Type:
			fmt.Fprintf(buf, "  type  %-*s %s\n",
				maxname, name, relType(mem.Type().Underlying(), from))
			for _, meth := range typeutil.IntuitiveMethodSet(mem.Type(), &p.Prog.MethodSets) {
				fmt.Fprintf(buf, "    %s\n", types.SelectionString(meth, types.RelativeTo(from)))
			}

		case *Global:
			fmt.Fprintf(buf, "  var   %-*s %s\n",
				maxname, name, relType(typeparams.MustDeref(mem.Type()), from))
		}
	}

	fmt.Fprintf(buf, "\n")
}

func commaOk(x bool) string {
	if x {
		return ",ok"
	}
	return ""
}
