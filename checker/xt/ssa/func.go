// Copyright 2013 The Go Authors. All rights reserved.
// Use of this source code is governed by a BSD-style
// license that can be found in the LICENSE file.

package ssa

// This file implements the Function type.

import (
	"bytes"
	"fmt"
	"go/ast"
	"go/token"
	"go/types"
	"io"
	"os"
	"strings"

	"ikeverif/checker/xt/typeparams"
)

// Like ObjectOf, but panics instead of returning nil.
// Only valid during f's create and build phases.
func (f *Function) objectOf(id *ast.Ident) types.Object {
	if o := f.info.ObjectOf(id); o != nil {
		return o
	}
	panic(fmt.Sprintf("no types.Object for ast.Ident %s @ %s",
		id.Name, f.Prog.Fset.Position(id.Pos())))
}

// Like TypeOf, but panics instead of returning nil.
// Only valid during f's create and build phases.
func (f *Function) typeOf(e ast.Expr) types.Type {
	if T := f.info.TypeOf(e); T != nil {
		return f.typ(T)
	}
	panic(fmt.Sprintf("no type for %T @ %s", e, f.Prog.Fset.Position(e.Pos())))
}

// typ is the locally instantiated type of T.
// If f is not an instantiation, then f.typ(T)==T.
func (f *Function) typ(T types.Type) types.Type {
	return f.subst.typ(T)
}

// If id is an Instance, returns info.Instances[id].Type.
// Otherwise returns f.typeOf(id).
func (f *Function) instanceType(id *ast.Ident) types.Type {
	if t, ok := f.info.Instances[id]; ok {
		return t.Type
	}
	return f.typeOf(id)
}

// selection returns a *selection corresponding to f.info.Selections[selector]
// with potential updates for type substitution.
func (f *Function) selection(selector *ast.SelectorExpr) *selection {
	sel := f.info.Selections[selector]
	if sel == nil {
		return nil
	}

	switch sel.Kind() {
	case types.MethodExpr, types.MethodVal:
		if recv := f.typ(sel.Recv()); recv != sel.Recv() {
			// recv changed during type substitution.
			pkg := f.declaredPackage().Pkg
			obj, index, indirect := types.LookupFieldOrMethod(recv, true, pkg, sel.Obj().Name())

			// sig replaces sel.Type(). See (types.Selection).Typ() for details.
			sig := obj.Type().(*types.Signature)
			sig = changeRecv(sig, newVar(sig.Recv().Name(), recv))
			if sel.Kind() == types.MethodExpr {
				sig = recvAsFirstArg(sig)
			}
			return &selection{
				kind:     sel.Kind(),
				recv:     recv,
				typ:      sig,
				obj:      obj,
				index:    index,
				indirect: indirect,
			}
		}
	}
	return toSelection(sel)
}

// Destinations associated with unlabelled for/switch/select stmts.
// We push/pop one of these as we enter/leave each construct and for
// each BranchStmt we scan for the innermost target of the right type.
type targets struct {
	tail         *targets // rest of stack
	_break       *BasicBlock
	_continue    *BasicBlock
	_fallthrough *BasicBlock
}

// Destinations associated with a labelled block.
// We populate these as labels are encountered in forward gotos or
// labelled statements.
// Forward gotos are resolved once it is known which statement they
// are associated with inside the Function.
type lblock struct {
	label     *types.Label // Label targeted by the blocks.
	resolved  bool         // _goto block encountered (back jump or resolved fwd jump)
	_goto     *BasicBlock
	_break    *BasicBlock
	_continue *BasicBlock
}

// label returns the symbol denoted by a label identifier.
//
// label should be a non-blank identifier (label.Name != "_").
func (f *Function) label(label *ast.Ident) *types.Label {
	return f.objectOf(label).(*types.Label)
}

// lblockOf returns the branch target associated with the
// specified label, creating it if needed.
func (f *Function) lblockOf(label *types.Label) *lblock {
	lb := f.lblocks[label]
	if lb == nil {
		lb = &lblock{
			label: label,
			_goto: f.newBasicBlock(label.Name()),
		}
		if f.lblocks == nil {
			f.lblocks = make(map[*types.Label]*lblock)
		}
		f.lblocks[label] = lb
	}
	return lb
}

// labelledBlock searches f for the block of the specified label.
//
// If f is a yield function, it additionally searches ancestor Functions
// corresponding to enclosing range-over-func statements within the
// same source function, so the returned block may belong to a different Function.
func labelledBlock(f *Function, label *types.Label, tok token.Token) *BasicBlock {
	if lb := f.lblocks[label]; lb != nil {
		var block *BasicBlock
		switch tok {
		case token.BREAK:
			block = lb._break
		case token.CONTINUE:
			block = lb._continue
		case token.GOTO:
			block = lb._goto
		}
		if block != nil {
			return block
		}
	}
	// Search ancestors if this is a yield function.
	if f.jump != nil {
		return labelledBlock(f.parent, label, tok)
	}
	return nil
}

// targetedBlock looks for the nearest block in f.targets
// (and f's ancestors) that matches tok's type, and returns
// the block and function it was found in.
func targetedBlock(f *Function, tok token.Token) *BasicBlock {
	if f == nil {
		return nil
	}
	for t := f.targets; t != nil; t = t.tail {
		var block *BasicBlock
		switch tok {
		case token.BREAK:
			block = t._break
		case token.CONTINUE:
			block = t._continue
		case token.FALLTHROUGH:
			block = t._fallthrough
		}
		if block != nil {
			return block
		}
	}
	// Search f's ancestors (in case f is a yield function).
	return targetedBlock(f.parent, tok)
}

// instrs returns an iterator that returns each reachable instruction of the SSA function.
// TODO: return an iter.Seq once x/tools is on 1.23
func (f *Function) instrs() func(yield func(i Instruction) bool) {
	return func(yield func(i Instruction) bool) {
		for _, block := range f.Blocks {
			for _, instr := range block.Instrs {
				if !yield(instr) {
					return
				}
			}
		}
	}
}

// addResultVar adds a result for a variable v to f.results and v to f.returnVars.
func (f *Function) addResultVar(v *types.Var) {
	result := emitLocalVar(f, v)
	f.results = append(f.results, result)
	f.returnVars = append(f.returnVars, v)
}

// addParamVar adds a parameter to f.Params.
func (f *Function) addParamVar(v *types.Var) *Parameter {
	name := v.Name()
	if name == "" {
		name = fmt.Sprintf("arg%d", len(f.Params))
	}
	param := &Parameter{
		name:   name,
		object: v,
		typ:    f.typ(v.Type()),
		parent: f,
	}
	f.Params = append(f.Params, param)
	return param
}

// addSpilledParam declares a parameter that is pre-spilled to the
// stack; the function body will load/store the spilled location.
// Subsequent lifting will eliminate spills where possible.
func (f *Function) addSpilledParam(obj *types.Var) {
	param := f.addParamVar(obj)
	spill := emitLocalVar(f, obj)
	f.emit(&Store{Addr: spill, Val: param})
}

// startBody initializes the function prior to generating SSA code for its body.
// Precondition: f.Type() already set.
func (f *Function) startBody() {
	f.currentBlock = f.newBasicBlock("entry")
	f.vars = make(map[*types.Var]Value) // needed for some synthetics, e.g. init
}

// createSyntacticParams populates f.Params and generates code (spills
// and named result locals) for all the parameters declared in the
// syntax.  In addition it populates the f.objects mapping.
//
// Preconditions:
// f.startBody() was called. f.info != nil.
// Postcondition:
// len(f.Params) == len(f.Signature.Params) + (f.Signature.Recv() ? 1 : 0)
func (f *Function) createSyntacticParams(recv *ast.FieldList, functype *ast.FuncType) {
	// Receiver (at most one inner iteration).
	if recv != nil {
		for _, field := range recv.List {
			for _, n := range field.Names {
				f.addSpilledParam(identVar(f, n))
			}
			// Anonymous receiver?  No need to spill.
			if field.Names == nil {
				f.addParamVar(f.Signature.Recv())
			}
		}
	}

	// Parameters.
	if functype.Params != nil {
		n := len(f.Params) // 1 if has recv, 0 otherwise
		for _, field := range functype.Params.List {
			for _, n := range field.Names {
				f.addSpilledParam(identVar(f, n))
			}
			// Anonymous parameter?  No need to spill.
			if field.Names == nil {
				f.addParamVar(f.Signature.Params().At(len(f.Params) - n))
			}
		}
	}

	// Results.
	if functype.Results != nil {
		for _, field := range functype.Results.List {
			// Implicit "var" decl of locals for named results.
			for _, n := range field.Names {
				v := identVar(f, n)
				f.addResultVar(v)
			}
			// Implicit "var" decl of local for an unnamed result.
			if field.Names == nil {
				v := f.Signature.Results().At(len(f.results))
				f.addResultVar(v)
			}
		}
	}
}

// createDeferStack initializes fn.deferstack to local variable
// initialized to a ssa:deferstack() call.
func (fn *Function) createDeferStack() {
	// Each syntactic function makes a call to ssa:deferstack,
	// which is spilled to a local. Unused ones are later removed.
	fn.deferstack = newVar("defer$stack", tDeferStack)
	call := &Call{Call: CallCommon{Value: vDeferStack}}
	call.setType(tDeferStack)
	deferstack := fn.emit(call)
	spill := emitLocalVar(fn, fn.deferstack)
	emitStore(fn, spill, deferstack, token.NoPos)
}

type setNumable interface {
	setNum(int)
}

// numberRegisters assigns numbers to all SSA registers
// (value-defining Instructions) in f, to aid debugging.
// (Non-Instruction Values are named at construction.)
func numberRegisters(f *Function) {
	v := 0
	for _, b := range f.Blocks {
		for _, instr := range b.Instrs {
			switch instr.(type) {
			case Value:
				instr.(setNumable).setNum(v)
				v++
			}
		}
	}
}

// buildReferrers populates the def/use information in all non-nil
// Value.Referrers slice.
// Precondition: all such slices are initially empty.
func buildReferrers(f *Function) {
	var rands []*Value
	for _, b := range f.Blocks {
		for _, instr := range b.Instrs {
			rands = instr.Operands(rands[:0]) // recycle storage
			for _, rand := range rands {
				if r := *rand; r != nil {
					if ref := r.Referrers(); ref != nil {
						*ref = append(*ref, instr)
					}
				}
			}
		}
	}
}

// finishBody() finalizes the contents of the function after SSA code generation of its body.
//
// The function is not done being built until done() is called.
func (f *Function) finishBody() {
	f.currentBlock = nil
	f.lblocks = nil
	f.returnVars = nil
	f.jump = nil
	f.source = nil
	f.exits = nil

	// Remove from f.Locals any Allocs that escape to the heap.
	j := 0
	for _, l := range f.Locals {
		if !l.Heap {
			f.Locals[j] = l
			j++
		}
	}
	// Nil out f.Locals[j:] to aid GC.
	for i := j; i < len(f.Locals); i++ {
		f.Locals[i] = nil
	}
	f.Locals = f.Locals[:j]

	optimizeBlocks(f)

	buildReferrers(f)

	buildDomTree(f)

	if f.Prog.mode&NaiveForm == 0 {
		// For debugging pre-state of lifting pass:
		// numberRegisters(f)
		// f.WriteTo(os.Stderr)
		lift(f)
	}

	// clear remaining builder state
	f.results = nil    // (used by lifting)
	f.deferstack = nil // (used by lifting)
	f.vars = nil       // (used by lifting)
	f.subst = nil

	numberRegisters(f) // uses f.namedRegisters
}

// done marks the building of f's SSA body complete,
// along with any nested functions, and optionally prints them.
func (f *Function) done() {
	assert(f.parent == nil, "done called on an anonymous function")

	var visit func(*Function)
	visit = func(f *Function) {
		for _, anon := range f.AnonFuncs {
			visit(anon) // anon is done building before f.
		}

		f.uniq = 0    // done with uniq
		f.build = nil // function is built

		if f.Prog.mode&PrintFunctions != 0 {
			printMu.Lock()
			f.WriteTo(os.Stdout)
			printMu.Unlock()
		}

		if f.Prog.mode&SanityCheckFunctions != 0 {
			mustSanityCheck(f, nil)
		}
	}
	visit(f)
}

// removeNilBlocks eliminates nils from f.Blocks and updates each
// BasicBlock.Index.  Use this after any pass that may delete blocks.
func (f *Function) removeNilBlocks() {
	j := 0
	for _, b := range f.Blocks {
		if b != nil {
			b.Index = j
			f.Blocks[j] = b
			j++
		}
	}
	// Nil out f.Blocks[j:] to aid GC.
	for i := j; i < len(f.Blocks); i++ {
		f.Blocks[i] = nil
	}
	f.Blocks = f.Blocks[:j]
}

// SetDebugMode sets the debug mode for package pkg.  If true, all its
// functions will include full debug info.  This greatly increases the
// size of the instruction stream, and causes Functions to depend upon
// the ASTs, potentially keeping them live in memory for longer.
func (pkg *Package) SetDebugMode(debug bool) {
	pkg.debug = debug
}

// debugInfo reports whether debug info is wanted for this function.
func (f *Function) debugInfo() bool {
	// debug info for instantiations follows the debug info of their origin.
	p := f.declaredPackage()
	return p != nil && p.debug
}

// lookup returns the address of the named variable identified by obj
// that is local to function f or one of its enclosing functions.
// If escaping, the reference comes from a potentially escaping pointer
// expression and the referent must be heap-allocated.
// We assume the referent is a *Alloc or *Phi.
// (The only Phis at this stage are those created directly by go1.22 "for" loops.)
func (f *Function) lookup(obj *types.Var, escaping bool) Value {
	if v, ok := f.vars[obj]; ok {
		if escaping {
			switch v := v.(type) {
			case *Alloc:
				v.Heap = true
			case *Phi:
				for _, edge := range v.Edges {
					if alloc, ok := edge.(*Alloc); ok {
						alloc.Heap = true
					}
				}
			}
		}
		return v // function-local var (address)
	}

	// Definition must be in an enclosing function;
	// plumb it through intervening closures.
	if f.parent == nil {
		panic("no ssa.Value for " + obj.String())
	}
	outer := f.parent.lookup(obj, true) // escaping
	v := &FreeVar{
		name:   obj.Name(),
		typ:    outer.Type(),
		pos:    outer.Pos(),
		outer:  outer,
		parent: f,
	}
	f.vars[obj] = v
	f.FreeVars = append(f.FreeVars, v)
	return v
}

// emit emits the specified instruction to function f.
func (f *Function) emit(instr Instruction) Value {
	return f.currentBlock.emit(instr)
}

// RelString returns the full name of this function, qualified by
// package name, receiver type, etc.
//
// The specific formatting rules are not guaranteed and may change.
//
// Examples:
//
//	"math.IsNaN"                  // a package-level function
//	"(*bytes.Buffer).Bytes"       // a declared method or a wrapper
//	"(*bytes.Buffer).Bytes$thunk" // thunk (func wrapping method; receiver is param 0)
//	"(*bytes.Buffer).Bytes$bound" // bound (func wrapping method; receiver supplied by closure)
//	"main.main$1"                 // an anonymous function in main
//	"main.init#1"                 // a declared init function
//	"main.init"                   // the synthesized package initializer
//
// When these functions are referred to from within the same package
// (i.e. from == f.Pkg.Object), they are rendered without the package path.
// For example: "IsNaN", "(*Buffer).Bytes", etc.
//
// All non-synthetic functions have distinct package-qualified names.
// (But two methods may have the same name "(T).f" if one is a synthetic
// wrapper promoting a non-exported method "f" from another package; in
// that case, the strings are equal but the identifiers "f" are distinct.)
func (f *Function) RelString(from *types.Package) string {
	// Anonymous?
	if f.parent != nil {
		// An anonymous function's Name() looks like "parentName$1",
		// but its String() should include the type/package/etc.
		parent := f.parent.RelString(from)
		for i, anon := range f.parent.AnonFuncs {
			if anon == f {
				return fmt.Sprintf("%s$%d", parent, 1+i)
			}
		}

		return f.name // should never happen
	}

	// Method (declared or wrapper)?
	if recv := f.Signature.Recv(); recv != nil {
		return f.relMethod(from, recv.Type())
	}

	// Thunk?
	if f.method != nil {
		return f.relMethod(from, f.method.recv)
	}

	// Bound?
	if len(f.FreeVars) == 1 && strings.HasSuffix(f.name, "$bound") {
		return f.relMethod(from, f.FreeVars[0].Type())
	}

	// Package-level function?
	// Prefix with package name for cross-package references only.
	if p := f.relPkg(); p != nil && p != from {
		return fmt.Sprintf("%s.%s", p.Path(), f.name)
	}

	// Unknown.
	return f.name
}

func (f *Function) relMethod(from *types.Package, recv types.Type) string {
	return fmt.Sprintf("(%s).%s", relType(recv, from), f.name)
}

// writeSignature writes to buf the signature sig in declaration syntax.
func writeSignature(buf *bytes.Buffer, from *types.Package, name string, sig *types.Signature) {
	buf.WriteString("func ")
	if recv := sig.Recv(); recv != nil {
		buf.WriteString("(")
		if name := recv.Name(); name != "" {
			buf.WriteString(name)
			buf.WriteString(" ")
		}
		types.WriteType(buf, recv.Type(), types.RelativeTo(from))
		buf.WriteString(") ")
	}
	buf.WriteString(name)
	types.WriteSignature(buf, sig, types.RelativeTo(from))
}

// declaredPackage returns the package fn is declared in or nil if the
// function is not declared in a package.
func (fn *Function) declaredPackage() *Package {
	switch {
	case fn.Pkg != nil:
		return fn.Pkg // non-generic function  (does that follow??)
	case fn.topLevelOrigin != nil:
		return fn.topLevelOrigin.Pkg // instance of a named generic function
	case fn.parent != nil:
		return fn.parent.declaredPackage() // instance of an anonymous [generic] function
	default:
		return nil // function is not declared in a package, e.g. a wrapper.
	}
}

// relPkg returns types.Package fn is printed in relationship to.
func (fn *Function) relPkg() *types.Package {
	if p := fn.declaredPackage(); p != nil {
		return p.Pkg
	}
	return nil
}

var _ io.WriterTo = (*Function)(nil) // *Function implements io.Writer

func (f *Function) WriteTo(w io.Writer) (int64, error) {
	var buf bytes.Buffer
	WriteFunction(&buf, f)
	n, err := w.Write(buf.Bytes())
	return int64(n), err
}

// WriteFunction writes to buf a human-readable "disassembly" of f.
func WriteFunction(buf *bytes.Buffer, f *Function) {
	fmt.Fprintf(buf, "# Name: %s\n", f.String())
	if f.Pkg != nil {
		fmt.Fprintf(buf, "# Package: %s\n", f.Pkg.Pkg.Path())
	}
	if syn := f.Synthetic; syn != "" {
		fmt.Fprintln(buf, "# Synthetic:", syn)
	}
	if pos := f.Pos(); pos.IsValid() {
		fmt.Fprintf(buf, "# Location: %s\n", f.Prog.Fset.Position(pos))
	}

	if f.parent != nil {
		fmt.Fprintf(buf, "# Parent: %s\n", f.parent.Name())
	}

	if f.Recover != nil {
		fmt.Fprintf(buf, "# Recover: %s\n", f.Recover)
	}

	from := f.relPkg()

	if f.FreeVars != nil {
		buf.WriteString("# Free variables:\n")
		for i, fv := range f.FreeVars {
			fmt.Fprintf(buf, "# % 3d:\t%s %s\n", i, fv.Name(), relType(fv.Type(), from))
		}
	}

	if len(f.Locals) > 0 {
		buf.WriteString("# Locals:\n")
		for i, l := range f.Locals {
			fmt.Fprintf(buf, "# % 3d:\t%s %s\n", i, l.Name(), relType(typeparams.MustDeref(l.Type()), from))
		}
	}
	writeSignature(buf, from, f.Name(), f.Signature)
	buf.WriteString(":\n")

	if f.Blocks == nil {
		buf.WriteString("\t(external)\n")
	}

	// NB. column calculations are confused by non-ASCII
	// characters and assume 8-space tabs.
	const punchcard = 80 // for old time's sake.
	const tabwidth = 8
	for _, b := range f.Blocks {
		if b == nil {
			// Corrupt CFG.
			fmt.Fprintf(buf, ".nil:\n")
			continue
		}
		n, _ := fmt.Fprintf(buf, "%d:", b.Index)
		bmsg := fmt.Sprintf("%s P:%d S:%d", b.Comment, len(b.Preds), len(b.Succs))
		fmt.Fprintf(buf, "%*s%s\n", punchcard-1-n-len(bmsg), "", bmsg)

		if false { // CFG debugging
			fmt.Fprintf(buf, "\t# CFG: %s --> %s --> %s\n", b.Preds, b, b.Succs)
		}
		for _, instr := range b.Instrs {
			buf.WriteString("\t")
			switch v := instr.(type) {
			case Value:
				l := punchcard - tabwidth
				// Left-align the instruction.
				if name := v.Name(); name != "" {
					n, _ := fmt.Fprintf(buf, "%s = ", name)
					l -= n
				}
				n, _ := buf.WriteString(instr.String())
				l -= n
				// Right-align the type if there's space.
				if t := v.Type(); t != nil {
					buf.WriteByte(' ')
					ts := relType(t, from)
					l -= len(ts) + len("  ") // (spaces before and after type)
					if l > 0 {
						fmt.Fprintf(buf, "%*s", l, "")
					}
					buf.WriteString(ts)
				}
			case nil:
				// Be robust against bad transforms.
				buf.WriteString("<deleted>")
			default:
				buf.WriteString(instr.String())
			}
			// -mode=S: show line numbers
			if f.Prog.mode&LogSource != 0 {
				if pos := instr.Pos(); pos.IsValid() {
					fmt.Fprintf(buf, " L%d", f.Prog.Fset.Position(pos).Line)
				}
			}
			buf.WriteString("\n")
		}
	}
	fmt.Fprintf(buf, "\n")
}

// newBasicBlock adds to f a new basic block and returns it.  It does
// not automatically become the current block for subsequent calls to emit.
// comment is an optional string for more readable debugging output.
func (f *Function) newBasicBlock(comment string) *BasicBlock {
	b := &BasicBlock{
		Index:   len(f.Blocks),
		Comment: comment,
		parent:  f,
	}
	b.Succs = b.succs2[:0]
	f.Blocks = append(f.Blocks, b)
	return b
}

// NewFunction returns a new synthetic Function instance belonging to
// prog, with its name and signature fields set as specified.
//
// The caller is responsible for initializing the remaining fields of
// the function object, e.g. Pkg, Params, Blocks.
//
// It is practically impossible for clients to construct well-formed
// SSA functions/packages/programs directly, so we assume this is the
// job of the Builder alone.  NewFunction exists to provide clients a
// little flexibility.  For example, analysis tools may wish to
// construct fake Functions for the root of the callgraph, a fake
// "reflect" package, etc.
//
// TODO(adonovan): think harder about the API here.
func (prog *Program) NewFunction(name string, sig *types.Signature, provenance string) *Function {
	return &Function{Prog: prog, name: name, Signature: sig, Synthetic: provenance}
}

// Syntax returns the function's syntax (*ast.Func{Decl,Lit})
// if it was produced from syntax or an *ast.RangeStmt if
// it is a range-over-func yield function.
func (f *Function) Syntax() ast.Node { return f.syntax }

// identVar returns the variable defined by id.
func identVar(fn *Function, id *ast.Ident) *types.Var {
	return fn.info.Defs[id].(*types.Var)
}

// unique returns a unique positive int within the source tree of f.
// The source tree of f includes all of f's ancestors by parent and all
// of the AnonFuncs contained within these.
func unique(f *Function) int64 {
	f.uniq++
	return f.uniq
}

// exit is a change of control flow going from a range-over-func
// yield function to an ancestor function caused by a break, continue,
// goto, or return statement.
//
// There are 3 types of exits:
// * return from the source function (from ReturnStmt),
// * jump to a block (from break and continue statements [labelled/unlabelled]),
// * go to a label (from goto statements).
//
// As the builder does one pass over the ast, it is unclear whether
// a forward goto statement will leave a range-over-func body.
// The function being exited to is unresolved until the end
// of building the range-over-func body.
type exit struct {
	id   int64     // unique value for exit within from and to
	from *Function // the function the exit starts from
	to   *Function // the function being exited to (nil if unresolved)
	pos  token.Pos

	block *BasicBlock  // basic block within to being jumped to.
	label *types.Label // forward label being jumped to via goto.
	// block == nil && label == nil => return
}

// storeVar emits to function f code to store a value v to a *types.Var x.
func storeVar(f *Function, x *types.Var, v Value, pos token.Pos) {
	emitStore(f, f.lookup(x, true), v, pos)
}

// labelExit creates a new exit to a yield fn to exit the function using a label.
func labelExit(fn *Function, label *types.Label, pos token.Pos) *exit {
	e := &exit{
		id:    unique(fn),
		from:  fn,
		to:    nil,
		pos:   pos,
		label: label,
	}
	fn.exits = append(fn.exits, e)
	return e
}

// blockExit creates a new exit to a yield fn that jumps to a basic block.
func blockExit(fn *Function, block *BasicBlock, pos token.Pos) *exit {
	e := &exit{
		id:    unique(fn),
		from:  fn,
		to:    block.parent,
		pos:   pos,
		block: block,
	}
	fn.exits = append(fn.exits, e)
	return e
}

// blockExit creates a new exit to a yield fn that returns the source function.
func returnExit(fn *Function, pos token.Pos) *exit {
	e := &exit{
		id:   unique(fn),
		from: fn,
		to:   fn.source,
		pos:  pos,
	}
	fn.exits = append(fn.exits, e)
	return e
}
