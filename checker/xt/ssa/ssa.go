// Copyright 2013 The Go Authors. All rights reserved.
// Use of this source code is governed by a BSD-style
// license that can be found in the LICENSE file.

package ssa

// This package defines a high-level intermediate representation for
// Go programs using static single-assignment (SSA) form.

import (
	"fmt"
	"go/ast"
	"go/constant"
	"go/token"
	"go/types"
	"sync"

	"golang.org/x/tools/go/types/typeutil"
	"ikeverif/checker/xt/typeparams"
)

// A Program is a partial or complete Go program converted to SSA form.
type Program struct {
	Fset       *token.FileSet              // position information for the files of this Program
	imported   map[string]*Package         // all importable Packages, keyed by import path
	packages   map[*types.Package]*Package // all created Packages
	mode       BuilderMode                 // set of mode bits for SSA construction
	MethodSets typeutil.MethodSetCache     // cache of type-checker's method-sets

	canon *canonizer     // type canonicalization map
	ctxt  *types.Context // cache for type checking instantiations

	methodsMu  sync.Mutex
	methodSets typeutil.Map // maps type to its concrete *methodSet

	// memoization of whether a type refers to type parameters
	hasParamsMu sync.Mutex
	hasParams   typeparams.Free

	// set of concrete types used as MakeInterface operands
	makeInterfaceTypesMu sync.Mutex
	makeInterfaceTypes   map[types.Type]unit // (may contain redundant identical types)

	// objectMethods is a memoization of objectMethod
	// to avoid creation of duplicate methods from type information.
	objectMethodsMu sync.Mutex
	objectMethods   map[*types.Func]*Function
}

// A Package is a single analyzed Go package containing Members for
// all package-level functions, variables, constants and types it
// declares.  These may be accessed directly via Members, or via the
// type-specific accessor methods Func, Type, Var and Const.
//
// Members also contains entries for "init" (the synthetic package
// initializer) and "init#%d", the nth declared init function,
// and unspecified other things too.
type Package struct {
	Prog    *Program                // the owning program
	Pkg     *types.Package          // the corresponding go/types.Package
	Members map[string]Member       // all package members keyed by name (incl. init and init#%d)
	objects map[types.Object]Member // mapping of package objects to members (incl. methods). Contains *NamedConst, *Global, *Function (values but not types)
	init    *Function               // Func("init"); the package's init function
	debug   bool                    // include full debug info in this package
	syntax  bool                    // package was loaded from syntax

	// The following fields are set transiently, then cleared
	// after building.
	buildOnce   sync.Once           // ensures package building occurs once
	ninit       int32               // number of init functions
	info        *types.Info         // package type information
	files       []*ast.File         // package ASTs
	created     []*Function         // members created as a result of building this package (includes declared functions, wrappers)
	initVersion map[ast.Expr]string // goversion to use for each global var init expr
}

// A Member is a member of a Go package, implemented by *NamedConst,
// *Global, *Function, or *Type; they are created by package-level
// const, var, func and type declarations respectively.
type Member interface {
	Name() string                    // declared name of the package member
	String() string                  // package-qualified name of the package member
	RelString(*types.Package) string // like String, but relative refs are unqualified
	Object() types.Object            // typechecker's object for this member, if any
	Pos() token.Pos                  // position of member's declaration, if known
	Type() types.Type                // type of the package member
	Token() token.Token              // token.{VAR,FUNC,CONST,TYPE}
	Package() *Package               // the containing package
}

// A Type is a Member of a Package representing a package-level named type.
type Type struct {
	object *types.TypeName
	pkg    *Package
}

// A NamedConst is a Member of a Package representing a package-level
// named constant.
//
// Pos() returns the position of the declaring ast.ValueSpec.Names[*]
// identifier.
//
// NB: a NamedConst is not a Value; it contains a constant Value, which
// it augments with the name and position of its 'const' declaration.
type NamedConst struct {
	object *types.Const
	Value  *Const
	pkg    *Package
}

// A Value is an SSA value that can be referenced by an instruction.
type Value interface {
	// Name returns the name of this value, and determines how
	// this Value appears when used as an operand of an
	// Instruction.
	//
	// This is the same as the source name for Parameters,
	// Builtins, Functions, FreeVars, Globals.
	// For constants, it is a representation of the constant's value
	// and type.  For all other Values this is the name of the
	// virtual register defined by the instruction.
	//
	// The name of an SSA Value is not semantically significant,
	// and may not even be unique within a function.
	Name() string

	// If this value is an Instruction, String returns its
	// disassembled form; otherwise it returns unspecified
	// human-readable information about the Value, such as its
	// kind, name and type.
	String() string

	// Type returns the type of this value.  Many instructions
	// (e.g. IndexAddr) change their behaviour depending on the
	// types of their operands.
	Type() types.Type

	// Parent returns the function to which this Value belongs.
	// It returns nil for named Functions, Builtin, Const and Global.
	Parent() *Function

	// Referrers returns the list of instructions that have this
	// value as one of their operands; it may contain duplicates
	// if an instruction has a repeated operand.
	//
	// Referrers actually returns a pointer through which the
	// caller may perform mutations to the object's state.
	//
	// Referrers is currently only defined if Parent()!=nil,
	// i.e. for the function-local values FreeVar, Parameter,
	// Functions (iff anonymous) and all value-defining instructions.
	// It returns nil for named Functions, Builtin, Const and Global.
	//
	// Instruction.Operands contains the inverse of this relation.
	Referrers() *[]Instruction

	// Pos returns the location of the AST token most closely
	// associated with the operation that gave rise to this value,
	// or token.NoPos if it was not explicit in the source.
	//
	// For each ast.Node type, a particular token is designated as
	// the closest location for the expression, e.g. the Lparen
	// for an *ast.CallExpr.  This permits a compact but
	// approximate mapping from Values to source positions for use
	// in diagnostic messages, for example.
	//
	// (Do not use this position to determine which Value
	// corresponds to an ast.Expr; use Function.ValueForExpr
	// instead.  NB: it requires that the function was built with
	// debug information.)
	Pos() token.Pos
}

// An Instruction is an SSA instruction that computes a new Value or
// has some effect.
//
// An Instruction that defines a value (e.g. BinOp) also implements
// the Value interface; an Instruction that only has an effect (e.g. Store)
// does not.
type Instruction interface {
	// String returns the disassembled form of this value.
	//
	// Examples of Instructions that are Values:
	//       "x + y"     (BinOp)
	//       "len([])"   (Call)
	// Note that the name of the Value is not printed.
	//
	// Examples of Instructions that are not Values:
	//       "return x"  (Return)
	//       "*y = x"    (Store)
	//
	// (The separation Value.Name() from Value.String() is useful
	// for some analyses which distinguish the operation from the
	// value it defines, e.g., 'y = local int' is both an allocation
	// of memory 'local int' and a definition of a pointer y.)
	String() string

	// Parent returns the function to which this instruction
	// belongs.
	Parent() *Function

	// Block returns the basic block to which this instruction
	// belongs.
	Block() *BasicBlock

	// setBlock sets the basic block to which this instruction belongs.
	setBlock(*BasicBlock)

	// Operands returns the operands of this instruction: the
	// set of Values it references.
	//
	// Specifically, it appends their addresses to rands, a
	// user-provided slice, and returns the resulting slice,
	// permitting avoidance of memory allocation.
	//
	// The operands are appended in undefined order, but the order
	// is consistent for a given Instruction; the addresses are
	// always non-nil but may point to a nil Value.  Clients may
	// store through the pointers, e.g. to effect a value
	// renaming.
	//
	// Value.Referrers is a subset of the inverse of this
	// relation.  (Referrers are not tracked for all types of
	// Values.)
	Operands(rands []*Value) []*Value

	// Pos returns the location of the AST token most closely
	// associated with the operation that gave rise to this
	// instruction, or token.NoPos if it was not explicit in the
	// source.
	//
	// For each ast.Node type, a particular token is designated as
	// the closest location for the expression, e.g. the Go token
	// for an *ast.GoStmt.  This permits a compact but approximate
	// mapping from Instructions to source positions for use in
	// diagnostic messages, for example.
	//
	// (Do not use this position to determine which Instruction
	// corresponds to an ast.Expr; see the notes for Value.Pos.
	// This position may be used to determine which non-Value
	// Instruction corresponds to some ast.Stmts, but not all: If
	// and Jump instructions have no Pos(), for example.)
	Pos() token.Pos
}

// A Node is a node in the SSA value graph.  Every concrete type that
// implements Node is also either a Value, an Instruction, or both.
//
// Node contains the methods common to Value and Instruction, plus the
// Operands and Referrers methods generalized to return nil for
// non-Instructions and non-Values, respectively.
//
// Node is provided to simplify SSA graph algorithms.  Clients should
// use the more specific and informative Value or Instruction
// interfaces where appropriate.
type Node interface {
	// Common methods:
	String() string
	Pos() token.Pos
	Parent() *Function

	// Partial methods:
	Operands(rands []*Value) []*Value // nil for non-Instructions
	Referrers() *[]Instruction        // nil for non-Values
}

// Function represents the parameters, results, and code of a function
// or method.
//
// If Blocks is nil, this indicates an external function for which no
// Go source code is available.  In this case, FreeVars, Locals, and
// Params are nil too.  Clients performing whole-program analysis must
// handle external functions specially.
//
// Blocks contains the function's control-flow graph (CFG).
// Blocks[0] is the function entry point; block order is not otherwise
// semantically significant, though it may affect the readability of
// the disassembly.
// To iterate over the blocks in dominance order, use DomPreorder().
//
// Recover is an optional second entry point to which control resumes
// after a recovered panic.  The Recover block may contain only a return
// statement, preceded by a load of the function's named return
// parameters, if any.
//
// A nested function (Parent()!=nil) that refers to one or more
// lexically enclosing local variables ("free variables") has FreeVars.
// Such functions cannot be called directly but require a
// value created by MakeClosure which, via its Bindings, supplies
// values for these parameters.
//
// If the function is a method (Signature.Recv() != nil) then the first
// element of Params is the receiver parameter.
//
// A Go package may declare many functions called "init".
// For each one, Object().Name() returns "init" but Name() returns
// "init#1", etc, in declaration order.
//
// Pos() returns the declaring ast.FuncLit.Type.Func or the position
// of the ast.FuncDecl.Name, if the function was explicit in the
// source. Synthetic wrappers, for which Synthetic != "", may share
// the same position as the function they wrap.
// Syntax.Pos() always returns the position of the declaring "func" token.
//
// When the operand of a range statement is an iterator function,
// the loop body is transformed into a synthetic anonymous function
// that is passed as the yield argument in a call to the iterator.
// In that case, Function.Pos is the position of the "range" token,
// and Function.Syntax is the ast.RangeStmt.
//
// Synthetic functions, for which Synthetic != "", are functions
// that do not appear in the source AST. These include:
//   - method wrappers,
//   - thunks,
//   - bound functions,
//   - empty functions built from loaded type information,
//   - yield functions created from range-over-func loops,
//   - package init functions, and
//   - instantiations of generic functions.
//
// Synthetic wrapper functions may share the same position
// as the function they wrap.
//
// Type() returns the function's Signature.
//
// A generic function is a function or method that has uninstantiated type
// parameters (TypeParams() != nil). Consider a hypothetical generic
// method, (*Map[K,V]).Get. It may be instantiated with all
// non-parameterized types as (*Map[string,int]).Get or with
// parameterized types as (*Map[string,U]).Get, where U is a type parameter.
// In both instantiations, Origin() refers to the instantiated generic
// method, (*Map[K,V]).Get, TypeParams() refers to the parameters [K,V] of
// the generic method. TypeArgs() refers to [string,U] or [string,int],
// respectively, and is nil in the generic method.
type Function struct {
	name      string
	object    *types.Func // symbol for declared function (nil for FuncLit or synthetic init)
	method    *selection  // info about provenance of synthetic methods; thunk => non-nil
	Signature *types.Signature
	pos       token.Pos

	// source information
	Synthetic string      // provenance of synthetic function; "" for true source functions
	syntax    ast.Node    // *ast.Func{Decl,Lit}, if from syntax (incl. generic instances) or (*ast.RangeStmt if a yield function)
	info      *types.Info // type annotations (if syntax != nil)
	goversion string      // Go version of syntax (NB: init is special)

	parent *Function // enclosing function if anon; nil if global
	Pkg    *Package  // enclosing package; nil for shared funcs (wrappers and error.Error)
	Prog   *Program  // enclosing program

	buildshared *task // wait for a shared function to be done building (may be nil if <=1 builder ever needs to wait)

	// These fields are populated only when the function body is built:

	Params    []*Parameter  // function parameters; for methods, includes receiver
	FreeVars  []*FreeVar    // free variables whose values must be supplied by closure
	Locals    []*Alloc      // frame-allocated variables of this function
	Blocks    []*BasicBlock // basic blocks of the function; nil => external
	Recover   *BasicBlock   // optional; control transfers here after recovered panic
	AnonFuncs []*Function   // anonymous functions (from FuncLit,RangeStmt) directly beneath this one
	referrers []Instruction // referring instructions (iff Parent() != nil)
	anonIdx   int32         // position of a nested function in parent's AnonFuncs. fn.Parent()!=nil => fn.Parent().AnonFunc[fn.anonIdx] == fn.

	typeparams     *types.TypeParamList // type parameters of this function. typeparams.Len() > 0 => generic or instance of generic function
	typeargs       []types.Type         // type arguments that instantiated typeparams. len(typeargs) > 0 => instance of generic function
	topLevelOrigin *Function            // the origin function if this is an instance of a source function. nil if Parent()!=nil.
	generic        *generic             // instances of this function, if generic

	// The following fields are cleared after building.
	build        buildFunc                // algorithm to build function body (nil => built)
	currentBlock *BasicBlock              // where to emit code
	vars         map[*types.Var]Value     // addresses of local variables
	results      []*Alloc                 // result allocations of the current function
	returnVars   []*types.Var             // variables for a return statement. Either results or for range-over-func a parent's results
	targets      *targets                 // linked stack of branch targets
	lblocks      map[*types.Label]*lblock // labelled blocks
	subst        *subster                 // type parameter substitutions (if non-nil)
	jump         *types.Var               // synthetic variable for the yield state (non-nil => range-over-func)
	deferstack   *types.Var               // synthetic variable holding enclosing ssa:deferstack()
	source       *Function                // nearest enclosing source function
	exits        []*exit                  // exits of the function that need to be resolved
	uniq         int64                    // source of unique ints within the source tree while building
}

// BasicBlock represents an SSA basic block.
//
// The final element of Instrs is always an explicit transfer of
// control (If, Jump, Return, or Panic).
//
// A block may contain no Instructions only if it is unreachable,
// i.e., Preds is nil.  Empty blocks are typically pruned.
//
// BasicBlocks and their Preds/Succs relation form a (possibly cyclic)
// graph independent of the SSA Value graph: the control-flow graph or
// CFG.  It is illegal for multiple edges to exist between the same
// pair of blocks.
//
// Each BasicBlock is also a node in the dominator tree of the CFG.
// The tree may be navigated using Idom()/Dominees() and queried using
// Dominates().
//
// The order of Preds and Succs is significant (to Phi and If
// instructions, respectively).
type BasicBlock struct {
	Index        int            // index of this block within Parent().Blocks
	Comment      string         // optional label; no semantic significance
	parent       *Function      // parent function
	Instrs       []Instruction  // instructions in order
	Preds, Succs []*BasicBlock  // predecessors and successors
	succs2       [2]*BasicBlock // initial space for Succs
	dom          domInfo        // dominator tree info
	gaps         int            // number of nil Instrs (transient)
	rundefers    int            // number of rundefers (transient)
}

// Pure values ----------------------------------------

// A FreeVar represents a free variable of the function to which it
// belongs.
//
// FreeVars are used to implement anonymous functions, whose free
// variables are lexically captured in a closure formed by
// MakeClosure.  The value of such a free var is an Alloc or another
// FreeVar and is considered a potentially escaping heap address, with
// pointer type.
//
// FreeVars are also used to implement bound method closures.  Such a
// free var represents the receiver value and may be of any type that
// has concrete methods.
//
// Pos() returns the position of the value that was captured, which
// belongs to an enclosing function.
type FreeVar struct {
	name      string
	typ       types.Type
	pos       token.Pos
	parent    *Function
	referrers []Instruction

	// Transiently needed during building.
	outer Value // the Value captured from the enclosing context.
}

// A Parameter represents an input parameter of a function.
type Parameter struct {
	name      string
	object    *types.Var // non-nil
	typ       types.Type
	parent    *Function
	referrers []Instruction
}

// A Const represents a value known at build time.
//
// Consts include true constants of boolean, numeric, and string types, as
// defined by the Go spec; these are represented by a non-nil Value field.
//
// Consts also include the "zero" value of any type, of which the nil values
// of various pointer-like types are a special case; these are represented
// by a nil Value field.
//
// Pos() returns token.NoPos.
//
// Example printed forms:
//
//		42:int
//		"hello":untyped string
//		3+4i:MyComplex
//		nil:*int
//		nil:[]string
//		[3]int{}:[3]int
//		struct{x string}{}:struct{x string}
//	    0:interface{int|int64}
//	    nil:interface{bool|int} // no go/constant representation
type Const struct {
	typ   types.Type
	Value constant.Value
}

// A Global is a named Value holding the address of a package-level
// variable.
//
// Pos() returns the position of the ast.ValueSpec.Names[*]
// identifier.
type Global struct {
	name   string
	object types.Object // a *types.Var; may be nil for synthetics e.g. init$guard
	typ    types.Type
	pos    token.Pos

	Pkg *Package
}

// A Builtin represents a specific use of a built-in function, e.g. len.
//
// Builtins are immutable values.  Builtins do not have addresses.
// Builtins can only appear in CallCommon.Value.
//
// Name() indicates the function: one of the built-in functions from the
// Go spec (excluding "make" and "new") or one of these ssa-defined
// intrinsics:
//
//	// wrapnilchk returns ptr if non-nil, panics otherwise.
//	// (For use in indirection wrappers.)
//	func ssa:wrapnilchk(ptr *T, recvType, methodName string) *T
//
// Object() returns a *types.Builtin for built-ins defined by the spec,
// nil for others.
//
// Type() returns a *types.Signature representing the effective
// signature of the built-in for this call.
type Builtin struct {
	name string
	sig  *types.Signature
}

// Value-defining instructions  ----------------------------------------

// The Alloc instruction reserves space for a variable of the given type,
// zero-initializes it, and yields its address.
//
// Alloc values are always addresses, and have pointer types, so the
// type of the allocated variable is actually
// Type().Underlying().(*types.Pointer).Elem().
//
// If Heap is false, Alloc zero-initializes the same local variable in
// the call frame and returns its address; in this case the Alloc must
// be present in Function.Locals. We call this a "local" alloc.
//
// If Heap is true, Alloc allocates a new zero-initialized variable
// each time the instruction is executed. We call this a "new" alloc.
//
// When Alloc is applied to a channel, map or slice type, it returns
// the address of an uninitialized (nil) reference of that kind; store
// the result of MakeSlice, MakeMap or MakeChan in that location to
// instantiate these types.
//
// Pos() returns the ast.CompositeLit.Lbrace for a composite literal,
// or the ast.CallExpr.Rparen for a call to new() or for a call that
// allocates a varargs slice.
//
// Example printed form:
//
//	t0 = local int
//	t1 = new int
type Alloc struct {
	register
	Comment string
	Heap    bool
	index   int // dense numbering; for lifting
}

// The Phi instruction represents an SSA φ-node, which combines values
// that differ across incoming control-flow edges and yields a new
// value.  Within a block, all φ-nodes must appear before all non-φ
// nodes.
//
// Pos() returns the position of the && or || for short-circuit
// control-flow joins, or that of the *Alloc for φ-nodes inserted
// during SSA renaming.
//
// Example printed form:
//
//	t2 = phi [0: t0, 1: t1]
type Phi struct {
	register
	Comment string  // a hint as to its purpose
	Edges   []Value // Edges[i] is value for Block().Preds[i]
}

// The Call instruction represents a function or method call.
//
// The Call instruction yields the function result if there is exactly
// one.  Otherwise it returns a tuple, the components of which are
// accessed via Extract.
//
// See CallCommon for generic function call documentation.
//
// Pos() returns the ast.CallExpr.Lparen, if explicit in the source.
//
// Example printed form:
//
//	t2 = println(t0, t1)
//	t4 = t3()
//	t7 = invoke t5.Println(...t6)
type Call struct {
	register
	Call CallCommon
}

// The BinOp instruction yields the result of binary operation X Op Y.
//
// Pos() returns the ast.BinaryExpr.OpPos, if explicit in the source.
//
// Example printed form:
//
//	t1 = t0 + 1:int
type BinOp struct {
	register
	// One of:
	// ADD SUB MUL QUO REM          + - * / %
	// AND OR XOR SHL SHR AND_NOT   & | ^ << >> &^
	// EQL NEQ LSS LEQ GTR GEQ      == != < <= < >=
	Op   token.Token
	X, Y Value
}

// The UnOp instruction yields the result of Op X.
// ARROW is channel receive.
// MUL is pointer indirection (load).
// XOR is bitwise complement.
// SUB is negation.
// NOT is logical negation.
//
// If CommaOk and Op=ARROW, the result is a 2-tuple of the value above
// and a boolean indicating the success of the receive.  The
// components of the tuple are accessed using Extract.
//
// Pos() returns the ast.UnaryExpr.OpPos, if explicit in the source.
// For receive operations (ARROW) implicit in ranging over a channel,
// Pos() returns the ast.RangeStmt.For.
// For implicit memory loads (STAR), Pos() returns the position of the
// most closely associated source-level construct; the details are not
// specified.
//
// Example printed form:
//
//	t0 = *x
//	t2 = <-t1,ok
type UnOp struct {
	register
	Op      token.Token // One of: NOT SUB ARROW MUL XOR ! - <- * ^
	X       Value
	CommaOk bool
}

// The ChangeType instruction applies to X a value-preserving type
// change to Type().
//
// Type changes are permitted:
//   - between a named type and its underlying type.
//   - between two named types of the same underlying type.
//   - between (possibly named) pointers to identical base types.
//   - from a bidirectional channel to a read- or write-channel,
//     optionally adding/removing a name.
//   - between a type (t) and an instance of the type (tσ), i.e.
//     Type() == σ(X.Type()) (or X.Type()== σ(Type())) where
//     σ is the type substitution of Parent().TypeParams by
//     Parent().TypeArgs.
//
// This operation cannot fail dynamically.
//
// Type changes may to be to or from a type parameter (or both). All
// types in the type set of X.Type() have a value-preserving type
// change to all types in the type set of Type().
//
// Pos() returns the ast.CallExpr.Lparen, if the instruction arose
// from an explicit conversion in the source.
//
// Example printed form:
//
//	t1 = changetype *int <- IntPtr (t0)
type ChangeType struct {
	register
	X Value
}

// The Convert instruction yields the conversion of value X to type
// Type().  One or both of those types is basic (but possibly named).
//
// A conversion may change the value and representation of its operand.
// Conversions are permitted:
//   - between real numeric types.
//   - between complex numeric types.
//   - between string and []byte or []rune.
//   - between pointers and unsafe.Pointer.
//   - between unsafe.Pointer and uintptr.
//   - from (Unicode) integer to (UTF-8) string.
//
// A conversion may imply a type name change also.
//
// Conversions may to be to or from a type parameter. All types in
// the type set of X.Type() can be converted to all types in the type
// set of Type().
//
// This operation cannot fail dynamically.
//
// Conversions of untyped string/number/bool constants to a specific
// representation are eliminated during SSA construction.
//
// Pos() returns the ast.CallExpr.Lparen, if the instruction arose
// from an explicit conversion in the source.
//
// Example printed form:
//
//	t1 = convert []byte <- string (t0)
type Convert struct {
	register
	X Value
}

// The MultiConvert instruction yields the conversion of value X to type
// Type(). Either X.Type() or Type() must be a type parameter. Each
// type in the type set of X.Type() can be converted to each type in the
// type set of Type().
//
// See the documentation for Convert, ChangeType, and SliceToArrayPointer
// for the conversions that are permitted. Additionally conversions of
// slices to arrays are permitted.
//
// This operation can fail dynamically (see SliceToArrayPointer).
//
// Pos() returns the ast.CallExpr.Lparen, if the instruction arose
// from an explicit conversion in the source.
//
// Example printed form:
//
//	t1 = multiconvert D <- S (t0) [*[2]rune <- []rune | string <- []rune]
type MultiConvert struct {
	register
	X    Value
	from []*types.Term
	to   []*types.Term
}

// ChangeInterface constructs a value of one interface type from a
// value of another interface type known to be assignable to it.
// This operation cannot fail.
//
// Pos() returns the ast.CallExpr.Lparen if the instruction arose from
// an explicit T(e) conversion; the ast.TypeAssertExpr.Lparen if the
// instruction arose from an explicit e.(T) operation; or token.NoPos
// otherwise.
//
// Example printed form:
//
//	t1 = change interface interface{} <- I (t0)
type ChangeInterface struct {
	register
	X Value
}

// The SliceToArrayPointer instruction yields the conversion of slice X to
// array pointer.
//
// Pos() returns the ast.CallExpr.Lparen, if the instruction arose
// from an explicit conversion in the source.
//
// Conversion may to be to or from a type parameter. All types in
// the type set of X.Type() must be a slice types that can be converted to
// all types in the type set of Type() which must all be pointer to array
// types.
//
// This operation can fail dynamically if the length of the slice is less
// than the length of the array.
//
// Example printed form:
//
//	t1 = slice to array pointer *[4]byte <- []byte (t0)
type SliceToArrayPointer struct {
	register
	X Value
}

// MakeInterface constructs an instance of an interface type from a
// value of a concrete type.
//
// Use Program.MethodSets.MethodSet(X.Type()) to find the method-set
// of X, and Program.MethodValue(m) to find the implementation of a method.
//
// To construct the zero value of an interface type T, use:
//
//	NewConst(constant.MakeNil(), T, pos)
//
// Pos() returns the ast.CallExpr.Lparen, if the instruction arose
// from an explicit conversion in the source.
//
// Example printed form:
//
//	t1 = make interface{} <- int (42:int)
//	t2 = make Stringer <- t0
type MakeInterface struct {
	register
	X Value
}

// The MakeClosure instruction yields a closure value whose code is
// Fn and whose free variables' values are supplied by Bindings.
//
// Type() returns a (possibly named) *types.Signature.
//
// Pos() returns the ast.FuncLit.Type.Func for a function literal
// closure or the ast.SelectorExpr.Sel for a bound method closure.
//
// Example printed form:
//
//	t0 = make closure anon@1.2 [x y z]
//	t1 = make closure bound$(main.I).add [i]
type MakeClosure struct {
	register
	Fn       Value   // always a *Function
	Bindings []Value // values for each free variable in Fn.FreeVars
}

// The MakeMap instruction creates a new hash-table-based map object
// and yields a value of kind map.
//
// Type() returns a (possibly named) *types.Map.
//
// Pos() returns the ast.CallExpr.Lparen, if created by make(map), or
// the ast.CompositeLit.Lbrack if created by a literal.
//
// Example printed form:
//
//	t1 = make map[string]int t0
//	t1 = make StringIntMap t0
type MakeMap struct {
	register
	Reserve Value // initial space reservation; nil => default
}

// The MakeChan instruction creates a new channel object and yields a
// value of kind chan.
//
// Type() returns a (possibly named) *types.Chan.
//
// Pos() returns the ast.CallExpr.Lparen for the make(chan) that
// created it.
//
// Example printed form:
//
//	t0 = make chan int 0
//	t0 = make IntChan 0
type MakeChan struct {
	register
	Size Value // int; size of buffer; zero => synchronous.
}

// The MakeSlice instruction yields a slice of length Len backed by a
// newly allocated array of length Cap.
//
// Both Len and Cap must be non-nil Values of integer type.
//
// (Alloc(types.Array) followed by Slice will not suffice because
// Alloc can only create arrays of constant length.)
//
// Type() returns a (possibly named) *types.Slice.
//
// Pos() returns the ast.CallExpr.Lparen for the make([]T) that
// created it.
//
// Example printed form:
//
//	t1 = make []string 1:int t0
//	t1 = make StringSlice 1:int t0
type MakeSlice struct {
	register
	Len Value
	Cap Value
}

// The Slice instruction yields a slice of an existing string, slice
// or *array X between optional integer bounds Low and High.
//
// Dynamically, this instruction panics if X evaluates to a nil *array
// pointer.
//
// Type() returns string if the type of X was string, otherwise a
// *types.Slice with the same element type as X.
//
// Pos() returns the ast.SliceExpr.Lbrack if created by a x[:] slice
// operation, the ast.CompositeLit.Lbrace if created by a literal, or
// NoPos if not explicit in the source (e.g. a variadic argument slice).
//
// Example printed form:
//
//	t1 = slice t0[1:]
type Slice struct {
	register
	X              Value // slice, string, or *array
	Low, High, Max Value // each may be nil
}

// The FieldAddr instruction yields the address of Field of *struct X.
//
// The field is identified by its index within the field list of the
// struct type of X.
//
// Dynamically, this instruction panics if X evaluates to a nil
// pointer.
//
// Type() returns a (possibly named) *types.Pointer.
//
// Pos() returns the position of the ast.SelectorExpr.Sel for the
// field, if explicit in the source. For implicit selections, returns
// the position of the inducing explicit selection. If produced for a
// struct literal S{f: e}, it returns the position of the colon; for
// S{e} it returns the start of expression e.
//
// Example printed form:
//
//	t1 = &t0.name [#1]
type FieldAddr struct {
	register
	X     Value // *struct
	Field int   // index into CoreType(CoreType(X.Type()).(*types.Pointer).Elem()).(*types.Struct).Fields
}

// The Field instruction yields the Field of struct X.
//
// The field is identified by its index within the field list of the
// struct type of X; by using numeric indices we avoid ambiguity of
// package-local identifiers and permit compact representations.
//
// Pos() returns the position of the ast.SelectorExpr.Sel for the
// field, if explicit in the source. For implicit selections, returns
// the position of the inducing explicit selection.

// Example printed form:
//
//	t1 = t0.name [#1]
type Field struct {
	register
	X     Value // struct
	Field int   // index into CoreType(X.Type()).(*types.Struct).Fields
}

// The IndexAddr instruction yields the address of the element at
// index Index of collection X.  Index is an integer expression.
//
// The elements of maps and strings are not addressable; use Lookup (map),
// Index (string), or MapUpdate instead.
//
// Dynamically, this instruction panics if X evaluates to a nil *array
// pointer.
//
// Type() returns a (possibly named) *types.Pointer.
//
// Pos() returns the ast.IndexExpr.Lbrack for the index operation, if
// explicit in the source.
//
// Example printed form:
//
//	t2 = &t0[t1]
type IndexAddr struct {
	register
	X     Value // *array, slice or type parameter with types array, *array, or slice.
	Index Value // numeric index
}

// The Index instruction yields element Index of collection X, an array,
// string or type parameter containing an array, a string, a pointer to an,
// array or a slice.
//
// Pos() returns the ast.IndexExpr.Lbrack for the index operation, if
// explicit in the source.
//
// Example printed form:
//
//	t2 = t0[t1]
type Index struct {
	register
	X     Value // array, string or type parameter with types array, *array, slice, or string.
	Index Value // integer index
}

// The Lookup instruction yields element Index of collection map X.
// Index is the appropriate key type.
//
// If CommaOk, the result is a 2-tuple of the value above and a
// boolean indicating the result of a map membership test for the key.
// The components of the tuple are accessed using Extract.
//
// Pos() returns the ast.IndexExpr.Lbrack, if explicit in the source.
//
// Example printed form:
//
//	t2 = t0[t1]
//	t5 = t3[t4],ok
type Lookup struct {
	register
	X       Value // map
	Index   Value // key-typed index
	CommaOk bool  // return a value,ok pair
}

// SelectState is a helper for Select.
// It represents one goal state and its corresponding communication.
type SelectState struct {
	Dir       types.ChanDir // direction of case (SendOnly or RecvOnly)
	Chan      Value         // channel to use (for send or receive)
	Send      Value         // value to send (for send)
	Pos       token.Pos     // position of token.ARROW
	DebugNode ast.Node      // ast.SendStmt or ast.UnaryExpr(<-) [debug mode]
}

// The Select instruction tests whether (or blocks until) one
// of the specified sent or received states is entered.
//
// Let n be the number of States for which Dir==RECV and T_i (0<=i<n)
// be the element type of each such state's Chan.
// Select returns an n+2-tuple
//
//	(index int, recvOk bool, r_0 T_0, ... r_n-1 T_n-1)
//
// The tuple's components, described below, must be accessed via the
// Extract instruction.
//
// If Blocking, select waits until exactly one state holds, i.e. a
// channel becomes ready for the designated operation of sending or
// receiving; select chooses one among the ready states
// pseudorandomly, performs the send or receive operation, and sets
// 'index' to the index of the chosen channel.
//
// If !Blocking, select doesn't block if no states hold; instead it
// returns immediately with index equal to -1.
//
// If the chosen channel was used for a receive, the r_i component is
// set to the received value, where i is the index of that state among
// all n receive states; otherwise r_i has the zero value of type T_i.
// Note that the receive index i is not the same as the state
// index index.
//
// The second component of the triple, recvOk, is a boolean whose value
// is true iff the selected operation was a receive and the receive
// successfully yielded a value.
//
// Pos() returns the ast.SelectStmt.Select.
//
// Example printed form:
//
//	t3 = select nonblocking [<-t0, t1<-t2]
//	t4 = select blocking []
type Select struct {
	register
	States   []*SelectState
	Blocking bool
}

// The Range instruction yields an iterator over the domain and range
// of X, which must be a string or map.
//
// Elements are accessed via Next.
//
// Type() returns an opaque and degenerate "rangeIter" type.
//
// Pos() returns the ast.RangeStmt.For.
//
// Example printed form:
//
//	t0 = range "hello":string
type Range struct {
	register
	X Value // string or map
}

// The Next instruction reads and advances the (map or string)
// iterator Iter and returns a 3-tuple value (ok, k, v).  If the
// iterator is not exhausted, ok is true and k and v are the next
// elements of the domain and range, respectively.  Otherwise ok is
// false and k and v are undefined.
//
// Components of the tuple are accessed using Extract.
//
// The IsString field distinguishes iterators over strings from those
// over maps, as the Type() alone is insufficient: consider
// map[int]rune.
//
// Type() returns a *types.Tuple for the triple (ok, k, v).
// The types of k and/or v may be types.Invalid.
//
// Example printed form:
//
//	t1 = next t0
type Next struct {
	register
	Iter     Value
	IsString bool // true => string iterator; false => map iterator.
}

// The TypeAssert instruction tests whether interface value X has type
// AssertedType.
//
// If !CommaOk, on success it returns v, the result of the conversion
// (defined below); on failure it panics.
//
// If CommaOk: on success it returns a pair (v, true) where v is the
// result of the conversion; on failure it returns (z, false) where z
// is AssertedType's zero value.  The components of the pair must be
// accessed using the Extract instruction.
//
// If Underlying: tests whether interface value X has the underlying
// type AssertedType.
//
// If AssertedType is a concrete type, TypeAssert checks whether the
// dynamic type in interface X is equal to it, and if so, the result
// of the conversion is a copy of the value in the interface.
//
// If AssertedType is an interface, TypeAssert checks whether the
// dynamic type of the interface is assignable to it, and if so, the
// result of the conversion is a copy of the interface value X.
// If AssertedType is a superinterface of X.Type(), the operation will
// fail iff the operand is nil.  (Contrast with ChangeInterface, which
// performs no nil-check.)
//
// Type() reflects the actual type of the result, possibly a
// 2-types.Tuple; AssertedType is the asserted type.
//
// Depending on the TypeAssert's purpose, Pos may return:
//   - the ast.CallExpr.Lparen of an explicit T(e) conversion;
//   - the ast.TypeAssertExpr.Lparen of an explicit e.(T) operation;
//   - the ast.CaseClause.Case of a case of a type-switch statement;
//   - the Ident(m).NamePos of an interface method value i.m
//     (for which TypeAssert may be used to effect the nil check).
//
// Example printed form:
//
//	t1 = typeassert t0.(int)
//	t3 = typeassert,ok t2.(T)
type TypeAssert struct {
	register
	X            Value
	AssertedType types.Type
	CommaOk      bool
}

// The Extract instruction yields component Index of Tuple.
//
// This is used to access the results of instructions with multiple
// return values, such as Call, TypeAssert, Next, UnOp(ARROW) and
// IndexExpr(Map).
//
// Example printed form:
//
//	t1 = extract t0 #1
type Extract struct {
	register
	Tuple Value
	Index int
}

// Instructions executed for effect.  They do not yield a value. --------------------

// The Jump instruction transfers control to the sole successor of its
// owning block.
//
// A Jump must be the last instruction of its containing BasicBlock.
//
// Pos() returns NoPos.
//
// Example printed form:
//
//	jump done
type Jump struct {
	anInstruction
}

// The If instruction transfers control to one of the two successors
// of its owning block, depending on the boolean Cond: the first if
// true, the second if false.
//
// An If instruction must be the last instruction of its containing
// BasicBlock.
//
// Pos() returns NoPos.
//
// Example printed form:
//
//	if t0 goto done else body
type If struct {
	anInstruction
	Cond Value
}

// The Return instruction returns values and control back to the calling
// function.
//
// len(Results) is always equal to the number of results in the
// function's signature.
//
// If len(Results) > 1, Return returns a tuple value with the specified
// components which the caller must access using Extract instructions.
//
// There is no instruction to return a ready-made tuple like those
// returned by a "value,ok"-mode TypeAssert, Lookup or UnOp(ARROW) or
// a tail-call to a function with multiple result parameters.
//
// Return must be the last instruction of its containing BasicBlock.
// Such a block has no successors.
//
// Pos() returns the ast.ReturnStmt.Return, if explicit in the source.
//
// Example printed form:
//
//	return
//	return nil:I, 2:int
type Return struct {
	anInstruction
	Results []Value
	pos     token.Pos
}

// The RunDefers instruction pops and invokes the entire stack of
// procedure calls pushed by Defer instructions in this function.
//
// It is legal to encounter multiple 'rundefers' instructions in a
// single control-flow path through a function; this is useful in
// the combined init() function, for example.
//
// Pos() returns NoPos.
//
// Example printed form:
//
//	rundefers
type RunDefers struct {
	anInstruction
}

// The Panic instruction initiates a panic with value X.
//
// A Panic instruction must be the last instruction of its containing
// BasicBlock, which must have no successors.
//
// NB: 'go panic(x)' and 'defer panic(x)' do not use this instruction;
// they are treated as calls to a built-in function.
//
// Pos() returns the ast.CallExpr.Lparen if this panic was explicit
// in the source.
//
// Example printed form:
//
//	panic t0
type Panic struct {
	anInstruction
	X   Value // an interface{}
	pos token.Pos
}

// The Go instruction creates a new goroutine and calls the specified
// function within it.
//
// See CallCommon for generic function call documentation.
//
// Pos() returns the ast.GoStmt.Go.
//
// Example printed form:
//
//	go println(t0, t1)
//	go t3()
//	go invoke t5.Println(...t6)
type Go struct {
	anInstruction
	Call CallCommon
	pos  token.Pos
}

// The Defer instruction pushes the specified call onto a stack of
// functions to be called by a RunDefers instruction or by a panic.
//
// If DeferStack != nil, it indicates the defer list that the defer is
// added to. Defer list values come from the Builtin function
// ssa:deferstack. Calls to ssa:deferstack() produces the defer stack
// of the current function frame. DeferStack allows for deferring into an
// alternative function stack than the current function.
//
// See CallCommon for generic function call documentation.
//
// Pos() returns the ast.DeferStmt.Defer.
//
// Example printed form:
//
//	defer println(t0, t1)
//	defer t3()
//	defer invoke t5.Println(...t6)
type Defer struct {
	anInstruction
	Call       CallCommon
	DeferStack Value // stack of deferred functions (from ssa:deferstack() intrinsic) onto which this function is pushed
	pos        token.Pos
}

// The Send instruction sends X on channel Chan.
//
// Pos() returns the ast.SendStmt.Arrow, if explicit in the source.
//
// Example printed form:
//
//	send t0 <- t1
type Send struct {
	anInstruction
	Chan, X Value
	pos     token.Pos
}

// The Store instruction stores Val at address Addr.
// Stores can be of arbitrary types.
//
// Pos() returns the position of the source-level construct most closely
// associated with the memory store operation.
// Since implicit memory stores are numerous and varied and depend upon
// implementation choices, the details are not specified.
//
// Example printed form:
//
//	*x = y
type Store struct {
	anInstruction
	Addr Value
	Val  Value
	pos  token.Pos
}

// The MapUpdate instruction updates the association of Map[Key] to
// Value.
//
// Pos() returns the ast.KeyValueExpr.Colon or ast.IndexExpr.Lbrack,
// if explicit in the source.
//
// Example printed form:
//
//	t0[t1] = t2
type MapUpdate struct {
	anInstruction
	Map   Value
	Key   Value
	Value Value
	pos   token.Pos
}

// A DebugRef instruction maps a source-level expression Expr to the
// SSA value X that represents the value (!IsAddr) or address (IsAddr)
// of that expression.
//
// DebugRef is a pseudo-instruction: it has no dynamic effect.
//
// Pos() returns Expr.Pos(), the start position of the source-level
// expression.  This is not the same as the "designated" token as
// documented at Value.Pos(). e.g. CallExpr.Pos() does not return the
// position of the ("designated") Lparen token.
//
// If Expr is an *ast.Ident denoting a var or func, Object() returns
// the object; though this information can be obtained from the type
// checker, including it here greatly facilitates debugging.
// For non-Ident expressions, Object() returns nil.
//
// DebugRefs are generated only for functions built with debugging
// enabled; see Package.SetDebugMode() and the GlobalDebug builder
// mode flag.
//
// DebugRefs are not emitted for ast.Idents referring to constants or
// predeclared identifiers, since they are trivial and numerous.
// Nor are they emitted for ast.ParenExprs.
//
// (By representing these as instructions, rather than out-of-band,
// consistency is maintained during transformation passes by the
// ordinary SSA renaming machinery.)
//
// Example printed form:
//
//	; *ast.CallExpr @ 102:9 is t5
//	; var x float64 @ 109:72 is x
//	; address of *ast.CompositeLit @ 216:10 is t0
type DebugRef struct {
	// TODO(generics): Reconsider what DebugRefs are for generics.
	anInstruction
	Expr   ast.Expr     // the referring expression (never *ast.ParenExpr)
	object types.Object // the identity of the source var/func
	IsAddr bool         // Expr is addressable and X is the address it denotes
	X      Value        // the value or address of Expr
}

// Embeddable mix-ins and helpers for common parts of other structs. -----------

// register is a mix-in embedded by all SSA values that are also
// instructions, i.e. virtual registers, and provides a uniform
// implementation of most of the Value interface: Value.Name() is a
// numbered register (e.g. "t0"); the other methods are field accessors.
//
// Temporary names are automatically assigned to each register on
// completion of building a function in SSA form.
//
// Clients must not assume that the 'id' value (and the Name() derived
// from it) is unique within a function.  As always in this API,
// semantics are determined only by identity; names exist only to
// facilitate debugging.
type register struct {
	anInstruction
	num       int        // "name" of virtual register, e.g. "t0".  Not guaranteed unique.
	typ       types.Type // type of virtual register
	pos       token.Pos  // position of source expression, or NoPos
	referrers []Instruction
}

// anInstruction is a mix-in embedded by all Instructions.
// It provides the implementations of the Block and setBlock methods.
type anInstruction struct {
	block *BasicBlock // the basic block of this instruction
}

// CallCommon is contained by Go, Defer and Call to hold the
// common parts of a function or method call.
//
// Each CallCommon exists in one of two modes, function call and
// interface method invocation, or "call" and "invoke" for short.
//
// 1. "call" mode: when Method is nil (!IsInvoke), a CallCommon
// represents an ordinary function call of the value in Value,
// which may be a *Builtin, a *Function or any other value of kind
// 'func'.
//
// Value may be one of:
//
//	(a) a *Function, indicating a statically dispatched call
//	    to a package-level function, an anonymous function, or
//	    a method of a named type.
//	(b) a *MakeClosure, indicating an immediately applied
//	    function literal with free variables.
//	(c) a *Builtin, indicating a statically dispatched call
//	    to a built-in function.
//	(d) any other value, indicating a dynamically dispatched
//	    function call.
//
// StaticCallee returns the identity of the callee in cases
// (a) and (b), nil otherwise.
//
// Args contains the arguments to the call.  If Value is a method,
// Args[0] contains the receiver parameter.
//
// Example printed form:
//
//	t2 = println(t0, t1)
//	go t3()
//	defer t5(...t6)
//
// 2. "invoke" mode: when Method is non-nil (IsInvoke), a CallCommon
// represents a dynamically dispatched call to an interface method.
// In this mode, Value is the interface value and Method is the
// interface's abstract method. The interface value may be a type
// parameter. Note: an interface method may be shared by multiple
// interfaces due to embedding; Value.Type() provides the specific
// interface used for this call.
//
// Value is implicitly supplied to the concrete method implementation
// as the receiver parameter; in other words, Args[0] holds not the
// receiver but the first true argument.
//
// Example printed form:
//
//	t1 = invoke t0.String()
//	go invoke t3.Run(t2)
//	defer invoke t4.Handle(...t5)
//
// For all calls to variadic functions (Signature().Variadic()),
// the last element of Args is a slice.
type CallCommon struct {
	Value  Value       // receiver (invoke mode) or func value (call mode)
	Method *types.Func // interface method (invoke mode)
	Args   []Value     // actual parameters (in static method call, includes receiver)
	pos    token.Pos   // position of CallExpr.Lparen, iff explicit in source
}

// IsInvoke returns true if this call has "invoke" (not "call") mode.
func (c *CallCommon) IsInvoke() bool {
	return c.Method != nil
}

func (c *CallCommon) Pos() token.Pos { return c.pos }

// Signature returns the signature of the called function.
//
// For an "invoke"-mode call, the signature of the interface method is
// returned.
//
// In either "call" or "invoke" mode, if the callee is a method, its
// receiver is represented by sig.Recv, not sig.Params().At(0).
func (c *CallCommon) Signature() *types.Signature {
	if c.Method != nil {
		return c.Method.Type().(*types.Signature)
	}
	return typeparams.CoreType(c.Value.Type()).(*types.Signature)
}

// StaticCallee returns the callee if this is a trivially static
// "call"-mode call to a function.
func (c *CallCommon) StaticCallee() *Function {
	switch fn := c.Value.(type) {
	case *Function:
		return fn
	case *MakeClosure:
		return fn.Fn.(*Function)
	}
	return nil
}

// Description returns a description of the mode of this call suitable
// for a user interface, e.g., "static method call".
func (c *CallCommon) Description() string {
	switch fn := c.Value.(type) {
	case *Builtin:
		return "built-in function call"
	case *MakeClosure:
		return "static function closure call"
	case *Function:
		if fn.Signature.Recv() != nil {
			return "static method call"
		}
		return "static function call"
	}
	if c.IsInvoke() {
		return "dynamic method call" // ("invoke" mode)
	}
	return "dynamic function call"
}

// The CallInstruction interface, implemented by *Go, *Defer and *Call,
// exposes the common parts of function-calling instructions,
// yet provides a way back to the Value defined by *Call alone.
type CallInstruction interface {
	Instruction
	Common() *CallCommon // returns the common parts of the call
	Value() *Call        // returns the result value of the call (*Call) or nil (*Go, *Defer)
}

func (s *Call) Common() *CallCommon  { return &s.Call }
func (s *Defer) Common() *CallCommon { return &s.Call }
func (s *Go) Common() *CallCommon    { return &s.Call }

func (s *Call) Value() *Call  { return s }
func (s *Defer) Value() *Call { return nil }
func (s *Go) Value() *Call    { return nil }

func (v *Builtin) Type() types.Type        { return v.sig }
func (v *Builtin) Name() string            { return v.name }
func (*Builtin) Referrers() *[]Instruction { return nil }
func (v *Builtin) Pos() token.Pos          { return token.NoPos }
func (v *Builtin) Object() types.Object    { return types.Universe.Lookup(v.name) }
func (v *Builtin) Parent() *Function       { return nil }

func (v *FreeVar) Type() types.Type          { return v.typ }
func (v *FreeVar) Name() string              { return v.name }
func (v *FreeVar) Referrers() *[]Instruction { return &v.referrers }
func (v *FreeVar) Pos() token.Pos            { return v.pos }
func (v *FreeVar) Parent() *Function         { return v.parent }

func (v *Global) Type() types.Type                     { return v.typ }
func (v *Global) Name() string                         { return v.name }
func (v *Global) Parent() *Function                    { return nil }
func (v *Global) Pos() token.Pos                       { return v.pos }
func (v *Global) Referrers() *[]Instruction            { return nil }
func (v *Global) Token() token.Token                   { return token.VAR }
func (v *Global) Object() types.Object                 { return v.object }
func (v *Global) String() string                       { return v.RelString(nil) }
func (v *Global) Package() *Package                    { return v.Pkg }
func (v *Global) RelString(from *types.Package) string { return relString(v, from) }

func (v *Function) Name() string       { return v.name }
func (v *Function) Type() types.Type   { return v.Signature }
func (v *Function) Pos() token.Pos     { return v.pos }
func (v *Function) Token() token.Token { return token.FUNC }
func (v *Function) Object() types.Object {
	if v.object != nil {
		return types.Object(v.object)
	}
	return nil
}
func (v *Function) String() string    { return v.RelString(nil) }
func (v *Function) Package() *Package { return v.Pkg }
func (v *Function) Parent() *Function { return v.parent }
func (v *Function) Referrers() *[]Instruction {
	if v.parent != nil {
		return &v.referrers
	}
	return nil
}

// TypeParams are the function's type parameters if generic or the
// type parameters that were instantiated if fn is an instantiation.
func (fn *Function) TypeParams() *types.TypeParamList {
	return fn.typeparams
}

// TypeArgs are the types that TypeParams() were instantiated by to create fn
// from fn.Origin().
func (fn *Function) TypeArgs() []types.Type { return fn.typeargs }

// Origin returns the generic function from which fn was instantiated,
// or nil if fn is not an instantiation.
func (fn *Function) Origin() *Function {
	if fn.parent != nil && len(fn.typeargs) > 0 {
		// Nested functions are BUILT at a different time than their instances.
		// Build declared package if not yet BUILT. This is not an expected use
		// case, but is simple and robust.
		fn.declaredPackage().Build()
	}
	return origin(fn)
}

// origin is the function that fn is an instantiation of. Returns nil if fn is
// not an instantiation.
//
// Precondition: fn and the origin function are done building.
func origin(fn *Function) *Function {
	if fn.parent != nil && len(fn.typeargs) > 0 {
		return origin(fn.parent).AnonFuncs[fn.anonIdx]
	}
	return fn.topLevelOrigin
}

func (v *Parameter) Type() types.Type          { return v.typ }
func (v *Parameter) Name() string              { return v.name }
func (v *Parameter) Object() types.Object      { return v.object }
func (v *Parameter) Referrers() *[]Instruction { return &v.referrers }
func (v *Parameter) Pos() token.Pos            { return v.object.Pos() }
func (v *Parameter) Parent() *Function         { return v.parent }

func (v *Alloc) Type() types.Type          { return v.typ }
func (v *Alloc) Referrers() *[]Instruction { return &v.referrers }
func (v *Alloc) Pos() token.Pos            { return v.pos }

func (v *register) Type() types.Type          { return v.typ }
func (v *register) setType(typ types.Type)    { v.typ = typ }
func (v *register) Name() string              { return fmt.Sprintf("t%d", v.num) }
func (v *register) setNum(num int)            { v.num = num }
func (v *register) Referrers() *[]Instruction { return &v.referrers }
func (v *register) Pos() token.Pos            { return v.pos }
func (v *register) setPos(pos token.Pos)      { v.pos = pos }

func (v *anInstruction) Parent() *Function          { return v.block.parent }
func (v *anInstruction) Block() *BasicBlock         { return v.block }
func (v *anInstruction) setBlock(block *BasicBlock) { v.block = block }
func (v *anInstruction) Referrers() *[]Instruction  { return nil }

func (t *Type) Name() string                         { return t.object.Name() }
func (t *Type) Pos() token.Pos                       { return t.object.Pos() }
func (t *Type) Type() types.Type                     { return t.object.Type() }
func (t *Type) Token() token.Token                   { return token.TYPE }
func (t *Type) Object() types.Object                 { return t.object }
func (t *Type) String() string                       { return t.RelString(nil) }
func (t *Type) Package() *Package                    { return t.pkg }
func (t *Type) RelString(from *types.Package) string { return relString(t, from) }

func (c *NamedConst) Name() string                         { return c.object.Name() }
func (c *NamedConst) Pos() token.Pos                       { return c.object.Pos() }
func (c *NamedConst) String() string                       { return c.RelString(nil) }
func (c *NamedConst) Type() types.Type                     { return c.object.Type() }
func (c *NamedConst) Token() token.Token                   { return token.CONST }
func (c *NamedConst) Object() types.Object                 { return c.object }
func (c *NamedConst) Package() *Package                    { return c.pkg }
func (c *NamedConst) RelString(from *types.Package) string { return relString(c, from) }

func (d *DebugRef) Object() types.Object { return d.object }

// Func returns the package-level function of the specified name,
// or nil if not found.
func (p *Package) Func(name string) (f *Function) {
	f, _ = p.Members[name].(*Function)
	return
}

// Var returns the package-level variable of the specified name,
// or nil if not found.
func (p *Package) Var(name string) (g *Global) {
	g, _ = p.Members[name].(*Global)
	return
}

// Const returns the package-level constant of the specified name,
// or nil if not found.
func (p *Package) Const(name string) (c *NamedConst) {
	c, _ = p.Members[name].(*NamedConst)
	return
}

// Type returns the package-level type of the specified name,
// or nil if not found.
func (p *Package) Type(name string) (t *Type) {
	t, _ = p.Members[name].(*Type)
	return
}

func (v *Call) Pos() token.Pos      { return v.Call.pos }
func (s *Defer) Pos() token.Pos     { return s.pos }
func (s *Go) Pos() token.Pos        { return s.pos }
func (s *MapUpdate) Pos() token.Pos { return s.pos }
func (s *Panic) Pos() token.Pos     { return s.pos }
func (s *Return) Pos() token.Pos    { return s.pos }
func (s *Send) Pos() token.Pos      { return s.pos }
func (s *Store) Pos() token.Pos     { return s.pos }
func (s *If) Pos() token.Pos        { return token.NoPos }
func (s *Jump) Pos() token.Pos      { return token.NoPos }
func (s *RunDefers) Pos() token.Pos { return token.NoPos }
func (s *DebugRef) Pos() token.Pos  { return s.Expr.Pos() }

// Operands.

func (v *Alloc) Operands(rands []*Value) []*Value {
	return rands
}

func (v *BinOp) Operands(rands []*Value) []*Value {
	return append(rands, &v.X, &v.Y)
}

func (c *CallCommon) Operands(rands []*Value) []*Value {
	rands = append(rands, &c.Value)
	for i := range c.Args {
		rands = append(rands, &c.Args[i])
	}
	return rands
}

func (s *Go) Operands(rands []*Value) []*Value {
	return s.Call.Operands(rands)
}

func (s *Call) Operands(rands []*Value) []*Value {
	return s.Call.Operands(rands)
}

func (s *Defer) Operands(rands []*Value) []*Value {
	return append(s.Call.Operands(rands), &s.DeferStack)
}

func (v *ChangeInterface) Operands(rands []*Value) []*Value {
	return append(rands, &v.X)
}

func (v *ChangeType) Operands(rands []*Value) []*Value {
	return append(rands, &v.X)
}

func (v *Convert) Operands(rands []*Value) []*Value {
	return append(rands, &v.X)
}

func (v *MultiConvert) Operands(rands []*Value) []*Value {
	return append(rands, &v.X)
}

func (v *SliceToArrayPointer) Operands(rands []*Value) []*Value {
	return append(rands, &v.X)
}

func (s *DebugRef) Operands(rands []*Value) []*Value {
	return append(rands, &s.X)
}

func (v *Extract) Operands(rands []*Value) []*Value {
	return append(rands, &v.Tuple)
}

func (v *Field) Operands(rands []*Value) []*Value {
	return append(rands, &v.X)
}

func (v *FieldAddr) Operands(rands []*Value) []*Value {
	return append(rands, &v.X)
}

func (s *If) Operands(rands []*Value) []*Value {
	return append(rands, &s.Cond)
}

func (v *Index) Operands(rands []*Value) []*Value {
	return append(rands, &v.X, &v.Index)
}

func (v *IndexAddr) Operands(rands []*Value) []*Value {
	return append(rands, &v.X, &v.Index)
}

func (*Jump) Operands(rands []*Value) []*Value {
	return rands
}

func (v *Lookup) Operands(rands []*Value) []*Value {
	return append(rands, &v.X, &v.Index)
}

func (v *MakeChan) Operands(rands []*Value) []*Value {
	return append(rands, &v.Size)
}

func (v *MakeClosure) Operands(rands []*Value) []*Value {
	rands = append(rands, &v.Fn)
	for i := range v.Bindings {
		rands = append(rands, &v.Bindings[i])
	}
	return rands
}

func (v *MakeInterface) Operands(rands []*Value) []*Value {
	return append(rands, &v.X)
}

func (v *MakeMap) Operands(rands []*Value) []*Value {
	return append(rands, &v.Reserve)
}

func (v *MakeSlice) Operands(rands []*Value) []*Value {
	return append(rands, &v.Len, &v.Cap)
}

func (v *MapUpdate) Operands(rands []*Value) []*Value {
	return append(rands, &v.Map, &v.Key, &v.Value)
}

func (v *Next) Operands(rands []*Value) []*Value {
	return append(rands, &v.Iter)
}

func (s *Panic) Operands(rands []*Value) []*Value {
	return append(rands, &s.X)
}

func (v *Phi) Operands(rands []*Value) []*Value {
	for i := range v.Edges {
		rands = append(rands, &v.Edges[i])
	}
	return rands
}

func (v *Range) Operands(rands []*Value) []*Value {
	return append(rands, &v.X)
}

func (s *Return) Operands(rands []*Value) []*Value {
	for i := range s.Results {
		rands = append(rands, &s.Results[i])
	}
	return rands
}

func (*RunDefers) Operands(rands []*Value) []*Value {
	return rands
}

func (v *Select) Operands(rands []*Value) []*Value {
	for i := range v.States {
		rands = append(rands, &v.States[i].Chan, &v.States[i].Send)
	}
	return rands
}

func (s *Send) Operands(rands []*Value) []*Value {
	return append(rands, &s.Chan, &s.X)
}

func (v *Slice) Operands(rands []*Value) []*Value {
	return append(rands, &v.X, &v.Low, &v.High, &v.Max)
}

func (s *Store) Operands(rands []*Value) []*Value {
	return append(rands, &s.Addr, &s.Val)
}

func (v *TypeAssert) Operands(rands []*Value) []*Value {
	return append(rands, &v.X)
}

func (v *UnOp) Operands(rands []*Value) []*Value {
	return append(rands, &v.X)
}

// Non-Instruction Values:
func (v *Builtin) Operands(rands []*Value) []*Value   { return rands }
func (v *FreeVar) Operands(rands []*Value) []*Value   { return rands }
func (v *Const) Operands(rands []*Value) []*Value     { return rands }
func (v *Function) Operands(rands []*Value) []*Value  { return rands }
func (v *Global) Operands(rands []*Value) []*Value    { return rands }
func (v *Parameter) Operands(rands []*Value) []*Value { return rands }
