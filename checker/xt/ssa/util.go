// Copyright 2013 The Go Authors. All rights reserved.
// Use of this source code is governed by a BSD-style
// license that can be found in the LICENSE file.

package ssa

// This file defines a number of miscellaneous utility functions.

import (
	"fmt"
	"go/ast"
	"go/token"
	"go/types"
	"io"
	"os"
	"sync"
	_ "unsafe" // for go:linkname hack

	"golang.org/x/tools/go/types/typeutil"
	"ikeverif/checker/xt/typeparams"
	"ikeverif/checker/xt/typesinternal"
)

type unit struct{}

//// Sanity checking utilities

// assert panics with the mesage msg if p is false.
// Avoid combining with expensive string formatting.
func assert(p bool, msg string) {
	if !p {
		panic(msg)
	}
}

//// AST utilities

func unparen(e ast.Expr) ast.Expr { return ast.Unparen(e) }

// isBlankIdent returns true iff e is an Ident with name "_".
// They have no associated types.Object, and thus no type.
func isBlankIdent(e ast.Expr) bool {
	id, ok := e.(*ast.Ident)
	return ok && id.Name == "_"
}

//// Type utilities.  Some of these belong in go/types.

// isNonTypeParamInterface reports whether t is an interface type but not a type parameter.
func isNonTypeParamInterface(t types.Type) bool {
	return !typeparams.IsTypeParam(t) && types.IsInterface(t)
}

// isBasic reports whether t is a basic type.
// t is assumed to be an Underlying type (not Named or Alias).
func isBasic(t types.Type) bool {
	_, ok := t.(*types.Basic)
	return ok
}

// isString reports whether t is exactly a string type.
// t is assumed to be an Underlying type (not Named or Alias).
func isString(t types.Type) bool {
	basic, ok := t.(*types.Basic)
	return ok && basic.Info()&types.IsString != 0
}

// isByteSlice reports whether t is of the form []~bytes.
// t is assumed to be an Underlying type (not Named or Alias).
func isByteSlice(t types.Type) bool {
	if b, ok := t.(*types.Slice); ok {
		e, _ := b.Elem().Underlying().(*types.Basic)
		return e != nil && e.Kind() == types.Byte
	}
	return false
}

// isRuneSlice reports whether t is of the form []~runes.
// t is assumed to be an Underlying type (not Named or Alias).
func isRuneSlice(t types.Type) bool {
	if b, ok := t.(*types.Slice); ok {
		e, _ := b.Elem().Underlying().(*types.Basic)
		return e != nil && e.Kind() == types.Rune
	}
	return false
}

// isBasicConvTypes returns true when a type set can be
// one side of a Convert operation. This is when:
// - All are basic, []byte, or []rune.
// - At least 1 is basic.
// - At most 1 is []byte or []rune.
func isBasicConvTypes(tset termList) bool {
	basics := 0
	all := underIs(tset, func(t types.Type) bool {
		if isBasic(t) {
			basics++
			return true
		}
		return isByteSlice(t) || isRuneSlice(t)
	})
	return all && basics >= 1 && tset.Len()-basics <= 1
}

// isPointer reports whether t's underlying type is a pointer.
func isPointer(t types.Type) bool {
	return is[*types.Pointer](t.Underlying())
}

// isPointerCore reports whether t's core type is a pointer.
//
// (Most pointer manipulation is related to receivers, in which case
// isPointer is appropriate. tecallers can use isPointer(t).
func isPointerCore(t types.Type) bool {
	return is[*types.Pointer](typeparams.CoreType(t))
}

func is[T any](x any) bool {
	_, ok := x.(T)
	return ok
}

// recvType returns the receiver type of method obj.
func recvType(obj *types.Func) types.Type {
	return obj.Type().(*types.Signature).Recv().Type()
}

// fieldOf returns the index'th field of the (core type of) a struct type;
// otherwise returns nil.
func fieldOf(typ types.Type, index int) *types.Var {
	if st, ok := typeparams.CoreType(typ).(*types.Struct); ok {
		if 0 <= index && index < st.NumFields() {
			return st.Field(index)
		}
	}
	return nil
}

// isUntyped reports whether typ is the type of an untyped constant.
func isUntyped(typ types.Type) bool {
	// No Underlying/Unalias: untyped constant types cannot be Named or Alias.
	b, ok := typ.(*types.Basic)
	return ok && b.Info()&types.IsUntyped != 0
}

// declaredWithin reports whether an object is declared within a function.
//
// obj must not be a method or a field.
func declaredWithin(obj types.Object, fn *types.Func) bool {
	if obj.Pos() != token.NoPos {
		return fn.Scope().Contains(obj.Pos()) // trust the positions if they exist.
	}
	if fn.Pkg() != obj.Pkg() {
		return false // fast path for different packages
	}

	// Traverse Parent() scopes for fn.Scope().
	for p := obj.Parent(); p != nil; p = p.Parent() {
		if p == fn.Scope() {
			return true
		}
	}
	return false
}

// logStack prints the formatted "start" message to stderr and
// returns a closure that prints the corresponding "end" message.
// Call using 'defer logStack(...)()' to show builder stack on panic.
// Don't forget trailing parens!
func logStack(format string, args ...interface{}) func() {
	msg := fmt.Sprintf(format, args...)
	io.WriteString(os.Stderr, msg)
	io.WriteString(os.Stderr, "\n")
	return func() {
		io.WriteString(os.Stderr, msg)
		io.WriteString(os.Stderr, " end\n")
	}
}

// newVar creates a 'var' for use in a types.Tuple.
func newVar(name string, typ types.Type) *types.Var {
	return types.NewParam(token.NoPos, nil, name, typ)
}

// anonVar creates an anonymous 'var' for use in a types.Tuple.
func anonVar(typ types.Type) *types.Var {
	return newVar("", typ)
}

var lenResults = types.NewTuple(anonVar(tInt))

// makeLen returns the len builtin specialized to type func(T)int.
func makeLen(T types.Type) *Builtin {
	lenParams := types.NewTuple(anonVar(T))
	return &Builtin{
		name: "len",
		sig:  types.NewSignature(nil, lenParams, lenResults, false),
	}
}

// receiverTypeArgs returns the type arguments to a method's receiver.
// Returns an empty list if the receiver does not have type arguments.
func receiverTypeArgs(method *types.Func) []types.Type {
	recv := method.Type().(*types.Signature).Recv()
	_, named := typesinternal.ReceiverNamed(recv)
	if named == nil {
		return nil // recv is anonymous struct/interface
	}
	ts := named.TypeArgs()
	if ts.Len() == 0 {
		return nil
	}
	targs := make([]types.Type, ts.Len())
	for i := 0; i < ts.Len(); i++ {
		targs[i] = ts.At(i)
	}
	return targs
}

// recvAsFirstArg takes a method signature and returns a function
// signature with receiver as the first parameter.
func recvAsFirstArg(sig *types.Signature) *types.Signature {
	params := make([]*types.Var, 0, 1+sig.Params().Len())
	params = append(params, sig.Recv())
	for i := 0; i < sig.Params().Len(); i++ {
		params = append(params, sig.Params().At(i))
	}
	return types.NewSignatureType(nil, nil, nil, types.NewTuple(params...), sig.Results(), sig.Variadic())
}

// instance returns whether an expression is a simple or qualified identifier
// that is a generic instantiation.
func instance(info *types.Info, expr ast.Expr) bool {
	// Compare the logic here against go/types.instantiatedIdent,
	// which also handles  *IndexExpr and *IndexListExpr.
	var id *ast.Ident
	switch x := expr.(type) {
	case *ast.Ident:
		id = x
	case *ast.SelectorExpr:
		id = x.Sel
	default:
		return false
	}
	_, ok := info.Instances[id]
	return ok
}

// instanceArgs returns the Instance[id].TypeArgs as a slice.
func instanceArgs(info *types.Info, id *ast.Ident) []types.Type {
	targList := info.Instances[id].TypeArgs
	if targList == nil {
		return nil
	}

	targs := make([]types.Type, targList.Len())
	for i, n := 0, targList.Len(); i < n; i++ {
		targs[i] = targList.At(i)
	}
	return targs
}

// Mapping of a type T to a canonical instance C s.t. types.Identical(T, C).
// Thread-safe.
type canonizer struct {
	mu    sync.Mutex
	types typeutil.Map // map from type to a canonical instance
	lists typeListMap  // map from a list of types to a canonical instance
}

func newCanonizer() *canonizer {
	c := &canonizer{}
	h := typeutil.MakeHasher()
	c.types.SetHasher(h)
	c.lists.hasher = h
	return c
}

// List returns a canonical representative of a list of types.
// Representative of the empty list is nil.
func (c *canonizer) List(ts []types.Type) *typeList {
	if len(ts) == 0 {
		return nil
	}

	unaliasAll := func(ts []types.Type) []types.Type {
		// Is there some top level alias?
		var found bool
		for _, t := range ts {
			if _, ok := t.(*types.Alias); ok {
				found = true
				break
			}
		}
		if !found {
			return ts // no top level alias
		}

		cp := make([]types.Type, len(ts)) // copy with top level aliases removed.
		for i, t := range ts {
			cp[i] = types.Unalias(t)
		}
		return cp
	}
	l := unaliasAll(ts)

	c.mu.Lock()
	defer c.mu.Unlock()
	return c.lists.rep(l)
}

// Type returns a canonical representative of type T.
// Removes top-level aliases.
//
// For performance, reasons the canonical instance is order-dependent,
// and may contain deeply nested aliases.
func (c *canonizer) Type(T types.Type) types.Type {
	T = types.Unalias(T) // remove the top level alias.

	c.mu.Lock()
	defer c.mu.Unlock()

	if r := c.types.At(T); r != nil {
		return r.(types.Type)
	}
	c.types.Set(T, T)
	return T
}

// A type for representing a canonized list of types.
type typeList []types.Type

func (l *typeList) identical(ts []types.Type) bool {
	if l == nil {
		return len(ts) == 0
	}
	n := len(*l)
	if len(ts) != n {
		return false
	}
	for i, left := range *l {
		right := ts[i]
		if !types.Identical(left, right) {
			return false
		}
	}
	return true
}

type typeListMap struct {
	hasher  typeutil.Hasher
	buckets map[uint32][]*typeList
}

// rep returns a canonical representative of a slice of types.
func (m *typeListMap) rep(ts []types.Type) *typeList {
	if m == nil || len(ts) == 0 {
		return nil
	}

	if m.buckets == nil {
		m.buckets = make(map[uint32][]*typeList)
	}

	h := m.hash(ts)
	bucket := m.buckets[h]
	for _, l := range bucket {
		if l.identical(ts) {
			return l
		}
	}

	// not present. create a representative.
	cp := make(typeList, len(ts))
	copy(cp, ts)
	rep := &cp

	m.buckets[h] = append(bucket, rep)
	return rep
}

func (m *typeListMap) hash(ts []types.Type) uint32 {
	if m == nil {
		return 0
	}
	// Some smallish prime far away from typeutil.Hash.
	n := len(ts)
	h := uint32(13619) + 2*uint32(n)
	for i := 0; i < n; i++ {
		h += 3 * m.hasher.Hash(ts[i])
	}
	return h
}

// instantiateMethod instantiates m with targs and returns a canonical representative for this method.
func (canon *canonizer) instantiateMethod(m *types.Func, targs []types.Type, ctxt *types.Context) *types.Func {
	recv := recvType(m)
	if p, ok := types.Unalias(recv).(*types.Pointer); ok {
		recv = p.Elem()
	}
	named := types.Unalias(recv).(*types.Named)
	inst, err := types.Instantiate(ctxt, named.Origin(), targs, false)
	if err != nil {
		panic(err)
	}
	rep := canon.Type(inst)
	obj, _, _ := types.LookupFieldOrMethod(rep, true, m.Pkg(), m.Name())
	return obj.(*types.Func)
}

// Exposed to ssautil using the linkname hack.
//
//go:linkname isSyntactic golang.org/x/tools/go/ssa.isSyntactic
func isSyntactic(pkg *Package) bool { return pkg.syntax }
