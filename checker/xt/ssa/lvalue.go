// Copyright 2013 The Go Authors. All rights reserved.
// Use of this source code is governed by a BSD-style
// license that can be found in the LICENSE file.

package ssa

// lvalues are the union of addressable expressions and map-index
// expressions.

import (
	"go/ast"
	"go/token"
	"go/types"

	"ikeverif/checker/xt/typeparams"
)

// An lvalue represents an assignable location that may appear on the
// left-hand side of an assignment.  This is a generalization of a
// pointer to permit updates to elements of maps.
type lvalue interface {
	store(fn *Function, v Value) // stores v into the location
	load(fn *Function) Value     // loads the contents of the location
	address(fn *Function) Value  // address of the location
	typ() types.Type             // returns the type of the location
}

// An address is an lvalue represented by a true pointer.
type address struct {
	addr Value     // must have a pointer core type.
	pos  token.Pos // source position
	expr ast.Expr  // source syntax of the value (not address) [debug mode]
}

func (a *address) load(fn *Function) Value {
	load := emitLoad(fn, a.addr)
	load.pos = a.pos
	return load
}

func (a *address) store(fn *Function, v Value) {
	store := emitStore(fn, a.addr, v, a.pos)
	if a.expr != nil {
		// store.Val is v, converted for assignability.
		emitDebugRef(fn, a.expr, store.Val, false)
	}
}

func (a *address) address(fn *Function) Value {
	if a.expr != nil {
		emitDebugRef(fn, a.expr, a.addr, true)
	}
	return a.addr
}

func (a *address) typ() types.Type {
	return typeparams.MustDeref(a.addr.Type())
}

// An element is an lvalue represented by m[k], the location of an
// element of a map.  These locations are not addressable
// since pointers cannot be formed from them, but they do support
// load() and store().
type element struct {
	m, k Value      // map
	t    types.Type // map element type
	pos  token.Pos  // source position of colon ({k:v}) or lbrack (m[k]=v)
}

func (e *element) load(fn *Function) Value {
	l := &Lookup{
		X:     e.m,
		Index: e.k,
	}
	l.setPos(e.pos)
	l.setType(e.t)
	return fn.emit(l)
}

func (e *element) store(fn *Function, v Value) {
	up := &MapUpdate{
		Map:   e.m,
		Key:   e.k,
		Value: emitConv(fn, v, e.t),
	}
	up.pos = e.pos
	fn.emit(up)
}

func (e *element) address(fn *Function) Value {
	panic("map elements are not addressable")
}

func (e *element) typ() types.Type {
	return e.t
}

// A lazyAddress is an lvalue whose address is the result of an instruction.
// These work like an *address except a new address.address() Value
// is created on each load, store and address call.
// A lazyAddress can be used to control when a side effect (nil pointer
// dereference, index out of bounds) of using a location happens.
type lazyAddress struct {
	addr func(fn *Function) Value // emit to fn the computation of the address
	t    types.Type               // type of the location
	pos  token.Pos                // source position
	expr ast.Expr                 // source syntax of the value (not address) [debug mode]
}

func (l *lazyAddress) load(fn *Function) Value {
	load := emitLoad(fn, l.addr(fn))
	load.pos = l.pos
	return load
}

func (l *lazyAddress) store(fn *Function, v Value) {
	store := emitStore(fn, l.addr(fn), v, l.pos)
	if l.expr != nil {
		// store.Val is v, converted for assignability.
		emitDebugRef(fn, l.expr, store.Val, false)
	}
}

func (l *lazyAddress) address(fn *Function) Value {
	addr := l.addr(fn)
	if l.expr != nil {
		emitDebugRef(fn, l.expr, addr, true)
	}
	return addr
}

func (l *lazyAddress) typ() types.Type { return l.t }

// A blank is a dummy variable whose name is "_".
// It is not reified: loads are illegal and stores are ignored.
type blank struct{}

func (bl blank) load(fn *Function) Value {
	panic("blank.load is illegal")
}

func (bl blank) store(fn *Function, v Value) {
	// no-op
}

func (bl blank) address(fn *Function) Value {
	panic("blank var is not addressable")
}

func (bl blank) typ() types.Type {
	// This should be the type of the blank Ident; the typechecker
	// doesn't provide this yet, but fortunately, we don't need it
	// yet either.
	panic("blank.typ is unimplemented")
}
