// Copyright 2013 The Go Authors. All rights reserved.
// Use of this source code is governed by a BSD-style
// license that can be found in the LICENSE file.

// Package ssa defines a representation of the elements of Go programs
// (packages, types, functions, variables and constants) using a
// static single-assignment (SSA) form intermediate representation
// (IR) for the bodies of functions.
//
// For an introduction to SSA form, see
// http://en.wikipedia.org/wiki/Static_single_assignment_form.
// This page provides a broader reading list:
// http://www.dcs.gla.ac.uk/~jsinger/ssa.html.
//
// The level of abstraction of the SSA form is intentionally close to
// the source language to facilitate construction of source analysis
// tools.  It is not intended for machine code generation.
//
// All looping, branching and switching constructs are replaced with
// unstructured control flow.  Higher-level control flow constructs
// such as multi-way branch can be reconstructed as needed; see
// [golang.org/x/tools/go/ssa/ssautil.Switches] for an example.
//
// The simplest way to create the SSA representation of a package is
// to load typed syntax trees using [golang.org/x/tools/go/packages], then
// invoke the [golang.org/x/tools/go/ssa/ssautil.Packages] helper function.
// (See the package-level Examples named LoadPackages and LoadWholeProgram.)
// The resulting [ssa.Program] contains all the packages and their
// members, but SSA code is not created for function bodies until a
// subsequent call to [Package.Build] or [Program.Build].
//
// The builder initially builds a naive SSA form in which all local
// variables are addresses of stack locations with explicit loads and
// stores.  Registerisation of eligible locals and φ-node insertion
// using dominance and dataflow are then performed as a second pass
// called "lifting" to improve the accuracy and performance of
// subsequent analyses; this pass can be skipped by setting the
// NaiveForm builder flag.
//
// The primary interfaces of this package are:
//
//   - [Member]: a named member of a Go package.
//   - [Value]: an expression that yields a value.
//   - [Instruction]: a statement that consumes values and performs computation.
//   - [Node]: a [Value] or [Instruction] (emphasizing its membership in the SSA value graph)
//
// A computation that yields a result implements both the [Value] and
// [Instruction] interfaces.  The following table shows for each
// concrete type which of these interfaces it implements.
//
//	                   Value?          Instruction?      Member?
//	*Alloc                ✔               ✔
//	*BinOp                ✔               ✔
//	*Builtin              ✔
//	*Call                 ✔               ✔
//	*ChangeInterface      ✔               ✔
//	*ChangeType           ✔               ✔
//	*Const                ✔
//	*Convert              ✔               ✔
//	*DebugRef                             ✔
//	*Defer                                ✔
//	*Extract              ✔               ✔
//	*Field                ✔               ✔
//	*FieldAddr            ✔               ✔
//	*FreeVar              ✔
//	*Function             ✔                               ✔ (func)
//	*Global               ✔                               ✔ (var)
//	*Go                                   ✔
//	*If                                   ✔
//	*Index                ✔               ✔
//	*IndexAddr            ✔               ✔
//	*Jump                                 ✔
//	*Lookup               ✔               ✔
//	*MakeChan             ✔               ✔
//	*MakeClosure          ✔               ✔
//	*MakeInterface        ✔               ✔
//	*MakeMap              ✔               ✔
//	*MakeSlice            ✔               ✔
//	*MapUpdate                            ✔
//	*MultiConvert         ✔               ✔
//	*NamedConst                                           ✔ (const)
//	*Next                 ✔               ✔
//	*Panic                                ✔
//	*Parameter            ✔
//	*Phi                  ✔               ✔
//	*Range                ✔               ✔
//	*Return                               ✔
//	*RunDefers                            ✔
//	*Select               ✔               ✔
//	*Send                                 ✔
//	*Slice                ✔               ✔
//	*SliceToArrayPointer  ✔               ✔
//	*Store                                ✔
//	*Type                                                 ✔ (type)
//	*TypeAssert           ✔               ✔
//	*UnOp                 ✔               ✔
//
// Other key types in this package include: [Program], [Package], [Function]
// and [BasicBlock].
//
// The program representation constructed by this package is fully
// resolved internally, i.e. it does not rely on the names of Values,
// Packages, Functions, Types or BasicBlocks for the correct
// interpretation of the program.  Only the identities of objects and
// the topology of the SSA and type graphs are semantically
// significant.  (There is one exception: [types.Id] values, which identify field
// and method names, contain strings.)  Avoidance of name-based
// operations simplifies the implementation of subsequent passes and
// can make them very efficient.  Many objects are nonetheless named
// to aid in debugging, but it is not essential that the names be
// either accurate or unambiguous.  The public API exposes a number of
// name-based maps for client convenience.
//
// The [golang.org/x/tools/go/ssa/ssautil] package provides various
// helper functions, for example to simplify loading a Go program into
// SSA form.
//
// TODO(adonovan): write a how-to document for all the various cases
// of trying to determine corresponding elements across the four
// domains of source locations, ast.Nodes, types.Objects,
// ssa.Values/Instructions.
package ssa
