// Copyright 2022 The Go Authors. All rights reserved.
// Use of this source code is governed by a BSD-style
// license that can be found in the LICENSE file.

package ssa

import "fmt"

// This file implements the BasicBlock type.

// addEdge adds a control-flow graph edge from from to to.
func addEdge(from, to *BasicBlock) {
	from.Succs = append(from.Succs, to)
	to.Preds = append(to.Preds, from)
}

// Parent returns the function that contains block b.
func (b *BasicBlock) Parent() *Function { return b.parent }

// String returns a human-readable label of this block.
// It is not guaranteed unique within the function.
func (b *BasicBlock) String() string {
	return fmt.Sprintf("%d", b.Index)
}

// emit appends an instruction to the current basic block.
// If the instruction defines a Value, it is returned.
func (b *BasicBlock) emit(i Instruction) Value {
	i.setBlock(b)
	b.Instrs = append(b.Instrs, i)
	v, _ := i.(Value)
	return v
}

// predIndex returns the i such that b.Preds[i] == c or panics if
// there is none.
func (b *BasicBlock) predIndex(c *BasicBlock) int {
	for i, pred := range b.Preds {
		if pred == c {
			return i
		}
	}
	panic(fmt.Sprintf("no edge %s -> %s", c, b))
}

// hasPhi returns true if b.Instrs contains φ-nodes.
func (b *BasicBlock) hasPhi() bool {
	_, ok := b.Instrs[0].(*Phi)
	return ok
}

// phis returns the prefix of b.Instrs containing all the block's φ-nodes.
func (b *BasicBlock) phis() []Instruction {
	for i, instr := range b.Instrs {
		if _, ok := instr.(*Phi); !ok {
			return b.Instrs[:i]
		}
	}
	return nil // unreachable in well-formed blocks
}

// replacePred replaces all occurrences of p in b's predecessor list with q.
// Ordinarily there should be at most one.
func (b *BasicBlock) replacePred(p, q *BasicBlock) {
	for i, pred := range b.Preds {
		if pred == p {
			b.Preds[i] = q
		}
	}
}

// replaceSucc replaces all occurrences of p in b's successor list with q.
// Ordinarily there should be at most one.
func (b *BasicBlock) replaceSucc(p, q *BasicBlock) {
	for i, succ := range b.Succs {
		if succ == p {
			b.Succs[i] = q
		}
	}
}

// removePred removes all occurrences of p in b's
// predecessor list and φ-nodes.
// Ordinarily there should be at most one.
func (b *BasicBlock) removePred(p *BasicBlock) {
	phis := b.phis()

	// We must preserve edge order for φ-nodes.
	j := 0
	for i, pred := range b.Preds {
		if pred != p {
			b.Preds[j] = b.Preds[i]
			// Strike out φ-edge too.
			for _, instr := range phis {
				phi := instr.(*Phi)
				phi.Edges[j] = phi.Edges[i]
			}
			j++
		}
	}
	// Nil out b.Preds[j:] and φ-edges[j:] to aid GC.
	for i := j; i < len(b.Preds); i++ {
		b.Preds[i] = nil
		for _, instr := range phis {
			instr.(*Phi).Edges[i] = nil
		}
	}
	b.Preds = b.Preds[:j]
	for _, instr := range phis {
		phi := instr.(*Phi)
		phi.Edges = phi.Edges[:j]
	}
}
