// Copyright 2013 The Go Authors. All rights reserved.
// Use of this source code is governed by a BSD-style
// license that can be found in the LICENSE file.

package ssa

// This file defines utilities for population of method sets.

import (
	"fmt"
	"go/types"

	"golang.org/x/tools/go/types/typeutil"
	"ikeverif/checker/xt/typesinternal"
)

// MethodValue returns the Function implementing method sel, building
// wrapper methods on demand. It returns nil if sel denotes an
// interface or generic method.
//
// Precondition: sel.Kind() == MethodVal.
//
// Thread-safe.
//
// Acquires prog.methodsMu.
func (prog *Program) MethodValue(sel *types.Selection) *Function {
	if sel.Kind() != types.MethodVal {
		panic(fmt.Sprintf("MethodValue(%s) kind != MethodVal", sel))
	}
	T := sel.Recv()
	if types.IsInterface(T) {
		return nil // interface method or type parameter
	}

	if prog.isParameterized(T) {
		return nil // generic method
	}

	if prog.mode&LogSource != 0 {
		defer logStack("MethodValue %s %v", T, sel)()
	}

	var b builder

	m := func() *Function {
		prog.methodsMu.Lock()
		defer prog.methodsMu.Unlock()

		// Get or create SSA method set.
		mset, ok := prog.methodSets.At(T).(*methodSet)
		if !ok {
			mset = &methodSet{mapping: make(map[string]*Function)}
			prog.methodSets.Set(T, mset)
		}

		// Get or create SSA method.
		id := sel.Obj().Id()
		fn, ok := mset.mapping[id]
		if !ok {
			obj := sel.Obj().(*types.Func)
			needsPromotion := len(sel.Index()) > 1
			needsIndirection := !isPointer(recvType(obj)) && isPointer(T)
			if needsPromotion || needsIndirection {
				fn = createWrapper(prog, toSelection(sel))
				fn.buildshared = b.shared()
				b.enqueue(fn)
			} else {
				fn = prog.objectMethod(obj, &b)
			}
			if fn.Signature.Recv() == nil {
				panic(fn)
			}
			mset.mapping[id] = fn
		} else {
			b.waitForSharedFunction(fn)
		}

		return fn
	}()

	b.iterate()

	return m
}

// objectMethod returns the Function for a given method symbol.
// The symbol may be an instance of a generic function. It need not
// belong to an existing SSA package created by a call to
// prog.CreatePackage.
//
// objectMethod panics if the function is not a method.
//
// Acquires prog.objectMethodsMu.
func (prog *Program) objectMethod(obj *types.Func, b *builder) *Function {
	sig := obj.Type().(*types.Signature)
	if sig.Recv() == nil {
		panic("not a method: " + obj.String())
	}

	// Belongs to a created package?
	if fn := prog.FuncValue(obj); fn != nil {
		return fn
	}

	// Instantiation of generic?
	if originObj := obj.Origin(); originObj != obj {
		origin := prog.objectMethod(originObj, b)
		assert(origin.typeparams.Len() > 0, "origin is not generic")
		targs := receiverTypeArgs(obj)
		return origin.instance(targs, b)
	}

	// Consult/update cache of methods created from types.Func.
	prog.objectMethodsMu.Lock()
	defer prog.objectMethodsMu.Unlock()
	fn, ok := prog.objectMethods[obj]
	if !ok {
		fn = createFunction(prog, obj, obj.Name(), nil, nil, "")
		fn.Synthetic = "from type information (on demand)"
		fn.buildshared = b.shared()
		b.enqueue(fn)

		if prog.objectMethods == nil {
			prog.objectMethods = make(map[*types.Func]*Function)
		}
		prog.objectMethods[obj] = fn
	} else {
		b.waitForSharedFunction(fn)
	}
	return fn
}

// LookupMethod returns the implementation of the method of type T
// identified by (pkg, name).  It returns nil if the method exists but
// is an interface method or generic method, and panics if T has no such method.
func (prog *Program) LookupMethod(T types.Type, pkg *types.Package, name string) *Function {
	sel := prog.MethodSets.MethodSet(T).Lookup(pkg, name)
	if sel == nil {
		panic(fmt.Sprintf("%s has no method %s", T, types.Id(pkg, name)))
	}
	return prog.MethodValue(sel)
}

// methodSet contains the (concrete) methods of a concrete type (non-interface, non-parameterized).
type methodSet struct {
	mapping map[string]*Function // populated lazily
}

// RuntimeTypes returns a new unordered slice containing all types in
// the program for which a runtime type is required.
//
// A runtime type is required for any non-parameterized, non-interface
// type that is converted to an interface, or for any type (including
// interface types) derivable from one through reflection.
//
// The methods of such types may be reachable through reflection or
// interface calls even if they are never called directly.
//
// Thread-safe.
//
// Acquires prog.makeInterfaceTypesMu.
func (prog *Program) RuntimeTypes() []types.Type {
	prog.makeInterfaceTypesMu.Lock()
	defer prog.makeInterfaceTypesMu.Unlock()

	// Compute the derived types on demand, since many SSA clients
	// never call RuntimeTypes, and those that do typically call
	// it once (often within ssautil.AllFunctions, which will
	// eventually not use it; see Go issue #69291.) This
	// eliminates the need to eagerly compute all the element
	// types during SSA building.
	var runtimeTypes []types.Type
	add := func(t types.Type) { runtimeTypes = append(runtimeTypes, t) }
	var set typeutil.Map // for de-duping identical types
	for t := range prog.makeInterfaceTypes {
		typesinternal.ForEachElement(&set, &prog.MethodSets, t, add)
	}

	return runtimeTypes
}
