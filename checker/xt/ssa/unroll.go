// Added for /verif (not part of x/tools): complete unrolling of loops with a compile-time constant trip
// count, constant folding, and forwarding of stores into local aggregates (tables built from composite
// literals) to the loads that read them. Together with the inliner this turns "table-driven" code - a loop
// over a small local table of (destination, length) pairs, a `for i := 0; i < 8; i++` that spells a
// big-endian integer - back into the straight-line form the rules of /verif/checker/lint reason about.
// The transformations preserve the function's behaviour; they run after Build, before any analysis.

package ssa

import (
	"fmt"
	"go/constant"
	"go/token"
	"go/types"
	"math/big"
	"os"
)

// UnrollOptions bounds the work.
type UnrollOptions struct {
	MaxTrip   int // largest trip count unrolled (default 40)
	MaxInstrs int // largest size (instructions in the loop times trips) produced for one loop (default 6000)
	MaxLoops  int // loops unrolled per function (default 24)
	// DataOnly restricts unrolling to loops that only move data: no call other than a builtin (len, cap, append,
	// copy). Loops that call into hashes, ciphers, readers or decoders are the algorithmic loops the client's
	// rules describe as loops and stay as they are.
	DataOnly bool
	// StructCopies, if set, names the functions in which whole-struct copies between locals are split into
	// per-field copies even when no loop was unrolled (functions a helper was inlined into).
	StructCopies func(*Function) bool
}

// NormalizeLoops unrolls the constant-trip loops of every function in fns and forwards local aggregate
// stores; it returns one note per transformation.
func NormalizeLoops(fns []*Function, opt UnrollOptions) []string {
	if opt.MaxTrip == 0 {
		opt.MaxTrip = 40
	}
	if opt.MaxInstrs == 0 {
		opt.MaxInstrs = 6000
	}
	if opt.MaxLoops == 0 {
		opt.MaxLoops = 24
	}
	var notes []string
	for _, f := range fns {
		if f.Blocks == nil || f.Recover != nil {
			continue
		}
		changed := false
		threadAfter := false
		for n := 0; n < opt.MaxLoops; n++ {
			note, ok := unrollOne(f, opt)
			if !ok {
				break
			}
			changed = true
			notes = append(notes, f.String()+": "+note)
		}
		if changed {
			foldConstants(f)
			rebuild(f)
			simplifyPhis(f)
		}
		if changed {
			scalarizeStructCopies(f)
			scalarizeArrayValueReads(f)
		} else if opt.StructCopies != nil && opt.StructCopies(f) && hasLocalStructCopy(f) {
			// a struct value handed from one local to another (the result of an inlined accessor that returns a
			// small struct, a value receiver): per-field copies, which the forwarding below resolves
			threadAfter = scalarizeStructCopies(f)
		}
		if k := forwardAggregates(f); k > 0 {
			notes = append(notes, fmt.Sprintf("%s: %d load(s) of local table entries replaced by the stored values", f.String(), k))
			foldConstants(f)
			rebuild(f)
			simplifyPhis(f)
			removeDeadAggregates(f)
		}
		if threadAfter {
			// the merge an inlined call left behind can be threaded now that its struct result is a set of
			// per-field φ-nodes and the caller's copy is gone: k: φ..., e = φ(nil | errors); if e != nil
			for again, n := true, 0; again && n < 16; n++ {
				again = false
				for _, b := range f.Blocks {
					if debugUnroll && len(b.Preds) >= 2 {
						if _, isIf := b.Instrs[len(b.Instrs)-1].(*If); isIf {
							fmt.Fprintf(os.Stderr, "thread? %s block %d (%d instrs)\n", f.Name(), b.Index, len(b.Instrs))
						}
					}
					if threadNilTest(f, b) {
						rebuild(f)
						simplifyPhis(f)
						removeUnusedPhis(f)
						removeDeadAggregates(f)
						again = true
						break
					}
				}
			}
		}
		if changed && hasLiftableAlloc(f) {
			// locals whose address was only taken to be put into a table that is gone now
			lift(f)
			rebuild(f)
			simplifyPhis(f)
		}
		if changed {
			if k := forwardAppendChains(f); k > 0 {
				notes = append(notes, fmt.Sprintf("%s: %d read(s) of an element of a list built by appends replaced by the appended value", f.String(), k))
			}
			mergeLinearBlocks(f)
		}
	}
	return notes
}

var debugUnroll = os.Getenv("IKELINT_DEBUG_UNROLL") != ""

type natLoop struct {
	header *BasicBlock
	latch  *BasicBlock
	body   map[*BasicBlock]bool // includes the header
}

func findLoops(f *Function) []*natLoop {
	byHeader := map[*BasicBlock][]*BasicBlock{}
	var order []*BasicBlock
	for _, b := range f.Blocks {
		for _, s := range b.Succs {
			if s.Dominates(b) {
				if byHeader[s] == nil {
					order = append(order, s)
				}
				byHeader[s] = append(byHeader[s], b)
			}
		}
	}
	var out []*natLoop
	for _, h := range order {
		latches := byHeader[h]
		l := &natLoop{header: h, body: map[*BasicBlock]bool{h: true}}
		if len(latches) == 1 {
			l.latch = latches[0]
		}
		var st []*BasicBlock
		for _, lt := range latches {
			if !l.body[lt] {
				l.body[lt] = true
				st = append(st, lt)
			}
		}
		for len(st) > 0 {
			x := st[len(st)-1]
			st = st[:len(st)-1]
			for _, p := range x.Preds {
				if !l.body[p] {
					l.body[p] = true
					st = append(st, p)
				}
			}
		}
		out = append(out, l)
	}
	return out
}

func intBits(t types.Type) (bits int, signed bool, ok bool) {
	b, isB := t.Underlying().(*types.Basic)
	if !isB || b.Info()&types.IsInteger == 0 {
		return 0, false, false
	}
	switch b.Kind() {
	case types.Int8:
		return 8, true, true
	case types.Int16:
		return 16, true, true
	case types.Int32:
		return 32, true, true
	case types.Int64, types.Int, types.UntypedInt:
		return 64, true, true
	case types.Uint8:
		return 8, false, true
	case types.Uint16:
		return 16, false, true
	case types.Uint32:
		return 32, false, true
	case types.Uint64, types.Uint, types.Uintptr:
		return 64, false, true
	}
	return 0, false, false
}

// wrapInt reduces an integer constant to the range of t (two's complement).
func wrapInt(v constant.Value, t types.Type) (constant.Value, bool) {
	bits, signed, ok := intBits(t)
	if !ok || v.Kind() != constant.Int {
		return nil, false
	}
	bi, ok := new(big.Int).SetString(v.ExactString(), 10)
	if !ok {
		return nil, false
	}
	mod := new(big.Int).Lsh(big.NewInt(1), uint(bits))
	bi.Mod(bi, mod)
	if signed {
		half := new(big.Int).Lsh(big.NewInt(1), uint(bits-1))
		if bi.Cmp(half) >= 0 {
			bi.Sub(bi, mod)
		}
	}
	return constant.Make(bi), true
}

// evalConst evaluates v to a constant under env (known values of header φ-nodes).
func evalConst(v Value, env map[Value]constant.Value, depth int) (constant.Value, bool) {
	if depth > 24 {
		return nil, false
	}
	if c, ok := env[v]; ok {
		return c, true
	}
	switch x := v.(type) {
	case *Const:
		if x.Value == nil {
			return nil, false
		}
		switch x.Value.Kind() {
		case constant.Int, constant.Bool:
			return x.Value, true
		}
		return nil, false
	case *ChangeType:
		return evalConst(x.X, env, depth+1)
	case *Convert:
		c, ok := evalConst(x.X, env, depth+1)
		if !ok || c.Kind() != constant.Int {
			return nil, false
		}
		return wrapInt(c, x.Type())
	case *UnOp:
		c, ok := evalConst(x.X, env, depth+1)
		if !ok {
			return nil, false
		}
		switch x.Op {
		case token.NOT:
			if c.Kind() == constant.Bool {
				return constant.MakeBool(!constant.BoolVal(c)), true
			}
		case token.SUB:
			if c.Kind() == constant.Int {
				return wrapInt(constant.UnaryOp(token.SUB, c, 0), x.Type())
			}
		}
		return nil, false
	case *BinOp:
		a, ok1 := evalConst(x.X, env, depth+1)
		b, ok2 := evalConst(x.Y, env, depth+1)
		if !ok1 || !ok2 {
			return nil, false
		}
		switch x.Op {
		case token.EQL, token.NEQ, token.LSS, token.LEQ, token.GTR, token.GEQ:
			if a.Kind() != b.Kind() {
				return nil, false
			}
			if a.Kind() == constant.Bool && x.Op != token.EQL && x.Op != token.NEQ {
				return nil, false
			}
			return constant.MakeBool(constant.Compare(a, x.Op, b)), true
		case token.ADD, token.SUB, token.MUL, token.AND, token.OR, token.XOR, token.AND_NOT:
			if a.Kind() != constant.Int || b.Kind() != constant.Int {
				return nil, false
			}
			return wrapInt(constant.BinaryOp(a, x.Op, b), x.Type())
		case token.QUO, token.REM:
			if a.Kind() != constant.Int || b.Kind() != constant.Int || constant.Sign(b) == 0 {
				return nil, false
			}
			op := x.Op
			if op == token.QUO {
				op = token.QUO_ASSIGN // integer division
			}
			return wrapInt(constant.BinaryOp(a, op, b), x.Type())
		case token.SHL, token.SHR:
			if a.Kind() != constant.Int || b.Kind() != constant.Int {
				return nil, false
			}
			s, exact := constant.Uint64Val(b)
			if !exact || s > 128 {
				return nil, false
			}
			return wrapInt(constant.Shift(a, x.Op, uint(s)), x.Type())
		}
		return nil, false
	case *Call:
		if bi, ok := x.Call.Value.(*Builtin); ok && (bi.Name() == "len" || bi.Name() == "cap") && len(x.Call.Args) == 1 {
			if n, ok := constLen(x.Call.Args[0], env, depth+1); ok {
				return constant.MakeInt64(n), true
			}
		}
	}
	return nil, false
}

// constLenUsed records that the last evaluation needed the length of a local table (see unrollOne).
var constLenUsed bool

// constLen: the length of a slice of a fixed-size array, an array, or a constant string.
func constLen(v Value, env map[Value]constant.Value, depth int) (int64, bool) {
	constLenUsed = true
	switch x := v.(type) {
	case *Const:
		if x.Value != nil && x.Value.Kind() == constant.String {
			return int64(len(constant.StringVal(x.Value))), true
		}
	case *ChangeType:
		return constLen(x.X, env, depth+1)
	case *Slice:
		var n int64 = -1
		if pt, ok := x.X.Type().Underlying().(*types.Pointer); ok {
			if at, ok := pt.Elem().Underlying().(*types.Array); ok {
				n = at.Len()
			}
		}
		if n < 0 {
			// a slice of a slice: the bounds decide (b[8:16] has 8 elements whenever it exists at all); an open
			// upper end takes the base's length
			if depth > 6 {
				return 0, false
			}
			if x.High == nil {
				bn, ok := constLen(x.X, env, depth+1)
				if !ok {
					return 0, false
				}
				n = bn
			} else {
				c, ok := evalConst(x.High, env, depth+1)
				if !ok {
					return 0, false
				}
				n, _ = constant.Int64Val(c)
			}
		}
		lo, hi := int64(0), n
		if x.Low != nil {
			c, ok := evalConst(x.Low, env, depth+1)
			if !ok {
				return 0, false
			}
			lo, _ = constant.Int64Val(c)
		}
		if x.High != nil {
			c, ok := evalConst(x.High, env, depth+1)
			if !ok {
				return 0, false
			}
			hi, _ = constant.Int64Val(c)
		}
		if lo < 0 || hi < lo || hi > n {
			return 0, false
		}
		return hi - lo, true
	case *MakeSlice:
		c, ok := evalConst(x.Len, env, depth+1)
		if !ok {
			return 0, false
		}
		n, _ := constant.Int64Val(c)
		return n, true
	case *Call:
		if appendCallOf(x) != nil {
			if elems, ok := appendChainElems(x, 0); ok {
				return int64(len(elems)), true
			}
		}
		return 0, false
	}
	if at, ok := v.Type().Underlying().(*types.Array); ok {
		return at.Len(), true
	}
	if pt, ok := v.Type().Underlying().(*types.Pointer); ok {
		if at, ok := pt.Elem().Underlying().(*types.Array); ok {
			return at.Len(), true
		}
	}
	return 0, false
}

func predIndex(b, p *BasicBlock) int {
	for i, q := range b.Preds {
		if q == p {
			return i
		}
	}
	return -1
}

// tripCount simulates the header test.
func tripCount(l *natLoop, max int) (int, bool) {
	h := l.header
	iff, ok := h.Instrs[len(h.Instrs)-1].(*If)
	if !ok || len(h.Succs) != 2 {
		return 0, false
	}
	in0, in1 := l.body[h.Succs[0]], l.body[h.Succs[1]]
	if in0 == in1 {
		return 0, false
	}
	li := predIndex(h, l.latch)
	if li < 0 {
		return 0, false
	}
	env := map[Value]constant.Value{}
	var phis []*Phi
	for _, ins := range h.Instrs {
		p, ok := ins.(*Phi)
		if !ok {
			break
		}
		phis = append(phis, p)
		var init constant.Value
		okInit := true
		for i, e := range p.Edges {
			if i == li {
				continue
			}
			c, ok := evalConst(e, nil, 0)
			if !ok || (init != nil && !constant.Compare(init, token.EQL, c)) {
				okInit = false
				break
			}
			init = c
		}
		if okInit && init != nil {
			env[p] = init
		}
	}
	for k := 0; k <= max; k++ {
		c, ok := evalConst(iff.Cond, env, 0)
		if !ok || c.Kind() != constant.Bool {
			return 0, false
		}
		if constant.BoolVal(c) != in0 {
			return k, true
		}
		next := map[Value]constant.Value{}
		for _, p := range phis {
			if _, known := env[p]; !known {
				continue
			}
			if nv, ok := evalConst(p.Edges[li], env, 0); ok {
				next[p] = nv
			}
		}
		env = next
	}
	return 0, false
}

// unrollOne unrolls one eligible innermost loop of f.
func unrollOne(f *Function, opt UnrollOptions) (string, bool) {
	loops := findLoops(f)
	for _, l := range loops {
		if l.latch == nil || l.latch == l.header {
			continue
		}
		inner := false
		for _, o := range loops {
			if o != l && l.body[o.header] {
				inner = true
			}
		}
		if inner {
			continue
		}
		size := 0
		cloneable := true
		hasCalls := false
		for b := range l.body {
			size += len(b.Instrs)
			for _, ins := range b.Instrs {
				switch x := ins.(type) {
				case *Defer, *RunDefers, *Go, *Select, *MakeClosure, *Range, *Next:
					cloneable = false
				case *Call:
					// package initialisers are evaluated symbolically by the client's registry rules: there a table
					// loop may also call constructors
					isInit := f.Name() == "init" || (len(f.Name()) > 5 && f.Name()[:5] == "init#")
					if _, isBuiltin := x.Call.Value.(*Builtin); !isBuiltin && opt.DataOnly && !isInit {
						hasCalls = true
					}
				}
			}
		}
		if !cloneable {
			continue
		}
		constLenUsed = false
		T, ok := tripCount(l, opt.MaxTrip)
		if !ok || size*(T+1) > opt.MaxInstrs {
			continue
		}
		// a loop that calls out is unrolled only when it walks a local table (its bound is the length of a
		// composite literal), never when it merely repeats a constant number of times
		if hasCalls && !constLenUsed && !walksLocalTable(l) {
			continue
		}
		if !outsideUsesOK(f, l) {
			continue
		}
		pos := f.Prog.Fset.Position(l.header.Instrs[len(l.header.Instrs)-1].Pos())
		doUnroll(f, l, T)
		return fmt.Sprintf("loop at line %d unrolled (%d iteration(s))", pos.Line, T), true
	}
	return "", false
}

// ThreadSwitchNilTests threads `v := φ(objects..., nil); if v != nil` when the merge joins at least minEdges ways in
// (the end of a type switch whose default leaves the variable nil, tested afterwards instead of handled in a
// default arm): every way in goes straight to the side its value decides, which is the shape of a switch with a
// default arm.
func ThreadSwitchNilTests(fns []*Function, minEdges int) []string {
	var notes []string
	for _, f := range fns {
		if f.Blocks == nil || f.Recover != nil {
			continue
		}
		for again, n := true, 0; again && n < 8; n++ {
			again = false
			for _, b := range f.Blocks {
				if len(b.Preds) < minEdges {
					continue
				}
				if threadNilTest(f, b) {
					rebuild(f)
					simplifyPhis(f)
					removeUnusedPhis(f)
					notes = append(notes, f.String()+": nil test behind a merge of many alternatives threaded")
					again = true
					break
				}
			}
		}
	}
	return notes
}

// removeUnusedPhis drops φ-nodes nothing refers to (the per-field results of an inlined helper on the side of the
// merge that only returns the error), repeatedly.
func removeUnusedPhis(f *Function) {
	for n := 0; n < 8; n++ {
		changed := false
		for _, b := range f.Blocks {
			var out []Instruction
			for _, ins := range b.Instrs {
				if p, ok := ins.(*Phi); ok && (p.Referrers() == nil || len(*p.Referrers()) == 0) {
					changed = true
					continue
				}
				// loads of a local's fields that only fed such a φ, and the field addresses they used
				if ld, ok := ins.(*UnOp); ok && ld.Op == token.MUL && (ld.Referrers() == nil || len(*ld.Referrers()) == 0) {
					if fa, ok := ld.X.(*FieldAddr); ok {
						if _, isLocal := fa.X.(*Alloc); isLocal {
							changed = true
							continue
						}
					}
				}
				if fa, ok := ins.(*FieldAddr); ok && (fa.Referrers() == nil || len(*fa.Referrers()) == 0) {
					if _, isLocal := fa.X.(*Alloc); isLocal {
						changed = true
						continue
					}
				}
				out = append(out, ins)
			}
			b.Instrs = out
		}
		if !changed {
			return
		}
		rebuild(f)
	}
}

// hasLocalStructCopy: some whole-struct load from a local is stored into another local.
func hasLocalStructCopy(f *Function) bool {
	for _, b := range f.Blocks {
		for _, ins := range b.Instrs {
			st, ok := ins.(*Store)
			if !ok {
				continue
			}
			if _, isLocal := st.Addr.(*Alloc); !isLocal {
				continue
			}
			if ph, isPhi := st.Val.(*Phi); isPhi {
				if _, isStruct := ph.Type().Underlying().(*types.Struct); isStruct {
					return true
				}
			}
			ld, ok := st.Val.(*UnOp)
			if !ok || ld.Op != token.MUL {
				continue
			}
			if _, isStruct := ld.Type().Underlying().(*types.Struct); !isStruct {
				continue
			}
			if a, ok := ld.X.(*Alloc); ok && !a.Heap || ok && a.Comment == "complit" {
				return true
			}
		}
	}
	return false
}

// walksLocalTable: the loop reads a table made by the function itself (a slice or array literal) at an index
// that varies with the iteration - `for _, x := range []T{a, b, c}` once go/ssa has folded len of the literal.
func walksLocalTable(l *natLoop) bool {
	for b := range l.body {
		for _, ins := range b.Instrs {
			ia, ok := ins.(*IndexAddr)
			if !ok {
				continue
			}
			if _, isK := ia.Index.(*Const); isK {
				continue
			}
			x := ia.X
			if sl, ok := x.(*Slice); ok && sl.Low == nil && sl.High == nil {
				x = sl.X
			}
			if a, ok := x.(*Alloc); ok && (a.Comment == "slicelit" || a.Comment == "complit") && !l.body[a.Block()] {
				return true
			}
		}
	}
	return false
}

// exitTargets: blocks outside the loop with a predecessor inside.
func exitTargets(l *natLoop) []*BasicBlock {
	seen := map[*BasicBlock]bool{}
	var out []*BasicBlock
	for b := range l.body {
		for _, s := range b.Succs {
			if !l.body[s] && !seen[s] {
				seen[s] = true
				out = append(out, s)
			}
		}
	}
	return out
}

// outsideUse describes a use, outside the loop, of a value defined inside.
type outsideUse struct {
	user Instruction
	at   *BasicBlock // block whose end must be reached with the value (the user's block, or the φ's predecessor)
	def  Value
}

func loopDefs(l *natLoop) map[Value]bool {
	defs := map[Value]bool{}
	for b := range l.body {
		for _, ins := range b.Instrs {
			if v, ok := ins.(Value); ok {
				defs[v] = true
			}
		}
	}
	return defs
}

func collectOutsideUses(f *Function, l *natLoop) []outsideUse {
	defs := loopDefs(l)
	var out []outsideUse
	var rands []*Value
	for _, b := range f.Blocks {
		if l.body[b] {
			continue
		}
		for _, ins := range b.Instrs {
			if phi, ok := ins.(*Phi); ok {
				for i, e := range phi.Edges {
					if defs[e] && !l.body[b.Preds[i]] {
						out = append(out, outsideUse{ins, b.Preds[i], e})
					}
				}
				continue
			}
			rands = ins.Operands(rands[:0])
			for _, p := range rands {
				if *p != nil && defs[*p] {
					out = append(out, outsideUse{ins, b, *p})
				}
			}
		}
	}
	return out
}

// exitFor finds the exit target that dominates blk and whose predecessors all lie in the loop.
func exitFor(l *natLoop, blk *BasicBlock) *BasicBlock {
	for _, e := range exitTargets(l) {
		all := true
		for _, p := range e.Preds {
			if !l.body[p] {
				all = false
			}
		}
		if all && e.Dominates(blk) {
			return e
		}
	}
	return nil
}

func outsideUsesOK(f *Function, l *natLoop) bool {
	for _, u := range collectOutsideUses(f, l) {
		if exitFor(l, u.at) == nil {
			return false
		}
	}
	return true
}

func doUnroll(f *Function, l *natLoop, T int) {
	h := l.header
	li := predIndex(h, l.latch)
	var bodyBlocks []*BasicBlock // in f.Blocks order, header excluded
	for _, b := range f.Blocks {
		if l.body[b] && b != h {
			bodyBlocks = append(bodyBlocks, b)
		}
	}
	var exitSucc, bodyEntry *BasicBlock
	if l.body[h.Succs[0]] {
		bodyEntry, exitSucc = h.Succs[0], h.Succs[1]
	} else {
		bodyEntry, exitSucc = h.Succs[1], h.Succs[0]
	}
	outside := collectOutsideUses(f, l)
	exits := exitTargets(l)
	useExit := make([]*BasicBlock, len(outside)) // resolved before any edge is rewired
	for i, u := range outside {
		useExit[i] = exitFor(l, u.at)
	}
	type iter struct {
		vmap map[Value]Value
		bmap map[*BasicBlock]*BasicBlock
	}
	iters := make([]*iter, T+1)
	var newBlocks []*BasicBlock
	remap := func(it *iter, v Value) Value {
		if nv, ok := it.vmap[v]; ok {
			return nv
		}
		return v
	}
	cloneInto := func(it *iter, src, dst *BasicBlock, skipPhi, skipTerm bool) []Instruction {
		var cloned []Instruction
		for i, ins := range src.Instrs {
			if _, isPhi := ins.(*Phi); isPhi && skipPhi {
				continue
			}
			if skipTerm && i == len(src.Instrs)-1 {
				continue
			}
			ni := cloneInstr(ins)
			if ni == nil {
				panic("ssa unroll: cannot clone " + ins.String())
			}
			ni.(blockSetter).setBlock(dst)
			if v, ok := ins.(Value); ok {
				it.vmap[v] = ni.(Value)
			}
			if a, ok := ni.(*Alloc); ok && !a.Heap {
				a.index = len(f.Locals)
				f.Locals = append(f.Locals, a)
			}
			dst.Instrs = append(dst.Instrs, ni)
			cloned = append(cloned, ni)
		}
		return cloned
	}
	var entryPreds []*BasicBlock
	for i, p := range h.Preds {
		if i != li {
			entryPreds = append(entryPreds, p)
		}
	}
	for k := 0; k <= T; k++ {
		it := &iter{vmap: map[Value]Value{}, bmap: map[*BasicBlock]*BasicBlock{}}
		iters[k] = it
		hk := &BasicBlock{Comment: fmt.Sprintf("unroll%d.%s", k, h.Comment), parent: f}
		it.bmap[h] = hk
		newBlocks = append(newBlocks, hk)
		// header φ-nodes
		for _, ins := range h.Instrs {
			p, ok := ins.(*Phi)
			if !ok {
				break
			}
			if k > 0 {
				it.vmap[p] = remap(iters[k-1], p.Edges[li])
				continue
			}
			if len(entryPreds) == 1 {
				for i, e := range p.Edges {
					if i != li {
						it.vmap[p] = e
					}
				}
				continue
			}
			np := &Phi{Comment: p.Comment}
			np.setType(p.Type())
			np.setPos(p.Pos())
			np.setBlock(hk)
			for i, e := range p.Edges {
				if i != li {
					np.Edges = append(np.Edges, e)
				}
			}
			hk.Instrs = append(hk.Instrs, np)
			it.vmap[p] = np
		}
		var cloned []Instruction
		cloned = append(cloned, cloneInto(it, h, hk, true, true)...)
		if k < T {
			for _, b := range bodyBlocks {
				nb := &BasicBlock{Comment: fmt.Sprintf("unroll%d.%s", k, b.Comment), parent: f}
				it.bmap[b] = nb
				newBlocks = append(newBlocks, nb)
			}
			for _, b := range bodyBlocks {
				cloned = append(cloned, cloneInto(it, b, it.bmap[b], false, false)...)
			}
		}
		// operands
		var rands []*Value
		for _, ni := range cloned {
			rands = ni.Operands(rands[:0])
			for _, p := range rands {
				if *p != nil {
					*p = remap(it, *p)
				}
			}
		}
		// header terminator
		j := &Jump{}
		j.setBlock(hk)
		hk.Instrs = append(hk.Instrs, j)
	}
	// edges
	for k := 0; k <= T; k++ {
		it := iters[k]
		hk := it.bmap[h]
		if k == 0 {
			for _, p := range entryPreds {
				hk.Preds = append(hk.Preds, p)
				for i, s := range p.Succs {
					if s == h {
						p.Succs[i] = hk
					}
				}
			}
		} else {
			hk.Preds = []*BasicBlock{iters[k-1].bmap[l.latch]}
		}
		if k == T {
			hk.Succs = []*BasicBlock{exitSucc}
			continue
		}
		hk.Succs = []*BasicBlock{it.bmap[bodyEntry]}
		for _, b := range bodyBlocks {
			nb := it.bmap[b]
			for _, s := range b.Succs {
				switch {
				case s == h:
					nb.Succs = append(nb.Succs, iters[k+1].bmap[h])
				case l.body[s]:
					nb.Succs = append(nb.Succs, it.bmap[s])
				default:
					nb.Succs = append(nb.Succs, s)
				}
			}
			for _, p := range b.Preds {
				nb.Preds = append(nb.Preds, it.bmap[p])
			}
		}
	}
	// exit targets: predecessor lists and φ edges
	type newPred struct {
		blk *BasicBlock
		it  *iter
	}
	exitPreds := map[*BasicBlock][]newPred{}
	for _, e := range exits {
		var preds []*BasicBlock
		var edgeSrc []struct {
			orig int
			it   *iter
		}
		for i, q := range e.Preds {
			switch {
			case !l.body[q]:
				preds = append(preds, q)
				edgeSrc = append(edgeSrc, struct {
					orig int
					it   *iter
				}{i, nil})
			case q == h:
				preds = append(preds, iters[T].bmap[h])
				edgeSrc = append(edgeSrc, struct {
					orig int
					it   *iter
				}{i, iters[T]})
				exitPreds[e] = append(exitPreds[e], newPred{iters[T].bmap[h], iters[T]})
			default:
				for k := 0; k < T; k++ {
					preds = append(preds, iters[k].bmap[q])
					edgeSrc = append(edgeSrc, struct {
						orig int
						it   *iter
					}{i, iters[k]})
					exitPreds[e] = append(exitPreds[e], newPred{iters[k].bmap[q], iters[k]})
				}
			}
		}
		for _, ins := range e.Instrs {
			phi, ok := ins.(*Phi)
			if !ok {
				break
			}
			var edges []Value
			for _, es := range edgeSrc {
				v := phi.Edges[es.orig]
				if es.it != nil {
					v = remap(es.it, v)
				}
				edges = append(edges, v)
			}
			phi.Edges = edges
		}
		e.Preds = preds
	}
	// uses outside the loop of values defined inside: one φ per (exit target, value)
	type key struct {
		e *BasicBlock
		v Value
	}
	made := map[key]Value{}
	for ui, u := range outside {
		e := useExit[ui]
		if e == nil {
			continue // checked before: cannot happen
		}
		k := key{e, u.def}
		nv, ok := made[k]
		if !ok {
			nps := exitPreds[e]
			if len(nps) == 1 && len(e.Preds) == 1 {
				nv = remap(nps[0].it, u.def)
			} else {
				phi := &Phi{Comment: "unroll.exit"}
				phi.setType(u.def.Type())
				phi.setBlock(e)
				// e.Preds now consists of loop copies only (exitFor requires all predecessors in the loop)
				for _, p := range e.Preds {
					var src *iter
					for _, np := range nps {
						if np.blk == p {
							src = np.it
						}
					}
					if src == nil {
						phi.Edges = append(phi.Edges, u.def)
					} else {
						phi.Edges = append(phi.Edges, remap(src, u.def))
					}
				}
				e.Instrs = append([]Instruction{phi}, e.Instrs...)
				nv = phi
			}
			made[k] = nv
		}
		var rands []*Value
		rands = u.user.Operands(rands[:0])
		for _, p := range rands {
			if *p == u.def {
				if _, isPhi := u.user.(*Phi); isPhi {
					// only the edges that come from the predecessor u.at
					continue
				}
				*p = nv
			}
		}
		if phi, ok := u.user.(*Phi); ok {
			for i := range phi.Edges {
				if phi.Edges[i] == u.def && phi.Block().Preds[i] == u.at {
					phi.Edges[i] = nv
				}
			}
		}
	}
	// splice: the new blocks take the place of the header; the old loop blocks go
	var blocks []*BasicBlock
	for _, b := range f.Blocks {
		if b == h {
			blocks = append(blocks, newBlocks...)
			continue
		}
		if l.body[b] {
			continue
		}
		blocks = append(blocks, b)
	}
	f.Blocks = blocks
	rebuild(f)
}

// foldConstants replaces integer / boolean computations over constants by constants and branches on
// constants by jumps.
func foldConstants(f *Function) {
	for round := 0; round < 4; round++ {
		repl := map[Value]Value{}
		for _, b := range f.Blocks {
			for _, ins := range b.Instrs {
				v, ok := ins.(Value)
				if !ok {
					continue
				}
				switch x := ins.(type) {
				case *BinOp, *UnOp, *Convert:
				case *Call:
					// len / cap of a slice of a fixed-size array
					bi, isB := x.Call.Value.(*Builtin)
					if !isB || (bi.Name() != "len" && bi.Name() != "cap") {
						continue
					}
					if _, isSl := x.Call.Args[0].(*Slice); !isSl && appendCallOf(x.Call.Args[0]) == nil {
						continue
					}
				default:
					continue
				}
				if u, isU := ins.(*UnOp); isU && (u.Op == token.MUL || u.Op == token.ARROW) {
					continue
				}
				c, ok := evalConst(v, nil, 0)
				if !ok {
					continue
				}
				if c.Kind() == constant.Int {
					if _, _, isInt := intBits(v.Type()); !isInt {
						continue
					}
				} else if c.Kind() == constant.Bool {
					if bt, isB := v.Type().Underlying().(*types.Basic); !isB || bt.Info()&types.IsBoolean == 0 {
						continue
					}
				} else {
					continue
				}
				repl[v] = NewConst(c, v.Type())
			}
		}
		if len(repl) == 0 {
			break
		}
		var rands []*Value
		for _, b := range f.Blocks {
			kept := b.Instrs[:0:0]
			for _, ins := range b.Instrs {
				if v, ok := ins.(Value); ok {
					if _, gone := repl[v]; gone {
						continue
					}
				}
				rands = ins.Operands(rands[:0])
				for _, p := range rands {
					if *p != nil {
						if nv, ok := repl[*p]; ok {
							*p = nv
						}
					}
				}
				kept = append(kept, ins)
			}
			b.Instrs = kept
		}
	}
	// branches on constants
	changed := false
	for _, b := range f.Blocks {
		iff, ok := b.Instrs[len(b.Instrs)-1].(*If)
		if !ok || len(b.Succs) != 2 {
			continue
		}
		c, ok := iff.Cond.(*Const)
		if !ok || c.Value == nil || c.Value.Kind() != constant.Bool {
			continue
		}
		keep, drop := b.Succs[0], b.Succs[1]
		if !constant.BoolVal(c.Value) {
			keep, drop = drop, keep
		}
		if keep == drop {
			continue
		}
		// remove the edge b -> drop together with its φ edges
		if i := predIndex(drop, b); i >= 0 {
			for _, ins := range drop.Instrs {
				phi, ok := ins.(*Phi)
				if !ok {
					break
				}
				phi.Edges = append(phi.Edges[:i:i], phi.Edges[i+1:]...)
			}
			drop.Preds = append(drop.Preds[:i:i], drop.Preds[i+1:]...)
		}
		j := &Jump{}
		j.setBlock(b)
		b.Instrs[len(b.Instrs)-1] = j
		b.Succs = []*BasicBlock{keep}
		changed = true
	}
	if changed {
		rebuild(f)
	}
}

// simplifyPhis replaces φ-nodes whose edges are all the same value (or the φ itself) by that value.
func simplifyPhis(f *Function) bool {
	any := false
	for round := 0; round < 8; round++ {
		repl := map[Value]Value{}
		for _, b := range f.Blocks {
			for _, ins := range b.Instrs {
				phi, ok := ins.(*Phi)
				if !ok {
					break
				}
				var only Value
				same := true
				for _, e := range phi.Edges {
					if e == Value(phi) {
						continue
					}
					if only == nil {
						only = e
					} else if only != e {
						same = false
					}
				}
				if same && only != nil {
					repl[phi] = only
				}
			}
		}
		if len(repl) == 0 {
			break
		}
		any = true
		resolve := func(v Value) Value {
			for i := 0; i < 16; i++ {
				nv, ok := repl[v]
				if !ok {
					return v
				}
				v = nv
			}
			return v
		}
		var rands []*Value
		for _, b := range f.Blocks {
			kept := b.Instrs[:0:0]
			for _, ins := range b.Instrs {
				if v, ok := ins.(Value); ok {
					if _, gone := repl[v]; gone {
						continue
					}
				}
				rands = ins.Operands(rands[:0])
				for _, p := range rands {
					if *p != nil {
						*p = resolve(*p)
					}
				}
				kept = append(kept, ins)
			}
			b.Instrs = kept
		}
		rebuild(f)
	}
	return any
}

// forwardAggregates: a local aggregate (array / struct / array behind a slice literal) whose address never
// escapes and that is accessed only through constant indices and fields is a set of independent cells. A load
// of a cell that has exactly one store, which dominates the load and is not inside a loop, reads the stored
// value. This dissolves tables built from composite literals once the loops over them are unrolled.
func forwardAggregates(f *Function) int {
	// innermost loop of a block (nil outside loops). An aggregate allocated inside a loop is a new object in
	// every iteration; a store in the same innermost loop that the allocation dominates and that dominates the
	// load belongs to the same iteration as the load.
	loops := findLoops(f)
	innermost := func(b *BasicBlock) *natLoop {
		var best *natLoop
		for _, l := range loops {
			if l.body[b] && (best == nil || len(l.body) < len(best.body)) {
				best = l
			}
		}
		return best
	}
	total := 0
	for pass := 0; pass < 4; pass++ {
		repl := map[Value]Value{}
		for _, b := range f.Blocks {
			for _, ins := range b.Instrs {
				a, ok := ins.(*Alloc)
				if !ok {
					continue
				}
				allocLoop := innermost(b)
				switch a.Type().(*types.Pointer).Elem().Underlying().(type) {
				case *types.Array, *types.Struct:
				default:
					continue
				}
				stores := map[string][]*Store{}
				loads := map[string][]*UnOp{}
				escaped := false
				// dyn: below an index that is not a constant; reads there are left alone, writes make every cell unknown
				var visit func(addr Value, path string, isSlice bool)
				dyn := false
				visit = func(addr Value, path string, isSlice bool) {
					refs := addr.Referrers()
					if refs == nil {
						escaped = true
						return
					}
					for _, ref := range *refs {
						if escaped {
							return
						}
						switch r := ref.(type) {
						case *DebugRef:
						case *IndexAddr:
							if r.X != addr {
								escaped = true
								return
							}
							c, ok := r.Index.(*Const)
							if !ok || c.Value == nil || c.Value.Kind() != constant.Int {
								saved := dyn
								dyn = true
								visit(r, path+"[?]", false)
								dyn = saved
								continue
							}
							visit(r, path+"["+c.Value.ExactString()+"]", false)
						case *FieldAddr:
							if r.X != addr || isSlice {
								escaped = true
								return
							}
							visit(r, fmt.Sprintf("%s.%d", path, r.Field), false)
						case *Slice:
							if r.X != addr || isSlice || r.Low != nil || r.High != nil || r.Max != nil {
								escaped = true
								return
							}
							visit(r, path, true)
						case *Call:
							bi, ok := r.Call.Value.(*Builtin)
							if !ok || !isSlice || (bi.Name() != "len" && bi.Name() != "cap") {
								escaped = true
								return
							}
						case *Store:
							if r.Addr != addr || r.Val == addr || isSlice || dyn {
								escaped = true
								return
							}
							stores[path] = append(stores[path], r)
						case *UnOp:
							if r.Op != token.MUL || r.X != addr || isSlice {
								escaped = true
								return
							}
							if !dyn {
								loads[path] = append(loads[path], r)
							}
						default:
							if debugUnroll {
								fmt.Printf("  escape via %T %s\n", ref, ref)
							}
							escaped = true
							return
						}
					}
				}
				visit(a, "", false)
				if debugUnroll {
					fmt.Printf("forward %s %s: escaped=%v stores=%d loads=%d\n", f.Name(), a.Name(), escaped, len(stores), len(loads))
				}
				if escaped {
					continue
				}
				related := func(p, q string) bool { // one is a prefix of the other
					if len(p) > len(q) {
						p, q = q, p
					}
					return q[:len(p)] == p && (len(q) == len(p) || q[len(p)] == '.' || q[len(p)] == '[')
				}
				uniqueStore := func(path string, load Instruction) *Store {
					var s *Store
					// several stores to the cell (a variable reused by every iteration of an unrolled loop): the
					// last one that precedes the load in the load's own block is the one it reads
					{
						exact := true
						for q := range stores {
							if related(path, q) && q != path {
								exact = false
							}
						}
						if exact && len(stores[path]) > 1 {
							var last *Store
							for _, x := range load.Block().Instrs {
								if x == load {
									break
								}
								if st, ok := x.(*Store); ok {
									for _, c := range stores[path] {
										if c == st {
											last = st
										}
									}
								}
							}
							if last != nil {
								return last
							}
						}
					}
					for q, ss := range stores {
						if !related(path, q) {
							continue
						}
						if q != path || len(ss) != 1 || s != nil {
							return nil
						}
						s = ss[0]
					}
					if s == nil || innermost(s.Block()) != allocLoop || !(a.Block() == s.Block() || a.Block().Dominates(s.Block())) {
						return nil
					}
					if s.Block() == load.Block() {
						si, li := -1, -1
						for i, x := range s.Block().Instrs {
							if x == Instruction(s) {
								si = i
							}
							if x == load {
								li = i
							}
						}
						if si < 0 || li < 0 || si > li {
							return nil
						}
						return s
					}
					if !s.Block().Dominates(load.Block()) {
						return nil
					}
					return s
				}
				for path, ls := range loads {
					for _, ld := range ls {
						if s := uniqueStore(path, ld); s != nil {
							repl[ld] = s.Val
							continue
						}
						// a struct read as a whole whose fields were stored one by one: resolve the field selections
						if _, isStruct := ld.Type().Underlying().(*types.Struct); !isStruct || ld.Referrers() == nil {
							continue
						}
						sub := map[Value]Value{}
						okAll := len(*ld.Referrers()) > 0
						for _, ref := range *ld.Referrers() {
							switch fr := ref.(type) {
							case *Field:
								if s := uniqueStore(fmt.Sprintf("%s.%d", path, fr.Field), ld); s != nil {
									sub[fr] = s.Val
								} else {
									okAll = false
								}
							case *DebugRef:
							default:
								okAll = false
							}
						}
						if okAll {
							for k, v := range sub {
								repl[k] = v
							}
						}
					}
				}
			}
		}
		if len(repl) == 0 {
			break
		}
		total += len(repl)
		resolve := func(v Value) Value {
			for i := 0; i < 16; i++ {
				nv, ok := repl[v]
				if !ok {
					return v
				}
				v = nv
			}
			return v
		}
		var rands []*Value
		for _, b := range f.Blocks {
			kept := b.Instrs[:0:0]
			for _, ins := range b.Instrs {
				if v, ok := ins.(Value); ok {
					if _, gone := repl[v]; gone {
						continue
					}
				}
				rands = ins.Operands(rands[:0])
				for _, p := range rands {
					if *p != nil {
						*p = resolve(*p)
					}
				}
				kept = append(kept, ins)
			}
			b.Instrs = kept
		}
		rebuild(f)
	}
	return total
}

// removeDeadAggregates deletes local aggregates that are only written: the allocation, the address
// computations into it and the stores (what is left of a table once every read of it has been forwarded).
func removeDeadAggregates(f *Function) int {
	n := 0
	for pass := 0; pass < 4; pass++ {
		dead := map[Instruction]bool{}
		for _, b := range f.Blocks {
			for _, ins := range b.Instrs {
				a, ok := ins.(*Alloc)
				if !ok {
					continue
				}
				switch a.Type().(*types.Pointer).Elem().Underlying().(type) {
				case *types.Array, *types.Struct:
				default:
					continue
				}
				var tree []Instruction
				okDead := true
				var visit func(addr Value, isSlice bool)
				visit = func(addr Value, isSlice bool) {
					refs := addr.Referrers()
					if refs == nil {
						okDead = false
						return
					}
					for _, ref := range *refs {
						if !okDead {
							return
						}
						switch r := ref.(type) {
						case *DebugRef:
							tree = append(tree, r)
						case *IndexAddr:
							if r.X != addr {
								okDead = false
								return
							}
							tree = append(tree, r)
							visit(r, false)
						case *FieldAddr:
							if r.X != addr {
								okDead = false
								return
							}
							tree = append(tree, r)
							visit(r, false)
						case *Slice:
							if r.X != addr || isSlice {
								okDead = false
								return
							}
							tree = append(tree, r)
							visit(r, true)
						case *Store:
							if r.Addr != addr || r.Val == addr || isSlice {
								okDead = false
								return
							}
							tree = append(tree, r)
						default:
							okDead = false
							return
						}
					}
				}
				visit(a, false)
				if okDead {
					dead[a] = true
					for _, t := range tree {
						dead[t] = true
					}
				}
			}
		}
		if len(dead) == 0 {
			break
		}
		for _, b := range f.Blocks {
			kept := b.Instrs[:0:0]
			for _, ins := range b.Instrs {
				if dead[ins] {
					continue
				}
				kept = append(kept, ins)
			}
			b.Instrs = kept
		}
		var locals []*Alloc
		for _, a := range f.Locals {
			if !dead[a] {
				a.index = len(locals)
				locals = append(locals, a)
			}
		}
		f.Locals = locals
		n += len(dead)
		rebuild(f)
	}
	return n
}

// mergeLinearBlocks folds a block into its only predecessor when that predecessor has no other successor
// (the chains of jump-only blocks an unrolled loop leaves behind).
func mergeLinearBlocks(f *Function) bool {
	any := false
	for {
		merged := false
		for _, p := range f.Blocks {
			if len(p.Succs) != 1 {
				continue
			}
			b := p.Succs[0]
			if b == p || len(b.Preds) != 1 || b == f.Blocks[0] || b == f.Recover {
				continue
			}
			if _, isJump := p.Instrs[len(p.Instrs)-1].(*Jump); !isJump {
				continue
			}
			if len(b.Instrs) > 0 {
				if _, isPhi := b.Instrs[0].(*Phi); isPhi {
					continue
				}
			}
			p.Instrs = p.Instrs[:len(p.Instrs)-1]
			for _, ins := range b.Instrs {
				ins.(blockSetter).setBlock(p)
				p.Instrs = append(p.Instrs, ins)
			}
			p.Succs = b.Succs
			for _, s := range b.Succs {
				s.replacePred(b, p)
			}
			b.Instrs = nil
			b.Succs = nil
			b.Preds = nil
			var blocks []*BasicBlock
			for _, x := range f.Blocks {
				if x != b {
					blocks = append(blocks, x)
				}
			}
			f.Blocks = blocks
			merged = true
			any = true
			break
		}
		if !merged {
			break
		}
	}
	if any {
		rebuild(f)
	}
	return any
}

// forwardAppendChains: a slice built only by append(append(nil, a), b) ... with explicit elements, never
// written through an index and never handed to anyone, is the list of those elements: a load of element k
// (constant k) reads the k-th appended value, and its length is the number of elements.
func forwardAppendChains(f *Function) int {
	isAppend := appendCallOf
	elemsOf := appendChainElems
	// every chain member is used only as an append base, for reads by index, or by len/cap
	readOnly := func(v Value) bool {
		for cur := v; ; {
			c, ok := cur.(*Call)
			if !ok {
				return true
			}
			for _, ref := range *c.Referrers() {
				switch r := ref.(type) {
				case *DebugRef:
				case *Call:
					if ap := isAppend(r); ap != nil && ap.Call.Args[0] == Value(c) {
						continue
					}
					if bi, ok := r.Call.Value.(*Builtin); ok && (bi.Name() == "len" || bi.Name() == "cap") {
						continue
					}
					return false
				case *IndexAddr:
					if r.X != Value(c) {
						return false
					}
					for _, r2 := range *r.Referrers() {
						if u, ok := r2.(*UnOp); !ok || u.Op != token.MUL {
							return false
						}
					}
				default:
					return false
				}
			}
			ap := isAppend(c)
			if ap == nil {
				return true
			}
			cur = ap.Call.Args[0]
		}
	}
	inLoop := map[*BasicBlock]bool{}
	for _, l := range findLoops(f) {
		for b := range l.body {
			inLoop[b] = true
		}
	}
	repl := map[Value]Value{}
	for _, b := range f.Blocks {
		for _, ins := range b.Instrs {
			ld, ok := ins.(*UnOp)
			if !ok || ld.Op != token.MUL {
				continue
			}
			ia, ok := ld.X.(*IndexAddr)
			if !ok {
				continue
			}
			k, ok := ia.Index.(*Const)
			if !ok || k.Value == nil {
				continue
			}
			chain, ok := ia.X.(*Call)
			if !ok || isAppend(chain) == nil || inLoop[chain.Block()] {
				continue
			}
			elems, ok := elemsOf(chain, 0)
			if !ok || !readOnly(chain) {
				continue
			}
			idx, _ := constant.Int64Val(k.Value)
			if idx < 0 || idx >= int64(len(elems)) {
				continue
			}
			repl[ld] = elems[idx]
		}
	}
	if len(repl) == 0 {
		return 0
	}
	var rands []*Value
	for _, b := range f.Blocks {
		kept := b.Instrs[:0:0]
		for _, ins := range b.Instrs {
			if v, ok := ins.(Value); ok {
				if _, gone := repl[v]; gone {
					continue
				}
			}
			rands = ins.Operands(rands[:0])
			for _, p := range rands {
				if *p != nil {
					if nv, ok := repl[*p]; ok {
						*p = nv
					}
				}
			}
			kept = append(kept, ins)
		}
		b.Instrs = kept
	}
	rebuild(f)
	return len(repl)
}

func appendCallOf(v Value) *Call {
	c, ok := v.(*Call)
	if !ok {
		return nil
	}
	if bi, ok := c.Call.Value.(*Builtin); ok && bi.Name() == "append" && len(c.Call.Args) == 2 {
		return c
	}
	return nil
}

// appendChainElems: the elements of a slice built only by appends of explicit elements onto nil / an empty
// slice; ok=false when v is not such a chain.
func appendChainElems(v Value, depth int) ([]Value, bool) {
	if depth > 64 {
		return nil, false
	}
	switch x := v.(type) {
	case *Const:
		if x.Value == nil {
			return nil, true
		}
		return nil, false
	case *MakeSlice:
		if c, ok := x.Len.(*Const); ok && c.Value != nil && constant.Sign(c.Value) == 0 {
			return nil, true
		}
		return nil, false
	case *Call:
		ap := appendCallOf(x)
		if ap == nil {
			return nil, false
		}
		base, ok := appendChainElems(ap.Call.Args[0], depth+1)
		if !ok {
			return nil, false
		}
		sl, ok := ap.Call.Args[1].(*Slice)
		if !ok || sl.Low != nil || sl.High != nil || sl.Max != nil {
			return nil, false
		}
		al, ok := sl.X.(*Alloc)
		if !ok {
			return nil, false
		}
		at, ok := al.Type().(*types.Pointer).Elem().Underlying().(*types.Array)
		if !ok {
			return nil, false
		}
		vals := make([]Value, at.Len())
		for _, ref := range *al.Referrers() {
			switch r := ref.(type) {
			case *IndexAddr:
				c, ok := r.Index.(*Const)
				if !ok || c.Value == nil {
					return nil, false
				}
				k, _ := constant.Int64Val(c.Value)
				for _, r2 := range *r.Referrers() {
					st, ok := r2.(*Store)
					if !ok || st.Addr != Value(r) || k < 0 || k >= at.Len() || vals[k] != nil {
						return nil, false
					}
					vals[k] = st.Val
				}
			case *Slice:
				if r != sl {
					return nil, false
				}
			default:
				return nil, false
			}
		}
		for _, e := range vals {
			if e == nil {
				return nil, false
			}
		}
		return append(append([]Value(nil), base...), vals...), true
	}
	return nil, false
}

// scalarizeStructCopies rewrites `*dst = *src` for small struct types into one load/store pair per field, so
// that a table entry copied into a local (`entry := table[i]`) is still a set of independent cells for
// forwardAggregates.
// scalarizeStructPhiCopies handles `*dst = φ(*src, *src, ...)`: a struct value returned by an inlined helper with
// several returns (each return loads the helper's local at the end of its block) and assigned to a local of the
// caller. It becomes one φ per field over per-field loads taken where the whole-struct loads were, and per-field
// stores, so that forwardAggregates can resolve each field on each path.
func scalarizeStructPhiCopies(f *Function) bool {
	any := false
	for _, b := range f.Blocks {
		for si, ins := range b.Instrs {
			st, ok := ins.(*Store)
			if !ok {
				continue
			}
			ph, ok := st.Val.(*Phi)
			if !ok {
				continue
			}
			if debugUnroll {
				fmt.Fprintf(os.Stderr, "structphi %s: store of phi %s blockSame=%v refs=%d\n", f.Name(), ph.Name(), ph.Block() == b, len(*ph.Referrers()))
			}
			if ph.Block() != b || ph.Referrers() == nil || len(*ph.Referrers()) != 1 {
				continue
			}
			stt, ok := ph.Type().Underlying().(*types.Struct)
			if !ok || stt.NumFields() == 0 || stt.NumFields() > 12 {
				continue
			}
			switch st.Addr.(type) {
			case *FieldAddr, *Alloc:
			default:
				continue
			}
			if len(ph.Edges) != len(b.Preds) {
				continue
			}
			okAll := true
			loads := make([]*UnOp, len(ph.Edges))
			for i, e := range ph.Edges {
				ld, ok := e.(*UnOp)
				if !ok || ld.Op != token.MUL || ld.Block() != b.Preds[i] || ld.Referrers() == nil || len(*ld.Referrers()) != 1 {
					okAll = false
					break
				}
				if _, isLocal := ld.X.(*Alloc); !isLocal {
					okAll = false
					break
				}
				// nothing between the load and the end of its block may write memory
				after := false
				for _, i2 := range ld.Block().Instrs {
					if i2 == Instruction(ld) {
						after = true
						continue
					}
					if !after {
						continue
					}
					switch y := i2.(type) {
					case *Store:
						// a store elsewhere cannot reach the helper's local when its address never escapes
						src := ld.X.(*Alloc)
						if !allocPrivate(src) || y.Addr == Value(src) {
							okAll = false
						}
						if fa, isFA := y.Addr.(*FieldAddr); isFA && fa.X == Value(src) {
							okAll = false
						}
					case *MapUpdate, *Defer, *Go, *Send:
						okAll = false
					case *Call:
						// calls after the load (building an error value) cannot reach the helper's local:
						// its address does not escape when every use is a field address or a whole load
						if !allocPrivate(ld.X.(*Alloc)) {
							okAll = false
						}
					}
				}
				loads[i] = ld
			}
			if debugUnroll {
				fmt.Fprintf(os.Stderr, "structphi %s: okAll=%v\n", f.Name(), okAll)
			}
			if !okAll {
				continue
			}
			// per-field loads in the predecessors
			fieldLoads := make([][]Value, stt.NumFields())
			for i, ld := range loads {
				pb := ld.Block()
				var out []Instruction
				for _, i2 := range pb.Instrs {
					if i2 != Instruction(ld) {
						out = append(out, i2)
						continue
					}
					for j := 0; j < stt.NumFields(); j++ {
						ft := stt.Field(j).Type()
						sa := &FieldAddr{X: ld.X, Field: j}
						sa.setType(types.NewPointer(ft))
						sa.setBlock(pb)
						lv := &UnOp{Op: token.MUL, X: sa}
						lv.setType(ft)
						lv.setBlock(pb)
						out = append(out, sa, lv)
						fieldLoads[j] = append(fieldLoads[j], lv)
					}
				}
				pb.Instrs = out
				_ = i
			}
			// per-field φ-nodes and stores
			var phis []Instruction
			var stores []Instruction
			for j := 0; j < stt.NumFields(); j++ {
				ft := stt.Field(j).Type()
				np := &Phi{Edges: fieldLoads[j], Comment: ph.Comment}
				np.setType(ft)
				np.setBlock(b)
				phis = append(phis, np)
				da := &FieldAddr{X: st.Addr, Field: j}
				da.setType(types.NewPointer(ft))
				da.setBlock(b)
				ns := &Store{Addr: da, Val: np}
				ns.setBlock(b)
				stores = append(stores, da, ns)
			}
			var out []Instruction
			for k, i2 := range b.Instrs {
				if i2 == Instruction(ph) {
					out = append(out, phis...)
					continue
				}
				if k == si {
					out = append(out, stores...)
					continue
				}
				out = append(out, i2)
			}
			b.Instrs = out
			any = true
			break // the block changed: look at it again on the next call
		}
	}
	if any {
		rebuild(f)
	}
	return any
}

// allocPrivate: the address of a is used only to address its fields or to load / store it whole.
func allocPrivate(a *Alloc) bool {
	if a.Referrers() == nil {
		return false
	}
	for _, r := range *a.Referrers() {
		switch x := r.(type) {
		case *FieldAddr:
			if x.Referrers() != nil {
				for _, r2 := range *x.Referrers() {
					switch y := r2.(type) {
					case *UnOp:
					case *Store:
						if y.Addr != Value(x) {
							return false
						}
					default:
						return false
					}
				}
			}
		case *UnOp:
		case *Store:
			if x.Addr != Value(a) {
				return false
			}
		case *DebugRef:
		default:
			return false
		}
	}
	return true
}

func scalarizeStructCopies(f *Function) bool {
	anyPhi := false
	for n := 0; n < 8 && scalarizeStructPhiCopies(f); n++ {
		anyPhi = true
	}
	any := false
	defer func() { _ = anyPhi }()
	for _, b := range f.Blocks {
		var out []Instruction
		changed := false
		for _, ins := range b.Instrs {
			st, ok := ins.(*Store)
			if !ok {
				out = append(out, ins)
				continue
			}
			ld, ok := st.Val.(*UnOp)
			if !ok || ld.Op != token.MUL || ld.Block() != b {
				out = append(out, ins)
				continue
			}
			stt, ok := ld.Type().Underlying().(*types.Struct)
			if !ok || stt.NumFields() == 0 || stt.NumFields() > 12 || ld.Referrers() == nil || len(*ld.Referrers()) != 1 {
				out = append(out, ins)
				continue
			}
			switch ld.X.(type) {
			case *IndexAddr, *FieldAddr, *Alloc:
			default:
				out = append(out, ins)
				continue
			}
			switch st.Addr.(type) {
			case *IndexAddr, *FieldAddr, *Alloc:
			default:
				out = append(out, ins)
				continue
			}
			// the load must directly precede uses only by this store: keep its position (drop it below)
			for j := 0; j < stt.NumFields(); j++ {
				ft := stt.Field(j).Type()
				sa := &FieldAddr{X: ld.X, Field: j}
				sa.setType(types.NewPointer(ft))
				sa.setBlock(b)
				lv := &UnOp{Op: token.MUL, X: sa}
				lv.setType(ft)
				lv.setBlock(b)
				da := &FieldAddr{X: st.Addr, Field: j}
				da.setType(types.NewPointer(ft))
				da.setBlock(b)
				ns := &Store{Addr: da, Val: lv}
				ns.setBlock(b)
				out = append(out, sa, lv, da, ns)
			}
			changed = true
			// remove the whole-struct load from what has been emitted so far
			for k := len(out) - 1; k >= 0; k-- {
				if out[k] == Instruction(ld) {
					out = append(out[:k:k], out[k+1:]...)
					break
				}
			}
		}
		if changed {
			b.Instrs = out
			any = true
		}
	}
	if any {
		rebuild(f)
	}
	return any || anyPhi
}

// scalarizeArrayValueReads rewrites `v := *arr; ... v[k]` (a whole-array load of a local array that is only
// indexed by constants afterwards: what `for _, x := range [...]T{...}` becomes once unrolled) into one
// element load per use, taken where the whole-array load was, so that the elements are independent cells for
// forwardAggregates.
func scalarizeArrayValueReads(f *Function) bool {
	any := false
	for _, b := range f.Blocks {
		var out []Instruction
		changed := false
		for _, ins := range b.Instrs {
			ld, ok := ins.(*UnOp)
			if !ok || ld.Op != token.MUL {
				out = append(out, ins)
				continue
			}
			al, ok := ld.X.(*Alloc)
			if !ok {
				out = append(out, ins)
				continue
			}
			at, ok := ld.Type().Underlying().(*types.Array)
			if !ok || at.Len() > 64 || ld.Referrers() == nil || len(*ld.Referrers()) == 0 {
				out = append(out, ins)
				continue
			}
			okAll := true
			for _, r := range *ld.Referrers() {
				ix, isIx := r.(*Index)
				if !isIx || ix.X != Value(ld) {
					okAll = false
					break
				}
				if c, isC := ix.Index.(*Const); !isC || c.Value == nil || c.Value.Kind() != constant.Int {
					okAll = false
					break
				}
			}
			if !okAll {
				out = append(out, ins)
				continue
			}
			byIdx := map[string]Value{}
			for _, r := range *ld.Referrers() {
				ix := r.(*Index)
				k := ix.Index.(*Const).Value.ExactString()
				nv, have := byIdx[k]
				if !have {
					ea := &IndexAddr{X: al, Index: ix.Index}
					ea.setType(types.NewPointer(at.Elem()))
					ea.setBlock(b)
					ev := &UnOp{Op: token.MUL, X: ea}
					ev.setType(at.Elem())
					ev.setBlock(b)
					out = append(out, ea, ev)
					byIdx[k] = ev
					nv = ev
				}
				replaceAll(ix, nv)
				ix.X = nil // marks it dead (removed below)
			}
			changed = true
		}
		if changed {
			b.Instrs = out
			any = true
		}
	}
	if any {
		for _, b := range f.Blocks {
			kept := b.Instrs[:0]
			for _, ins := range b.Instrs {
				if ix, ok := ins.(*Index); ok && ix.X == nil {
					continue
				}
				kept = append(kept, ins)
			}
			b.Instrs = kept
		}
		rebuild(f)
	}
	return any
}
