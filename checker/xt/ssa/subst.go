// Copyright 2022 The Go Authors. All rights reserved.
// Use of this source code is governed by a BSD-style
// license that can be found in the LICENSE file.

package ssa

import (
	"go/types"

	"golang.org/x/tools/go/types/typeutil"
	"ikeverif/checker/xt/aliases"
)

// subster defines a type substitution operation of a set of type parameters
// to type parameter free replacement types. Substitution is done within
// the context of a package-level function instantiation. *Named types
// declared in the function are unique to the instantiation.
//
// For example, given a parameterized function F
//
//	  func F[S, T any]() any {
//	    type X struct{ s S; next *X }
//		var p *X
//	    return p
//	  }
//
// calling the instantiation F[string, int]() returns an interface
// value (*X[string,int], nil) where the underlying value of
// X[string,int] is a struct{s string; next *X[string,int]}.
//
// A nil *subster is a valid, empty substitution map. It always acts as
// the identity function. This allows for treating parameterized and
// non-parameterized functions identically while compiling to ssa.
//
// Not concurrency-safe.
//
// Note: Some may find it helpful to think through some of the most
// complex substitution cases using lambda calculus inspired notation.
// subst.typ() solves evaluating a type expression E
// within the body of a function Fn[m] with the type parameters m
// once we have applied the type arguments N.
// We can succinctly write this as a function application:
//
//	((λm. E) N)
//
// go/types does not provide this interface directly.
// So what subster provides is a type substitution operation
//
//	E[m:=N]
type subster struct {
	replacements map[*types.TypeParam]types.Type // values should contain no type params
	cache        map[types.Type]types.Type       // cache of subst results
	origin       *types.Func                     // types.Objects declared within this origin function are unique within this context
	ctxt         *types.Context                  // speeds up repeated instantiations
	uniqueness   typeutil.Map                    // determines the uniqueness of the instantiations within the function
	// TODO(taking): consider adding Pos
}

// Returns a subster that replaces tparams[i] with targs[i]. Uses ctxt as a cache.
// targs should not contain any types in tparams.
// fn is the generic function for which we are substituting.
func makeSubster(ctxt *types.Context, fn *types.Func, tparams *types.TypeParamList, targs []types.Type, debug bool) *subster {
	assert(tparams.Len() == len(targs), "makeSubster argument count must match")

	subst := &subster{
		replacements: make(map[*types.TypeParam]types.Type, tparams.Len()),
		cache:        make(map[types.Type]types.Type),
		origin:       fn.Origin(),
		ctxt:         ctxt,
	}
	for i := 0; i < tparams.Len(); i++ {
		subst.replacements[tparams.At(i)] = targs[i]
	}
	return subst
}

// typ returns the type of t with the type parameter tparams[i] substituted
// for the type targs[i] where subst was created using tparams and targs.
func (subst *subster) typ(t types.Type) (res types.Type) {
	if subst == nil {
		return t // A nil subst is type preserving.
	}
	if r, ok := subst.cache[t]; ok {
		return r
	}
	defer func() {
		subst.cache[t] = res
	}()

	switch t := t.(type) {
	case *types.TypeParam:
		if r := subst.replacements[t]; r != nil {
			return r
		}
		return t

	case *types.Basic:
		return t

	case *types.Array:
		if r := subst.typ(t.Elem()); r != t.Elem() {
			return types.NewArray(r, t.Len())
		}
		return t

	case *types.Slice:
		if r := subst.typ(t.Elem()); r != t.Elem() {
			return types.NewSlice(r)
		}
		return t

	case *types.Pointer:
		if r := subst.typ(t.Elem()); r != t.Elem() {
			return types.NewPointer(r)
		}
		return t

	case *types.Tuple:
		return subst.tuple(t)

	case *types.Struct:
		return subst.struct_(t)

	case *types.Map:
		key := subst.typ(t.Key())
		elem := subst.typ(t.Elem())
		if key != t.Key() || elem != t.Elem() {
			return types.NewMap(key, elem)
		}
		return t

	case *types.Chan:
		if elem := subst.typ(t.Elem()); elem != t.Elem() {
			return types.NewChan(t.Dir(), elem)
		}
		return t

	case *types.Signature:
		return subst.signature(t)

	case *types.Union:
		return subst.union(t)

	case *types.Interface:
		return subst.interface_(t)

	case *types.Alias:
		return subst.alias(t)

	case *types.Named:
		return subst.named(t)

	case *opaqueType:
		return t // opaque types are never substituted

	default:
		panic("unreachable")
	}
}

// types returns the result of {subst.typ(ts[i])}.
func (subst *subster) types(ts []types.Type) []types.Type {
	res := make([]types.Type, len(ts))
	for i := range ts {
		res[i] = subst.typ(ts[i])
	}
	return res
}

func (subst *subster) tuple(t *types.Tuple) *types.Tuple {
	if t != nil {
		if vars := subst.varlist(t); vars != nil {
			return types.NewTuple(vars...)
		}
	}
	return t
}

type varlist interface {
	At(i int) *types.Var
	Len() int
}

// fieldlist is an adapter for structs for the varlist interface.
type fieldlist struct {
	str *types.Struct
}

func (fl fieldlist) At(i int) *types.Var { return fl.str.Field(i) }
func (fl fieldlist) Len() int            { return fl.str.NumFields() }

func (subst *subster) struct_(t *types.Struct) *types.Struct {
	if t != nil {
		if fields := subst.varlist(fieldlist{t}); fields != nil {
			tags := make([]string, t.NumFields())
			for i, n := 0, t.NumFields(); i < n; i++ {
				tags[i] = t.Tag(i)
			}
			return types.NewStruct(fields, tags)
		}
	}
	return t
}

// varlist returns subst(in[i]) or return nils if subst(v[i]) == v[i] for all i.
func (subst *subster) varlist(in varlist) []*types.Var {
	var out []*types.Var // nil => no updates
	for i, n := 0, in.Len(); i < n; i++ {
		v := in.At(i)
		w := subst.var_(v)
		if v != w && out == nil {
			out = make([]*types.Var, n)
			for j := 0; j < i; j++ {
				out[j] = in.At(j)
			}
		}
		if out != nil {
			out[i] = w
		}
	}
	return out
}

func (subst *subster) var_(v *types.Var) *types.Var {
	if v != nil {
		if typ := subst.typ(v.Type()); typ != v.Type() {
			if v.IsField() {
				return types.NewField(v.Pos(), v.Pkg(), v.Name(), typ, v.Embedded())
			}
			return types.NewVar(v.Pos(), v.Pkg(), v.Name(), typ)
		}
	}
	return v
}

func (subst *subster) union(u *types.Union) *types.Union {
	var out []*types.Term // nil => no updates

	for i, n := 0, u.Len(); i < n; i++ {
		t := u.Term(i)
		r := subst.typ(t.Type())
		if r != t.Type() && out == nil {
			out = make([]*types.Term, n)
			for j := 0; j < i; j++ {
				out[j] = u.Term(j)
			}
		}
		if out != nil {
			out[i] = types.NewTerm(t.Tilde(), r)
		}
	}

	if out != nil {
		return types.NewUnion(out)
	}
	return u
}

func (subst *subster) interface_(iface *types.Interface) *types.Interface {
	if iface == nil {
		return nil
	}

	// methods for the interface. Initially nil if there is no known change needed.
	// Signatures for the method where recv is nil. NewInterfaceType fills in the receivers.
	var methods []*types.Func
	initMethods := func(n int) { // copy first n explicit methods
		methods = make([]*types.Func, iface.NumExplicitMethods())
		for i := 0; i < n; i++ {
			f := iface.ExplicitMethod(i)
			norecv := changeRecv(f.Type().(*types.Signature), nil)
			methods[i] = types.NewFunc(f.Pos(), f.Pkg(), f.Name(), norecv)
		}
	}
	for i := 0; i < iface.NumExplicitMethods(); i++ {
		f := iface.ExplicitMethod(i)
		// On interfaces, we need to cycle break on anonymous interface types
		// being in a cycle with their signatures being in cycles with their receivers
		// that do not go through a Named.
		norecv := changeRecv(f.Type().(*types.Signature), nil)
		sig := subst.typ(norecv)
		if sig != norecv && methods == nil {
			initMethods(i)
		}
		if methods != nil {
			methods[i] = types.NewFunc(f.Pos(), f.Pkg(), f.Name(), sig.(*types.Signature))
		}
	}

	var embeds []types.Type
	initEmbeds := func(n int) { // copy first n embedded types
		embeds = make([]types.Type, iface.NumEmbeddeds())
		for i := 0; i < n; i++ {
			embeds[i] = iface.EmbeddedType(i)
		}
	}
	for i := 0; i < iface.NumEmbeddeds(); i++ {
		e := iface.EmbeddedType(i)
		r := subst.typ(e)
		if e != r && embeds == nil {
			initEmbeds(i)
		}
		if embeds != nil {
			embeds[i] = r
		}
	}

	if methods == nil && embeds == nil {
		return iface
	}
	if methods == nil {
		initMethods(iface.NumExplicitMethods())
	}
	if embeds == nil {
		initEmbeds(iface.NumEmbeddeds())
	}
	return types.NewInterfaceType(methods, embeds).Complete()
}

func (subst *subster) alias(t *types.Alias) types.Type {
	// See subster.named. This follows the same strategy.
	tparams := aliases.TypeParams(t)
	targs := aliases.TypeArgs(t)
	tname := t.Obj()
	torigin := aliases.Origin(t)

	if !declaredWithin(tname, subst.origin) {
		// t is declared outside of the function origin. So t is a package level type alias.
		if targs.Len() == 0 {
			// No type arguments so no instantiation needed.
			return t
		}

		// Instantiate with the substituted type arguments.
		newTArgs := subst.typelist(targs)
		return subst.instantiate(torigin, newTArgs)
	}

	if targs.Len() == 0 {
		// t is declared within the function origin and has no type arguments.
		//
		// Example: This corresponds to A or B in F, but not A[int]:
		//
		//     func F[T any]() {
		//       type A[S any] = struct{t T, s S}
		//       type B = T
		//       var x A[int]
		//       ...
		//     }
		//
		// This is somewhat different than *Named as *Alias cannot be created recursively.

		// Copy and substitute type params.
		var newTParams []*types.TypeParam
		for i := 0; i < tparams.Len(); i++ {
			cur := tparams.At(i)
			cobj := cur.Obj()
			cname := types.NewTypeName(cobj.Pos(), cobj.Pkg(), cobj.Name(), nil)
			ntp := types.NewTypeParam(cname, nil)
			subst.cache[cur] = ntp // See the comment "Note: Subtle" in subster.named.
			newTParams = append(newTParams, ntp)
		}

		// Substitute rhs.
		rhs := subst.typ(aliases.Rhs(t))

		// Create the fresh alias.
		//
		// Until 1.27, the result of aliases.NewAlias(...).Type() cannot guarantee it is a *types.Alias.
		// However, as t is an *alias.Alias and t is well-typed, then aliases must have been enabled.
		// Follow this decision, and always enable aliases here.
		const enabled = true
		obj := aliases.NewAlias(enabled, tname.Pos(), tname.Pkg(), tname.Name(), rhs, newTParams)

		// Substitute into all of the constraints after they are created.
		for i, ntp := range newTParams {
			bound := tparams.At(i).Constraint()
			ntp.SetConstraint(subst.typ(bound))
		}
		return obj.Type()
	}

	// t is declared within the function origin and has type arguments.
	//
	// Example: This corresponds to A[int] in F. Cases A and B are handled above.
	//     func F[T any]() {
	//       type A[S any] = struct{t T, s S}
	//       type B = T
	//       var x A[int]
	//       ...
	//     }
	subOrigin := subst.typ(torigin)
	subTArgs := subst.typelist(targs)
	return subst.instantiate(subOrigin, subTArgs)
}

func (subst *subster) named(t *types.Named) types.Type {
	// A Named type is a user defined type.
	// Ignoring generics, Named types are canonical: they are identical if
	// and only if they have the same defining symbol.
	// Generics complicate things, both if the type definition itself is
	// parameterized, and if the type is defined within the scope of a
	// parameterized function. In this case, two named types are identical if
	// and only if their identifying symbols are identical, and all type
	// arguments bindings in scope of the named type definition (including the
	// type parameters of the definition itself) are equivalent.
	//
	// Notably:
	// 1. For type definition type T[P1 any] struct{}, T[A] and T[B] are identical
	//    only if A and B are identical.
	// 2. Inside the generic func Fn[m any]() any { type T struct{}; return T{} },
	//    the result of Fn[A] and Fn[B] have identical type if and only if A and
	//    B are identical.
	// 3. Both 1 and 2 could apply, such as in
	//    func F[m any]() any { type T[x any] struct{}; return T{} }
	//
	// A subster replaces type parameters within a function scope, and therefore must
	// also replace free type parameters in the definitions of local types.
	//
	// Note: There are some detailed notes sprinkled throughout that borrow from
	// lambda calculus notation. These contain some over simplifying math.
	//
	// LC: One way to think about subster is that it is  a way of evaluating
	//   ((λm. E) N) as E[m:=N].
	// Each Named type t has an object *TypeName within a scope S that binds an
	// underlying type expression U. U can refer to symbols within S (+ S's ancestors).
	// Let x = t.TypeParams() and A = t.TypeArgs().
	// Each Named type t is then either:
	//   U              where len(x) == 0 && len(A) == 0
	//   λx. U          where len(x) != 0 && len(A) == 0
	//   ((λx. U) A)    where len(x) == len(A)
	// In each case, we will evaluate t[m:=N].
	tparams := t.TypeParams() // x
	targs := t.TypeArgs()     // A

	if !declaredWithin(t.Obj(), subst.origin) {
		// t is declared outside of Fn[m].
		//
		// In this case, we can skip substituting t.Underlying().
		// The underlying type cannot refer to the type parameters.
		//
		// LC: Let free(E) be the set of free type parameters in an expression E.
		// Then whenever m ∉ free(E), then E = E[m:=N].
		// t ∉ Scope(fn) so therefore m ∉ free(U) and m ∩ x = ∅.
		if targs.Len() == 0 {
			// t has no type arguments. So it does not need to be instantiated.
			//
			// This is the normal case in real Go code, where t is not parameterized,
			// declared at some package scope, and m is a TypeParam from a parameterized
			// function F[m] or method.
			//
			// LC: m ∉ free(A) lets us conclude m ∉ free(t). So t=t[m:=N].
			return t
		}

		// t is declared outside of Fn[m] and has type arguments.
		// The type arguments may contain type parameters m so
		// substitute the type arguments, and instantiate the substituted
		// type arguments.
		//
		// LC: Evaluate this as ((λx. U) A') where A' = A[m := N].
		newTArgs := subst.typelist(targs)
		return subst.instantiate(t.Origin(), newTArgs)
	}

	// t is declared within Fn[m].

	if targs.Len() == 0 { // no type arguments?
		assert(t == t.Origin(), "local parameterized type abstraction must be an origin type")

		// t has no type arguments.
		// The underlying type of t may contain the function's type parameters,
		// replace these, and create a new type.
		//
		// Subtle: We short circuit substitution and use a newly created type in
		// subst, i.e. cache[t]=fresh, to preemptively replace t with fresh
		// in recursive types during traversal. This both breaks infinite cycles
		// and allows for constructing types with the replacement applied in
		// subst.typ(U).
		//
		// A new copy of the Named and Typename (and constraints) per function
		// instantiation matches the semantics of Go, which treats all function
		// instantiations F[N] as having distinct local types.
		//
		// LC: x.Len()=0 can be thought of as a special case of λx. U.
		// LC: Evaluate (λx. U)[m:=N] as (λx'. U') where U'=U[x:=x',m:=N].
		tname := t.Obj()
		obj := types.NewTypeName(tname.Pos(), tname.Pkg(), tname.Name(), nil)
		fresh := types.NewNamed(obj, nil, nil)
		var newTParams []*types.TypeParam
		for i := 0; i < tparams.Len(); i++ {
			cur := tparams.At(i)
			cobj := cur.Obj()
			cname := types.NewTypeName(cobj.Pos(), cobj.Pkg(), cobj.Name(), nil)
			ntp := types.NewTypeParam(cname, nil)
			subst.cache[cur] = ntp
			newTParams = append(newTParams, ntp)
		}
		fresh.SetTypeParams(newTParams)
		subst.cache[t] = fresh
		subst.cache[fresh] = fresh
		fresh.SetUnderlying(subst.typ(t.Underlying()))
		// Substitute into all of the constraints after they are created.
		for i, ntp := range newTParams {
			bound := tparams.At(i).Constraint()
			ntp.SetConstraint(subst.typ(bound))
		}
		return fresh
	}

	// t is defined within Fn[m] and t has type arguments (an instantiation).
	// We reduce this to the two cases above:
	// (1) substitute the function's type parameters into t.Origin().
	// (2) substitute t's type arguments A and instantiate the updated t.Origin() with these.
	//
	// LC: Evaluate ((λx. U) A)[m:=N] as (t' A') where t' = (λx. U)[m:=N] and A'=A [m:=N]
	subOrigin := subst.typ(t.Origin())
	subTArgs := subst.typelist(targs)
	return subst.instantiate(subOrigin, subTArgs)
}

func (subst *subster) instantiate(orig types.Type, targs []types.Type) types.Type {
	i, err := types.Instantiate(subst.ctxt, orig, targs, false)
	assert(err == nil, "failed to Instantiate named (Named or Alias) type")
	if c, _ := subst.uniqueness.At(i).(types.Type); c != nil {
		return c.(types.Type)
	}
	subst.uniqueness.Set(i, i)
	return i
}

func (subst *subster) typelist(l *types.TypeList) []types.Type {
	res := make([]types.Type, l.Len())
	for i := 0; i < l.Len(); i++ {
		res[i] = subst.typ(l.At(i))
	}
	return res
}

func (subst *subster) signature(t *types.Signature) types.Type {
	tparams := t.TypeParams()

	// We are choosing not to support tparams.Len() > 0 until a need has been observed in practice.
	//
	// There are some known usages for types.Types coming from types.{Eval,CheckExpr}.
	// To support tparams.Len() > 0, we just need to do the following [psuedocode]:
	//   targs := {subst.replacements[tparams[i]]]}; Instantiate(ctxt, t, targs, false)

	assert(tparams.Len() == 0, "Substituting types.Signatures with generic functions are currently unsupported.")

	// Either:
	// (1)non-generic function.
	//    no type params to substitute
	// (2)generic method and recv needs to be substituted.

	// Receivers can be either:
	// named
	// pointer to named
	// interface
	// nil
	// interface is the problematic case. We need to cycle break there!
	recv := subst.var_(t.Recv())
	params := subst.tuple(t.Params())
	results := subst.tuple(t.Results())
	if recv != t.Recv() || params != t.Params() || results != t.Results() {
		return types.NewSignatureType(recv, nil, nil, params, results, t.Variadic())
	}
	return t
}

// reaches returns true if a type t reaches any type t' s.t. c[t'] == true.
// It updates c to cache results.
//
// reaches is currently only part of the wellFormed debug logic, and
// in practice c is initially only type parameters. It is not currently
// relied on in production.
func reaches(t types.Type, c map[types.Type]bool) (res bool) {
	if c, ok := c[t]; ok {
		return c
	}

	// c is populated with temporary false entries as types are visited.
	// This avoids repeat visits and break cycles.
	c[t] = false
	defer func() {
		c[t] = res
	}()

	switch t := t.(type) {
	case *types.TypeParam, *types.Basic:
		return false
	case *types.Array:
		return reaches(t.Elem(), c)
	case *types.Slice:
		return reaches(t.Elem(), c)
	case *types.Pointer:
		return reaches(t.Elem(), c)
	case *types.Tuple:
		for i := 0; i < t.Len(); i++ {
			if reaches(t.At(i).Type(), c) {
				return true
			}
		}
	case *types.Struct:
		for i := 0; i < t.NumFields(); i++ {
			if reaches(t.Field(i).Type(), c) {
				return true
			}
		}
	case *types.Map:
		return reaches(t.Key(), c) || reaches(t.Elem(), c)
	case *types.Chan:
		return reaches(t.Elem(), c)
	case *types.Signature:
		if t.Recv() != nil && reaches(t.Recv().Type(), c) {
			return true
		}
		return reaches(t.Params(), c) || reaches(t.Results(), c)
	case *types.Union:
		for i := 0; i < t.Len(); i++ {
			if reaches(t.Term(i).Type(), c) {
				return true
			}
		}
	case *types.Interface:
		for i := 0; i < t.NumEmbeddeds(); i++ {
			if reaches(t.Embedded(i), c) {
				return true
			}
		}
		for i := 0; i < t.NumExplicitMethods(); i++ {
			if reaches(t.ExplicitMethod(i).Type(), c) {
				return true
			}
		}
	case *types.Named, *types.Alias:
		return reaches(t.Underlying(), c)
	default:
		panic("unreachable")
	}
	return false
}
