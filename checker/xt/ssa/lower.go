// Added for /verif (not part of x/tools): encoding/binary's append helpers spelled out.
//
// binary.BigEndian.AppendUint16(b, v) is append(b, byte(v>>8), byte(v)) (and likewise for 32 and 64 bits, and
// for LittleEndian with the octets reversed). The call is replaced by exactly that: an array of the octets, a
// slice of it and the append builtin, which is the form every client analysis of appended octets already
// reads. Behaviour is unchanged.

package ssa

import (
	"go/constant"
	"go/token"
	"go/types"
)

// LowerAppendUint rewrites the calls in fns; the number of calls rewritten is returned.
func LowerAppendUint(fns []*Function) int {
	total := 0
	for _, f := range fns {
		if f.Blocks == nil {
			continue
		}
		n := 0
		for _, b := range f.Blocks {
			var out []Instruction
			for _, ins := range b.Instrs {
				call, ok := ins.(*Call)
				if !ok || call.Call.IsInvoke() {
					out = append(out, ins)
					continue
				}
				g := call.Call.StaticCallee()
				width, little := 0, false
				if g != nil {
					switch g.String() {
					case "(encoding/binary.bigEndian).AppendUint16":
						width = 2
					case "(encoding/binary.bigEndian).AppendUint32":
						width = 4
					case "(encoding/binary.bigEndian).AppendUint64":
						width = 8
					case "(encoding/binary.littleEndian).AppendUint16":
						width, little = 2, true
					case "(encoding/binary.littleEndian).AppendUint32":
						width, little = 4, true
					case "(encoding/binary.littleEndian).AppendUint64":
						width, little = 8, true
					}
				}
				if width == 0 || len(call.Call.Args) != 3 {
					out = append(out, ins)
					continue
				}
				buf, v := call.Call.Args[1], call.Call.Args[2]
				arrT := types.NewArray(tByte, int64(width))
				arr := &Alloc{Comment: "varargs", Heap: true}
				arr.setType(types.NewPointer(arrT))
				arr.setPos(call.Pos())
				arr.setBlock(b)
				out = append(out, arr)
				for i := 0; i < width; i++ {
					shift := 8 * (width - 1 - i)
					if little {
						shift = 8 * i
					}
					var octet Value = v
					if shift > 0 {
						sh := &BinOp{Op: token.SHR, X: v, Y: NewConst(constant.MakeInt64(int64(shift)), types.Typ[types.Uint])}
						sh.setType(v.Type())
						sh.setPos(call.Pos())
						sh.setBlock(b)
						out = append(out, sh)
						octet = sh
					}
					cv := &Convert{X: octet}
					cv.setType(tByte)
					cv.setPos(call.Pos())
					cv.setBlock(b)
					ia := &IndexAddr{X: arr, Index: NewConst(constant.MakeInt64(int64(i)), tInt)}
					ia.setType(types.NewPointer(tByte))
					ia.setBlock(b)
					st := &Store{Addr: ia, Val: cv}
					st.setBlock(b)
					out = append(out, cv, ia, st)
				}
				sl := &Slice{X: arr}
				sl.setType(types.NewSlice(tByte))
				sl.setBlock(b)
				bt := buf.Type()
				sig := types.NewSignatureType(nil, nil, nil,
					types.NewTuple(types.NewParam(token.NoPos, nil, "", bt), types.NewParam(token.NoPos, nil, "", types.NewSlice(tByte))),
					types.NewTuple(types.NewParam(token.NoPos, nil, "", bt)), true)
				ap := &Call{Call: CallCommon{Value: &Builtin{name: "append", sig: sig}, Args: []Value{buf, sl}}}
				ap.setType(call.Type())
				ap.setPos(call.Pos())
				ap.setBlock(b)
				out = append(out, sl, ap)
				replaceAll(call, ap)
				n++
			}
			b.Instrs = out
		}
		if n > 0 {
			rebuild(f)
			total += n
		}
	}
	return total
}
