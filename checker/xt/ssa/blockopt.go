// Copyright 2013 The Go Authors. All rights reserved.
// Use of this source code is governed by a BSD-style
// license that can be found in the LICENSE file.

package ssa

// Simple block optimizations to simplify the control flow graph.

// TODO(adonovan): opt: instead of creating several "unreachable" blocks
// per function in the Builder, reuse a single one (e.g. at Blocks[1])
// to reduce garbage.

import (
	"fmt"
	"os"
)

// If true, perform sanity checking and show progress at each
// successive iteration of optimizeBlocks.  Very verbose.
const debugBlockOpt = false

// markReachable sets Index=-1 for all blocks reachable from b.
func markReachable(b *BasicBlock) {
	b.Index = -1
	for _, succ := range b.Succs {
		if succ.Index == 0 {
			markReachable(succ)
		}
	}
}

// deleteUnreachableBlocks marks all reachable blocks of f and
// eliminates (nils) all others, including possibly cyclic subgraphs.
func deleteUnreachableBlocks(f *Function) {
	const white, black = 0, -1
	// We borrow b.Index temporarily as the mark bit.
	for _, b := range f.Blocks {
		b.Index = white
	}
	markReachable(f.Blocks[0])
	if f.Recover != nil {
		markReachable(f.Recover)
	}
	for i, b := range f.Blocks {
		if b.Index == white {
			for _, c := range b.Succs {
				if c.Index == black {
					c.removePred(b) // delete white->black edge
				}
			}
			if debugBlockOpt {
				fmt.Fprintln(os.Stderr, "unreachable", b)
			}
			f.Blocks[i] = nil // delete b
		}
	}
	f.removeNilBlocks()
}

// jumpThreading attempts to apply simple jump-threading to block b,
// in which a->b->c become a->c if b is just a Jump.
// The result is true if the optimization was applied.
func jumpThreading(f *Function, b *BasicBlock) bool {
	if b.Index == 0 {
		return false // don't apply to entry block
	}
	if b.Instrs == nil {
		return false
	}
	if _, ok := b.Instrs[0].(*Jump); !ok {
		return false // not just a jump
	}
	c := b.Succs[0]
	if c == b {
		return false // don't apply to degenerate jump-to-self.
	}
	if c.hasPhi() {
		return false // not sound without more effort
	}
	for j, a := range b.Preds {
		a.replaceSucc(b, c)

		// If a now has two edges to c, replace its degenerate If by Jump.
		if len(a.Succs) == 2 && a.Succs[0] == c && a.Succs[1] == c {
			jump := new(Jump)
			jump.setBlock(a)
			a.Instrs[len(a.Instrs)-1] = jump
			a.Succs = a.Succs[:1]
			c.removePred(b)
		} else {
			if j == 0 {
				c.replacePred(b, a)
			} else {
				c.Preds = append(c.Preds, a)
			}
		}

		if debugBlockOpt {
			fmt.Fprintln(os.Stderr, "jumpThreading", a, b, c)
		}
	}
	f.Blocks[b.Index] = nil // delete b
	return true
}

// fuseBlocks attempts to apply the block fusion optimization to block
// a, in which a->b becomes ab if len(a.Succs)==len(b.Preds)==1.
// The result is true if the optimization was applied.
func fuseBlocks(f *Function, a *BasicBlock) bool {
	if len(a.Succs) != 1 {
		return false
	}
	b := a.Succs[0]
	if len(b.Preds) != 1 {
		return false
	}

	// Degenerate &&/|| ops may result in a straight-line CFG
	// containing φ-nodes. (Ideally we'd replace such them with
	// their sole operand but that requires Referrers, built later.)
	if b.hasPhi() {
		return false // not sound without further effort
	}

	// Eliminate jump at end of A, then copy all of B across.
	a.Instrs = append(a.Instrs[:len(a.Instrs)-1], b.Instrs...)
	for _, instr := range b.Instrs {
		instr.setBlock(a)
	}

	// A inherits B's successors
	a.Succs = append(a.succs2[:0], b.Succs...)

	// Fix up Preds links of all successors of B.
	for _, c := range b.Succs {
		c.replacePred(b, a)
	}

	if debugBlockOpt {
		fmt.Fprintln(os.Stderr, "fuseBlocks", a, b)
	}

	f.Blocks[b.Index] = nil // delete b
	return true
}

// optimizeBlocks() performs some simple block optimizations on a
// completed function: dead block elimination, block fusion, jump
// threading.
func optimizeBlocks(f *Function) {
	deleteUnreachableBlocks(f)

	// Loop until no further progress.
	changed := true
	for changed {
		changed = false

		if debugBlockOpt {
			f.WriteTo(os.Stderr)
			mustSanityCheck(f, nil)
		}

		for _, b := range f.Blocks {
			// f.Blocks will temporarily contain nils to indicate
			// deleted blocks; we remove them at the end.
			if b == nil {
				continue
			}

			// Fuse blocks.  b->c becomes bc.
			if fuseBlocks(f, b) {
				changed = true
			}

			// a->b->c becomes a->c if b contains only a Jump.
			if jumpThreading(f, b) {
				changed = true
				continue // (b was disconnected)
			}
		}
	}
	f.removeNilBlocks()
}
