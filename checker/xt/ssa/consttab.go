// Added for /verif (not part of x/tools): constant package-level tables.
//
// A package-level variable that is given its value once by the package initializer (a composite literal of
// constants: an array / slice of structs, a map from constants to constants or to structs of constants, a
// scalar), whose address never leaves the accessors below and that no other code writes, is a constant. Code
// that consults such a table - `for i := range table { if table[i].kind == k { return table[i], true } }`,
// `layout, ok := layouts[kind]` - is the table-driven spelling of an if / switch chain over the same
// constants. The rewrites here turn reads of a constant table back into constants:
//
//   - len(table) becomes a constant (so that the loop over it has a constant trip count and is unrolled);
//   - a load of a cell addressed by constant indices / fields becomes the cell's constant;
//   - a field of a struct value that is a cell, the zero value, or a φ of those becomes a constant / a φ of
//     constants;
//   - a lookup in a constant map with few entries becomes a chain of key == K tests whose arms carry the
//     entry's constants (fields are taken per use), the miss arm the zero value and ok = false.
//
// Every rewrite preserves the function's behaviour provided the variable really is constant, which
// AnalyzeConstGlobals establishes over all functions it is given (closed world: the module's non-test code).

package ssa

import (
	"fmt"
	"go/constant"
	"go/token"
	"go/types"
	"os"
	"sort"
	"strings"
)

type ctKind int

const (
	ctUnknown ctKind = iota
	ctScalar
	ctStruct
	ctArray // arrays and slices of known length
	ctMap
	ctFunc // a function without captured variables (a constructor kept in a table)
)

type ctVal struct {
	kind  ctKind
	k     *Const   // scalar
	elems []*ctVal // struct fields / array elements
	keys  []*Const // map
	vals  []*ctVal
	fn    *Function // ctFunc
}

// asValue: the SSA value a scalar or function cell stands for, typed t; nil for aggregates and unknowns.
func (v *ctVal) asValue(t types.Type) Value {
	switch v.kind {
	case ctScalar:
		return NewConst(v.k.Value, t)
	case ctFunc:
		return v.fn
	}
	return nil
}

var ctUnknownVal = &ctVal{kind: ctUnknown}

func (v *ctVal) copy() *ctVal {
	if v == nil {
		return ctUnknownVal
	}
	switch v.kind {
	case ctStruct, ctArray:
		n := &ctVal{kind: v.kind, elems: make([]*ctVal, len(v.elems))}
		for i, e := range v.elems {
			n.elems[i] = e.copy()
		}
		return n
	}
	return v // scalars are immutable; maps are references
}

func zeroCT(t types.Type, depth int) *ctVal {
	if depth > 4 {
		return ctUnknownVal
	}
	switch u := t.Underlying().(type) {
	case *types.Struct:
		v := &ctVal{kind: ctStruct}
		for i := 0; i < u.NumFields(); i++ {
			v.elems = append(v.elems, zeroCT(u.Field(i).Type(), depth+1))
		}
		return v
	case *types.Array:
		if u.Len() > 64 {
			return ctUnknownVal
		}
		v := &ctVal{kind: ctArray}
		for i := int64(0); i < u.Len(); i++ {
			v.elems = append(v.elems, zeroCT(u.Elem(), depth+1))
		}
		return v
	case *types.Basic:
		switch {
		case u.Info()&types.IsBoolean != 0:
			return &ctVal{kind: ctScalar, k: NewConst(constant.MakeBool(false), t)}
		case u.Info()&types.IsInteger != 0:
			return &ctVal{kind: ctScalar, k: NewConst(constant.MakeInt64(0), t)}
		case u.Info()&types.IsString != 0:
			return &ctVal{kind: ctScalar, k: NewConst(constant.MakeString(""), t)}
		}
	}
	return &ctVal{kind: ctScalar, k: zeroConst(t)}
}

// ConstTables is the result of AnalyzeConstGlobals.
type ConstTables struct {
	tab   map[*Global]*ctVal
	Notes []string
}

// ctStep is one step of an address path: a field number or a constant index; dyn for a run-time index.
type ctPath struct {
	root  Value // *Global, *Alloc, or nil
	steps []int64
	dyn   bool
	via   *UnOp // the load of a slice-typed global the path goes through, if any
}

// addrPathOf resolves an address to root + constant steps.
func addrPathOf(a Value) ctPath {
	var rev []int64
	p := ctPath{}
	for depth := 0; depth < 12; depth++ {
		switch x := a.(type) {
		case *FieldAddr:
			rev = append(rev, int64(x.Field))
			a = x.X
			continue
		case *IndexAddr:
			if c, ok := x.Index.(*Const); ok && c.Value != nil && c.Value.Kind() == constant.Int {
				i, _ := constant.Int64Val(c.Value)
				rev = append(rev, i)
			} else if c, ok := evalConst(x.Index, nil, 0); ok && c.Kind() == constant.Int {
				i, _ := constant.Int64Val(c)
				rev = append(rev, i)
			} else {
				rev = append(rev, -1)
				p.dyn = true
			}
			a = x.X
			continue
		case *Slice:
			// table[:] (or table[:n]): the same elements
			if x.Low == nil {
				a = x.X
				continue
			}
			if c, ok := evalConst(x.Low, nil, 0); ok {
				if lo, _ := constant.Int64Val(c); lo == 0 {
					a = x.X
					continue
				}
			}
		case *UnOp:
			// the slice held by a package-level variable: its elements
			if g, ok := x.X.(*Global); ok && x.Op == token.MUL {
				if _, isSlice := x.Type().Underlying().(*types.Slice); isSlice {
					p.root, p.via = g, x
				}
			}
		case *Global:
			p.root = x
		case *Alloc:
			p.root = x
		}
		break
	}
	for i := len(rev) - 1; i >= 0; i-- {
		p.steps = append(p.steps, rev[i])
	}
	return p
}

func (v *ctVal) at(steps []int64) *ctVal {
	for _, s := range steps {
		if v == nil || (v.kind != ctStruct && v.kind != ctArray) || s < 0 || int(s) >= len(v.elems) {
			return ctUnknownVal
		}
		v = v.elems[s]
	}
	if v == nil {
		return ctUnknownVal
	}
	return v
}

func (v *ctVal) set(steps []int64, nv *ctVal) bool {
	if len(steps) == 0 {
		return false
	}
	for _, s := range steps[:len(steps)-1] {
		if (v.kind != ctStruct && v.kind != ctArray) || s < 0 || int(s) >= len(v.elems) {
			return false
		}
		v = v.elems[s]
	}
	s := steps[len(steps)-1]
	if (v.kind != ctStruct && v.kind != ctArray) || s < 0 || int(s) >= len(v.elems) {
		return false
	}
	v.elems[s] = nv
	return true
}

func isPkgInit(f *Function) bool { return f != nil && f.Synthetic != "" && f.name == "init" }

// AnalyzeConstGlobals finds the constant package-level variables among the globals used by fns.
func AnalyzeConstGlobals(fns []*Function) *ConstTables {
	ct := &ConstTables{tab: map[*Global]*ctVal{}}
	uses := map[*Global][]Instruction{}
	var order []*Global
	var rands []*Value
	for _, f := range fns {
		for _, b := range f.Blocks {
			for _, ins := range b.Instrs {
				rands = ins.Operands(rands[:0])
				for _, p := range rands {
					if g, ok := (*p).(*Global); ok {
						if _, seen := uses[g]; !seen {
							order = append(order, g)
						}
						uses[g] = append(uses[g], ins)
					}
				}
			}
		}
	}
	sort.Slice(order, func(i, j int) bool { return order[i].String() < order[j].String() })
	evalCache := map[*BasicBlock]map[Value]*ctVal{}
	for _, g := range order {
		if strings.Contains(g.Name(), "$") {
			continue // init$guard
		}
		var initBlock *BasicBlock
		ok := true
		for _, ins := range uses[g] {
			w, esc := classifyGlobalUse(g, ins)
			if esc {
				ok = false
				break
			}
			for _, st := range w {
				if !isPkgInit(st.Parent()) || (initBlock != nil && st.Block() != initBlock) {
					ok = false
					break
				}
				initBlock = st.Block()
			}
		}
		if !ok || initBlock == nil {
			continue
		}
		mem, done := evalCache[initBlock]
		if !done {
			mem = evalInitBlock(initBlock)
			evalCache[initBlock] = mem
		}
		v := mem[g]
		if v == nil || v.kind == ctUnknown {
			continue
		}
		ct.tab[g] = v
		ct.Notes = append(ct.Notes, fmt.Sprintf("%s is a constant table (%s)", g.String(), describeCT(v)))
	}
	return ct
}

func describeCT(v *ctVal) string {
	switch v.kind {
	case ctScalar:
		return "scalar"
	case ctStruct:
		return fmt.Sprintf("struct of %d fields", len(v.elems))
	case ctArray:
		return fmt.Sprintf("%d elements", len(v.elems))
	case ctMap:
		return fmt.Sprintf("map of %d entries", len(v.keys))
	}
	return "?"
}

// classifyGlobalUse: the stores instruction ins (a user of g) leads to, and whether g's storage can be
// reached by anything but loads through ins.
func classifyGlobalUse(g *Global, ins Instruction) (writes []*Store, escapes bool) {
	var addrUses func(a Value, depth int)
	var valueUses func(v Value, depth int)
	addrUses = func(a Value, depth int) {
		if depth > 8 || a.Referrers() == nil {
			escapes = true
			return
		}
		for _, u := range *a.Referrers() {
			switch x := u.(type) {
			case *UnOp:
				if x.Op != token.MUL {
					escapes = true
				}
				// the loaded value: a copy, unless it is itself a reference into the table (slice, map, pointer)
				valueUses(x, depth+1)
			case *FieldAddr:
				addrUses(x, depth+1)
			case *IndexAddr:
				addrUses(x, depth+1)
			case *Store:
				if x.Addr == a {
					writes = append(writes, x)
					if x.Val == a {
						escapes = true
					}
				} else {
					escapes = true // the address is stored somewhere
				}
			case *DebugRef:
			default:
				escapes = true
			}
		}
	}
	valueUses = func(v Value, depth int) {
		switch v.Type().Underlying().(type) {
		case *types.Slice, *types.Map, *types.Pointer, *types.Chan, *types.Signature, *types.Interface:
		default:
			return // a plain value: a copy
		}
		if depth > 8 || v.Referrers() == nil {
			escapes = true
			return
		}
		for _, u := range *v.Referrers() {
			switch x := u.(type) {
			case *IndexAddr:
				if x.X == v {
					addrUses(x, depth+1)
				}
			case *Lookup:
				if x.X != v {
					escapes = true
				}
			case *Slice:
				if x.X != v {
					escapes = true
				} else {
					valueUses(x, depth+1)
				}
			case *Phi:
				// a cursor over the table (lens = lens[1:]): still only read
				valueUses(x, depth+1)
			case *Range:
			case *Call:
				b, ok := x.Call.Value.(*Builtin)
				if !ok || (b.Name() != "len" && b.Name() != "cap") {
					escapes = true
				}
			case *MapUpdate:
				if x.Map == v {
					// an update of the variable's map: a write, reported through the store that made the map
					// visible only when it happens in the initializer; anywhere else the table is not constant
					if !isPkgInit(x.Parent()) {
						escapes = true
					}
				} else {
					escapes = true
				}
			case *DebugRef:
			default:
				escapes = true
			}
		}
	}
	switch x := ins.(type) {
	case *Store:
		if x.Addr == Value(g) {
			writes = append(writes, x)
			if x.Val == Value(g) {
				escapes = true
			}
			return
		}
		escapes = true
	case *UnOp:
		if x.Op != token.MUL || x.X != Value(g) {
			escapes = true
			return
		}
		valueUses(x, 0)
	case *FieldAddr:
		addrUses(x, 0)
	case *IndexAddr:
		addrUses(x, 0)
	case *Slice:
		// table[:] used for reading only
		if x.X != Value(g) {
			escapes = true
			return
		}
		valueUses(x, 0)
	case *DebugRef:
	default:
		escapes = true
	}
	return
}

// evalInitBlock interprets the stores of one block of a package initializer over abstract memory.
func evalInitBlock(b *BasicBlock) map[Value]*ctVal {
	mem := map[Value]*ctVal{}  // *Alloc / *Global / *MakeMap -> content
	vals := map[Value]*ctVal{} // instruction results
	valOf := func(v Value) *ctVal {
		if c, ok := v.(*Const); ok {
			if c.Value == nil {
				return zeroCT(c.Type(), 0)
			}
			return &ctVal{kind: ctScalar, k: c}
		}
		if r, ok := vals[v]; ok {
			return r
		}
		if fn, ok := v.(*Function); ok && len(fn.FreeVars) == 0 {
			return &ctVal{kind: ctFunc, fn: fn}
		}
		if mc, ok := v.(*MakeClosure); ok && len(mc.Bindings) == 0 {
			if fn, ok := mc.Fn.(*Function); ok {
				return &ctVal{kind: ctFunc, fn: fn}
			}
		}
		if c, ok := evalConst(v, nil, 0); ok {
			return &ctVal{kind: ctScalar, k: NewConst(c, v.Type())}
		}
		return ctUnknownVal
	}
	for _, ins := range b.Instrs {
		switch x := ins.(type) {
		case *Alloc:
			mem[x] = zeroCT(x.Type().(*types.Pointer).Elem(), 0)
		case *MakeMap:
			m := &ctVal{kind: ctMap}
			mem[x] = m
			vals[x] = m
		case *MapUpdate:
			var m *ctVal
			if r, ok := vals[x.Map]; ok {
				m = r
			} else if ld, ok := x.Map.(*UnOp); ok {
				if g, ok := ld.X.(*Global); ok {
					m = mem[g]
				}
			}
			if m == nil || m.kind != ctMap {
				continue
			}
			k, ok := x.Key.(*Const)
			if !ok || k.Value == nil {
				if kv := valOf(x.Key); kv.kind == ctScalar && kv.k.Value != nil {
					k, ok = kv.k, true
				}
			}
			if !ok {
				m.kind = ctUnknown
				continue
			}
			nv := valOf(x.Value).copy()
			replaced := false
			for i, old := range m.keys {
				if constant.Compare(old.Value, token.EQL, k.Value) {
					m.vals[i] = nv
					replaced = true
				}
			}
			if !replaced {
				m.keys = append(m.keys, k)
				m.vals = append(m.vals, nv)
			}
		case *Store:
			p := addrPathOf(x.Addr)
			if p.root == nil {
				continue
			}
			if _, isG := p.root.(*Global); !isG {
				if _, tracked := mem[p.root]; !tracked {
					continue
				}
			}
			if p.dyn || p.via != nil {
				mem[p.root] = ctUnknownVal
				continue
			}
			nv := valOf(x.Val)
			if nv.kind != ctMap {
				nv = nv.copy()
			}
			if len(p.steps) == 0 {
				mem[p.root] = nv
				continue
			}
			cur := mem[p.root]
			if cur == nil {
				if g, ok := p.root.(*Global); ok {
					cur = zeroCT(g.Type().(*types.Pointer).Elem(), 0)
					mem[p.root] = cur
				}
			}
			if cur == nil || !cur.set(p.steps, nv) {
				mem[p.root] = ctUnknownVal
			}
		case *UnOp:
			if x.Op != token.MUL {
				continue
			}
			p := addrPathOf(x.X)
			if p.root == nil || p.dyn || p.via != nil {
				continue
			}
			if cur, ok := mem[p.root]; ok {
				vals[x] = cur.at(p.steps).copy()
			}
		case *Slice:
			// the whole backing array of a slice literal
			if x.Low != nil || x.Max != nil {
				continue
			}
			al, ok := x.X.(*Alloc)
			if !ok {
				continue
			}
			cur, ok := mem[al]
			if !ok || cur.kind != ctArray {
				continue
			}
			if x.High != nil {
				h, ok := evalConst(x.High, nil, 0)
				if !ok {
					continue
				}
				if n, _ := constant.Int64Val(h); int(n) != len(cur.elems) {
					continue
				}
			}
			// by reference: stores into the array that follow still show (the literal's element stores come first)
			vals[x] = cur
		}
	}
	return mem
}

// Rewrite applies the rewrites to every function of fns (the package initializers that fill the tables are
// left alone); expand also turns lookups in constant maps into test chains. One note per function changed.
func (ct *ConstTables) Rewrite(fns []*Function, expand bool) []string {
	var notes []string
	if len(ct.tab) == 0 {
		return nil
	}
	for _, f := range fns {
		if f.Blocks == nil || isPkgInit(f) || f.Recover != nil {
			continue
		}
		n := ct.rewriteFn(f)
		if expand {
			for k := 0; k < 4; k++ {
				if !ct.expandOneLookup(f) {
					break
				}
				n++
			}
		}
		if n > 0 {
			foldConstants(f)
			rebuild(f)
			simplifyPhis(f)
			removeDeadTableLoads(f)
			notes = append(notes, fmt.Sprintf("%s: %d read(s) of constant package-level tables replaced by their values", f.String(), n))
		}
	}
	return notes
}

// cellOf: the table cell an address denotes.
func (ct *ConstTables) cellOf(addr Value) *ctVal {
	p := addrPathOf(addr)
	g, ok := p.root.(*Global)
	if !ok || p.dyn {
		if debugUnroll {
			fmt.Fprintf(os.Stderr, "consttab: cellOf %s (%T): root %v dyn %v\n", addr, addr, p.root, p.dyn)
		}
		return nil
	}
	t := ct.tab[g]
	if t == nil {
		return nil
	}
	if p.via != nil && t.kind != ctArray {
		return nil
	}
	c := t.at(p.steps)
	if debugUnroll {
		fmt.Fprintf(os.Stderr, "consttab: cellOf %s steps %v -> kind %d (table kind %d, %d elems)\n", addr, p.steps, c.kind, t.kind, len(t.elems))
	}
	if c.kind == ctUnknown {
		return nil
	}
	return c
}

// structOf: the constant struct value v is (a loaded cell, the zero value), or nil.
func (ct *ConstTables) structOf(v Value) *ctVal {
	switch x := v.(type) {
	case *UnOp:
		if x.Op == token.MUL {
			if c := ct.cellOf(x.X); c != nil && c.kind == ctStruct {
				return c
			}
		}
	case *Const:
		if x.Value == nil {
			if _, ok := x.Type().Underlying().(*types.Struct); ok {
				return zeroCT(x.Type(), 0)
			}
		}
	}
	return nil
}

type fieldPhiKey struct {
	ph    *Phi
	field int
}

// fieldOfConstStruct: field `field` of v when v is a constant struct (a loaded table cell, the zero value) - a
// constant - or a φ of constant structs - a φ of the field's constants, placed next to that φ (one per field,
// remembered in made). With t == nil it only reports whether v is such a value (non-nil result).
func (ct *ConstTables) fieldOfConstStruct(v Value, field int, t types.Type, made map[fieldPhiKey]*Phi) Value {
	if sv := ct.structOf(v); sv != nil {
		if t == nil {
			return vTrue
		}
		c := sv.at([]int64{int64(field)})
		return c.asValue(t)
	}
	ph, ok := v.(*Phi)
	if !ok {
		return nil
	}
	if t != nil {
		if p := made[fieldPhiKey{ph, field}]; p != nil {
			return p
		}
	}
	var edges []Value
	for _, e := range ph.Edges {
		sv := ct.structOf(e)
		if sv == nil {
			if debugUnroll {
				fmt.Fprintf(os.Stderr, "consttab: φ edge %s (%T) is not a constant struct\n", e, e)
			}
			return nil
		}
		if t == nil {
			continue
		}
		c := sv.at([]int64{int64(field)})
		if c.kind != ctScalar {
			return nil
		}
		edges = append(edges, NewConst(c.k.Value, t))
	}
	if t == nil {
		return vTrue
	}
	np := &Phi{Comment: ph.Comment + "." + fmt.Sprint(field), Edges: edges}
	np.setType(t)
	np.setPos(ph.Pos())
	np.setBlock(ph.Block())
	pb := ph.Block()
	pb.Instrs = append([]Instruction{np}, pb.Instrs...)
	made[fieldPhiKey{ph, field}] = np
	return np
}

func (ct *ConstTables) rewriteFn(f *Function) int {
	n := 0
	dead := map[Instruction]bool{}
	fieldPhis := map[fieldPhiKey]*Phi{}
	for _, b := range f.Blocks {
		for _, ins := range b.Instrs {
			switch x := ins.(type) {
			case *Call:
				bi, ok := x.Call.Value.(*Builtin)
				if !ok || (bi.Name() != "len" && bi.Name() != "cap") || len(x.Call.Args) != 1 {
					continue
				}
				arg := x.Call.Args[0]
				if sl, ok := arg.(*Slice); ok && sl.Low == nil && sl.High == nil && sl.Max == nil {
					if g, ok := sl.X.(*Global); ok {
						if t := ct.tab[g]; t != nil && t.kind == ctArray {
							replaceAll(x, NewConst(constant.MakeInt64(int64(len(t.elems))), x.Type()))
							dead[x] = true
							n++
						}
						continue
					}
				}
				ld, ok := arg.(*UnOp)
				if !ok || ld.Op != token.MUL {
					continue
				}
				g, ok := ld.X.(*Global)
				if !ok {
					continue
				}
				t := ct.tab[g]
				if t == nil {
					continue
				}
				var ln int
				switch t.kind {
				case ctArray:
					ln = len(t.elems)
				case ctMap:
					if bi.Name() != "len" {
						continue
					}
					ln = len(t.keys)
				default:
					continue
				}
				replaceAll(x, NewConst(constant.MakeInt64(int64(ln)), x.Type()))
				dead[x] = true
				n++
			case *UnOp:
				if x.Op != token.MUL {
					continue
				}
				c := ct.cellOf(x.X)
				if c == nil || (c.kind != ctScalar && c.kind != ctFunc) {
					continue
				}
				if _, isG := x.X.(*Global); isG && c.kind == ctScalar && c.k.Value == nil {
					continue // a nil-valued variable: leave
				}
				replaceAll(x, c.asValue(x.Type()))
				dead[x] = true
				n++
			case *Field:
				if nv := ct.fieldOfConstStruct(x.X, x.Field, x.Type(), fieldPhis); nv != nil {
					replaceAll(x, nv)
					dead[x] = true
					n++
				}
			case *Store:
				// a constant struct (or a φ of them) kept in a local variable that is only read field by field
				al, ok := x.Addr.(*Alloc)
				if !ok || al.Heap {
					continue
				}
				if _, isStruct := al.Type().(*types.Pointer).Elem().Underlying().(*types.Struct); !isStruct {
					continue
				}
				if ct.fieldOfConstStruct(x.Val, 0, nil, nil) == nil {
					if debugUnroll {
						fmt.Fprintf(os.Stderr, "consttab %s: store %s: value is not a constant struct\n", f, x)
					}
					continue
				}
				type fieldLoad struct {
					ld    *UnOp
					field int
				}
				var loads []fieldLoad
				var addrs []Instruction
				okLocal := true
				for _, r := range *al.Referrers() {
					switch y := r.(type) {
					case *Store:
						if y != x {
							okLocal = false
						}
					case *FieldAddr:
						addrs = append(addrs, y)
						for _, r2 := range *y.Referrers() {
							ld, isLd := r2.(*UnOp)
							if !isLd || ld.Op != token.MUL {
								okLocal = false
								continue
							}
							if ld.Block() == b {
								before := true
								for _, in2 := range b.Instrs {
									if in2 == Instruction(x) {
										before = false
									}
									if in2 == Instruction(ld) && before {
										okLocal = false
									}
								}
							} else if !b.Dominates(ld.Block()) {
								okLocal = false
							}
							loads = append(loads, fieldLoad{ld, y.Field})
						}
					case *DebugRef:
					default:
						okLocal = false
					}
				}
				if debugUnroll {
					fmt.Fprintf(os.Stderr, "consttab %s: store %s: local ok=%v loads=%d\n", f, x, okLocal, len(loads))
				}
				if !okLocal {
					continue
				}
				vals := make([]Value, len(loads))
				for i, l := range loads {
					vals[i] = ct.fieldOfConstStruct(x.Val, l.field, l.ld.Type(), fieldPhis)
					if vals[i] == nil {
						okLocal = false
					}
				}
				if !okLocal {
					continue
				}
				for i, l := range loads {
					replaceAll(l.ld, vals[i])
					dead[l.ld] = true
					n++
				}
				for _, a := range addrs {
					dead[a] = true
				}
				dead[x] = true
			}
		}
	}
	if len(dead) > 0 {
		for _, b := range f.Blocks {
			keep := b.Instrs[:0]
			for _, ins := range b.Instrs {
				if !dead[ins] {
					keep = append(keep, ins)
				}
			}
			b.Instrs = keep
		}
		rebuild(f)
	}
	return n
}

// expandOneLookup rewrites one lookup in a small constant map into a chain of equality tests.
func (ct *ConstTables) expandOneLookup(f *Function) bool {
	for _, b := range f.Blocks {
		for idx, ins := range b.Instrs {
			lk, ok := ins.(*Lookup)
			if !ok {
				continue
			}
			ld, ok := lk.X.(*UnOp)
			if !ok || ld.Op != token.MUL {
				continue
			}
			g, ok := ld.X.(*Global)
			if !ok {
				continue
			}
			t := ct.tab[g]
			if t != nil && t.kind == ctMap && len(t.keys) > 0 && len(t.keys) <= 32 && ct.expandCtorLookup(f, b, idx, lk, t) {
				return true
			}
			if t == nil || t.kind != ctMap || len(t.keys) == 0 || len(t.keys) > 8 {
				continue
			}
			if bt, ok := lk.Index.Type().Underlying().(*types.Basic); !ok || bt.Info()&(types.IsInteger|types.IsString) == 0 {
				continue
			}
			mt := ld.Type().Underlying().(*types.Map)
			// the uses of the looked-up value
			var valUses []Instruction
			var okUses []Instruction
			var extracts []Instruction
			fine := true
			if lk.CommaOk {
				for _, u := range *lk.Referrers() {
					ex, isEx := u.(*Extract)
					if !isEx {
						if _, isDbg := u.(*DebugRef); isDbg {
							continue
						}
						fine = false
						break
					}
					extracts = append(extracts, ex)
					for _, u2 := range *ex.Referrers() {
						if ex.Index == 0 {
							valUses = append(valUses, u2)
						} else {
							okUses = append(okUses, u2)
						}
					}
				}
			} else {
				valUses = append(valUses, *lk.Referrers()...)
			}
			if !fine {
				continue
			}
			_, isStruct := mt.Elem().Underlying().(*types.Struct)
			if eb, ok := mt.Elem().Underlying().(*types.Basic); !isStruct && (!ok || eb.Info()&(types.IsInteger|types.IsBoolean|types.IsString) == 0) {
				continue
			}
			allScalar := true
			for _, v := range t.vals {
				if v.kind != ctScalar {
					allScalar = false
				}
			}
			var fields []*Field
			// the value kept in a local struct variable that is only read field by field afterwards
			type fieldLoad struct {
				ld    *UnOp
				field int
			}
			var floads []fieldLoad
			var localStore *Store
			var localDead []Instruction
			if isStruct && len(valUses) == 1 {
				if st, ok := valUses[0].(*Store); ok {
					if al, ok := st.Addr.(*Alloc); ok && !al.Heap && st.Block() == b {
						okLocal := true
						for _, r := range *al.Referrers() {
							switch x := r.(type) {
							case *Store:
								if x != st {
									okLocal = false
								}
							case *FieldAddr:
								localDead = append(localDead, x)
								for _, r2 := range *x.Referrers() {
									ld, isLd := r2.(*UnOp)
									if !isLd || ld.Op != token.MUL {
										okLocal = false
										continue
									}
									// the read comes after the store
									if ld.Block() == b {
										after := false
										for _, in2 := range b.Instrs[idx+1:] {
											if in2 == Instruction(st) {
												after = true
											}
											if in2 == Instruction(ld) && !after {
												okLocal = false
											}
										}
									} else if !b.Dominates(ld.Block()) {
										okLocal = false
									}
									floads = append(floads, fieldLoad{ld, x.Field})
									localDead = append(localDead, ld)
								}
							case *DebugRef:
							default:
								okLocal = false
							}
						}
						if okLocal {
							localStore = st
							valUses = nil
						} else {
							floads, localDead = nil, nil
						}
					}
				}
			}
			if isStruct {
				for _, u := range valUses {
					fl, ok := u.(*Field)
					if !ok {
						if _, isDbg := u.(*DebugRef); isDbg {
							continue
						}
						fine = false
						break
					}
					fields = append(fields, fl)
				}
				for _, v := range t.vals {
					if v.kind != ctStruct {
						fine = false
						continue
					}
					for _, fl := range floads {
						if v.at([]int64{int64(fl.field)}).kind != ctScalar {
							fine = false
						}
					}
				}
				for _, v := range t.vals {
					if v.kind != ctStruct {
						fine = false
						continue
					}
					for _, fl := range fields {
						if v.at([]int64{int64(fl.Field)}).kind != ctScalar {
							fine = false
						}
					}
				}
			} else if !allScalar {
				fine = false
			}
			if !fine {
				continue
			}
			// split b at the lookup
			j := &BasicBlock{Comment: "lookup.done", parent: f}
			j.Instrs = append(j.Instrs, b.Instrs[idx+1:]...)
			for _, in2 := range j.Instrs {
				in2.(blockSetter).setBlock(j)
			}
			j.Succs = append(j.Succs, b.Succs...)
			for _, s := range j.Succs {
				s.replacePred(b, j)
			}
			b.Instrs = b.Instrs[:idx:idx]
			b.Succs = nil
			var newBlocks []*BasicBlock
			cur := b
			nArms := len(t.keys) + 1
			for i, k := range t.keys {
				cmp := &BinOp{Op: token.EQL, X: lk.Index, Y: NewConst(k.Value, lk.Index.Type())}
				cmp.setType(tBool)
				cmp.setPos(lk.Pos())
				cmp.setBlock(cur)
				iff := &If{Cond: cmp}
				iff.setBlock(cur)
				cur.Instrs = append(cur.Instrs, cmp, iff)
				hit := &BasicBlock{Comment: fmt.Sprintf("lookup.hit%d", i), parent: f}
				jm := &Jump{}
				jm.setBlock(hit)
				hit.Instrs = []Instruction{jm}
				hit.Preds = []*BasicBlock{cur}
				hit.Succs = []*BasicBlock{j}
				next := &BasicBlock{Comment: fmt.Sprintf("lookup.next%d", i), parent: f}
				next.Preds = []*BasicBlock{cur}
				cur.Succs = []*BasicBlock{hit, next}
				j.Preds = append(j.Preds, hit)
				newBlocks = append(newBlocks, hit, next)
				cur = next
			}
			jm := &Jump{}
			jm.setBlock(cur)
			cur.Instrs = append(cur.Instrs, jm)
			cur.Succs = []*BasicBlock{j}
			j.Preds = append(j.Preds, cur)
			newBlocks = append(newBlocks, j)
			// φ-nodes of the continuation
			var phis []Instruction
			mkPhi := func(t types.Type, comment string, edge func(arm int) Value) *Phi {
				p := &Phi{Comment: comment}
				p.setType(t)
				p.setPos(lk.Pos())
				p.setBlock(j)
				for a := 0; a < nArms; a++ {
					p.Edges = append(p.Edges, edge(a))
				}
				phis = append(phis, p)
				return p
			}
			if len(okUses) > 0 {
				okPhi := mkPhi(tBool, "lookup.ok", func(a int) Value {
					return NewConst(constant.MakeBool(a < len(t.keys)), tBool)
				})
				for _, ex := range extracts {
					if ex.(*Extract).Index == 1 {
						replaceAll(ex.(*Extract), okPhi)
					}
				}
			}
			if isStruct {
				byField := map[int]*Phi{}
				for _, fl := range floads {
					fl := fl
					fp := byField[fl.field]
					if fp == nil {
						fp = mkPhi(fl.ld.Type(), fmt.Sprintf("lookup.field%d", fl.field), func(a int) Value {
							var c *ctVal
							if a < len(t.vals) {
								c = t.vals[a].at([]int64{int64(fl.field)})
							} else {
								c = zeroCT(fl.ld.Type(), 0)
							}
							if c.kind != ctScalar {
								return zeroConst(fl.ld.Type())
							}
							return NewConst(c.k.Value, fl.ld.Type())
						})
						byField[fl.field] = fp
					}
					replaceAll(fl.ld, fp)
				}
				for _, fl := range fields {
					fl := fl
					fp := mkPhi(fl.Type(), fmt.Sprintf("lookup.field%d", fl.Field), func(a int) Value {
						var c *ctVal
						if a < len(t.vals) {
							c = t.vals[a].at([]int64{int64(fl.Field)})
						} else {
							c = zeroCT(fl.Type(), 0)
						}
						if c.kind != ctScalar {
							return zeroConst(fl.Type())
						}
						return NewConst(c.k.Value, fl.Type())
					})
					replaceAll(fl, fp)
				}
			} else if len(valUses) > 0 {
				vp := mkPhi(mt.Elem(), "lookup.value", func(a int) Value {
					if a < len(t.vals) {
						return NewConst(t.vals[a].k.Value, mt.Elem())
					}
					return zeroCT(mt.Elem(), 0).k
				})
				if lk.CommaOk {
					for _, ex := range extracts {
						if ex.(*Extract).Index == 0 {
							replaceAll(ex.(*Extract), vp)
						}
					}
				} else {
					replaceAll(lk, vp)
				}
			}
			// drop the extracts and the field reads that were replaced
			dead := map[Instruction]bool{}
			for _, ex := range extracts {
				dead[ex] = true
			}
			for _, fl := range fields {
				dead[fl] = true
			}
			if localStore != nil {
				dead[localStore] = true
				for _, d := range localDead {
					dead[d] = true
				}
			}
			keep := j.Instrs[:0:0]
			for _, in2 := range j.Instrs {
				if !dead[in2] {
					keep = append(keep, in2)
				}
			}
			j.Instrs = append(phis, keep...)
			for _, bb := range f.Blocks {
				if bb == j {
					continue
				}
				kp := bb.Instrs[:0]
				for _, in2 := range bb.Instrs {
					if !dead[in2] {
						kp = append(kp, in2)
					}
				}
				bb.Instrs = kp
			}
			var blocks []*BasicBlock
			for _, bb := range f.Blocks {
				blocks = append(blocks, bb)
				if bb == b {
					blocks = append(blocks, newBlocks...)
				}
			}
			f.Blocks = blocks
			rebuild(f)
			return true
		}
	}
	return false
}

// trivialCtor: fn is `func() I { return new(T) }` (or a struct literal of constants): one block that allocates,
// stores constants into the new object and returns it wrapped into an interface. The instructions to copy and
// the returned value.
func trivialCtor(fn *Function) ([]Instruction, Value) {
	if fn == nil || len(fn.Blocks) != 1 || len(fn.Params) != 0 || len(fn.FreeVars) != 0 {
		return nil, nil
	}
	var body []Instruction
	var result Value
	for _, ins := range fn.Blocks[0].Instrs {
		switch x := ins.(type) {
		case *Alloc:
			if !x.Heap {
				return nil, nil
			}
			body = append(body, ins)
		case *FieldAddr, *MakeInterface, *ChangeInterface, *ChangeType:
			body = append(body, ins)
		case *Store:
			if _, isConst := x.Val.(*Const); !isConst {
				return nil, nil
			}
			body = append(body, ins)
		case *Call:
			// a named constructor that only allocates (NewPayloadEap)
			g := x.Call.StaticCallee()
			if g == nil || len(x.Call.Args) != 0 || !allocatesOnly(g) {
				return nil, nil
			}
			body = append(body, ins)
		case *Return:
			if len(x.Results) != 1 {
				return nil, nil
			}
			result = x.Results[0]
		case *DebugRef:
		default:
			return nil, nil
		}
	}
	if result == nil {
		return nil, nil
	}
	return body, result
}

// allocatesOnly: g allocates objects, stores constants and fresh objects into them and returns: calling it
// earlier or later is not observable.
func allocatesOnly(g *Function) bool {
	if g == nil || len(g.Blocks) != 1 || len(g.FreeVars) != 0 {
		return false
	}
	for _, ins := range g.Blocks[0].Instrs {
		switch x := ins.(type) {
		case *Alloc, *FieldAddr, *MakeInterface, *Return, *DebugRef:
		case *Store:
			switch x.Val.(type) {
			case *Const, *Alloc:
			default:
				return false
			}
		default:
			return false
		}
	}
	return true
}

// expandCtorLookup: `ctor, ok := table[k] ... v := ctor()` over a constant map of trivial constructors
// becomes the switch it abbreviates: a chain of k == K tests whose arms allocate the entry's type, the value
// of the call a φ of the arms (nil on the miss arm), ok a φ of constants. Allocating at the lookup instead of
// at the call is not observable.
func (ct *ConstTables) expandCtorLookup(f *Function, b *BasicBlock, idx int, lk *Lookup, t *ctVal) bool {
	if bt, ok := lk.Index.Type().Underlying().(*types.Basic); !ok || bt.Info()&(types.IsInteger|types.IsString) == 0 {
		return false
	}
	type ctor struct {
		body   []Instruction
		result Value
	}
	ctors := make([]ctor, len(t.vals))
	for i, v := range t.vals {
		if v.kind != ctFunc {
			if debugUnroll {
				fmt.Fprintf(os.Stderr, "consttab: ctor lookup in %s: entry %d is not a function (kind %d)\n", f, i, v.kind)
			}
			return false
		}
		body, res := trivialCtor(v.fn)
		if res == nil {
			if debugUnroll {
				fmt.Fprintf(os.Stderr, "consttab: ctor lookup in %s: %s is not a trivial constructor\n", f, v.fn)
			}
			return false
		}
		ctors[i] = ctor{body, res}
	}
	// uses: the function value is only called (no arguments), ok is only read
	var fv Value = lk
	var okv Value
	var extracts []Instruction
	if lk.CommaOk {
		fv = nil
		for _, u := range *lk.Referrers() {
			ex, isEx := u.(*Extract)
			if !isEx {
				if _, isDbg := u.(*DebugRef); isDbg {
					continue
				}
				return false
			}
			extracts = append(extracts, ex)
			if ex.Index == 0 {
				fv = ex
			} else {
				okv = ex
			}
		}
	}
	if fv == nil || fv.Referrers() == nil {
		return false
	}
	var calls []*Call
	for _, u := range *fv.Referrers() {
		call, isCall := u.(*Call)
		if !isCall || call.Call.Value != fv || len(call.Call.Args) != 0 {
			if _, isDbg := u.(*DebugRef); isDbg {
				continue
			}
			return false
		}
		if call.Block() != b && !b.Dominates(call.Block()) {
			return false
		}
		calls = append(calls, call)
	}
	if len(calls) != 1 {
		return false
	}
	call := calls[0]
	// split b at the lookup
	j := &BasicBlock{Comment: "lookup.done", parent: f}
	j.Instrs = append(j.Instrs, b.Instrs[idx+1:]...)
	for _, in2 := range j.Instrs {
		in2.(blockSetter).setBlock(j)
	}
	j.Succs = append(j.Succs, b.Succs...)
	for _, s := range j.Succs {
		s.replacePred(b, j)
	}
	b.Instrs = b.Instrs[:idx:idx]
	b.Succs = nil
	var newBlocks []*BasicBlock
	cur := b
	var armVals []Value
	for i, k := range t.keys {
		cmp := &BinOp{Op: token.EQL, X: lk.Index, Y: NewConst(k.Value, lk.Index.Type())}
		cmp.setType(tBool)
		cmp.setPos(lk.Pos())
		cmp.setBlock(cur)
		iff := &If{Cond: cmp}
		iff.setBlock(cur)
		cur.Instrs = append(cur.Instrs, cmp, iff)
		hit := &BasicBlock{Comment: fmt.Sprintf("lookup.case%d", i), parent: f}
		vmap := map[Value]Value{}
		var cloned []Instruction
		for _, ins := range ctors[i].body {
			ni := cloneInstr(ins)
			if ni == nil {
				panic("ssa consttab: cannot clone " + ins.String())
			}
			ni.(blockSetter).setBlock(hit)
			if v, ok := ins.(Value); ok {
				vmap[v] = ni.(Value)
			}
			hit.Instrs = append(hit.Instrs, ni)
			cloned = append(cloned, ni)
		}
		var rands []*Value
		for _, ni := range cloned {
			rands = ni.Operands(rands[:0])
			for _, p := range rands {
				if *p != nil {
					if nv, ok := vmap[*p]; ok {
						*p = nv
					}
				}
			}
		}
		res := ctors[i].result
		if nv, ok := vmap[res]; ok {
			res = nv
		}
		armVals = append(armVals, res)
		jm := &Jump{}
		jm.setBlock(hit)
		hit.Instrs = append(hit.Instrs, jm)
		hit.Preds = []*BasicBlock{cur}
		hit.Succs = []*BasicBlock{j}
		next := &BasicBlock{Comment: fmt.Sprintf("lookup.next%d", i), parent: f}
		next.Preds = []*BasicBlock{cur}
		cur.Succs = []*BasicBlock{hit, next}
		j.Preds = append(j.Preds, hit)
		newBlocks = append(newBlocks, hit, next)
		cur = next
	}
	jm := &Jump{}
	jm.setBlock(cur)
	cur.Instrs = append(cur.Instrs, jm)
	cur.Succs = []*BasicBlock{j}
	j.Preds = append(j.Preds, cur)
	newBlocks = append(newBlocks, j)
	var phis []Instruction
	vp := &Phi{Comment: "lookup.new"}
	vp.setType(call.Type())
	vp.setPos(lk.Pos())
	vp.setBlock(j)
	vp.Edges = append(append(vp.Edges, armVals...), zeroConst(call.Type()))
	phis = append(phis, vp)
	replaceAll(call, vp)
	dead := map[Instruction]bool{call: true}
	for _, ex := range extracts {
		dead[ex] = true
	}
	if okv != nil {
		op := &Phi{Comment: "lookup.ok"}
		op.setType(tBool)
		op.setPos(lk.Pos())
		op.setBlock(j)
		for a := 0; a <= len(t.keys); a++ {
			op.Edges = append(op.Edges, NewConst(constant.MakeBool(a < len(t.keys)), tBool))
		}
		phis = append(phis, op)
		replaceAll(okv, op)
	}
	for _, bb := range append(append([]*BasicBlock{}, f.Blocks...), j) {
		kp := bb.Instrs[:0:0]
		for _, in2 := range bb.Instrs {
			if !dead[in2] {
				kp = append(kp, in2)
			}
		}
		bb.Instrs = kp
	}
	j.Instrs = append(phis, j.Instrs...)
	var blocks []*BasicBlock
	for _, bb := range f.Blocks {
		blocks = append(blocks, bb)
		if bb == b {
			blocks = append(blocks, newBlocks...)
		}
	}
	f.Blocks = blocks
	rebuild(f)
	// the test of ok right behind the lookup: each arm knows its answer
	for iter := 0; iter < 4; iter++ {
		if !threadConstEdges(f, j) {
			break
		}
		rebuild(f)
	}
	return true
}

// removeDeadTableLoads deletes loads of package-level variables (and address computations into them) whose
// value nobody uses any more.
func removeDeadTableLoads(f *Function) {
	for round := 0; round < 3; round++ {
		changed := false
		for _, b := range f.Blocks {
			kept := b.Instrs[:0]
			for _, ins := range b.Instrs {
				dead := false
				switch x := ins.(type) {
				case *UnOp:
					if x.Op == token.MUL && len(*x.Referrers()) == 0 {
						switch x.X.(type) {
						case *Global, *FieldAddr, *IndexAddr:
							if p := addrPathOf(x.X); p.root != nil {
								if _, isG := p.root.(*Global); isG {
									dead = true
								}
							}
						}
					}
				case *FieldAddr:
					if len(*x.Referrers()) == 0 {
						if p := addrPathOf(x); p.root != nil {
							if _, isG := p.root.(*Global); isG {
								dead = true
							}
						}
					}
				case *IndexAddr:
					if len(*x.Referrers()) == 0 {
						if p := addrPathOf(x); p.root != nil {
							if _, isG := p.root.(*Global); isG {
								dead = true
							}
						}
					}
				}
				if dead {
					changed = true
					continue
				}
				kept = append(kept, ins)
			}
			b.Instrs = kept
		}
		if !changed {
			return
		}
		rebuild(f)
	}
}
