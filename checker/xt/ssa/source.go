// Copyright 2013 The Go Authors. All rights reserved.
// Use of this source code is governed by a BSD-style
// license that can be found in the LICENSE file.

package ssa

// This file defines utilities for working with source positions
// or source-level named entities ("objects").

// TODO(adonovan): test that {Value,Instruction}.Pos() positions match
// the originating syntax, as specified.

import (
	"go/ast"
	"go/token"
	"go/types"
)

// EnclosingFunction returns the function that contains the syntax
// node denoted by path.
//
// Syntax associated with package-level variable specifications is
// enclosed by the package's init() function.
//
// Returns nil if not found; reasons might include:
//   - the node is not enclosed by any function.
//   - the node is within an anonymous function (FuncLit) and
//     its SSA function has not been created yet
//     (pkg.Build() has not yet been called).
func EnclosingFunction(pkg *Package, path []ast.Node) *Function {
	// Start with package-level function...
	fn := findEnclosingPackageLevelFunction(pkg, path)
	if fn == nil {
		return nil // not in any function
	}

	// ...then walk down the nested anonymous functions.
	n := len(path)
outer:
	for i := range path {
		if lit, ok := path[n-1-i].(*ast.FuncLit); ok {
			for _, anon := range fn.AnonFuncs {
				if anon.Pos() == lit.Type.Func {
					fn = anon
					continue outer
				}
			}
			// SSA function not found:
			// - package not yet built, or maybe
			// - builder skipped FuncLit in dead block
			//   (in principle; but currently the Builder
			//   generates even dead FuncLits).
			return nil
		}
	}
	return fn
}

// HasEnclosingFunction returns true if the AST node denoted by path
// is contained within the declaration of some function or
// package-level variable.
//
// Unlike EnclosingFunction, the behaviour of this function does not
// depend on whether SSA code for pkg has been built, so it can be
// used to quickly reject check inputs that will cause
// EnclosingFunction to fail, prior to SSA building.
func HasEnclosingFunction(pkg *Package, path []ast.Node) bool {
	return findEnclosingPackageLevelFunction(pkg, path) != nil
}

// findEnclosingPackageLevelFunction returns the Function
// corresponding to the package-level function enclosing path.
func findEnclosingPackageLevelFunction(pkg *Package, path []ast.Node) *Function {
	if n := len(path); n >= 2 { // [... {Gen,Func}Decl File]
		switch decl := path[n-2].(type) {
		case *ast.GenDecl:
			if decl.Tok == token.VAR && n >= 3 {
				// Package-level 'var' initializer.
				return pkg.init
			}

		case *ast.FuncDecl:
			if decl.Recv == nil && decl.Name.Name == "init" {
				// Explicit init() function.
				for _, b := range pkg.init.Blocks {
					for _, instr := range b.Instrs {
						if instr, ok := instr.(*Call); ok {
							if callee, ok := instr.Call.Value.(*Function); ok && callee.Pkg == pkg && callee.Pos() == decl.Name.NamePos {
								return callee
							}
						}
					}
				}
				// Hack: return non-nil when SSA is not yet
				// built so that HasEnclosingFunction works.
				return pkg.init
			}
			// Declared function/method.
			return findNamedFunc(pkg, decl.Name.NamePos)
		}
	}
	return nil // not in any function
}

// findNamedFunc returns the named function whose FuncDecl.Ident is at
// position pos.
func findNamedFunc(pkg *Package, pos token.Pos) *Function {
	// Look at all package members and method sets of named types.
	// Not very efficient.
	for _, mem := range pkg.Members {
		switch mem := mem.(type) {
		case *Function:
			if mem.Pos() == pos {
				return mem
			}
		case *Type:
			mset := pkg.Prog.MethodSets.MethodSet(types.NewPointer(mem.Type()))
			for i, n := 0, mset.Len(); i < n; i++ {
				// Don't call Program.Method: avoid creating wrappers.
				obj := mset.At(i).Obj().(*types.Func)
				if obj.Pos() == pos {
					// obj from MethodSet may not be the origin type.
					m := obj.Origin()
					return pkg.objects[m].(*Function)
				}
			}
		}
	}
	return nil
}

// ValueForExpr returns the SSA Value that corresponds to non-constant
// expression e.
//
// It returns nil if no value was found, e.g.
//   - the expression is not lexically contained within f;
//   - f was not built with debug information; or
//   - e is a constant expression.  (For efficiency, no debug
//     information is stored for constants. Use
//     go/types.Info.Types[e].Value instead.)
//   - e is a reference to nil or a built-in function.
//   - the value was optimised away.
//
// If e is an addressable expression used in an lvalue context,
// value is the address denoted by e, and isAddr is true.
//
// The types of e (or &e, if isAddr) and the result are equal
// (modulo "untyped" bools resulting from comparisons).
//
// (Tip: to find the ssa.Value given a source position, use
// astutil.PathEnclosingInterval to locate the ast.Node, then
// EnclosingFunction to locate the Function, then ValueForExpr to find
// the ssa.Value.)
func (f *Function) ValueForExpr(e ast.Expr) (value Value, isAddr bool) {
	if f.debugInfo() { // (opt)
		e = unparen(e)
		for _, b := range f.Blocks {
			for _, instr := range b.Instrs {
				if ref, ok := instr.(*DebugRef); ok {
					if ref.Expr == e {
						return ref.X, ref.IsAddr
					}
				}
			}
		}
	}
	return
}

// --- Lookup functions for source-level named entities (types.Objects) ---

// Package returns the SSA Package corresponding to the specified
// type-checker package. It returns nil if no such Package was
// created by a prior call to prog.CreatePackage.
func (prog *Program) Package(pkg *types.Package) *Package {
	return prog.packages[pkg]
}

// packageLevelMember returns the package-level member corresponding
// to the specified symbol, which may be a package-level const
// (*NamedConst), var (*Global) or func/method (*Function) of some
// package in prog.
//
// It returns nil if the object belongs to a package that has not been
// created by prog.CreatePackage.
func (prog *Program) packageLevelMember(obj types.Object) Member {
	if pkg, ok := prog.packages[obj.Pkg()]; ok {
		return pkg.objects[obj]
	}
	return nil
}

// FuncValue returns the SSA function or (non-interface) method
// denoted by the specified func symbol. It returns nil id the symbol
// denotes an interface method, or belongs to a package that was not
// created by prog.CreatePackage.
func (prog *Program) FuncValue(obj *types.Func) *Function {
	fn, _ := prog.packageLevelMember(obj).(*Function)
	return fn
}

// ConstValue returns the SSA constant denoted by the specified const symbol.
func (prog *Program) ConstValue(obj *types.Const) *Const {
	// TODO(adonovan): opt: share (don't reallocate)
	// Consts for const objects and constant ast.Exprs.

	// Universal constant? {true,false,nil}
	if obj.Parent() == types.Universe {
		return NewConst(obj.Val(), obj.Type())
	}
	// Package-level named constant?
	if v := prog.packageLevelMember(obj); v != nil {
		return v.(*NamedConst).Value
	}
	return NewConst(obj.Val(), obj.Type())
}

// VarValue returns the SSA Value that corresponds to a specific
// identifier denoting the specified var symbol.
//
// VarValue returns nil if a local variable was not found, perhaps
// because its package was not built, the debug information was not
// requested during SSA construction, or the value was optimized away.
//
// ref is the path to an ast.Ident (e.g. from PathEnclosingInterval),
// and that ident must resolve to obj.
//
// pkg is the package enclosing the reference.  (A reference to a var
// always occurs within a function, so we need to know where to find it.)
//
// If the identifier is a field selector and its base expression is
// non-addressable, then VarValue returns the value of that field.
// For example:
//
//	func f() struct {x int}
//	f().x  // VarValue(x) returns a *Field instruction of type int
//
// All other identifiers denote addressable locations (variables).
// For them, VarValue may return either the variable's address or its
// value, even when the expression is evaluated only for its value; the
// situation is reported by isAddr, the second component of the result.
//
// If !isAddr, the returned value is the one associated with the
// specific identifier.  For example,
//
//	var x int    // VarValue(x) returns Const 0 here
//	x = 1        // VarValue(x) returns Const 1 here
//
// It is not specified whether the value or the address is returned in
// any particular case, as it may depend upon optimizations performed
// during SSA code generation, such as registerization, constant
// folding, avoidance of materialization of subexpressions, etc.
func (prog *Program) VarValue(obj *types.Var, pkg *Package, ref []ast.Node) (value Value, isAddr bool) {
	// All references to a var are local to some function, possibly init.
	fn := EnclosingFunction(pkg, ref)
	if fn == nil {
		return // e.g. def of struct field; SSA not built?
	}

	id := ref[0].(*ast.Ident)

	// Defining ident of a parameter?
	if id.Pos() == obj.Pos() {
		for _, param := range fn.Params {
			if param.Object() == obj {
				return param, false
			}
		}
	}

	// Other ident?
	for _, b := range fn.Blocks {
		for _, instr := range b.Instrs {
			if dr, ok := instr.(*DebugRef); ok {
				if dr.Pos() == id.Pos() {
					return dr.X, dr.IsAddr
				}
			}
		}
	}

	// Defining ident of package-level var?
	if v := prog.packageLevelMember(obj); v != nil {
		return v.(*Global), true
	}

	return // e.g. debug info not requested, or var optimized away
}
