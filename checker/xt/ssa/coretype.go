// Copyright 2022 The Go Authors. All rights reserved.
// Use of this source code is governed by a BSD-style
// license that can be found in the LICENSE file.

package ssa

import (
	"go/types"

	"ikeverif/checker/xt/typeparams"
)

// Utilities for dealing with core types.

// isBytestring returns true if T has the same terms as interface{[]byte | string}.
// These act like a core type for some operations: slice expressions, append and copy.
//
// See https://go.dev/ref/spec#Core_types for the details on bytestring.
func isBytestring(T types.Type) bool {
	U := T.Underlying()
	if _, ok := U.(*types.Interface); !ok {
		return false
	}

	tset := typeSetOf(U)
	if tset.Len() != 2 {
		return false
	}
	hasBytes, hasString := false, false
	underIs(tset, func(t types.Type) bool {
		switch {
		case isString(t):
			hasString = true
		case isByteSlice(t):
			hasBytes = true
		}
		return hasBytes || hasString
	})
	return hasBytes && hasString
}

// termList is a list of types.
type termList []*types.Term            // type terms of the type set
func (s termList) Len() int            { return len(s) }
func (s termList) At(i int) types.Type { return s[i].Type() }

// typeSetOf returns the type set of typ. Returns an empty typeset on an error.
func typeSetOf(typ types.Type) termList {
	// This is a adaptation of x/exp/typeparams.NormalTerms which x/tools cannot depend on.
	var terms []*types.Term
	var err error
	// typeSetOf(t) == typeSetOf(Unalias(t))
	switch typ := types.Unalias(typ).(type) {
	case *types.TypeParam:
		terms, err = typeparams.StructuralTerms(typ)
	case *types.Union:
		terms, err = typeparams.UnionTermSet(typ)
	case *types.Interface:
		terms, err = typeparams.InterfaceTermSet(typ)
	default:
		// Common case.
		// Specializing the len=1 case to avoid a slice
		// had no measurable space/time benefit.
		terms = []*types.Term{types.NewTerm(false, typ)}
	}

	if err != nil {
		return termList(nil)
	}
	return termList(terms)
}

// underIs calls f with the underlying types of the specific type terms
// of s and reports whether all calls to f returned true. If there are
// no specific terms, underIs returns the result of f(nil).
func underIs(s termList, f func(types.Type) bool) bool {
	if s.Len() == 0 {
		return f(nil)
	}
	for i := 0; i < s.Len(); i++ {
		u := s.At(i).Underlying()
		if !f(u) {
			return false
		}
	}
	return true
}

// indexType returns the element type and index mode of a IndexExpr over a type.
// It returns (nil, invalid) if the type is not indexable; this should never occur in a well-typed program.
func indexType(typ types.Type) (types.Type, indexMode) {
	switch U := typ.Underlying().(type) {
	case *types.Array:
		return U.Elem(), ixArrVar
	case *types.Pointer:
		if arr, ok := U.Elem().Underlying().(*types.Array); ok {
			return arr.Elem(), ixVar
		}
	case *types.Slice:
		return U.Elem(), ixVar
	case *types.Map:
		return U.Elem(), ixMap
	case *types.Basic:
		return tByte, ixValue // must be a string
	case *types.Interface:
		tset := typeSetOf(U)
		if tset.Len() == 0 {
			return nil, ixInvalid // no underlying terms or error is empty.
		}

		elem, mode := indexType(tset.At(0))
		for i := 1; i < tset.Len() && mode != ixInvalid; i++ {
			e, m := indexType(tset.At(i))
			if !types.Identical(elem, e) { // if type checked, just a sanity check
				return nil, ixInvalid
			}
			// Update the mode to the most constrained address type.
			mode = mode.meet(m)
		}
		if mode != ixInvalid {
			return elem, mode
		}
	}
	return nil, ixInvalid
}

// An indexMode specifies the (addressing) mode of an index operand.
//
// Addressing mode of an index operation is based on the set of
// underlying types.
// Hasse diagram of the indexMode meet semi-lattice:
//
//	ixVar     ixMap
//	  |          |
//	ixArrVar     |
//	  |          |
//	ixValue      |
//	   \        /
//	  ixInvalid
type indexMode byte

const (
	ixInvalid indexMode = iota // index is invalid
	ixValue                    // index is a computed value (not addressable)
	ixArrVar                   // like ixVar, but index operand contains an array
	ixVar                      // index is an addressable variable
	ixMap                      // index is a map index expression (acts like a variable on lhs, commaok on rhs of an assignment)
)

// meet is the address type that is constrained by both x and y.
func (x indexMode) meet(y indexMode) indexMode {
	if (x == ixMap || y == ixMap) && x != y {
		return ixInvalid
	}
	// Use int representation and return min.
	if x < y {
		return y
	}
	return x
}
