// Added for /verif (not part of x/tools): reads at an integer offset that walks a byte slice.
//
//	for offset < len(b) { ... b[offset+2 : offset+4] ... b[offset+4 : offset+4+n] ...; offset += 4 + n }
//
// reads the element at the cursor through absolute positions. The same reads through the element itself,
//
//	elem := b[offset:]; ... elem[2:4] ... elem[4 : 4+n] ...
//
// are what the client analyses of list walkers read (the element is a cursor of its own, positions in it are
// constants). NormalizeOffsetReads rewrites the first form into the second: one `elem = slice b[offset:]` per
// (offset φ, base) at the nearest common dominator of the reads, and every b[offset+c : offset+d] /
// &b[offset+c] in that loop becomes elem[c : d] / &elem[c]. For executions in which neither form panics the
// values are the same; the introduced slice expression is itself subject to the clients' bounds rules.
package ssa

import (
	"go/constant"
	"go/token"
	"go/types"
)

// addLeaves flattens a tree of integer additions into its leaves and the sum of its constants.
func addLeaves(v Value, leaves *[]Value, c *int64, depth int) bool {
	if depth > 8 {
		return false
	}
	switch x := v.(type) {
	case *Const:
		if x.Value == nil || x.Value.Kind() != constant.Int {
			return false
		}
		i, ok := constant.Int64Val(x.Value)
		if !ok {
			return false
		}
		*c += i
		return true
	case *BinOp:
		if x.Op == token.ADD && types.Identical(x.Type().Underlying(), tInt) {
			return addLeaves(x.X, leaves, c, depth+1) && addLeaves(x.Y, leaves, c, depth+1)
		}
	}
	*leaves = append(*leaves, v)
	return true
}

// relativeTo splits v = p + rest: ok when p occurs exactly once among the leaves of v.
func relativeTo(v Value, p *Phi) (rest []Value, c int64, ok bool) {
	var leaves []Value
	if !addLeaves(v, &leaves, &c, 0) {
		return nil, 0, false
	}
	n := 0
	for _, l := range leaves {
		if l == Value(p) {
			n++
		} else {
			rest = append(rest, l)
		}
	}
	return rest, c, n == 1
}

func isLoopHeader(b *BasicBlock) bool {
	for _, p := range b.Preds {
		if b.Dominates(p) {
			return true
		}
	}
	return false
}

func commonDom(a, b *BasicBlock) *BasicBlock {
	for a != nil && !a.Dominates(b) {
		a = a.Idom()
	}
	return a
}

// NormalizeOffsetReads rewrites fns; the number of reads rewritten is returned per function in notes.
func NormalizeOffsetReads(fns []*Function) []string {
	var notes []string
	for _, f := range fns {
		if f.Blocks == nil {
			continue
		}
		n := 0
		for _, h := range f.Blocks {
			if !isLoopHeader(h) {
				continue
			}
			for _, ins := range h.Instrs {
				p, ok := ins.(*Phi)
				if !ok {
					break
				}
				if !types.Identical(p.Type().Underlying(), tInt) {
					continue
				}
				n += offsetReadsOf(f, p)
			}
		}
		if n > 0 {
			rebuild(f)
			notes = append(notes, f.String()+": "+itoa(n)+" read(s) at an integer offset cursor rewritten as reads of the element at the cursor")
		}
	}
	return notes
}

func itoa(n int) string {
	return constant.MakeInt64(int64(n)).ExactString()
}

type offsetUse struct {
	ins  Instruction
	base Value
}

func offsetReadsOf(f *Function, p *Phi) int {
	isByteSliceParam := func(v Value) bool {
		if _, ok := v.(*Parameter); !ok {
			return false
		}
		s, ok := v.Type().Underlying().(*types.Slice)
		return ok && types.Identical(s.Elem().Underlying(), tByte)
	}
	uses := map[Value][]Instruction{}
	var bases []Value
	for _, b := range f.Blocks {
		if !p.Block().Dominates(b) {
			continue
		}
		for _, ins := range b.Instrs {
			switch x := ins.(type) {
			case *Slice:
				if !isByteSliceParam(x.X) || x.Low == nil || x.Max != nil {
					continue
				}
				if x.Low == Value(p) && x.High == nil {
					continue // already the element at the cursor
				}
				rest, c, ok := relativeTo(x.Low, p)
				if !ok || len(rest) != 0 || c < 0 {
					continue
				}
				if _, seen := uses[x.X]; !seen {
					bases = append(bases, x.X)
				}
				uses[x.X] = append(uses[x.X], ins)
			case *IndexAddr:
				if !isByteSliceParam(x.X) {
					continue
				}
				rest, c, ok := relativeTo(x.Index, p)
				if !ok || len(rest) != 0 || c < 0 {
					continue
				}
				if _, seen := uses[x.X]; !seen {
					bases = append(bases, x.X)
				}
				uses[x.X] = append(uses[x.X], ins)
			}
		}
	}
	n := 0
	for _, base := range bases {
		us := uses[base]
		// a record is read at several positions behind the cursor; b[i] and b[i:i+k] alone are a plain walk over
		// octets or fixed-size items, which clients read as it stands
		record := false
		for _, u := range us {
			var c int64
			switch x := u.(type) {
			case *Slice:
				_, c, _ = relativeTo(x.Low, p)
			case *IndexAddr:
				_, c, _ = relativeTo(x.Index, p)
			}
			if c > 0 {
				record = true
			}
		}
		if !record {
			// unless an earlier run already made this cursor's element (the remaining reads then belong to it too)
			for _, blk := range f.Blocks {
				for _, ins := range blk.Instrs {
					if x, ok := ins.(*Slice); ok && x.X == base && x.Low == Value(p) && x.High == nil && x.Max == nil {
						if refs := x.Referrers(); refs != nil && len(*refs) > 0 {
							record = true
						}
					}
				}
			}
		}
		if !record {
			continue
		}
		// an existing element slice b[p:] is reused when it dominates the reads
		var d *BasicBlock
		for _, u := range us {
			if d == nil {
				d = u.Block()
			} else {
				d = commonDom(d, u.Block())
			}
		}
		if d == nil || !p.Block().Dominates(d) {
			continue
		}
		// an element slice b[p:] made by an earlier run is reused when it dominates the reads
		var elem *Slice
		for _, blk := range f.Blocks {
			for _, ins := range blk.Instrs {
				if x, ok := ins.(*Slice); ok && x.X == base && x.Low == Value(p) && x.High == nil && x.Max == nil {
					dominatesAll := true
					for _, u := range us {
						if x.Block() == u.Block() {
							before := false
							for _, i2 := range blk.Instrs {
								if i2 == Instruction(x) {
									before = true
									break
								}
								if i2 == u {
									break
								}
							}
							if !before {
								dominatesAll = false
							}
						} else if !x.Block().Dominates(u.Block()) {
							dominatesAll = false
						}
					}
					if dominatesAll && elem == nil {
						elem = x
					}
				}
			}
		}
		if elem == nil {
			elem = &Slice{X: base, Low: p}
			elem.setType(base.Type())
			elem.setPos(us[0].Pos())
			elem.setBlock(d)
			// insert after the φ-nodes of d, and before the first read if that is in d
			at := 0
			for at < len(d.Instrs) {
				if _, isPhi := d.Instrs[at].(*Phi); !isPhi {
					break
				}
				at++
			}
			d.Instrs = append(d.Instrs[:at:at], append([]Instruction{elem}, d.Instrs[at:]...)...)
		}
		for _, u := range us {
			b := u.Block()
			var pre []Instruction
			konst := func(c int64) Value { return NewConst(constant.MakeInt64(c), tInt) }
			sum := func(rest []Value, c int64) Value {
				if len(rest) == 0 {
					return konst(c)
				}
				acc := rest[0]
				for _, r := range rest[1:] {
					bo := &BinOp{Op: token.ADD, X: acc, Y: r}
					bo.setType(tInt)
					bo.setPos(u.Pos())
					bo.setBlock(b)
					pre = append(pre, bo)
					acc = bo
				}
				if c != 0 {
					// constant first, like the source spells header + length
					bo := &BinOp{Op: token.ADD, X: konst(c), Y: acc}
					bo.setType(tInt)
					bo.setPos(u.Pos())
					bo.setBlock(b)
					pre = append(pre, bo)
					acc = bo
				}
				return acc
			}
			switch x := u.(type) {
			case *Slice:
				_, c, _ := relativeTo(x.Low, p)
				var hi Value
				if x.High != nil {
					rest, ch, ok := relativeTo(x.High, p)
					if ok {
						hi = sum(rest, ch)
					} else {
						bo := &BinOp{Op: token.SUB, X: x.High, Y: p}
						bo.setType(tInt)
						bo.setPos(u.Pos())
						bo.setBlock(b)
						pre = append(pre, bo)
						hi = bo
					}
				}
				x.X = elem
				if c == 0 {
					x.Low = nil
				} else {
					x.Low = konst(c)
				}
				x.High = hi
			case *IndexAddr:
				_, c, _ := relativeTo(x.Index, p)
				x.X = elem
				x.Index = konst(c)
			}
			if len(pre) > 0 {
				for i, ins := range b.Instrs {
					if ins == u {
						b.Instrs = append(b.Instrs[:i:i], append(pre, b.Instrs[i:]...)...)
						break
					}
				}
			}
			n++
		}
	}
	return n
}
