// Copyright 2013 The Go Authors. All rights reserved.
// Use of this source code is governed by a BSD-style
// license that can be found in the LICENSE file.

package ssa

// An optional pass for sanity-checking invariants of the SSA representation.
// Currently it checks CFG invariants but little at the instruction level.

import (
	"bytes"
	"fmt"
	"go/ast"
	"go/types"
	"io"
	"os"
	"strings"
)

type sanity struct {
	reporter io.Writer
	fn       *Function
	block    *BasicBlock
	instrs   map[Instruction]unit
	insane   bool
}

// sanityCheck performs integrity checking of the SSA representation
// of the function fn and returns true if it was valid.  Diagnostics
// are written to reporter if non-nil, os.Stderr otherwise.  Some
// diagnostics are only warnings and do not imply a negative result.
//
// Sanity-checking is intended to facilitate the debugging of code
// transformation passes.
func sanityCheck(fn *Function, reporter io.Writer) bool {
	if reporter == nil {
		reporter = os.Stderr
	}
	return (&sanity{reporter: reporter}).checkFunction(fn)
}

// mustSanityCheck is like sanityCheck but panics instead of returning
// a negative result.
func mustSanityCheck(fn *Function, reporter io.Writer) {
	if !sanityCheck(fn, reporter) {
		fn.WriteTo(os.Stderr)
		panic("SanityCheck failed")
	}
}

func (s *sanity) diagnostic(prefix, format string, args ...interface{}) {
	fmt.Fprintf(s.reporter, "%s: function %s", prefix, s.fn)
	if s.block != nil {
		fmt.Fprintf(s.reporter, ", block %s", s.block)
	}
	io.WriteString(s.reporter, ": ")
	fmt.Fprintf(s.reporter, format, args...)
	io.WriteString(s.reporter, "\n")
}

func (s *sanity) errorf(format string, args ...interface{}) {
	s.insane = true
	s.diagnostic("Error", format, args...)
}

func (s *sanity) warnf(format string, args ...interface{}) {
	s.diagnostic("Warning", format, args...)
}

// findDuplicate returns an arbitrary basic block that appeared more
// than once in blocks, or nil if all were unique.
func findDuplicate(blocks []*BasicBlock) *BasicBlock {
	if len(blocks) < 2 {
		return nil
	}
	if blocks[0] == blocks[1] {
		return blocks[0]
	}
	// Slow path:
	m := make(map[*BasicBlock]bool)
	for _, b := range blocks {
		if m[b] {
			return b
		}
		m[b] = true
	}
	return nil
}

func (s *sanity) checkInstr(idx int, instr Instruction) {
	switch instr := instr.(type) {
	case *If, *Jump, *Return, *Panic:
		s.errorf("control flow instruction not at end of block")
	case *Phi:
		if idx == 0 {
			// It suffices to apply this check to just the first phi node.
			if dup := findDuplicate(s.block.Preds); dup != nil {
				s.errorf("phi node in block with duplicate predecessor %s", dup)
			}
		} else {
			prev := s.block.Instrs[idx-1]
			if _, ok := prev.(*Phi); !ok {
				s.errorf("Phi instruction follows a non-Phi: %T", prev)
			}
		}
		if ne, np := len(instr.Edges), len(s.block.Preds); ne != np {
			s.errorf("phi node has %d edges but %d predecessors", ne, np)

		} else {
			for i, e := range instr.Edges {
				if e == nil {
					s.errorf("phi node '%s' has no value for edge #%d from %s", instr.Comment, i, s.block.Preds[i])
				} else if !types.Identical(instr.typ, e.Type()) {
					s.errorf("phi node '%s' has a different type (%s) for edge #%d from %s (%s)",
						instr.Comment, instr.Type(), i, s.block.Preds[i], e.Type())
				}
			}
		}

	case *Alloc:
		if !instr.Heap {
			found := false
			for _, l := range s.fn.Locals {
				if l == instr {
					found = true
					break
				}
			}
			if !found {
				s.errorf("local alloc %s = %s does not appear in Function.Locals", instr.Name(), instr)
			}
		}

	case *BinOp:
	case *Call:
		if common := instr.Call; common.IsInvoke() {
			if !types.IsInterface(common.Value.Type()) {
				s.errorf("invoke on %s (%s) which is not an interface type (or type param)", common.Value, common.Value.Type())
			}
		}
	case *ChangeInterface:
	case *ChangeType:
	case *SliceToArrayPointer:
	case *Convert:
		if from := instr.X.Type(); !isBasicConvTypes(typeSetOf(from)) {
			if to := instr.Type(); !isBasicConvTypes(typeSetOf(to)) {
				s.errorf("convert %s -> %s: at least one type must be basic (or all basic, []byte, or []rune)", from, to)
			}
		}
	case *MultiConvert:
	case *Defer:
	case *Extract:
	case *Field:
	case *FieldAddr:
	case *Go:
	case *Index:
	case *IndexAddr:
	case *Lookup:
	case *MakeChan:
	case *MakeClosure:
		numFree := len(instr.Fn.(*Function).FreeVars)
		numBind := len(instr.Bindings)
		if numFree != numBind {
			s.errorf("MakeClosure has %d Bindings for function %s with %d free vars",
				numBind, instr.Fn, numFree)

		}
		if recv := instr.Type().(*types.Signature).Recv(); recv != nil {
			s.errorf("MakeClosure's type includes receiver %s", recv.Type())
		}

	case *MakeInterface:
	case *MakeMap:
	case *MakeSlice:
	case *MapUpdate:
	case *Next:
	case *Range:
	case *RunDefers:
	case *Select:
	case *Send:
	case *Slice:
	case *Store:
	case *TypeAssert:
	case *UnOp:
	case *DebugRef:
		// TODO(adonovan): implement checks.
	default:
		panic(fmt.Sprintf("Unknown instruction type: %T", instr))
	}

	if call, ok := instr.(CallInstruction); ok {
		if call.Common().Signature() == nil {
			s.errorf("nil signature: %s", call)
		}
	}

	// Check that value-defining instructions have valid types
	// and a valid referrer list.
	if v, ok := instr.(Value); ok {
		t := v.Type()
		if t == nil {
			s.errorf("no type: %s = %s", v.Name(), v)
		} else if t == tRangeIter || t == tDeferStack {
			// not a proper type; ignore.
		} else if b, ok := t.Underlying().(*types.Basic); ok && b.Info()&types.IsUntyped != 0 {
			s.errorf("instruction has 'untyped' result: %s = %s : %s", v.Name(), v, t)
		}
		s.checkReferrerList(v)
	}

	// Untyped constants are legal as instruction Operands(),
	// for example:
	//   _ = "foo"[0]
	// or:
	//   if wordsize==64 {...}

	// All other non-Instruction Values can be found via their
	// enclosing Function or Package.
}

func (s *sanity) checkFinalInstr(instr Instruction) {
	switch instr := instr.(type) {
	case *If:
		if nsuccs := len(s.block.Succs); nsuccs != 2 {
			s.errorf("If-terminated block has %d successors; expected 2", nsuccs)
			return
		}
		if s.block.Succs[0] == s.block.Succs[1] {
			s.errorf("If-instruction has same True, False target blocks: %s", s.block.Succs[0])
			return
		}

	case *Jump:
		if nsuccs := len(s.block.Succs); nsuccs != 1 {
			s.errorf("Jump-terminated block has %d successors; expected 1", nsuccs)
			return
		}

	case *Return:
		if nsuccs := len(s.block.Succs); nsuccs != 0 {
			s.errorf("Return-terminated block has %d successors; expected none", nsuccs)
			return
		}
		if na, nf := len(instr.Results), s.fn.Signature.Results().Len(); nf != na {
			s.errorf("%d-ary return in %d-ary function", na, nf)
		}

	case *Panic:
		if nsuccs := len(s.block.Succs); nsuccs != 0 {
			s.errorf("Panic-terminated block has %d successors; expected none", nsuccs)
			return
		}

	default:
		s.errorf("non-control flow instruction at end of block")
	}
}

func (s *sanity) checkBlock(b *BasicBlock, index int) {
	s.block = b

	if b.Index != index {
		s.errorf("block has incorrect Index %d", b.Index)
	}
	if b.parent != s.fn {
		s.errorf("block has incorrect parent %s", b.parent)
	}

	// Check all blocks are reachable.
	// (The entry block is always implicitly reachable,
	// as is the Recover block, if any.)
	if (index > 0 && b != b.parent.Recover) && len(b.Preds) == 0 {
		s.warnf("unreachable block")
		if b.Instrs == nil {
			// Since this block is about to be pruned,
			// tolerating transient problems in it
			// simplifies other optimizations.
			return
		}
	}

	// Check predecessor and successor relations are dual,
	// and that all blocks in CFG belong to same function.
	for _, a := range b.Preds {
		found := false
		for _, bb := range a.Succs {
			if bb == b {
				found = true
				break
			}
		}
		if !found {
			s.errorf("expected successor edge in predecessor %s; found only: %s", a, a.Succs)
		}
		if a.parent != s.fn {
			s.errorf("predecessor %s belongs to different function %s", a, a.parent)
		}
	}
	for _, c := range b.Succs {
		found := false
		for _, bb := range c.Preds {
			if bb == b {
				found = true
				break
			}
		}
		if !found {
			s.errorf("expected predecessor edge in successor %s; found only: %s", c, c.Preds)
		}
		if c.parent != s.fn {
			s.errorf("successor %s belongs to different function %s", c, c.parent)
		}
	}

	// Check each instruction is sane.
	n := len(b.Instrs)
	if n == 0 {
		s.errorf("basic block contains no instructions")
	}
	var rands [10]*Value // reuse storage
	for j, instr := range b.Instrs {
		if instr == nil {
			s.errorf("nil instruction at index %d", j)
			continue
		}
		if b2 := instr.Block(); b2 == nil {
			s.errorf("nil Block() for instruction at index %d", j)
			continue
		} else if b2 != b {
			s.errorf("wrong Block() (%s) for instruction at index %d ", b2, j)
			continue
		}
		if j < n-1 {
			s.checkInstr(j, instr)
		} else {
			s.checkFinalInstr(instr)
		}

		// Check Instruction.Operands.
	operands:
		for i, op := range instr.Operands(rands[:0]) {
			if op == nil {
				s.errorf("nil operand pointer %d of %s", i, instr)
				continue
			}
			val := *op
			if val == nil {
				continue // a nil operand is ok
			}

			// Check that "untyped" types only appear on constant operands.
			if _, ok := (*op).(*Const); !ok {
				if basic, ok := (*op).Type().Underlying().(*types.Basic); ok {
					if basic.Info()&types.IsUntyped != 0 {
						s.errorf("operand #%d of %s is untyped: %s", i, instr, basic)
					}
				}
			}

			// Check that Operands that are also Instructions belong to same function.
			// TODO(adonovan): also check their block dominates block b.
			if val, ok := val.(Instruction); ok {
				if val.Block() == nil {
					s.errorf("operand %d of %s is an instruction (%s) that belongs to no block", i, instr, val)
				} else if val.Parent() != s.fn {
					s.errorf("operand %d of %s is an instruction (%s) from function %s", i, instr, val, val.Parent())
				}
			}

			// Check that each function-local operand of
			// instr refers back to instr.  (NB: quadratic)
			switch val := val.(type) {
			case *Const, *Global, *Builtin:
				continue // not local
			case *Function:
				if val.parent == nil {
					continue // only anon functions are local
				}
			}

			// TODO(adonovan): check val.Parent() != nil <=> val.Referrers() is defined.

			if refs := val.Referrers(); refs != nil {
				for _, ref := range *refs {
					if ref == instr {
						continue operands
					}
				}
				s.errorf("operand %d of %s (%s) does not refer to us", i, instr, val)
			} else {
				s.errorf("operand %d of %s (%s) has no referrers", i, instr, val)
			}
		}
	}
}

func (s *sanity) checkReferrerList(v Value) {
	refs := v.Referrers()
	if refs == nil {
		s.errorf("%s has missing referrer list", v.Name())
		return
	}
	for i, ref := range *refs {
		if _, ok := s.instrs[ref]; !ok {
			s.errorf("%s.Referrers()[%d] = %s is not an instruction belonging to this function", v.Name(), i, ref)
		}
	}
}

func (s *sanity) checkFunctionParams() {
	signature := s.fn.Signature
	params := s.fn.Params

	// startSigParams is the start of signature.Params() within params.
	startSigParams := 0
	if signature.Recv() != nil {
		startSigParams = 1
	}

	if startSigParams+signature.Params().Len() != len(params) {
		s.errorf("function has %d parameters in signature but has %d after building",
			startSigParams+signature.Params().Len(), len(params))
		return
	}

	for i, param := range params {
		var sigType types.Type
		si := i - startSigParams
		if si < 0 {
			sigType = signature.Recv().Type()
		} else {
			sigType = signature.Params().At(si).Type()
		}

		if !types.Identical(sigType, param.Type()) {
			s.errorf("expect type %s in signature but got type %s in param %d", param.Type(), sigType, i)
		}
	}
}

// checkTransientFields checks whether all transient fields of Function are cleared.
func (s *sanity) checkTransientFields() {
	fn := s.fn
	if fn.build != nil {
		s.errorf("function transient field 'build' is not nil")
	}
	if fn.currentBlock != nil {
		s.errorf("function transient field 'currentBlock' is not nil")
	}
	if fn.vars != nil {
		s.errorf("function transient field 'vars' is not nil")
	}
	if fn.results != nil {
		s.errorf("function transient field 'results' is not nil")
	}
	if fn.returnVars != nil {
		s.errorf("function transient field 'returnVars' is not nil")
	}
	if fn.targets != nil {
		s.errorf("function transient field 'targets' is not nil")
	}
	if fn.lblocks != nil {
		s.errorf("function transient field 'lblocks' is not nil")
	}
	if fn.subst != nil {
		s.errorf("function transient field 'subst' is not nil")
	}
	if fn.jump != nil {
		s.errorf("function transient field 'jump' is not nil")
	}
	if fn.deferstack != nil {
		s.errorf("function transient field 'deferstack' is not nil")
	}
	if fn.source != nil {
		s.errorf("function transient field 'source' is not nil")
	}
	if fn.exits != nil {
		s.errorf("function transient field 'exits' is not nil")
	}
	if fn.uniq != 0 {
		s.errorf("function transient field 'uniq' is not zero")
	}
}

func (s *sanity) checkFunction(fn *Function) bool {
	s.fn = fn
	s.checkFunctionParams()
	s.checkTransientFields()

	// TODO(taking): Sanity check origin, typeparams, and typeargs.
	if fn.Prog == nil {
		s.errorf("nil Prog")
	}

	var buf bytes.Buffer
	_ = fn.String()               // must not crash
	_ = fn.RelString(fn.relPkg()) // must not crash
	WriteFunction(&buf, fn)       // must not crash

	// All functions have a package, except delegates (which are
	// shared across packages, or duplicated as weak symbols in a
	// separate-compilation model), and error.Error.
	if fn.Pkg == nil {
		if strings.HasPrefix(fn.Synthetic, "from type information (on demand)") ||
			strings.HasPrefix(fn.Synthetic, "wrapper ") ||
			strings.HasPrefix(fn.Synthetic, "bound ") ||
			strings.HasPrefix(fn.Synthetic, "thunk ") ||
			strings.HasSuffix(fn.name, "Error") ||
			strings.HasPrefix(fn.Synthetic, "instance ") ||
			strings.HasPrefix(fn.Synthetic, "instantiation ") ||
			(fn.parent != nil && len(fn.typeargs) > 0) /* anon fun in instance */ {
			// ok
		} else {
			s.errorf("nil Pkg")
		}
	}
	if src, syn := fn.Synthetic == "", fn.Syntax() != nil; src != syn {
		if len(fn.typeargs) > 0 && fn.Prog.mode&InstantiateGenerics != 0 {
			// ok (instantiation with InstantiateGenerics on)
		} else if fn.topLevelOrigin != nil && len(fn.typeargs) > 0 {
			// ok (we always have the syntax set for instantiation)
		} else if _, rng := fn.syntax.(*ast.RangeStmt); rng && fn.Synthetic == "range-over-func yield" {
			// ok (range-func-yields are both synthetic and keep syntax)
		} else {
			s.errorf("got fromSource=%t, hasSyntax=%t; want same values", src, syn)
		}
	}

	// Build the set of valid referrers.
	s.instrs = make(map[Instruction]unit)

	// TODO: switch to range-over-func when x/tools updates to 1.23.
	// instrs are the instructions that are present in the function.
	fn.instrs()(func(instr Instruction) bool {
		s.instrs[instr] = unit{}
		return true
	})

	// Check all Locals allocations appear in the function instruction.
	for i, l := range fn.Locals {
		if _, present := s.instrs[l]; !present {
			s.warnf("function doesn't contain Local alloc %s", l.Name())
		}

		if l.Parent() != fn {
			s.errorf("Local %s at index %d has wrong parent", l.Name(), i)
		}
		if l.Heap {
			s.errorf("Local %s at index %d has Heap flag set", l.Name(), i)
		}
	}
	for i, p := range fn.Params {
		if p.Parent() != fn {
			s.errorf("Param %s at index %d has wrong parent", p.Name(), i)
		}
		// Check common suffix of Signature and Params match type.
		if sig := fn.Signature; sig != nil {
			j := i - len(fn.Params) + sig.Params().Len() // index within sig.Params
			if j < 0 {
				continue
			}
			if !types.Identical(p.Type(), sig.Params().At(j).Type()) {
				s.errorf("Param %s at index %d has wrong type (%s, versus %s in Signature)", p.Name(), i, p.Type(), sig.Params().At(j).Type())

			}
		}
		s.checkReferrerList(p)
	}
	for i, fv := range fn.FreeVars {
		if fv.Parent() != fn {
			s.errorf("FreeVar %s at index %d has wrong parent", fv.Name(), i)
		}
		s.checkReferrerList(fv)
	}

	if fn.Blocks != nil && len(fn.Blocks) == 0 {
		// Function _had_ blocks (so it's not external) but
		// they were "optimized" away, even the entry block.
		s.errorf("Blocks slice is non-nil but empty")
	}
	for i, b := range fn.Blocks {
		if b == nil {
			s.warnf("nil *BasicBlock at f.Blocks[%d]", i)
			continue
		}
		s.checkBlock(b, i)
	}
	if fn.Recover != nil && fn.Blocks[fn.Recover.Index] != fn.Recover {
		s.errorf("Recover block is not in Blocks slice")
	}

	s.block = nil
	for i, anon := range fn.AnonFuncs {
		if anon.Parent() != fn {
			s.errorf("AnonFuncs[%d]=%s but %s.Parent()=%s", i, anon, anon, anon.Parent())
		}
		if i != int(anon.anonIdx) {
			s.errorf("AnonFuncs[%d]=%s but %s.anonIdx=%d", i, anon, anon, anon.anonIdx)
		}
	}
	s.fn = nil
	return !s.insane
}

// sanityCheckPackage checks invariants of packages upon creation.
// It does not require that the package is built.
// Unlike sanityCheck (for functions), it just panics at the first error.
func sanityCheckPackage(pkg *Package) {
	if pkg.Pkg == nil {
		panic(fmt.Sprintf("Package %s has no Object", pkg))
	}
	if pkg.info != nil {
		panic(fmt.Sprintf("package %s field 'info' is not cleared", pkg))
	}
	if pkg.files != nil {
		panic(fmt.Sprintf("package %s field 'files' is not cleared", pkg))
	}
	if pkg.created != nil {
		panic(fmt.Sprintf("package %s field 'created' is not cleared", pkg))
	}
	if pkg.initVersion != nil {
		panic(fmt.Sprintf("package %s field 'initVersion' is not cleared", pkg))
	}

	_ = pkg.String() // must not crash

	for name, mem := range pkg.Members {
		if name != mem.Name() {
			panic(fmt.Sprintf("%s: %T.Name() = %s, want %s",
				pkg.Pkg.Path(), mem, mem.Name(), name))
		}
		obj := mem.Object()
		if obj == nil {
			// This check is sound because fields
			// {Global,Function}.object have type
			// types.Object.  (If they were declared as
			// *types.{Var,Func}, we'd have a non-empty
			// interface containing a nil pointer.)

			continue // not all members have typechecker objects
		}
		if obj.Name() != name {
			if obj.Name() == "init" && strings.HasPrefix(mem.Name(), "init#") {
				// Ok.  The name of a declared init function varies between
				// its types.Func ("init") and its ssa.Function ("init#%d").
			} else {
				panic(fmt.Sprintf("%s: %T.Object().Name() = %s, want %s",
					pkg.Pkg.Path(), mem, obj.Name(), name))
			}
		}
		if obj.Pos() != mem.Pos() {
			panic(fmt.Sprintf("%s Pos=%d obj.Pos=%d", mem, mem.Pos(), obj.Pos()))
		}
	}
}
