// Copyright 2013 The Go Authors. All rights reserved.
// Use of this source code is governed by a BSD-style
// license that can be found in the LICENSE file.

package ssa

// Helpers for emitting SSA instructions.

import (
	"fmt"
	"go/ast"
	"go/token"
	"go/types"

	"ikeverif/checker/xt/typeparams"
)

// emitAlloc emits to f a new Alloc instruction allocating a variable
// of type typ.
//
// The caller must set Alloc.Heap=true (for an heap-allocated variable)
// or add the Alloc to f.Locals (for a frame-allocated variable).
//
// During building, a variable in f.Locals may have its Heap flag
// set when it is discovered that its address is taken.
// These Allocs are removed from f.Locals at the end.
//
// The builder should generally call one of the emit{New,Local,LocalVar} wrappers instead.
func emitAlloc(f *Function, typ types.Type, pos token.Pos, comment string) *Alloc {
	v := &Alloc{Comment: comment}
	v.setType(types.NewPointer(typ))
	v.setPos(pos)
	f.emit(v)
	return v
}

// emitNew emits to f a new Alloc instruction heap-allocating a
// variable of type typ. pos is the optional source location.
func emitNew(f *Function, typ types.Type, pos token.Pos, comment string) *Alloc {
	alloc := emitAlloc(f, typ, pos, comment)
	alloc.Heap = true
	return alloc
}

// emitLocal creates a local var for (t, pos, comment) and
// emits an Alloc instruction for it.
//
// (Use this function or emitNew for synthetic variables;
// for source-level variables in the same function, use emitLocalVar.)
func emitLocal(f *Function, t types.Type, pos token.Pos, comment string) *Alloc {
	local := emitAlloc(f, t, pos, comment)
	f.Locals = append(f.Locals, local)
	return local
}

// emitLocalVar creates a local var for v and emits an Alloc instruction for it.
// Subsequent calls to f.lookup(v) return it.
// It applies the appropriate generic instantiation to the type.
func emitLocalVar(f *Function, v *types.Var) *Alloc {
	alloc := emitLocal(f, f.typ(v.Type()), v.Pos(), v.Name())
	f.vars[v] = alloc
	return alloc
}

// emitLoad emits to f an instruction to load the address addr into a
// new temporary, and returns the value so defined.
func emitLoad(f *Function, addr Value) *UnOp {
	v := &UnOp{Op: token.MUL, X: addr}
	v.setType(typeparams.MustDeref(addr.Type()))
	f.emit(v)
	return v
}

// emitDebugRef emits to f a DebugRef pseudo-instruction associating
// expression e with value v.
func emitDebugRef(f *Function, e ast.Expr, v Value, isAddr bool) {
	if !f.debugInfo() {
		return // debugging not enabled
	}
	if v == nil || e == nil {
		panic("nil")
	}
	var obj types.Object
	e = unparen(e)
	if id, ok := e.(*ast.Ident); ok {
		if isBlankIdent(id) {
			return
		}
		obj = f.objectOf(id)
		switch obj.(type) {
		case *types.Nil, *types.Const, *types.Builtin:
			return
		}
	}
	f.emit(&DebugRef{
		X:      v,
		Expr:   e,
		IsAddr: isAddr,
		object: obj,
	})
}

// emitArith emits to f code to compute the binary operation op(x, y)
// where op is an eager shift, logical or arithmetic operation.
// (Use emitCompare() for comparisons and Builder.logicalBinop() for
// non-eager operations.)
func emitArith(f *Function, op token.Token, x, y Value, t types.Type, pos token.Pos) Value {
	switch op {
	case token.SHL, token.SHR:
		x = emitConv(f, x, t)
		// y may be signed or an 'untyped' constant.

		// There is a runtime panic if y is signed and <0. Instead of inserting a check for y<0
		// and converting to an unsigned value (like the compiler) leave y as is.

		if isUntyped(y.Type().Underlying()) {
			// Untyped conversion:
			// Spec https://go.dev/ref/spec#Operators:
			// The right operand in a shift expression must have integer type or be an untyped constant
			// representable by a value of type uint.
			y = emitConv(f, y, types.Typ[types.Uint])
		}

	case token.ADD, token.SUB, token.MUL, token.QUO, token.REM, token.AND, token.OR, token.XOR, token.AND_NOT:
		x = emitConv(f, x, t)
		y = emitConv(f, y, t)

	default:
		panic("illegal op in emitArith: " + op.String())

	}
	v := &BinOp{
		Op: op,
		X:  x,
		Y:  y,
	}
	v.setPos(pos)
	v.setType(t)
	return f.emit(v)
}

// emitCompare emits to f code compute the boolean result of
// comparison 'x op y'.
func emitCompare(f *Function, op token.Token, x, y Value, pos token.Pos) Value {
	xt := x.Type().Underlying()
	yt := y.Type().Underlying()

	// Special case to optimise a tagless SwitchStmt so that
	// these are equivalent
	//   switch { case e: ...}
	//   switch true { case e: ... }
	//   if e==true { ... }
	// even in the case when e's type is an interface.
	// TODO(adonovan): opt: generalise to x==true, false!=y, etc.
	if x == vTrue && op == token.EQL {
		if yt, ok := yt.(*types.Basic); ok && yt.Info()&types.IsBoolean != 0 {
			return y
		}
	}

	if types.Identical(xt, yt) {
		// no conversion necessary
	} else if isNonTypeParamInterface(x.Type()) {
		y = emitConv(f, y, x.Type())
	} else if isNonTypeParamInterface(y.Type()) {
		x = emitConv(f, x, y.Type())
	} else if _, ok := x.(*Const); ok {
		x = emitConv(f, x, y.Type())
	} else if _, ok := y.(*Const); ok {
		y = emitConv(f, y, x.Type())
	} else {
		// other cases, e.g. channels.  No-op.
	}

	v := &BinOp{
		Op: op,
		X:  x,
		Y:  y,
	}
	v.setPos(pos)
	v.setType(tBool)
	return f.emit(v)
}

// isValuePreserving returns true if a conversion from ut_src to
// ut_dst is value-preserving, i.e. just a change of type.
// Precondition: neither argument is a named or alias type.
func isValuePreserving(ut_src, ut_dst types.Type) bool {
	// Identical underlying types?
	if types.IdenticalIgnoreTags(ut_dst, ut_src) {
		return true
	}

	switch ut_dst.(type) {
	case *types.Chan:
		// Conversion between channel types?
		_, ok := ut_src.(*types.Chan)
		return ok

	case *types.Pointer:
		// Conversion between pointers with identical base types?
		_, ok := ut_src.(*types.Pointer)
		return ok
	}
	return false
}

// emitConv emits to f code to convert Value val to exactly type typ,
// and returns the converted value.  Implicit conversions are required
// by language assignability rules in assignments, parameter passing,
// etc.
func emitConv(f *Function, val Value, typ types.Type) Value {
	t_src := val.Type()

	// Identical types?  Conversion is a no-op.
	if types.Identical(t_src, typ) {
		return val
	}
	ut_dst := typ.Underlying()
	ut_src := t_src.Underlying()

	// Conversion to, or construction of a value of, an interface type?
	if isNonTypeParamInterface(typ) {
		// Interface name change?
		if isValuePreserving(ut_src, ut_dst) {
			c := &ChangeType{X: val}
			c.setType(typ)
			return f.emit(c)
		}

		// Assignment from one interface type to another?
		if isNonTypeParamInterface(t_src) {
			c := &ChangeInterface{X: val}
			c.setType(typ)
			return f.emit(c)
		}

		// Untyped nil constant?  Return interface-typed nil constant.
		if ut_src == tUntypedNil {
			return zeroConst(typ)
		}

		// Convert (non-nil) "untyped" literals to their default type.
		if t, ok := ut_src.(*types.Basic); ok && t.Info()&types.IsUntyped != 0 {
			val = emitConv(f, val, types.Default(ut_src))
		}

		// Record the types of operands to MakeInterface, if
		// non-parameterized, as they are the set of runtime types.
		t := val.Type()
		if f.typeparams.Len() == 0 || !f.Prog.isParameterized(t) {
			addMakeInterfaceType(f.Prog, t)
		}

		mi := &MakeInterface{X: val}
		mi.setType(typ)
		return f.emit(mi)
	}

	// In the common case, the typesets of src and dst are singletons
	// and we emit an appropriate conversion. But if either contains
	// a type parameter, the conversion may represent a cross product,
	// in which case which we emit a MultiConvert.
	dst_terms := typeSetOf(ut_dst)
	src_terms := typeSetOf(ut_src)

	// conversionCase describes an instruction pattern that maybe emitted to
	// model d <- s for d in dst_terms and s in src_terms.
	// Multiple conversions can match the same pattern.
	type conversionCase uint8
	const (
		changeType conversionCase = 1 << iota
		sliceToArray
		sliceToArrayPtr
		sliceTo0Array
		sliceTo0ArrayPtr
		convert
	)
	// classify the conversion case of a source type us to a destination type ud.
	// us and ud are underlying types (not *Named or *Alias)
	classify := func(us, ud types.Type) conversionCase {
		// Just a change of type, but not value or representation?
		if isValuePreserving(us, ud) {
			return changeType
		}

		// Conversion from slice to array or slice to array pointer?
		if slice, ok := us.(*types.Slice); ok {
			var arr *types.Array
			var ptr bool
			// Conversion from slice to array pointer?
			switch d := ud.(type) {
			case *types.Array:
				arr = d
			case *types.Pointer:
				arr, _ = d.Elem().Underlying().(*types.Array)
				ptr = true
			}
			if arr != nil && types.Identical(slice.Elem(), arr.Elem()) {
				if arr.Len() == 0 {
					if ptr {
						return sliceTo0ArrayPtr
					} else {
						return sliceTo0Array
					}
				}
				if ptr {
					return sliceToArrayPtr
				} else {
					return sliceToArray
				}
			}
		}

		// The only remaining case in well-typed code is a representation-
		// changing conversion of basic types (possibly with []byte/[]rune).
		if !isBasic(us) && !isBasic(ud) {
			panic(fmt.Sprintf("in %s: cannot convert term %s (%s [within %s]) to type %s [within %s]", f, val, val.Type(), us, typ, ud))
		}
		return convert
	}

	var classifications conversionCase
	for _, s := range src_terms {
		us := s.Type().Underlying()
		for _, d := range dst_terms {
			ud := d.Type().Underlying()
			classifications |= classify(us, ud)
		}
	}
	if classifications == 0 {
		panic(fmt.Sprintf("in %s: cannot convert %s (%s) to %s", f, val, val.Type(), typ))
	}

	// Conversion of a compile-time constant value?
	if c, ok := val.(*Const); ok {
		// Conversion to a basic type?
		if isBasic(ut_dst) {
			// Conversion of a compile-time constant to
			// another constant type results in a new
			// constant of the destination type and
			// (initially) the same abstract value.
			// We don't truncate the value yet.
			return NewConst(c.Value, typ)
		}
		// Can we always convert from zero value without panicking?
		const mayPanic = sliceToArray | sliceToArrayPtr
		if c.Value == nil && classifications&mayPanic == 0 {
			return NewConst(nil, typ)
		}

		// We're converting from constant to non-constant type,
		// e.g. string -> []byte/[]rune.
	}

	switch classifications {
	case changeType: // representation-preserving change
		c := &ChangeType{X: val}
		c.setType(typ)
		return f.emit(c)

	case sliceToArrayPtr, sliceTo0ArrayPtr: // slice to array pointer
		c := &SliceToArrayPointer{X: val}
		c.setType(typ)
		return f.emit(c)

	case sliceToArray: // slice to arrays (not zero-length)
		ptype := types.NewPointer(typ)
		p := &SliceToArrayPointer{X: val}
		p.setType(ptype)
		x := f.emit(p)
		unOp := &UnOp{Op: token.MUL, X: x}
		unOp.setType(typ)
		return f.emit(unOp)

	case sliceTo0Array: // slice to zero-length arrays (constant)
		return zeroConst(typ)

	case convert: // representation-changing conversion
		c := &Convert{X: val}
		c.setType(typ)
		return f.emit(c)

	default: // multiple conversion
		c := &MultiConvert{X: val, from: src_terms, to: dst_terms}
		c.setType(typ)
		return f.emit(c)
	}
}

// emitTypeCoercion emits to f code to coerce the type of a
// Value v to exactly type typ, and returns the coerced value.
//
// Requires that coercing v.Typ() to typ is a value preserving change.
//
// Currently used only when v.Type() is a type instance of typ or vice versa.
// A type v is a type instance of a type t if there exists a
// type parameter substitution σ s.t. σ(v) == t. Example:
//
//	σ(func(T) T) == func(int) int for σ == [T ↦ int]
//
// This happens in instantiation wrappers for conversion
// from an instantiation to a parameterized type (and vice versa)
// with σ substituting f.typeparams by f.typeargs.
func emitTypeCoercion(f *Function, v Value, typ types.Type) Value {
	if types.Identical(v.Type(), typ) {
		return v // no coercion needed
	}
	// TODO(taking): for instances should we record which side is the instance?
	c := &ChangeType{
		X: v,
	}
	c.setType(typ)
	f.emit(c)
	return c
}

// emitStore emits to f an instruction to store value val at location
// addr, applying implicit conversions as required by assignability rules.
func emitStore(f *Function, addr, val Value, pos token.Pos) *Store {
	typ := typeparams.MustDeref(addr.Type())
	s := &Store{
		Addr: addr,
		Val:  emitConv(f, val, typ),
		pos:  pos,
	}
	f.emit(s)
	return s
}

// emitJump emits to f a jump to target, and updates the control-flow graph.
// Postcondition: f.currentBlock is nil.
func emitJump(f *Function, target *BasicBlock) {
	b := f.currentBlock
	b.emit(new(Jump))
	addEdge(b, target)
	f.currentBlock = nil
}

// emitIf emits to f a conditional jump to tblock or fblock based on
// cond, and updates the control-flow graph.
// Postcondition: f.currentBlock is nil.
func emitIf(f *Function, cond Value, tblock, fblock *BasicBlock) {
	b := f.currentBlock
	b.emit(&If{Cond: cond})
	addEdge(b, tblock)
	addEdge(b, fblock)
	f.currentBlock = nil
}

// emitExtract emits to f an instruction to extract the index'th
// component of tuple.  It returns the extracted value.
func emitExtract(f *Function, tuple Value, index int) Value {
	e := &Extract{Tuple: tuple, Index: index}
	e.setType(tuple.Type().(*types.Tuple).At(index).Type())
	return f.emit(e)
}

// emitTypeAssert emits to f a type assertion value := x.(t) and
// returns the value.  x.Type() must be an interface.
func emitTypeAssert(f *Function, x Value, t types.Type, pos token.Pos) Value {
	a := &TypeAssert{X: x, AssertedType: t}
	a.setPos(pos)
	a.setType(t)
	return f.emit(a)
}

// emitTypeTest emits to f a type test value,ok := x.(t) and returns
// a (value, ok) tuple.  x.Type() must be an interface.
func emitTypeTest(f *Function, x Value, t types.Type, pos token.Pos) Value {
	a := &TypeAssert{
		X:            x,
		AssertedType: t,
		CommaOk:      true,
	}
	a.setPos(pos)
	a.setType(types.NewTuple(
		newVar("value", t),
		varOk,
	))
	return f.emit(a)
}

// emitTailCall emits to f a function call in tail position.  The
// caller is responsible for all fields of 'call' except its type.
// Intended for wrapper methods.
// Precondition: f does/will not use deferred procedure calls.
// Postcondition: f.currentBlock is nil.
func emitTailCall(f *Function, call *Call) {
	tresults := f.Signature.Results()
	nr := tresults.Len()
	if nr == 1 {
		call.typ = tresults.At(0).Type()
	} else {
		call.typ = tresults
	}
	tuple := f.emit(call)
	var ret Return
	switch nr {
	case 0:
		// no-op
	case 1:
		ret.Results = []Value{tuple}
	default:
		for i := 0; i < nr; i++ {
			v := emitExtract(f, tuple, i)
			// TODO(adonovan): in principle, this is required:
			//   v = emitConv(f, o.Type, f.Signature.Results[i].Type)
			// but in practice emitTailCall is only used when
			// the types exactly match.
			ret.Results = append(ret.Results, v)
		}
	}
	f.emit(&ret)
	f.currentBlock = nil
}

// emitImplicitSelections emits to f code to apply the sequence of
// implicit field selections specified by indices to base value v, and
// returns the selected value.
//
// If v is the address of a struct, the result will be the address of
// a field; if it is the value of a struct, the result will be the
// value of a field.
func emitImplicitSelections(f *Function, v Value, indices []int, pos token.Pos) Value {
	for _, index := range indices {
		if isPointerCore(v.Type()) {
			fld := fieldOf(typeparams.MustDeref(v.Type()), index)
			instr := &FieldAddr{
				X:     v,
				Field: index,
			}
			instr.setPos(pos)
			instr.setType(types.NewPointer(fld.Type()))
			v = f.emit(instr)
			// Load the field's value iff indirectly embedded.
			if isPointerCore(fld.Type()) {
				v = emitLoad(f, v)
			}
		} else {
			fld := fieldOf(v.Type(), index)
			instr := &Field{
				X:     v,
				Field: index,
			}
			instr.setPos(pos)
			instr.setType(fld.Type())
			v = f.emit(instr)
		}
	}
	return v
}

// emitFieldSelection emits to f code to select the index'th field of v.
//
// If wantAddr, the input must be a pointer-to-struct and the result
// will be the field's address; otherwise the result will be the
// field's value.
// Ident id is used for position and debug info.
func emitFieldSelection(f *Function, v Value, index int, wantAddr bool, id *ast.Ident) Value {
	if isPointerCore(v.Type()) {
		fld := fieldOf(typeparams.MustDeref(v.Type()), index)
		instr := &FieldAddr{
			X:     v,
			Field: index,
		}
		instr.setPos(id.Pos())
		instr.setType(types.NewPointer(fld.Type()))
		v = f.emit(instr)
		// Load the field's value iff we don't want its address.
		if !wantAddr {
			v = emitLoad(f, v)
		}
	} else {
		fld := fieldOf(v.Type(), index)
		instr := &Field{
			X:     v,
			Field: index,
		}
		instr.setPos(id.Pos())
		instr.setType(fld.Type())
		v = f.emit(instr)
	}
	emitDebugRef(f, id, v, wantAddr)
	return v
}

// createRecoverBlock emits to f a block of code to return after a
// recovered panic, and sets f.Recover to it.
//
// If f's result parameters are named, the code loads and returns
// their current values, otherwise it returns the zero values of their
// type.
//
// Idempotent.
func createRecoverBlock(f *Function) {
	if f.Recover != nil {
		return // already created
	}
	saved := f.currentBlock

	f.Recover = f.newBasicBlock("recover")
	f.currentBlock = f.Recover

	var results []Value
	// Reload NRPs to form value tuple.
	for _, nr := range f.results {
		results = append(results, emitLoad(f, nr))
	}

	f.emit(&Return{Results: results})

	f.currentBlock = saved
}
