// Copyright 2013 The Go Authors. All rights reserved.
// Use of this source code is governed by a BSD-style
// license that can be found in the LICENSE file.

package ssa

// This file defines algorithms related to dominance.

// Dominator tree construction ----------------------------------------
//
// We use the algorithm described in Lengauer & Tarjan. 1979.  A fast
// algorithm for finding dominators in a flowgraph.
// http://doi.acm.org/10.1145/357062.357071
//
// We also apply the optimizations to SLT described in Georgiadis et
// al, Finding Dominators in Practice, JGAA 2006,
// http://jgaa.info/accepted/2006/GeorgiadisTarjanWerneck2006.10.1.pdf
// to avoid the need for buckets of size > 1.

import (
	"bytes"
	"fmt"
	"math/big"
	"os"
	"sort"
)

// Idom returns the block that immediately dominates b:
// its parent in the dominator tree, if any.
// Neither the entry node (b.Index==0) nor recover node
// (b==b.Parent().Recover()) have a parent.
func (b *BasicBlock) Idom() *BasicBlock { return b.dom.idom }

// Dominees returns the list of blocks that b immediately dominates:
// its children in the dominator tree.
func (b *BasicBlock) Dominees() []*BasicBlock { return b.dom.children }

// Dominates reports whether b dominates c.
func (b *BasicBlock) Dominates(c *BasicBlock) bool {
	return b.dom.pre <= c.dom.pre && c.dom.post <= b.dom.post
}

// DomPreorder returns a new slice containing the blocks of f
// in a preorder traversal of the dominator tree.
func (f *Function) DomPreorder() []*BasicBlock {
	slice := append([]*BasicBlock(nil), f.Blocks...)
	sort.Slice(slice, func(i, j int) bool {
		return slice[i].dom.pre < slice[j].dom.pre
	})
	return slice
}

// DomPostorder returns a new slice containing the blocks of f
// in a postorder traversal of the dominator tree.
// (This is not the same as a postdominance order.)
func (f *Function) DomPostorder() []*BasicBlock {
	slice := append([]*BasicBlock(nil), f.Blocks...)
	sort.Slice(slice, func(i, j int) bool {
		return slice[i].dom.post < slice[j].dom.post
	})
	return slice
}

// domInfo contains a BasicBlock's dominance information.
type domInfo struct {
	idom      *BasicBlock   // immediate dominator (parent in domtree)
	children  []*BasicBlock // nodes immediately dominated by this one
	pre, post int32         // pre- and post-order numbering within domtree
}

// ltState holds the working state for Lengauer-Tarjan algorithm
// (during which domInfo.pre is repurposed for CFG DFS preorder number).
type ltState struct {
	// Each slice is indexed by b.Index.
	sdom     []*BasicBlock // b's semidominator
	parent   []*BasicBlock // b's parent in DFS traversal of CFG
	ancestor []*BasicBlock // b's ancestor with least sdom
}

// dfs implements the depth-first search part of the LT algorithm.
func (lt *ltState) dfs(v *BasicBlock, i int32, preorder []*BasicBlock) int32 {
	preorder[i] = v
	v.dom.pre = i // For now: DFS preorder of spanning tree of CFG
	i++
	lt.sdom[v.Index] = v
	lt.link(nil, v)
	for _, w := range v.Succs {
		if lt.sdom[w.Index] == nil {
			lt.parent[w.Index] = v
			i = lt.dfs(w, i, preorder)
		}
	}
	return i
}

// eval implements the EVAL part of the LT algorithm.
func (lt *ltState) eval(v *BasicBlock) *BasicBlock {
	// TODO(adonovan): opt: do path compression per simple LT.
	u := v
	for ; lt.ancestor[v.Index] != nil; v = lt.ancestor[v.Index] {
		if lt.sdom[v.Index].dom.pre < lt.sdom[u.Index].dom.pre {
			u = v
		}
	}
	return u
}

// link implements the LINK part of the LT algorithm.
func (lt *ltState) link(v, w *BasicBlock) {
	lt.ancestor[w.Index] = v
}

// buildDomTree computes the dominator tree of f using the LT algorithm.
// Precondition: all blocks are reachable (e.g. optimizeBlocks has been run).
func buildDomTree(f *Function) {
	// The step numbers refer to the original LT paper; the
	// reordering is due to Georgiadis.

	// Clear any previous domInfo.
	for _, b := range f.Blocks {
		b.dom = domInfo{}
	}

	n := len(f.Blocks)
	// Allocate space for 5 contiguous [n]*BasicBlock arrays:
	// sdom, parent, ancestor, preorder, buckets.
	space := make([]*BasicBlock, 5*n)
	lt := ltState{
		sdom:     space[0:n],
		parent:   space[n : 2*n],
		ancestor: space[2*n : 3*n],
	}

	// Step 1.  Number vertices by depth-first preorder.
	preorder := space[3*n : 4*n]
	root := f.Blocks[0]
	prenum := lt.dfs(root, 0, preorder)
	recover := f.Recover
	if recover != nil {
		lt.dfs(recover, prenum, preorder)
	}

	buckets := space[4*n : 5*n]
	copy(buckets, preorder)

	// In reverse preorder...
	for i := int32(n) - 1; i > 0; i-- {
		w := preorder[i]

		// Step 3. Implicitly define the immediate dominator of each node.
		for v := buckets[i]; v != w; v = buckets[v.dom.pre] {
			u := lt.eval(v)
			if lt.sdom[u.Index].dom.pre < i {
				v.dom.idom = u
			} else {
				v.dom.idom = w
			}
		}

		// Step 2. Compute the semidominators of all nodes.
		lt.sdom[w.Index] = lt.parent[w.Index]
		for _, v := range w.Preds {
			u := lt.eval(v)
			if lt.sdom[u.Index].dom.pre < lt.sdom[w.Index].dom.pre {
				lt.sdom[w.Index] = lt.sdom[u.Index]
			}
		}

		lt.link(lt.parent[w.Index], w)

		if lt.parent[w.Index] == lt.sdom[w.Index] {
			w.dom.idom = lt.parent[w.Index]
		} else {
			buckets[i] = buckets[lt.sdom[w.Index].dom.pre]
			buckets[lt.sdom[w.Index].dom.pre] = w
		}
	}

	// The final 'Step 3' is now outside the loop.
	for v := buckets[0]; v != root; v = buckets[v.dom.pre] {
		v.dom.idom = root
	}

	// Step 4. Explicitly define the immediate dominator of each
	// node, in preorder.
	for _, w := range preorder[1:] {
		if w == root || w == recover {
			w.dom.idom = nil
		} else {
			if w.dom.idom != lt.sdom[w.Index] {
				w.dom.idom = w.dom.idom.dom.idom
			}
			// Calculate Children relation as inverse of Idom.
			w.dom.idom.dom.children = append(w.dom.idom.dom.children, w)
		}
	}

	pre, post := numberDomTree(root, 0, 0)
	if recover != nil {
		numberDomTree(recover, pre, post)
	}

	// printDomTreeDot(os.Stderr, f)        // debugging
	// printDomTreeText(os.Stderr, root, 0) // debugging

	if f.Prog.mode&SanityCheckFunctions != 0 {
		sanityCheckDomTree(f)
	}
}

// numberDomTree sets the pre- and post-order numbers of a depth-first
// traversal of the dominator tree rooted at v.  These are used to
// answer dominance queries in constant time.
func numberDomTree(v *BasicBlock, pre, post int32) (int32, int32) {
	v.dom.pre = pre
	pre++
	for _, child := range v.dom.children {
		pre, post = numberDomTree(child, pre, post)
	}
	v.dom.post = post
	post++
	return pre, post
}

// Testing utilities ----------------------------------------

// sanityCheckDomTree checks the correctness of the dominator tree
// computed by the LT algorithm by comparing against the dominance
// relation computed by a naive Kildall-style forward dataflow
// analysis (Algorithm 10.16 from the "Dragon" book).
func sanityCheckDomTree(f *Function) {
	n := len(f.Blocks)

	// D[i] is the set of blocks that dominate f.Blocks[i],
	// represented as a bit-set of block indices.
	D := make([]big.Int, n)

	one := big.NewInt(1)

	// all is the set of all blocks; constant.
	var all big.Int
	all.Set(one).Lsh(&all, uint(n)).Sub(&all, one)

	// Initialization.
	for i, b := range f.Blocks {
		if i == 0 || b == f.Recover {
			// A root is dominated only by itself.
			D[i].SetBit(&D[0], 0, 1)
		} else {
			// All other blocks are (initially) dominated
			// by every block.
			D[i].Set(&all)
		}
	}

	// Iteration until fixed point.
	for changed := true; changed; {
		changed = false
		for i, b := range f.Blocks {
			if i == 0 || b == f.Recover {
				continue
			}
			// Compute intersection across predecessors.
			var x big.Int
			x.Set(&all)
			for _, pred := range b.Preds {
				x.And(&x, &D[pred.Index])
			}
			x.SetBit(&x, i, 1) // a block always dominates itself.
			if D[i].Cmp(&x) != 0 {
				D[i].Set(&x)
				changed = true
			}
		}
	}

	// Check the entire relation.  O(n^2).
	// The Recover block (if any) must be treated specially so we skip it.
	ok := true
	for i := 0; i < n; i++ {
		for j := 0; j < n; j++ {
			b, c := f.Blocks[i], f.Blocks[j]
			if c == f.Recover {
				continue
			}
			actual := b.Dominates(c)
			expected := D[j].Bit(i) == 1
			if actual != expected {
				fmt.Fprintf(os.Stderr, "dominates(%s, %s)==%t, want %t\n", b, c, actual, expected)
				ok = false
			}
		}
	}

	preorder := f.DomPreorder()
	for _, b := range f.Blocks {
		if got := preorder[b.dom.pre]; got != b {
			fmt.Fprintf(os.Stderr, "preorder[%d]==%s, want %s\n", b.dom.pre, got, b)
			ok = false
		}
	}

	if !ok {
		panic("sanityCheckDomTree failed for " + f.String())
	}

}

// Printing functions ----------------------------------------

// printDomTreeText prints the dominator tree as text, using indentation.
func printDomTreeText(buf *bytes.Buffer, v *BasicBlock, indent int) {
	fmt.Fprintf(buf, "%*s%s\n", 4*indent, "", v)
	for _, child := range v.dom.children {
		printDomTreeText(buf, child, indent+1)
	}
}

// printDomTreeDot prints the dominator tree of f in AT&T GraphViz
// (.dot) format.
// (unused; retained for debugging)
func printDomTreeDot(buf *bytes.Buffer, f *Function) {
	fmt.Fprintln(buf, "//", f)
	fmt.Fprintln(buf, "digraph domtree {")
	for i, b := range f.Blocks {
		v := b.dom
		fmt.Fprintf(buf, "\tn%d [label=\"%s (%d, %d)\",shape=\"rectangle\"];\n", v.pre, b, v.pre, v.post)
		// TODO(adonovan): improve appearance of edges
		// belonging to both dominator tree and CFG.

		// Dominator tree edge.
		if i != 0 {
			fmt.Fprintf(buf, "\tn%d -> n%d [style=\"solid\",weight=100];\n", v.idom.dom.pre, v.pre)
		}
		// CFG edges.
		for _, pred := range b.Preds {
			fmt.Fprintf(buf, "\tn%d -> n%d [style=\"dotted\",weight=0];\n", pred.dom.pre, v.pre)
		}
	}
	fmt.Fprintln(buf, "}")
}
