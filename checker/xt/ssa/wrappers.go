// Copyright 2013 The Go Authors. All rights reserved.
// Use of this source code is governed by a BSD-style
// license that can be found in the LICENSE file.

package ssa

// This file defines synthesis of Functions that delegate to declared
// methods; they come in three kinds:
//
// (1) wrappers: methods that wrap declared methods, performing
//     implicit pointer indirections and embedded field selections.
//
// (2) thunks: funcs that wrap declared methods.  Like wrappers,
//     thunks perform indirections and field selections. The thunk's
//     first parameter is used as the receiver for the method call.
//
// (3) bounds: funcs that wrap declared methods.  The bound's sole
//     free variable, supplied by a closure, is used as the receiver
//     for the method call.  No indirections or field selections are
//     performed since they can be done before the call.

import (
	"fmt"

	"go/token"
	"go/types"

	"ikeverif/checker/xt/typeparams"
)

// -- wrappers -----------------------------------------------------------

// createWrapper returns a synthetic method that delegates to the
// declared method denoted by meth.Obj(), first performing any
// necessary pointer indirections or field selections implied by meth.
//
// The resulting method's receiver type is meth.Recv().
//
// This function is versatile but quite subtle!  Consider the
// following axes of variation when making changes:
//   - optional receiver indirection
//   - optional implicit field selections
//   - meth.Obj() may denote a concrete or an interface method
//   - the result may be a thunk or a wrapper.
func createWrapper(prog *Program, sel *selection) *Function {
	obj := sel.obj.(*types.Func)      // the declared function
	sig := sel.typ.(*types.Signature) // type of this wrapper

	var recv *types.Var // wrapper's receiver or thunk's params[0]
	name := obj.Name()
	var description string
	if sel.kind == types.MethodExpr {
		name += "$thunk"
		description = "thunk"
		recv = sig.Params().At(0)
	} else {
		description = "wrapper"
		recv = sig.Recv()
	}

	description = fmt.Sprintf("%s for %s", description, sel.obj)
	if prog.mode&LogSource != 0 {
		defer logStack("create %s to (%s)", description, recv.Type())()
	}
	/* method wrapper */
	return &Function{
		name:      name,
		method:    sel,
		object:    obj,
		Signature: sig,
		Synthetic: description,
		Prog:      prog,
		pos:       obj.Pos(),
		// wrappers have no syntax
		build:     (*builder).buildWrapper,
		syntax:    nil,
		info:      nil,
		goversion: "",
	}
}

// buildWrapper builds fn.Body for a method wrapper.
func (b *builder) buildWrapper(fn *Function) {
	var recv *types.Var // wrapper's receiver or thunk's params[0]
	var start int       // first regular param
	if fn.method.kind == types.MethodExpr {
		recv = fn.Signature.Params().At(0)
		start = 1
	} else {
		recv = fn.Signature.Recv()
	}

	fn.startBody()
	fn.addSpilledParam(recv)
	createParams(fn, start)

	indices := fn.method.index

	var v Value = fn.Locals[0] // spilled receiver
	if isPointer(fn.method.recv) {
		v = emitLoad(fn, v)

		// For simple indirection wrappers, perform an informative nil-check:
		// "value method (T).f called using nil *T pointer"
		if len(indices) == 1 && !isPointer(recvType(fn.object)) {
			var c Call
			c.Call.Value = &Builtin{
				name: "ssa:wrapnilchk",
				sig: types.NewSignature(nil,
					types.NewTuple(anonVar(fn.method.recv), anonVar(tString), anonVar(tString)),
					types.NewTuple(anonVar(fn.method.recv)), false),
			}
			c.Call.Args = []Value{
				v,
				stringConst(typeparams.MustDeref(fn.method.recv).String()),
				stringConst(fn.method.obj.Name()),
			}
			c.setType(v.Type())
			v = fn.emit(&c)
		}
	}

	// Invariant: v is a pointer, either
	//   value of *A receiver param, or
	// address of  A spilled receiver.

	// We use pointer arithmetic (FieldAddr possibly followed by
	// Load) in preference to value extraction (Field possibly
	// preceded by Load).

	v = emitImplicitSelections(fn, v, indices[:len(indices)-1], token.NoPos)

	// Invariant: v is a pointer, either
	//   value of implicit *C field, or
	// address of implicit  C field.

	var c Call
	if r := recvType(fn.object); !types.IsInterface(r) { // concrete method
		if !isPointer(r) {
			v = emitLoad(fn, v)
		}
		c.Call.Value = fn.Prog.objectMethod(fn.object, b)
		c.Call.Args = append(c.Call.Args, v)
	} else {
		c.Call.Method = fn.object
		c.Call.Value = emitLoad(fn, v) // interface (possibly a typeparam)
	}
	for _, arg := range fn.Params[1:] {
		c.Call.Args = append(c.Call.Args, arg)
	}
	emitTailCall(fn, &c)
	fn.finishBody()
}

// createParams creates parameters for wrapper method fn based on its
// Signature.Params, which do not include the receiver.
// start is the index of the first regular parameter to use.
func createParams(fn *Function, start int) {
	tparams := fn.Signature.Params()
	for i, n := start, tparams.Len(); i < n; i++ {
		fn.addParamVar(tparams.At(i))
	}
}

// -- bounds -----------------------------------------------------------

// createBound returns a bound method wrapper (or "bound"), a synthetic
// function that delegates to a concrete or interface method denoted
// by obj.  The resulting function has no receiver, but has one free
// variable which will be used as the method's receiver in the
// tail-call.
//
// Use MakeClosure with such a wrapper to construct a bound method
// closure.  e.g.:
//
//	type T int          or:  type T interface { meth() }
//	func (t T) meth()
//	var t T
//	f := t.meth
//	f() // calls t.meth()
//
// f is a closure of a synthetic wrapper defined as if by:
//
//	f := func() { return t.meth() }
//
// Unlike createWrapper, createBound need perform no indirection or field
// selections because that can be done before the closure is
// constructed.
func createBound(prog *Program, obj *types.Func) *Function {
	description := fmt.Sprintf("bound method wrapper for %s", obj)
	if prog.mode&LogSource != 0 {
		defer logStack("%s", description)()
	}
	/* bound method wrapper */
	fn := &Function{
		name:      obj.Name() + "$bound",
		object:    obj,
		Signature: changeRecv(obj.Type().(*types.Signature), nil), // drop receiver
		Synthetic: description,
		Prog:      prog,
		pos:       obj.Pos(),
		// wrappers have no syntax
		build:     (*builder).buildBound,
		syntax:    nil,
		info:      nil,
		goversion: "",
	}
	fn.FreeVars = []*FreeVar{{name: "recv", typ: recvType(obj), parent: fn}} // (cyclic)
	return fn
}

// buildBound builds fn.Body for a bound method closure.
func (b *builder) buildBound(fn *Function) {
	fn.startBody()
	createParams(fn, 0)
	var c Call

	recv := fn.FreeVars[0]
	if !types.IsInterface(recvType(fn.object)) { // concrete
		c.Call.Value = fn.Prog.objectMethod(fn.object, b)
		c.Call.Args = []Value{recv}
	} else {
		c.Call.Method = fn.object
		c.Call.Value = recv // interface (possibly a typeparam)
	}
	for _, arg := range fn.Params {
		c.Call.Args = append(c.Call.Args, arg)
	}
	emitTailCall(fn, &c)
	fn.finishBody()
}

// -- thunks -----------------------------------------------------------

// createThunk returns a thunk, a synthetic function that delegates to a
// concrete or interface method denoted by sel.obj.  The resulting
// function has no receiver, but has an additional (first) regular
// parameter.
//
// Precondition: sel.kind == types.MethodExpr.
//
//	type T int          or:  type T interface { meth() }
//	func (t T) meth()
//	f := T.meth
//	var t T
//	f(t) // calls t.meth()
//
// f is a synthetic wrapper defined as if by:
//
//	f := func(t T) { return t.meth() }
func createThunk(prog *Program, sel *selection) *Function {
	if sel.kind != types.MethodExpr {
		panic(sel)
	}

	fn := createWrapper(prog, sel)
	if fn.Signature.Recv() != nil {
		panic(fn) // unexpected receiver
	}

	return fn
}

func changeRecv(s *types.Signature, recv *types.Var) *types.Signature {
	return types.NewSignature(recv, s.Params(), s.Results(), s.Variadic())
}

// A local version of *types.Selection.
// Needed for some additional control, such as creating a MethodExpr for an instantiation.
type selection struct {
	kind     types.SelectionKind
	recv     types.Type
	typ      types.Type
	obj      types.Object
	index    []int
	indirect bool
}

func toSelection(sel *types.Selection) *selection {
	return &selection{
		kind:     sel.Kind(),
		recv:     sel.Recv(),
		typ:      sel.Type(),
		obj:      sel.Obj(),
		index:    sel.Index(),
		indirect: sel.Indirect(),
	}
}

// -- instantiations --------------------------------------------------

// buildInstantiationWrapper builds the body of an instantiation
// wrapper fn. The body calls the original generic function,
// bracketed by ChangeType conversions on its arguments and results.
func (b *builder) buildInstantiationWrapper(fn *Function) {
	orig := fn.topLevelOrigin
	sig := fn.Signature

	fn.startBody()
	if sig.Recv() != nil {
		fn.addParamVar(sig.Recv())
	}
	createParams(fn, 0)

	// Create body. Add a call to origin generic function
	// and make type changes between argument and parameters,
	// as well as return values.
	var c Call
	c.Call.Value = orig
	if res := orig.Signature.Results(); res.Len() == 1 {
		c.typ = res.At(0).Type()
	} else {
		c.typ = res
	}

	// parameter of instance becomes an argument to the call
	// to the original generic function.
	argOffset := 0
	for i, arg := range fn.Params {
		var typ types.Type
		if i == 0 && sig.Recv() != nil {
			typ = orig.Signature.Recv().Type()
			argOffset = 1
		} else {
			typ = orig.Signature.Params().At(i - argOffset).Type()
		}
		c.Call.Args = append(c.Call.Args, emitTypeCoercion(fn, arg, typ))
	}

	results := fn.emit(&c)
	var ret Return
	switch res := sig.Results(); res.Len() {
	case 0:
		// no results, do nothing.
	case 1:
		ret.Results = []Value{emitTypeCoercion(fn, results, res.At(0).Type())}
	default:
		for i := 0; i < sig.Results().Len(); i++ {
			v := emitExtract(fn, results, i)
			ret.Results = append(ret.Results, emitTypeCoercion(fn, v, res.At(i).Type()))
		}
	}

	fn.emit(&ret)
	fn.currentBlock = nil

	fn.finishBody()
}
