// Copyright 2013 The Go Authors. All rights reserved.
// Use of this source code is governed by a BSD-style
// license that can be found in the LICENSE file.

package ssa

// This file implements the CREATE phase of SSA construction.
// See builder.go for explanation.

import (
	"fmt"
	"go/ast"
	"go/token"
	"go/types"
	"os"
	"sync"

	"ikeverif/checker/xt/versions"
)

// NewProgram returns a new SSA Program.
//
// mode controls diagnostics and checking during SSA construction.
//
// To construct an SSA program:
//
//   - Call NewProgram to create an empty Program.
//   - Call CreatePackage providing typed syntax for each package
//     you want to build, and call it with types but not
//     syntax for each of those package's direct dependencies.
//   - Call [Package.Build] on each syntax package you wish to build,
//     or [Program.Build] to build all of them.
//
// See the Example tests for simple examples.
func NewProgram(fset *token.FileSet, mode BuilderMode) *Program {
	return &Program{
		Fset:     fset,
		imported: make(map[string]*Package),
		packages: make(map[*types.Package]*Package),
		mode:     mode,
		canon:    newCanonizer(),
		ctxt:     types.NewContext(),
	}
}

// memberFromObject populates package pkg with a member for the
// typechecker object obj.
//
// For objects from Go source code, syntax is the associated syntax
// tree (for funcs and vars only) and goversion defines the
// appropriate interpretation; they will be used during the build
// phase.
func memberFromObject(pkg *Package, obj types.Object, syntax ast.Node, goversion string) {
	name := obj.Name()
	switch obj := obj.(type) {
	case *types.Builtin:
		if pkg.Pkg != types.Unsafe {
			panic("unexpected builtin object: " + obj.String())
		}

	case *types.TypeName:
		if name != "_" {
			pkg.Members[name] = &Type{
				object: obj,
				pkg:    pkg,
			}
		}

	case *types.Const:
		c := &NamedConst{
			object: obj,
			Value:  NewConst(obj.Val(), obj.Type()),
			pkg:    pkg,
		}
		pkg.objects[obj] = c
		if name != "_" {
			pkg.Members[name] = c
		}

	case *types.Var:
		g := &Global{
			Pkg:    pkg,
			name:   name,
			object: obj,
			typ:    types.NewPointer(obj.Type()), // address
			pos:    obj.Pos(),
		}
		pkg.objects[obj] = g
		if name != "_" {
			pkg.Members[name] = g
		}

	case *types.Func:
		sig := obj.Type().(*types.Signature)
		if sig.Recv() == nil && name == "init" {
			pkg.ninit++
			name = fmt.Sprintf("init#%d", pkg.ninit)
		}
		fn := createFunction(pkg.Prog, obj, name, syntax, pkg.info, goversion)
		fn.Pkg = pkg
		pkg.created = append(pkg.created, fn)
		pkg.objects[obj] = fn
		if name != "_" && sig.Recv() == nil {
			pkg.Members[name] = fn // package-level function
		}

	default: // (incl. *types.Package)
		panic("unexpected Object type: " + obj.String())
	}
}

// createFunction creates a function or method. It supports both
// CreatePackage (with or without syntax) and the on-demand creation
// of methods in non-created packages based on their types.Func.
func createFunction(prog *Program, obj *types.Func, name string, syntax ast.Node, info *types.Info, goversion string) *Function {
	sig := obj.Type().(*types.Signature)

	// Collect type parameters.
	var tparams *types.TypeParamList
	if rtparams := sig.RecvTypeParams(); rtparams.Len() > 0 {
		tparams = rtparams // method of generic type
	} else if sigparams := sig.TypeParams(); sigparams.Len() > 0 {
		tparams = sigparams // generic function
	}

	/* declared function/method (from syntax or export data) */
	fn := &Function{
		name:       name,
		object:     obj,
		Signature:  sig,
		build:      (*builder).buildFromSyntax,
		syntax:     syntax,
		info:       info,
		goversion:  goversion,
		pos:        obj.Pos(),
		Pkg:        nil, // may be set by caller
		Prog:       prog,
		typeparams: tparams,
	}
	if fn.syntax == nil {
		fn.Synthetic = "from type information"
		fn.build = (*builder).buildParamsOnly
	}
	if tparams.Len() > 0 {
		fn.generic = new(generic)
	}
	return fn
}

// membersFromDecl populates package pkg with members for each
// typechecker object (var, func, const or type) associated with the
// specified decl.
func membersFromDecl(pkg *Package, decl ast.Decl, goversion string) {
	switch decl := decl.(type) {
	case *ast.GenDecl: // import, const, type or var
		switch decl.Tok {
		case token.CONST:
			for _, spec := range decl.Specs {
				for _, id := range spec.(*ast.ValueSpec).Names {
					memberFromObject(pkg, pkg.info.Defs[id], nil, "")
				}
			}

		case token.VAR:
			for _, spec := range decl.Specs {
				for _, rhs := range spec.(*ast.ValueSpec).Values {
					pkg.initVersion[rhs] = goversion
				}
				for _, id := range spec.(*ast.ValueSpec).Names {
					memberFromObject(pkg, pkg.info.Defs[id], spec, goversion)
				}
			}

		case token.TYPE:
			for _, spec := range decl.Specs {
				id := spec.(*ast.TypeSpec).Name
				memberFromObject(pkg, pkg.info.Defs[id], nil, "")
			}
		}

	case *ast.FuncDecl:
		id := decl.Name
		memberFromObject(pkg, pkg.info.Defs[id], decl, goversion)
	}
}

// CreatePackage creates and returns an SSA Package from the
// specified type-checked, error-free file ASTs, and populates its
// Members mapping.
//
// importable determines whether this package should be returned by a
// subsequent call to ImportedPackage(pkg.Path()).
//
// The real work of building SSA form for each function is not done
// until a subsequent call to Package.Build.
func (prog *Program) CreatePackage(pkg *types.Package, files []*ast.File, info *types.Info, importable bool) *Package {
	if pkg == nil {
		panic("nil pkg") // otherwise pkg.Scope below returns types.Universe!
	}
	p := &Package{
		Prog:    prog,
		Members: make(map[string]Member),
		objects: make(map[types.Object]Member),
		Pkg:     pkg,
		syntax:  info != nil,
		// transient values (cleared after Package.Build)
		info:        info,
		files:       files,
		initVersion: make(map[ast.Expr]string),
	}

	/* synthesized package initializer */
	p.init = &Function{
		name:      "init",
		Signature: new(types.Signature),
		Synthetic: "package initializer",
		Pkg:       p,
		Prog:      prog,
		build:     (*builder).buildPackageInit,
		info:      p.info,
		goversion: "", // See Package.build for details.
	}
	p.Members[p.init.name] = p.init
	p.created = append(p.created, p.init)

	// Allocate all package members: vars, funcs, consts and types.
	if len(files) > 0 {
		// Go source package.
		for _, file := range files {
			goversion := versions.Lang(versions.FileVersion(p.info, file))
			for _, decl := range file.Decls {
				membersFromDecl(p, decl, goversion)
			}
		}
	} else {
		// GC-compiled binary package (or "unsafe")
		// No code.
		// No position information.
		scope := p.Pkg.Scope()
		for _, name := range scope.Names() {
			obj := scope.Lookup(name)
			memberFromObject(p, obj, nil, "")
			if obj, ok := obj.(*types.TypeName); ok {
				// No Unalias: aliases should not duplicate methods.
				if named, ok := obj.Type().(*types.Named); ok {
					for i, n := 0, named.NumMethods(); i < n; i++ {
						memberFromObject(p, named.Method(i), nil, "")
					}
				}
			}
		}
	}

	if prog.mode&BareInits == 0 {
		// Add initializer guard variable.
		initguard := &Global{
			Pkg:  p,
			name: "init$guard",
			typ:  types.NewPointer(tBool),
		}
		p.Members[initguard.Name()] = initguard
	}

	if prog.mode&GlobalDebug != 0 {
		p.SetDebugMode(true)
	}

	if prog.mode&PrintPackages != 0 {
		printMu.Lock()
		p.WriteTo(os.Stdout)
		printMu.Unlock()
	}

	if importable {
		prog.imported[p.Pkg.Path()] = p
	}
	prog.packages[p.Pkg] = p

	return p
}

// printMu serializes printing of Packages/Functions to stdout.
var printMu sync.Mutex

// AllPackages returns a new slice containing all packages created by
// prog.CreatePackage in unspecified order.
func (prog *Program) AllPackages() []*Package {
	pkgs := make([]*Package, 0, len(prog.packages))
	for _, pkg := range prog.packages {
		pkgs = append(pkgs, pkg)
	}
	return pkgs
}

// ImportedPackage returns the importable Package whose PkgPath
// is path, or nil if no such Package has been created.
//
// A parameter to CreatePackage determines whether a package should be
// considered importable. For example, no import declaration can resolve
// to the ad-hoc main package created by 'go build foo.go'.
//
// TODO(adonovan): rethink this function and the "importable" concept;
// most packages are importable. This function assumes that all
// types.Package.Path values are unique within the ssa.Program, which is
// false---yet this function remains very convenient.
// Clients should use (*Program).Package instead where possible.
// SSA doesn't really need a string-keyed map of packages.
//
// Furthermore, the graph of packages may contain multiple variants
// (e.g. "p" vs "p as compiled for q.test"), and each has a different
// view of its dependencies.
func (prog *Program) ImportedPackage(path string) *Package {
	return prog.imported[path]
}
