// This file is NOT part of golang.org/x/tools: it was added to the vendored copy of go/ssa by the
// ikeverif checker. It inlines direct calls to small helper functions into their callers, after the
// program has been built, so that analyses which recognise the shape of ONE function are not defeated by
// the "extract helper" refactoring. The callee is left untouched; the caller's body is rewritten in place
// (blocks cloned, the call replaced by jumps and φ-nodes), then renumbered, and its referrer lists and
// dominator tree are rebuilt.

package ssa

import (
	"fmt"
	"go/constant"
	"go/types"
	"os"
)

// InlineOptions selects the calls to inline.
type InlineOptions struct {
	// Callee decides whether direct calls to g may be inlined (policy of the client).
	Callee func(g *Function) bool
	// MaxInstrs bounds the size of an inlinable callee (0 = 400).
	MaxInstrs int
	// MaxRounds bounds nested inlining (0 = 3).
	MaxRounds int
}

// InlineResult reports what was done.
type InlineResult struct {
	Inlined []string // "caller <- callee" per inlined call site
}

// inlinable: g can be inlined at a call whose callee value is v (a *Function, or the *MakeClosure of the
// caller that binds g's free variables: a local closure such as `nextKey := func(n int) []byte {...}` is then
// folded back into the statements it abbreviates).
func inlinable(g *Function, max int, v Value) bool {
	// (a function literal of g is an obstacle only while g still makes a closure of it - the MakeClosure test
	// below; one whose every call was folded into g, or that captures nothing, is not)
	if g == nil || g.Blocks == nil || g.Recover != nil {
		return false
	}
	if mc, ok := v.(*MakeClosure); ok {
		if len(mc.Bindings) != len(g.FreeVars) {
			return false
		}
	} else if len(g.FreeVars) > 0 {
		return false
	}
	// a generic function's body is not code; its instances (built in full under InstantiateGenerics) are
	if g.typeparams.Len() > 0 && len(g.typeargs) == 0 {
		return false
	}
	if g.Synthetic != "" && len(g.typeargs) == 0 {
		return false
	}
	n := 0
	for _, b := range g.Blocks {
		for _, ins := range b.Instrs {
			n++
			switch ins.(type) {
			case *Defer, *RunDefers, *Go, *Select, *MakeClosure:
				return false
			case *Return:
				// a closure that assigns to named results of its own and returns them implicitly is fine; one
				// that is the body of a deferred call is not reached here (Defer above)
			}
		}
	}
	return n <= max
}

func callsItself(g *Function) bool {
	for _, b := range g.Blocks {
		for _, ins := range b.Instrs {
			if c, ok := ins.(*Call); ok && c.Call.StaticCallee() == g {
				return true
			}
		}
	}
	return false
}

// InlineCalls inlines, in every function of fns, the direct calls selected by opt.
func InlineCalls(fns []*Function, opt InlineOptions) *InlineResult {
	res := &InlineResult{}
	max := opt.MaxInstrs
	if max == 0 {
		max = 400
	}
	rounds := opt.MaxRounds
	if rounds == 0 {
		rounds = 3
	}
	for r := 0; r < rounds; r++ {
		changed := false
		for _, f := range fns {
			if f.Blocks == nil {
				continue
			}
			for {
				call := findInlinableCall(f, opt, max)
				if call == nil {
					break
				}
				g := call.Call.StaticCallee()
				inlineOne(f, call, g)
				simplifyPhis(f) // several return sites yielding the same value
				res.Inlined = append(res.Inlined, f.String()+" <- "+g.String())
				changed = true
			}
		}
		if !changed {
			break
		}
	}
	return res
}

func findInlinableCall(f *Function, opt InlineOptions, max int) *Call {
	total := 0
	for _, b := range f.Blocks {
		total += len(b.Instrs)
	}
	if total > 20000 {
		return nil
	}
	for _, b := range f.Blocks {
		for _, ins := range b.Instrs {
			c, ok := ins.(*Call)
			if !ok || c.Call.IsInvoke() {
				continue
			}
			g := c.Call.StaticCallee()
			if g == nil || g == f || !inlinable(g, max, c.Call.Value) || callsItself(g) {
				continue
			}
			if mc, ok := c.Call.Value.(*MakeClosure); ok && mc.Parent() != f {
				continue
			}
			if opt.Callee != nil && !opt.Callee(g) {
				continue
			}
			if len(c.Call.Args) != len(g.Params) {
				continue
			}
			return c
		}
	}
	return nil
}

func cloneInstr(ins Instruction) Instruction {
	switch x := ins.(type) {
	case *Alloc:
		n := *x
		return &n
	case *BinOp:
		n := *x
		return &n
	case *Call:
		n := *x
		n.Call.Args = append([]Value(nil), x.Call.Args...)
		return &n
	case *ChangeInterface:
		n := *x
		return &n
	case *ChangeType:
		n := *x
		return &n
	case *Convert:
		n := *x
		return &n
	case *MultiConvert:
		n := *x
		return &n
	case *SliceToArrayPointer:
		n := *x
		return &n
	case *DebugRef:
		n := *x
		return &n
	case *Extract:
		n := *x
		return &n
	case *Field:
		n := *x
		return &n
	case *FieldAddr:
		n := *x
		return &n
	case *If:
		n := *x
		return &n
	case *Index:
		n := *x
		return &n
	case *IndexAddr:
		n := *x
		return &n
	case *Jump:
		n := *x
		return &n
	case *Lookup:
		n := *x
		return &n
	case *MakeChan:
		n := *x
		return &n
	case *MakeInterface:
		n := *x
		return &n
	case *MakeMap:
		n := *x
		return &n
	case *MakeSlice:
		n := *x
		return &n
	case *MapUpdate:
		n := *x
		return &n
	case *Next:
		n := *x
		return &n
	case *Panic:
		n := *x
		return &n
	case *Phi:
		n := *x
		n.Edges = append([]Value(nil), x.Edges...)
		return &n
	case *Range:
		n := *x
		return &n
	case *Return:
		n := *x
		n.Results = append([]Value(nil), x.Results...)
		return &n
	case *Send:
		n := *x
		return &n
	case *Slice:
		n := *x
		return &n
	case *Store:
		n := *x
		return &n
	case *TypeAssert:
		n := *x
		return &n
	case *UnOp:
		n := *x
		return &n
	}
	return nil
}

type blockSetter interface{ setBlock(*BasicBlock) }

// inlineOne replaces call (an instruction of f) by a copy of g's body.
func inlineOne(f *Function, call *Call, g *Function) {
	b := call.Block()
	idx := -1
	for i, ins := range b.Instrs {
		if ins == Instruction(call) {
			idx = i
		}
	}
	if idx < 0 {
		return
	}
	// continuation block: the instructions after the call, and b's successors
	k := &BasicBlock{Comment: "inline.cont", parent: f}
	k.Instrs = append(k.Instrs, b.Instrs[idx+1:]...)
	for _, ins := range k.Instrs {
		ins.(blockSetter).setBlock(k)
	}
	k.Succs = append(k.Succs, b.Succs...)
	for _, s := range k.Succs {
		s.replacePred(b, k)
	}
	b.Instrs = b.Instrs[:idx:idx]
	b.Succs = nil

	// clone g
	vmap := map[Value]Value{}
	for i, p := range g.Params {
		vmap[p] = call.Call.Args[i]
	}
	if mc, ok := call.Call.Value.(*MakeClosure); ok {
		for i, fv := range g.FreeVars {
			vmap[fv] = mc.Bindings[i]
		}
	}
	bmap := map[*BasicBlock]*BasicBlock{}
	var clones []*BasicBlock
	for _, gb := range g.Blocks {
		nb := &BasicBlock{Comment: "inline." + g.Name() + "." + gb.Comment, parent: f}
		bmap[gb] = nb
		clones = append(clones, nb)
	}
	type retSite struct {
		blk     *BasicBlock
		results []Value
	}
	var rets []retSite
	var cloned []Instruction
	for _, gb := range g.Blocks {
		nb := bmap[gb]
		for _, ins := range gb.Instrs {
			if r, ok := ins.(*Return); ok {
				rets = append(rets, retSite{nb, append([]Value(nil), r.Results...)})
				j := &Jump{}
				j.setBlock(nb)
				nb.Instrs = append(nb.Instrs, j)
				continue
			}
			ni := cloneInstr(ins)
			if ni == nil {
				panic("ssa inline: cannot clone " + ins.String())
			}
			ni.(blockSetter).setBlock(nb)
			if v, ok := ins.(Value); ok {
				vmap[v] = ni.(Value)
			}
			if a, ok := ni.(*Alloc); ok && !a.Heap {
				a.index = len(f.Locals)
				f.Locals = append(f.Locals, a)
			}
			nb.Instrs = append(nb.Instrs, ni)
			cloned = append(cloned, ni)
		}
		for _, s := range gb.Succs {
			nb.Succs = append(nb.Succs, bmap[s])
		}
		for _, p := range gb.Preds {
			nb.Preds = append(nb.Preds, bmap[p])
		}
	}
	remap := func(v Value) Value {
		if nv, ok := vmap[v]; ok {
			return nv
		}
		return v
	}
	var rands []*Value
	for _, ni := range cloned {
		rands = ni.Operands(rands[:0])
		for _, p := range rands {
			if *p != nil {
				*p = remap(*p)
			}
		}
	}
	for i := range rets {
		for j, v := range rets[i].results {
			rets[i].results[j] = remap(v)
		}
	}
	// b jumps into the clone of g's entry
	entry := bmap[g.Blocks[0]]
	jb := &Jump{}
	jb.setBlock(b)
	b.Instrs = append(b.Instrs, jb)
	b.Succs = []*BasicBlock{entry}
	entry.Preds = append(entry.Preds, b)
	// every return jumps to the continuation
	for _, rs := range rets {
		rs.blk.Succs = []*BasicBlock{k}
		k.Preds = append(k.Preds, rs.blk)
	}
	// results: one φ per result at the head of the continuation (or the value itself for a single return)
	nres := g.Signature.Results().Len()
	results := make([]Value, nres)
	var phis []Instruction
	for j := 0; j < nres; j++ {
		if len(rets) == 1 {
			results[j] = rets[0].results[j]
			continue
		}
		if len(rets) == 0 {
			continue
		}
		phi := &Phi{Comment: "inline." + g.Name() + ".result"}
		phi.setType(g.Signature.Results().At(j).Type())
		phi.setPos(call.Pos())
		phi.setBlock(k)
		for _, rs := range rets {
			phi.Edges = append(phi.Edges, rs.results[j])
		}
		results[j] = phi
		phis = append(phis, phi)
	}
	k.Instrs = append(phis, k.Instrs...)
	if len(rets) == 0 {
		// the callee never returns: the continuation is unreachable; keep it well-formed but detached
		k.Succs = nil
	}
	// replace the uses of the call
	replaceUses := func(old, nv Value) {
		if nv == nil {
			return
		}
		var rs []*Value
		for _, blk := range append(append([]*BasicBlock{}, f.Blocks...), append(clones, k)...) {
			for _, ins := range blk.Instrs {
				rs = ins.Operands(rs[:0])
				for _, p := range rs {
					if *p == old {
						*p = nv
					}
				}
			}
		}
	}
	if nres == 1 {
		replaceUses(call, results[0])
	} else if nres > 1 {
		// the call yields a tuple: its uses are Extract instructions; replace each and drop it
		for _, blk := range append(append([]*BasicBlock{}, f.Blocks...), k) {
			kept := blk.Instrs[:0:0]
			for _, ins := range blk.Instrs {
				if ex, ok := ins.(*Extract); ok && ex.Tuple == Value(call) {
					replaceUses(ex, results[ex.Index])
					continue
				}
				kept = append(kept, ins)
			}
			blk.Instrs = kept
		}
	}
	// splice the new blocks into f after b
	var blocks []*BasicBlock
	for _, blk := range f.Blocks {
		blocks = append(blocks, blk)
		if blk == b {
			blocks = append(blocks, clones...)
			blocks = append(blocks, k)
		}
	}
	f.Blocks = blocks
	rebuild(f)
	cur := k
	for iter := 0; iter < 4 && cur != nil; iter++ {
		if threadNilTest(f, cur) || splitReturn(f, cur) {
			rebuild(f)
			break
		}
		m := mergePhiJump(f, cur)
		if m == nil {
			break
		}
		rebuild(f)
		cur = m
	}
	// a closure value nobody calls or keeps any more
	if removeDeadClosures(f) {
		rebuild(f)
	}
	// a local whose address was only taken to hand it to the helper (takeKey(&stream, n)), or that was
	// captured by a closure that is gone now, is a plain register again once the helper is inlined
	if hasLiftableAlloc(f) {
		lift(f)
		rebuild(f)
	}
	_ = types.Typ
}

// removeDeadClosures deletes MakeClosure instructions without referrers.
func removeDeadClosures(f *Function) bool {
	changed := false
	for _, b := range f.Blocks {
		kept := b.Instrs[:0]
		for _, ins := range b.Instrs {
			if mc, ok := ins.(*MakeClosure); ok && len(*mc.Referrers()) == 0 {
				changed = true
				continue
			}
			kept = append(kept, ins)
		}
		b.Instrs = kept
	}
	return changed
}

func hasLiftableAlloc(f *Function) bool {
	for _, b := range f.Blocks {
		for _, ins := range b.Instrs {
			a, ok := ins.(*Alloc)
			if !ok {
				continue
			}
			okAll := len(*a.Referrers()) > 0
			for _, r := range *a.Referrers() {
				switch x := r.(type) {
				case *Store:
					if x.Val == Value(a) {
						okAll = false
					}
				case *UnOp:
					if x.Op.String() != "*" {
						okAll = false
					}
				case *DebugRef:
				default:
					okAll = false
				}
			}
			if okAll {
				return true
			}
		}
	}
	return false
}

// splitReturn undoes the merge of "return helper(x)": when the continuation holds nothing but the φ-nodes
// of the results and a Return of exactly those, every predecessor returns its own values.
func splitReturn(f *Function, k *BasicBlock) bool {
	if len(k.Instrs) < 2 || len(k.Preds) < 2 {
		return false
	}
	ret, ok := k.Instrs[len(k.Instrs)-1].(*Return)
	if !ok {
		return false
	}
	phis := map[Value]*Phi{}
	for _, ins := range k.Instrs[:len(k.Instrs)-1] {
		p, ok := ins.(*Phi)
		if !ok {
			return false
		}
		for _, u := range *p.Referrers() {
			if u != Instruction(ret) {
				return false
			}
		}
		phis[p] = p
	}
	for _, p := range k.Preds {
		if len(p.Succs) != 1 {
			return false
		}
		if _, ok := p.Instrs[len(p.Instrs)-1].(*Jump); !ok {
			return false
		}
	}
	for i, p := range k.Preds {
		nr := &Return{pos: ret.pos}
		nr.setBlock(p)
		for _, rv := range ret.Results {
			if ph, ok := phis[rv]; ok {
				nr.Results = append(nr.Results, ph.Edges[i])
			} else {
				nr.Results = append(nr.Results, rv)
			}
		}
		p.Instrs[len(p.Instrs)-1] = nr
		p.Succs = nil
	}
	k.Preds = nil
	var blocks []*BasicBlock
	for _, b := range f.Blocks {
		if b != k {
			blocks = append(blocks, b)
		}
	}
	f.Blocks = blocks
	return true
}

func rebuild(f *Function) {
	removeUnreachable(f)
	if os.Getenv("IKELINT_DEBUG_INLINE") != "" {
		fmt.Fprintf(os.Stderr, "rebuild %s: %d blocks recover=%v\n", f, len(f.Blocks), f.Recover != nil)
		for _, b := range f.Blocks {
			fmt.Fprintf(os.Stderr, "  %p %q ->", b, b.Comment)
			for _, s := range b.Succs {
				fmt.Fprintf(os.Stderr, " %p", s)
			}
			fmt.Fprintln(os.Stderr)
		}
		in := map[*BasicBlock]bool{}
		for _, b := range f.Blocks {
			in[b] = true
		}
		for _, b := range f.Blocks {
			for _, s := range b.Succs {
				if !in[s] {
					fmt.Fprintf(os.Stderr, "rebuild %s: block %q has successor %q outside f.Blocks\n", f, b.Comment, s.Comment)
				}
			}
		}
	}
	for i, blk := range f.Blocks {
		blk.Index = i
	}
	for _, p := range f.Params {
		p.referrers = nil
	}
	for _, fv := range f.FreeVars {
		fv.referrers = nil
	}
	for _, blk := range f.Blocks {
		for _, ins := range blk.Instrs {
			if v, ok := ins.(Value); ok {
				if ref := v.Referrers(); ref != nil {
					*ref = nil
				}
			}
		}
	}
	buildReferrers(f)
	numberRegisters(f)
	buildDomTree(f)
}

// nilness classifies a value: +1 certainly non-nil, -1 the nil constant, 0 unknown.
func nilness(v Value) int {
	switch x := v.(type) {
	case *Const:
		if x.Value == nil {
			return -1
		}
	case *MakeInterface, *Alloc, *MakeSlice, *MakeMap, *MakeChan, *MakeClosure, *FieldAddr, *IndexAddr:
		return +1
	case *Call:
		if g := x.Call.StaticCallee(); g != nil {
			switch g.String() {
			case "github.com/pkg/errors.Errorf", "github.com/pkg/errors.New", "errors.New", "fmt.Errorf":
				return +1
			case "github.com/pkg/errors.Wrapf", "github.com/pkg/errors.Wrap", "github.com/pkg/errors.WithMessage", "github.com/pkg/errors.WithMessagef", "github.com/pkg/errors.WithStack":
				// nil exactly when the wrapped error is nil
				if len(x.Call.Args) > 0 {
					if n := nilness(x.Call.Args[0]); n != 0 {
						return n
					}
					return nilnessAt(x.Call.Args[0], x.Block())
				}
			}
		}
	}
	return 0
}

// nilnessAt decides v at the end of block b from the nil tests of v that dominate b.
func nilnessAt(v Value, b *BasicBlock) int {
	for x := b; x != nil; x = x.Idom() {
		if len(x.Preds) != 1 {
			continue
		}
		q := x.Preds[0]
		iff, ok := q.Instrs[len(q.Instrs)-1].(*If)
		if !ok || q.Succs[0] == q.Succs[1] {
			continue
		}
		cmp, ok := iff.Cond.(*BinOp)
		if !ok {
			continue
		}
		isNilC := func(w Value) bool { c, ok := w.(*Const); return ok && c.Value == nil }
		var other Value
		switch {
		case cmp.X == v && isNilC(cmp.Y):
			other = cmp.Y
		case cmp.Y == v && isNilC(cmp.X):
			other = cmp.X
		}
		if other == nil {
			continue
		}
		onTrue := q.Succs[0] == x
		switch cmp.Op.String() {
		case "==":
			if onTrue {
				return -1
			}
			return +1
		case "!=":
			if onTrue {
				return +1
			}
			return -1
		}
	}
	return 0
}

// threadNilTest removes the merge an inlined call leaves behind when the caller tests a result against nil
// right away:   k: r = φ(...); e = φ(nil | non-nil ...); if e != nil goto A else B
// Each incoming edge whose e is decided goes straight to A or B, which receive their own φ-nodes for the
// results. Done only when every edge is decided and A and B have no other predecessor, so that the shape is
// the one the code had before the helper was extracted.
func threadNilTest(f *Function, k *BasicBlock) bool {
	if len(k.Instrs) < 2 || len(k.Preds) < 2 || len(k.Succs) != 2 {
		return false
	}
	iff, ok := k.Instrs[len(k.Instrs)-1].(*If)
	if !ok {
		return false
	}
	cmp, ok := iff.Cond.(*BinOp)
	if !ok || cmp.block != k || len(*cmp.Referrers()) != 1 {
		return threadConstEdges(f, k)
	}
	var phis []*Phi
	for _, ins := range k.Instrs[:len(k.Instrs)-2] {
		p, ok := ins.(*Phi)
		if !ok {
			return false
		}
		phis = append(phis, p)
	}
	if k.Instrs[len(k.Instrs)-2] != Instruction(cmp) {
		return false
	}
	var tested *Phi
	isNilC := func(v Value) bool { c, ok := v.(*Const); return ok && c.Value == nil }
	switch {
	case isNilC(cmp.Y):
		tested, _ = cmp.X.(*Phi)
	case isNilC(cmp.X):
		tested, _ = cmp.Y.(*Phi)
	}
	if tested == nil || tested.block != k {
		return threadConstEdges(f, k)
	}
	eq := cmp.Op.String() == "=="
	if !eq && cmp.Op.String() != "!=" {
		return false
	}
	T := [2]*BasicBlock{k.Succs[0], k.Succs[1]}
	if T[0] == T[1] || len(T[0].Preds) != 1 || len(T[1].Preds) != 1 {
		return threadConstEdges(f, k)
	}
	// decide every edge
	target := make([]int, len(k.Preds))
	for i := range k.Preds {
		n := nilness(tested.Edges[i])
		if n == 0 {
			n = nilnessAt(tested.Edges[i], k.Preds[i])
		}
		if n == 0 {
			return threadConstEdges(f, k)
		}
		condTrue := (n < 0) == eq
		if condTrue {
			target[i] = 0
		} else {
			target[i] = 1
		}
	}
	// every use of a φ of k must lie in a region dominated by one of the two targets (or be an edge of a φ
	// whose predecessor does)
	side := func(b *BasicBlock) int {
		for x := b; x != nil; x = x.Idom() {
			if x == T[0] {
				return 0
			}
			if x == T[1] {
				return 1
			}
		}
		return -1
	}
	type use struct {
		ins  Instruction
		slot *Value
		side int
	}
	var uses []use
	var rands []*Value
	for _, p := range phis {
		for _, u := range *p.Referrers() {
			if u == Instruction(cmp) {
				continue
			}
			rands = u.Operands(rands[:0])
			for oi, r := range rands {
				if *r != Value(p) {
					continue
				}
				sd := -1
				if up, isPhi := u.(*Phi); isPhi {
					if oi < len(up.block.Preds) {
						sd = side(up.block.Preds[oi])
					}
				} else {
					sd = side(u.Block())
				}
				if sd < 0 {
					return false
				}
				uses = append(uses, use{u, r, sd})
			}
		}
	}
	// new φ-nodes (or plain values) per side
	repl := map[*Phi][2]Value{}
	var newPreds [2][]*BasicBlock
	var idxs [2][]int
	for i, p := range k.Preds {
		newPreds[target[i]] = append(newPreds[target[i]], p)
		idxs[target[i]] = append(idxs[target[i]], i)
	}
	for _, p := range phis {
		var rv [2]Value
		for sd := 0; sd < 2; sd++ {
			switch len(idxs[sd]) {
			case 0:
				rv[sd] = nil
			case 1:
				rv[sd] = p.Edges[idxs[sd][0]]
			default:
				np := &Phi{Comment: p.Comment}
				np.setType(p.Type())
				np.setPos(p.Pos())
				np.setBlock(T[sd])
				for _, i := range idxs[sd] {
					np.Edges = append(np.Edges, p.Edges[i])
				}
				T[sd].Instrs = append([]Instruction{np}, T[sd].Instrs...)
				rv[sd] = np
			}
		}
		repl[p] = rv
	}
	for _, u := range uses {
		old, isPhi := (*u.slot).(*Phi)
		if !isPhi {
			continue // the slot was listed twice and has been rewritten already
		}
		if nv := repl[old][u.side]; nv != nil {
			*u.slot = nv
		}
	}
	// rewire the edges
	for sd := 0; sd < 2; sd++ {
		T[sd].Preds = newPreds[sd]
	}
	for i, p := range k.Preds {
		for si, s := range p.Succs {
			if s == k {
				p.Succs[si] = T[target[i]]
			}
		}
	}
	k.Preds = nil
	k.Succs = nil
	// drop k
	var blocks []*BasicBlock
	for _, b := range f.Blocks {
		if b != k {
			blocks = append(blocks, b)
		}
	}
	f.Blocks = blocks
	return true
}

// removeUnreachable drops blocks that cannot be reached from the entry (e.g. the continuation of a call to
// a function that never returns) and fixes the predecessor lists and φ edges of the blocks that remain.
func removeUnreachable(f *Function) {
	reach := map[*BasicBlock]bool{}
	var visit func(b *BasicBlock)
	visit = func(b *BasicBlock) {
		if reach[b] {
			return
		}
		reach[b] = true
		for _, s := range b.Succs {
			visit(s)
		}
	}
	visit(f.Blocks[0])
	if f.Recover != nil {
		visit(f.Recover) // entered by the runtime, not by an edge
	}
	var kept []*BasicBlock
	for _, b := range f.Blocks {
		if reach[b] {
			kept = append(kept, b)
		}
	}
	for _, b := range kept {
		// remove dead predecessors together with the φ edges that belong to them
		var preds []*BasicBlock
		var keepIdx []int
		for i, p := range b.Preds {
			if reach[p] {
				preds = append(preds, p)
				keepIdx = append(keepIdx, i)
			}
		}
		if len(preds) != len(b.Preds) {
			for _, ins := range b.Instrs {
				phi, ok := ins.(*Phi)
				if !ok {
					break
				}
				var edges []Value
				for _, i := range keepIdx {
					edges = append(edges, phi.Edges[i])
				}
				phi.Edges = edges
			}
			b.Preds = preds
		}
	}
	f.Blocks = kept
}

// threadConstEdges: partial threading. k: φ...; c = φ op const; if c. An incoming edge whose φ operand is
// a constant decides the test; it is sent straight to the successor, provided that successor has no φ-nodes
// and uses no φ of k. If a single edge remains, the φ-nodes of k collapse to their operand.
func threadConstEdges(f *Function, k *BasicBlock) bool {
	if len(k.Instrs) < 2 || len(k.Preds) < 2 || len(k.Succs) != 2 || k.Succs[0] == k.Succs[1] {
		return false
	}
	iff, ok := k.Instrs[len(k.Instrs)-1].(*If)
	if !ok {
		return false
	}
	var phis []*Phi
	var tested *Phi
	var kc *Const
	var cmp *BinOp
	op := "=="
	if bp, isPhi := iff.Cond.(*Phi); isPhi && bp.block == k {
		// "if helper(x)" with a boolean result: the branch is on the φ itself, i.e. φ == true
		for _, ins := range k.Instrs[:len(k.Instrs)-1] {
			p, ok := ins.(*Phi)
			if !ok {
				return false
			}
			phis = append(phis, p)
		}
		tested = bp
		kc = NewConst(constant.MakeBool(true), bp.Type())
		n := 0
		for _, u := range *bp.Referrers() {
			if u != Instruction(iff) {
				n++
			}
		}
		if n > 0 {
			return false
		}
	} else {
		if len(k.Instrs) < 3 {
			return false
		}
		var ok bool
		cmp, ok = iff.Cond.(*BinOp)
		if !ok || cmp.block != k || len(*cmp.Referrers()) != 1 || k.Instrs[len(k.Instrs)-2] != Instruction(cmp) {
			return false
		}
		for _, ins := range k.Instrs[:len(k.Instrs)-2] {
			p, ok := ins.(*Phi)
			if !ok {
				return false
			}
			phis = append(phis, p)
		}
		if p, ok := cmp.X.(*Phi); ok && p.block == k {
			tested = p
			kc, _ = cmp.Y.(*Const)
		} else if p, ok := cmp.Y.(*Phi); ok && p.block == k {
			tested = p
			kc, _ = cmp.X.(*Const)
		}
		op = cmp.Op.String()
	}
	if tested == nil || kc == nil || (op != "==" && op != "!=") {
		return false
	}
	equalConst := func(a, b *Const) (bool, bool) {
		if a.Value == nil || b.Value == nil {
			if a.Value == nil && b.Value == nil {
				return true, true
			}
			return false, false
		}
		if a.Value.Kind() != b.Value.Kind() {
			return false, false
		}
		return a.Value.ExactString() == b.Value.ExactString(), true
	}
	dominatedBy := func(b, t *BasicBlock) bool {
		for x := b; x != nil; x = x.Idom() {
			if x == t {
				return true
			}
		}
		return false
	}
	usesPhiIn := func(t *BasicBlock) bool {
		var rands []*Value
		for _, p := range phis {
			for _, u := range *p.Referrers() {
				if (cmp != nil && u == Instruction(cmp)) || u == Instruction(iff) {
					continue
				}
				if up, isPhi := u.(*Phi); isPhi {
					rands = u.Operands(rands[:0])
					for oi, r := range rands {
						if *r == Value(p) && oi < len(up.block.Preds) && dominatedBy(up.block.Preds[oi], t) {
							return true
						}
					}
					continue
				}
				if dominatedBy(u.Block(), t) {
					return true
				}
			}
		}
		return false
	}
	changed := false
	for i := 0; i < len(k.Preds); i++ {
		if len(k.Preds) < 2 {
			break
		}
		ec, ok := tested.Edges[i].(*Const)
		if !ok {
			continue
		}
		same, decided := equalConst(ec, kc)
		if !decided {
			continue
		}
		condTrue := same == (op == "==")
		t := k.Succs[1]
		if condTrue {
			t = k.Succs[0]
		}
		if len(t.Instrs) > 0 {
			if _, isPhi := t.Instrs[0].(*Phi); isPhi {
				continue
			}
		}
		if usesPhiIn(t) {
			continue
		}
		p := k.Preds[i]
		for si, sblk := range p.Succs {
			if sblk == k {
				p.Succs[si] = t
			}
		}
		t.Preds = append(t.Preds, p)
		k.Preds = append(k.Preds[:i:i], k.Preds[i+1:]...)
		for _, ph := range phis {
			ph.Edges = append(ph.Edges[:i:i], ph.Edges[i+1:]...)
		}
		i--
		changed = true
	}
	if !changed {
		return false
	}
	if len(k.Preds) == 1 {
		// the φ-nodes collapse
		var rands []*Value
		for _, ph := range phis {
			nv := ph.Edges[0]
			for _, blk := range f.Blocks {
				for _, ins := range blk.Instrs {
					rands = ins.Operands(rands[:0])
					for _, r := range rands {
						if *r == Value(ph) {
							*r = nv
						}
					}
				}
			}
		}
		k.Instrs = k.Instrs[len(phis):]
		// a branch on what is now a constant becomes a jump
		if cst, ok := iff.Cond.(*Const); ok && cst.Value != nil && cst.Value.Kind() == constant.Bool && len(k.Succs) == 2 {
			taken, dead := k.Succs[0], k.Succs[1]
			if !constant.BoolVal(cst.Value) {
				taken, dead = dead, taken
			}
			if taken != dead {
				// remove k from dead's predecessors (and the matching φ edges)
				for i, p := range dead.Preds {
					if p == k {
						dead.Preds = append(dead.Preds[:i:i], dead.Preds[i+1:]...)
						for _, ins := range dead.Instrs {
							ph, ok := ins.(*Phi)
							if !ok {
								break
							}
							ph.Edges = append(ph.Edges[:i:i], ph.Edges[i+1:]...)
						}
						break
					}
				}
				j := &Jump{}
				j.setBlock(k)
				k.Instrs[len(k.Instrs)-1] = j
				k.Succs = []*BasicBlock{taken}
			}
		}
	}
	return true
}

// mergePhiJump folds a block that holds only φ-nodes and a jump into its successor, when those φ-nodes are
// used by nothing but the successor's φ-nodes on that very edge: the successor then merges the original
// predecessors directly (r = φ(φ(a, b), c) becomes r = φ(a, b, c)). Returns the successor, or nil.
func mergePhiJump(f *Function, k *BasicBlock) *BasicBlock {
	if len(k.Instrs) < 1 || len(k.Succs) != 1 || len(k.Preds) < 1 {
		return nil
	}
	if _, ok := k.Instrs[len(k.Instrs)-1].(*Jump); !ok {
		return nil
	}
	m := k.Succs[0]
	if m == k {
		return nil
	}
	j := -1
	n := 0
	for i, p := range m.Preds {
		if p == k {
			j = i
			n++
		}
	}
	if j < 0 || n != 1 {
		return nil
	}
	phis := map[Value]*Phi{}
	for _, ins := range k.Instrs[:len(k.Instrs)-1] {
		p, ok := ins.(*Phi)
		if !ok {
			return nil
		}
		phis[p] = p
	}
	for _, p := range phis {
		for _, u := range *p.Referrers() {
			up, ok := u.(*Phi)
			if !ok || up.block != m {
				return nil
			}
			for oi, e := range up.Edges {
				if e == Value(p) && oi != j {
					return nil
				}
			}
		}
	}
	for _, ins := range m.Instrs {
		mp, ok := ins.(*Phi)
		if !ok {
			break
		}
		val := mp.Edges[j]
		var mid []Value
		for i := range k.Preds {
			if kp, ok := phis[val]; ok {
				mid = append(mid, kp.Edges[i])
			} else {
				mid = append(mid, val)
			}
		}
		edges := append([]Value{}, mp.Edges[:j]...)
		edges = append(edges, mid...)
		edges = append(edges, mp.Edges[j+1:]...)
		mp.Edges = edges
	}
	preds := append([]*BasicBlock{}, m.Preds[:j]...)
	preds = append(preds, k.Preds...)
	preds = append(preds, m.Preds[j+1:]...)
	m.Preds = preds
	for _, p := range k.Preds {
		for si, sblk := range p.Succs {
			if sblk == k {
				p.Succs[si] = m
			}
		}
	}
	k.Preds, k.Succs = nil, nil
	var blocks []*BasicBlock
	for _, b := range f.Blocks {
		if b != k {
			blocks = append(blocks, b)
		}
	}
	f.Blocks = blocks
	return m
}
