// Copyright 2023 The Go Authors. All rights reserved.
// Use of this source code is governed by a BSD-style
// license that can be found in the LICENSE file.

// This is a fork of internal/gover for use by x/tools until
// go1.21 and earlier are no longer supported by x/tools.

package versions

import "strings"

// A gover is a parsed Go gover: major[.Minor[.Patch]][kind[pre]]
// The numbers are the original decimal strings to avoid integer overflows
// and since there is very little actual math. (Probably overflow doesn't matter in practice,
// but at the time this code was written, there was an existing test that used
// go1.99999999999, which does not fit in an int on 32-bit platforms.
// The "big decimal" representation avoids the problem entirely.)
type gover struct {
	major string // decimal
	minor string // decimal or ""
	patch string // decimal or ""
	kind  string // "", "alpha", "beta", "rc"
	pre   string // decimal or ""
}

// compare returns -1, 0, or +1 depending on whether
// x < y, x == y, or x > y, interpreted as toolchain versions.
// The versions x and y must not begin with a "go" prefix: just "1.21" not "go1.21".
// Malformed versions compare less than well-formed versions and equal to each other.
// The language version "1.21" compares less than the release candidate and eventual releases "1.21rc1" and "1.21.0".
func compare(x, y string) int {
	vx := parse(x)
	vy := parse(y)

	if c := cmpInt(vx.major, vy.major); c != 0 {
		return c
	}
	if c := cmpInt(vx.minor, vy.minor); c != 0 {
		return c
	}
	if c := cmpInt(vx.patch, vy.patch); c != 0 {
		return c
	}
	if c := strings.Compare(vx.kind, vy.kind); c != 0 { // "" < alpha < beta < rc
		return c
	}
	if c := cmpInt(vx.pre, vy.pre); c != 0 {
		return c
	}
	return 0
}

// lang returns the Go language version. For example, lang("1.2.3") == "1.2".
func lang(x string) string {
	v := parse(x)
	if v.minor == "" || v.major == "1" && v.minor == "0" {
		return v.major
	}
	return v.major + "." + v.minor
}

// isValid reports whether the version x is valid.
func isValid(x string) bool {
	return parse(x) != gover{}
}

// parse parses the Go version string x into a version.
// It returns the zero version if x is malformed.
func parse(x string) gover {
	var v gover

	// Parse major version.
	var ok bool
	v.major, x, ok = cutInt(x)
	if !ok {
		return gover{}
	}
	if x == "" {
		// Interpret "1" as "1.0.0".
		v.minor = "0"
		v.patch = "0"
		return v
	}

	// Parse . before minor version.
	if x[0] != '.' {
		return gover{}
	}

	// Parse minor version.
	v.minor, x, ok = cutInt(x[1:])
	if !ok {
		return gover{}
	}
	if x == "" {
		// Patch missing is same as "0" for older versions.
		// Starting in Go 1.21, patch missing is different from explicit .0.
		if cmpInt(v.minor, "21") < 0 {
			v.patch = "0"
		}
		return v
	}

	// Parse patch if present.
	if x[0] == '.' {
		v.patch, x, ok = cutInt(x[1:])
		if !ok || x != "" {
			// Note that we are disallowing prereleases (alpha, beta, rc) for patch releases here (x != "").
			// Allowing them would be a bit confusing because we already have:
			//	1.21 < 1.21rc1
			// But a prerelease of a patch would have the opposite effect:
			//	1.21.3rc1 < 1.21.3
			// We've never needed them before, so let's not start now.
			return gover{}
		}
		return v
	}

	// Parse prerelease.
	i := 0
	for i < len(x) && (x[i] < '0' || '9' < x[i]) {
		if x[i] < 'a' || 'z' < x[i] {
			return gover{}
		}
		i++
	}
	if i == 0 {
		return gover{}
	}
	v.kind, x = x[:i], x[i:]
	if x == "" {
		return v
	}
	v.pre, x, ok = cutInt(x)
	if !ok || x != "" {
		return gover{}
	}

	return v
}

// cutInt scans the leading decimal number at the start of x to an integer
// and returns that value and the rest of the string.
func cutInt(x string) (n, rest string, ok bool) {
	i := 0
	for i < len(x) && '0' <= x[i] && x[i] <= '9' {
		i++
	}
	if i == 0 || x[0] == '0' && i != 1 { // no digits or unnecessary leading zero
		return "", "", false
	}
	return x[:i], x[i:], true
}

// cmpInt returns cmp.Compare(x, y) interpreting x and y as decimal numbers.
// (Copied from golang.org/x/mod/semver's compareInt.)
func cmpInt(x, y string) int {
	if x == y {
		return 0
	}
	if len(x) < len(y) {
		return -1
	}
	if len(x) > len(y) {
		return +1
	}
	if x < y {
		return -1
	} else {
		return +1
	}
}
