// Copyright 2023 The Go Authors. All rights reserved.
// Use of this source code is governed by a BSD-style
// license that can be found in the LICENSE file.

package versions

import (
	"strings"
)

// Note: If we use build tags to use go/versions when go >=1.22,
// we run into go.dev/issue/53737. Under some operations users would see an
// import of "go/versions" even if they would not compile the file.
// For example, during `go get -u ./...` (go.dev/issue/64490) we do not try to include
// For this reason, this library just a clone of go/versions for the moment.

// Lang returns the Go language version for version x.
// If x is not a valid version, Lang returns the empty string.
// For example:
//
//	Lang("go1.21rc2") = "go1.21"
//	Lang("go1.21.2") = "go1.21"
//	Lang("go1.21") = "go1.21"
//	Lang("go1") = "go1"
//	Lang("bad") = ""
//	Lang("1.21") = ""
func Lang(x string) string {
	v := lang(stripGo(x))
	if v == "" {
		return ""
	}
	return x[:2+len(v)] // "go"+v without allocation
}

// Compare returns -1, 0, or +1 depending on whether
// x < y, x == y, or x > y, interpreted as Go versions.
// The versions x and y must begin with a "go" prefix: "go1.21" not "1.21".
// Invalid versions, including the empty string, compare less than
// valid versions and equal to each other.
// The language version "go1.21" compares less than the
// release candidate and eventual releases "go1.21rc1" and "go1.21.0".
// Custom toolchain suffixes are ignored during comparison:
// "go1.21.0" and "go1.21.0-bigcorp" are equal.
func Compare(x, y string) int { return compare(stripGo(x), stripGo(y)) }

// IsValid reports whether the version x is valid.
func IsValid(x string) bool { return isValid(stripGo(x)) }

// stripGo converts from a "go1.21" version to a "1.21" version.
// If v does not start with "go", stripGo returns the empty string (a known invalid version).
func stripGo(v string) string {
	v, _, _ = strings.Cut(v, "-") // strip -bigcorp suffix.
	if len(v) < 2 || v[:2] != "go" {
		return ""
	}
	return v[2:]
}
