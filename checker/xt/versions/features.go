// Copyright 2023 The Go Authors. All rights reserved.
// Use of this source code is governed by a BSD-style
// license that can be found in the LICENSE file.

package versions

// This file contains predicates for working with file versions to
// decide when a tool should consider a language feature enabled.

// GoVersions that features in x/tools can be gated to.
const (
	Go1_18 = "go1.18"
	Go1_19 = "go1.19"
	Go1_20 = "go1.20"
	Go1_21 = "go1.21"
	Go1_22 = "go1.22"
)

// Future is an invalid unknown Go version sometime in the future.
// Do not use directly with Compare.
const Future = ""

// AtLeast reports whether the file version v comes after a Go release.
//
// Use this predicate to enable a behavior once a certain Go release
// has happened (and stays enabled in the future).
func AtLeast(v, release string) bool {
	if v == Future {
		return true // an unknown future version is always after y.
	}
	return Compare(Lang(v), Lang(release)) >= 0
}

// Before reports whether the file version v is strictly before a Go release.
//
// Use this predicate to disable a behavior once a certain Go release
// has happened (and stays enabled in the future).
func Before(v, release string) bool {
	if v == Future {
		return false // an unknown future version happens after y.
	}
	return Compare(Lang(v), Lang(release)) < 0
}
