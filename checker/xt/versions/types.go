// Copyright 2023 The Go Authors. All rights reserved.
// Use of this source code is governed by a BSD-style
// license that can be found in the LICENSE file.

package versions

import (
	"go/ast"
	"go/types"
)

// FileVersion returns a file's Go version.
// The reported version is an unknown Future version if a
// version cannot be determined.
func FileVersion(info *types.Info, file *ast.File) string {
	// In tools built with Go >= 1.22, the Go version of a file
	// follow a cascades of sources:
	// 1) types.Info.FileVersion, which follows the cascade:
	//   1.a) file version (ast.File.GoVersion),
	//   1.b) the package version (types.Config.GoVersion), or
	// 2) is some unknown Future version.
	//
	// File versions require a valid package version to be provided to types
	// in Config.GoVersion. Config.GoVersion is either from the package's module
	// or the toolchain (go run). This value should be provided by go/packages
	// or unitchecker.Config.GoVersion.
	if v := info.FileVersions[file]; IsValid(v) {
		return v
	}
	// Note: we could instead return runtime.Version() [if valid].
	// This would act as a max version on what a tool can support.
	return Future
}
