// Copyright 2024 The Go Authors. All rights reserved.
// Use of this source code is governed by a BSD-style
// license that can be found in the LICENSE file.

package typeparams

import (
	"go/types"

	"ikeverif/checker/xt/aliases"
)

// Free is a memoization of the set of free type parameters within a
// type. It makes a sequence of calls to [Free.Has] for overlapping
// types more efficient. The zero value is ready for use.
//
// NOTE: Adapted from go/types/infer.go. If it is later exported, factor.
type Free struct {
	seen map[types.Type]bool
}

// Has reports whether the specified type has a free type parameter.
func (w *Free) Has(typ types.Type) (res bool) {
	// detect cycles
	if x, ok := w.seen[typ]; ok {
		return x
	}
	if w.seen == nil {
		w.seen = make(map[types.Type]bool)
	}
	w.seen[typ] = false
	defer func() {
		w.seen[typ] = res
	}()

	switch t := typ.(type) {
	case nil, *types.Basic: // TODO(gri) should nil be handled here?
		break

	case *types.Alias:
		if aliases.TypeParams(t).Len() > aliases.TypeArgs(t).Len() {
			return true // This is an uninstantiated Alias.
		}
		// The expansion of an alias can have free type parameters,
		// whether or not the alias itself has type parameters:
		//
		//   func _[K comparable]() {
		//     type Set      = map[K]bool // free(Set)      = {K}
		//     type MapTo[V] = map[K]V    // free(Map[foo]) = {V}
		//   }
		//
		// So, we must Unalias.
		return w.Has(types.Unalias(t))

	case *types.Array:
		return w.Has(t.Elem())

	case *types.Slice:
		return w.Has(t.Elem())

	case *types.Struct:
		for i, n := 0, t.NumFields(); i < n; i++ {
			if w.Has(t.Field(i).Type()) {
				return true
			}
		}

	case *types.Pointer:
		return w.Has(t.Elem())

	case *types.Tuple:
		n := t.Len()
		for i := 0; i < n; i++ {
			if w.Has(t.At(i).Type()) {
				return true
			}
		}

	case *types.Signature:
		// t.tparams may not be nil if we are looking at a signature
		// of a generic function type (or an interface method) that is
		// part of the type we're testing. We don't care about these type
		// parameters.
		// Similarly, the receiver of a method may declare (rather than
		// use) type parameters, we don't care about those either.
		// Thus, we only need to look at the input and result parameters.
		return w.Has(t.Params()) || w.Has(t.Results())

	case *types.Interface:
		for i, n := 0, t.NumMethods(); i < n; i++ {
			if w.Has(t.Method(i).Type()) {
				return true
			}
		}
		terms, err := InterfaceTermSet(t)
		if err != nil {
			return false // ill typed
		}
		for _, term := range terms {
			if w.Has(term.Type()) {
				return true
			}
		}

	case *types.Map:
		return w.Has(t.Key()) || w.Has(t.Elem())

	case *types.Chan:
		return w.Has(t.Elem())

	case *types.Named:
		args := t.TypeArgs()
		if params := t.TypeParams(); params.Len() > args.Len() {
			return true // this is an uninstantiated named type.
		}
		for i, n := 0, args.Len(); i < n; i++ {
			if w.Has(args.At(i)) {
				return true
			}
		}
		return w.Has(t.Underlying()) // recurse for types local to parameterized functions

	case *types.TypeParam:
		return true

	default:
		panic(t) // unreachable
	}

	return false
}
