// Copyright 2021 The Go Authors. All rights reserved.
// Use of this source code is governed by a BSD-style
// license that can be found in the LICENSE file.

// Package typeparams contains common utilities for writing tools that
// interact with generic Go code, as introduced with Go 1.18. It
// supplements the standard library APIs. Notably, the StructuralTerms
// API computes a minimal representation of the structural
// restrictions on a type parameter.
//
// An external version of these APIs is available in the
// golang.org/x/exp/typeparams module.
package typeparams

import (
	"go/ast"
	"go/token"
	"go/types"
)

// UnpackIndexExpr extracts data from AST nodes that represent index
// expressions.
//
// For an ast.IndexExpr, the resulting indices slice will contain exactly one
// index expression. For an ast.IndexListExpr (go1.18+), it may have a variable
// number of index expressions.
//
// For nodes that don't represent index expressions, the first return value of
// UnpackIndexExpr will be nil.
func UnpackIndexExpr(n ast.Node) (x ast.Expr, lbrack token.Pos, indices []ast.Expr, rbrack token.Pos) {
	switch e := n.(type) {
	case *ast.IndexExpr:
		return e.X, e.Lbrack, []ast.Expr{e.Index}, e.Rbrack
	case *ast.IndexListExpr:
		return e.X, e.Lbrack, e.Indices, e.Rbrack
	}
	return nil, token.NoPos, nil, token.NoPos
}

// PackIndexExpr returns an *ast.IndexExpr or *ast.IndexListExpr, depending on
// the cardinality of indices. Calling PackIndexExpr with len(indices) == 0
// will panic.
func PackIndexExpr(x ast.Expr, lbrack token.Pos, indices []ast.Expr, rbrack token.Pos) ast.Expr {
	switch len(indices) {
	case 0:
		panic("empty indices")
	case 1:
		return &ast.IndexExpr{
			X:      x,
			Lbrack: lbrack,
			Index:  indices[0],
			Rbrack: rbrack,
		}
	default:
		return &ast.IndexListExpr{
			X:       x,
			Lbrack:  lbrack,
			Indices: indices,
			Rbrack:  rbrack,
		}
	}
}

// IsTypeParam reports whether t is a type parameter (or an alias of one).
func IsTypeParam(t types.Type) bool {
	_, ok := types.Unalias(t).(*types.TypeParam)
	return ok
}
