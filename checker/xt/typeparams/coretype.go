// Copyright 2022 The Go Authors. All rights reserved.
// Use of this source code is governed by a BSD-style
// license that can be found in the LICENSE file.

package typeparams

import (
	"fmt"
	"go/types"
)

// CoreType returns the core type of T or nil if T does not have a core type.
//
// See https://go.dev/ref/spec#Core_types for the definition of a core type.
func CoreType(T types.Type) types.Type {
	U := T.Underlying()
	if _, ok := U.(*types.Interface); !ok {
		return U // for non-interface types,
	}

	terms, err := NormalTerms(U)
	if len(terms) == 0 || err != nil {
		// len(terms) -> empty type set of interface.
		// err != nil => U is invalid, exceeds complexity bounds, or has an empty type set.
		return nil // no core type.
	}

	U = terms[0].Type().Underlying()
	var identical int // i in [0,identical) => Identical(U, terms[i].Type().Underlying())
	for identical = 1; identical < len(terms); identical++ {
		if !types.Identical(U, terms[identical].Type().Underlying()) {
			break
		}
	}

	if identical == len(terms) {
		// https://go.dev/ref/spec#Core_types
		// "There is a single type U which is the underlying type of all types in the type set of T"
		return U
	}
	ch, ok := U.(*types.Chan)
	if !ok {
		return nil // no core type as identical < len(terms) and U is not a channel.
	}
	// https://go.dev/ref/spec#Core_types
	// "the type chan E if T contains only bidirectional channels, or the type chan<- E or
	// <-chan E depending on the direction of the directional channels present."
	for chans := identical; chans < len(terms); chans++ {
		curr, ok := terms[chans].Type().Underlying().(*types.Chan)
		if !ok {
			return nil
		}
		if !types.Identical(ch.Elem(), curr.Elem()) {
			return nil // channel elements are not identical.
		}
		if ch.Dir() == types.SendRecv {
			// ch is bidirectional. We can safely always use curr's direction.
			ch = curr
		} else if curr.Dir() != types.SendRecv && ch.Dir() != curr.Dir() {
			// ch and curr are not bidirectional and not the same direction.
			return nil
		}
	}
	return ch
}

// NormalTerms returns a slice of terms representing the normalized structural
// type restrictions of a type, if any.
//
// For all types other than *types.TypeParam, *types.Interface, and
// *types.Union, this is just a single term with Tilde() == false and
// Type() == typ. For *types.TypeParam, *types.Interface, and *types.Union, see
// below.
//
// Structural type restrictions of a type parameter are created via
// non-interface types embedded in its constraint interface (directly, or via a
// chain of interface embeddings). For example, in the declaration type
// T[P interface{~int; m()}] int the structural restriction of the type
// parameter P is ~int.
//
// With interface embedding and unions, the specification of structural type
// restrictions may be arbitrarily complex. For example, consider the
// following:
//
//	type A interface{ ~string|~[]byte }
//
//	type B interface{ int|string }
//
//	type C interface { ~string|~int }
//
//	type T[P interface{ A|B; C }] int
//
// In this example, the structural type restriction of P is ~string|int: A|B
// expands to ~string|~[]byte|int|string, which reduces to ~string|~[]byte|int,
// which when intersected with C (~string|~int) yields ~string|int.
//
// NormalTerms computes these expansions and reductions, producing a
// "normalized" form of the embeddings. A structural restriction is normalized
// if it is a single union containing no interface terms, and is minimal in the
// sense that removing any term changes the set of types satisfying the
// constraint. It is left as a proof for the reader that, modulo sorting, there
// is exactly one such normalized form.
//
// Because the minimal representation always takes this form, NormalTerms
// returns a slice of tilde terms corresponding to the terms of the union in
// the normalized structural restriction. An error is returned if the type is
// invalid, exceeds complexity bounds, or has an empty type set. In the latter
// case, NormalTerms returns ErrEmptyTypeSet.
//
// NormalTerms makes no guarantees about the order of terms, except that it
// is deterministic.
func NormalTerms(typ types.Type) ([]*types.Term, error) {
	switch typ := typ.Underlying().(type) {
	case *types.TypeParam:
		return StructuralTerms(typ)
	case *types.Union:
		return UnionTermSet(typ)
	case *types.Interface:
		return InterfaceTermSet(typ)
	default:
		return []*types.Term{types.NewTerm(false, typ)}, nil
	}
}

// Deref returns the type of the variable pointed to by t,
// if t's core type is a pointer; otherwise it returns t.
//
// Do not assume that Deref(T)==T implies T is not a pointer:
// consider "type T *T", for example.
//
// TODO(adonovan): ideally this would live in typesinternal, but that
// creates an import cycle. Move there when we melt this package down.
func Deref(t types.Type) types.Type {
	if ptr, ok := CoreType(t).(*types.Pointer); ok {
		return ptr.Elem()
	}
	return t
}

// MustDeref returns the type of the variable pointed to by t.
// It panics if t's core type is not a pointer.
//
// TODO(adonovan): ideally this would live in typesinternal, but that
// creates an import cycle. Move there when we melt this package down.
func MustDeref(t types.Type) types.Type {
	if ptr, ok := CoreType(t).(*types.Pointer); ok {
		return ptr.Elem()
	}
	panic(fmt.Sprintf("%v is not a pointer", t))
}
