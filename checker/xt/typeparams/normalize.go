// Copyright 2021 The Go Authors. All rights reserved.
// Use of this source code is governed by a BSD-style
// license that can be found in the LICENSE file.

package typeparams

import (
	"errors"
	"fmt"
	"go/types"
	"os"
	"strings"
)

//go:generate go run copytermlist.go

const debug = false

var ErrEmptyTypeSet = errors.New("empty type set")

// StructuralTerms returns a slice of terms representing the normalized
// structural type restrictions of a type parameter, if any.
//
// Structural type restrictions of a type parameter are created via
// non-interface types embedded in its constraint interface (directly, or via a
// chain of interface embeddings). For example, in the declaration
//
//	type T[P interface{~int; m()}] int
//
// the structural restriction of the type parameter P is ~int.
//
// With interface embedding and unions, the specification of structural type
// restrictions may be arbitrarily complex. For example, consider the
// following:
//
//	type A interface{ ~string|~[]byte }
//
//	type B interface{ int|string }
//
//	type C interface { ~string|~int }
//
//	type T[P interface{ A|B; C }] int
//
// In this example, the structural type restriction of P is ~string|int: A|B
// expands to ~string|~[]byte|int|string, which reduces to ~string|~[]byte|int,
// which when intersected with C (~string|~int) yields ~string|int.
//
// StructuralTerms computes these expansions and reductions, producing a
// "normalized" form of the embeddings. A structural restriction is normalized
// if it is a single union containing no interface terms, and is minimal in the
// sense that removing any term changes the set of types satisfying the
// constraint. It is left as a proof for the reader that, modulo sorting, there
// is exactly one such normalized form.
//
// Because the minimal representation always takes this form, StructuralTerms
// returns a slice of tilde terms corresponding to the terms of the union in
// the normalized structural restriction. An error is returned if the
// constraint interface is invalid, exceeds complexity bounds, or has an empty
// type set. In the latter case, StructuralTerms returns ErrEmptyTypeSet.
//
// StructuralTerms makes no guarantees about the order of terms, except that it
// is deterministic.
func StructuralTerms(tparam *types.TypeParam) ([]*types.Term, error) {
	constraint := tparam.Constraint()
	if constraint == nil {
		return nil, fmt.Errorf("%s has nil constraint", tparam)
	}
	iface, _ := constraint.Underlying().(*types.Interface)
	if iface == nil {
		return nil, fmt.Errorf("constraint is %T, not *types.Interface", constraint.Underlying())
	}
	return InterfaceTermSet(iface)
}

// InterfaceTermSet computes the normalized terms for a constraint interface,
// returning an error if the term set cannot be computed or is empty. In the
// latter case, the error will be ErrEmptyTypeSet.
//
// See the documentation of StructuralTerms for more information on
// normalization.
func InterfaceTermSet(iface *types.Interface) ([]*types.Term, error) {
	return computeTermSet(iface)
}

// UnionTermSet computes the normalized terms for a union, returning an error
// if the term set cannot be computed or is empty. In the latter case, the
// error will be ErrEmptyTypeSet.
//
// See the documentation of StructuralTerms for more information on
// normalization.
func UnionTermSet(union *types.Union) ([]*types.Term, error) {
	return computeTermSet(union)
}

func computeTermSet(typ types.Type) ([]*types.Term, error) {
	tset, err := computeTermSetInternal(typ, make(map[types.Type]*termSet), 0)
	if err != nil {
		return nil, err
	}
	if tset.terms.isEmpty() {
		return nil, ErrEmptyTypeSet
	}
	if tset.terms.isAll() {
		return nil, nil
	}
	var terms []*types.Term
	for _, term := range tset.terms {
		terms = append(terms, types.NewTerm(term.tilde, term.typ))
	}
	return terms, nil
}

// A termSet holds the normalized set of terms for a given type.
//
// The name termSet is intentionally distinct from 'type set': a type set is
// all types that implement a type (and includes method restrictions), whereas
// a term set just represents the structural restrictions on a type.
type termSet struct {
	complete bool
	terms    termlist
}

func indentf(depth int, format string, args ...interface{}) {
	fmt.Fprintf(os.Stderr, strings.Repeat(".", depth)+format+"\n", args...)
}

func computeTermSetInternal(t types.Type, seen map[types.Type]*termSet, depth int) (res *termSet, err error) {
	if t == nil {
		panic("nil type")
	}

	if debug {
		indentf(depth, "%s", t.String())
		defer func() {
			if err != nil {
				indentf(depth, "=> %s", err)
			} else {
				indentf(depth, "=> %s", res.terms.String())
			}
		}()
	}

	const maxTermCount = 100
	if tset, ok := seen[t]; ok {
		if !tset.complete {
			return nil, fmt.Errorf("cycle detected in the declaration of %s", t)
		}
		return tset, nil
	}

	// Mark the current type as seen to avoid infinite recursion.
	tset := new(termSet)
	defer func() {
		tset.complete = true
	}()
	seen[t] = tset

	switch u := t.Underlying().(type) {
	case *types.Interface:
		// The term set of an interface is the intersection of the term sets of its
		// embedded types.
		tset.terms = allTermlist
		for i := 0; i < u.NumEmbeddeds(); i++ {
			embedded := u.EmbeddedType(i)
			if _, ok := embedded.Underlying().(*types.TypeParam); ok {
				return nil, fmt.Errorf("invalid embedded type %T", embedded)
			}
			tset2, err := computeTermSetInternal(embedded, seen, depth+1)
			if err != nil {
				return nil, err
			}
			tset.terms = tset.terms.intersect(tset2.terms)
		}
	case *types.Union:
		// The term set of a union is the union of term sets of its terms.
		tset.terms = nil
		for i := 0; i < u.Len(); i++ {
			t := u.Term(i)
			var terms termlist
			switch t.Type().Underlying().(type) {
			case *types.Interface:
				tset2, err := computeTermSetInternal(t.Type(), seen, depth+1)
				if err != nil {
					return nil, err
				}
				terms = tset2.terms
			case *types.TypeParam, *types.Union:
				// A stand-alone type parameter or union is not permitted as union
				// term.
				return nil, fmt.Errorf("invalid union term %T", t)
			default:
				if t.Type() == types.Typ[types.Invalid] {
					continue
				}
				terms = termlist{{t.Tilde(), t.Type()}}
			}
			tset.terms = tset.terms.union(terms)
			if len(tset.terms) > maxTermCount {
				return nil, fmt.Errorf("exceeded max term count %d", maxTermCount)
			}
		}
	case *types.TypeParam:
		panic("unreachable")
	default:
		// For all other types, the term set is just a single non-tilde term
		// holding the type itself.
		if u != types.Typ[types.Invalid] {
			tset.terms = termlist{{false, t}}
		}
	}
	return tset, nil
}

// under is a facade for the go/types internal function of the same name. It is
// used by typeterm.go.
func under(t types.Type) types.Type {
	return t.Underlying()
}
