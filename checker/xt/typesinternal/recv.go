// Copyright 2024 The Go Authors. All rights reserved.
// Use of this source code is governed by a BSD-style
// license that can be found in the LICENSE file.

package typesinternal

import (
	"go/types"
)

// ReceiverNamed returns the named type (if any) associated with the
// type of recv, which may be of the form N or *N, or aliases thereof.
// It also reports whether a Pointer was present.
//
// The named result may be nil in ill-typed code.
func ReceiverNamed(recv *types.Var) (isPtr bool, named *types.Named) {
	t := recv.Type()
	if ptr, ok := types.Unalias(t).(*types.Pointer); ok {
		isPtr = true
		t = ptr.Elem()
	}
	named, _ = types.Unalias(t).(*types.Named)
	return
}

// Unpointer returns T given *T or an alias thereof.
// For all other types it is the identity function.
// It does not look at underlying types.
// The result may be an alias.
//
// Use this function to strip off the optional pointer on a receiver
// in a field or method selection, without losing the named type
// (which is needed to compute the method set).
//
// See also [typeparams.MustDeref], which removes one level of
// indirection from the type, regardless of named types (analogous to
// a LOAD instruction).
func Unpointer(t types.Type) types.Type {
	if ptr, ok := types.Unalias(t).(*types.Pointer); ok {
		return ptr.Elem()
	}
	return t
}
