// Copyright 2024 The Go Authors. All rights reserved.
// Use of this source code is governed by a BSD-style
// license that can be found in the LICENSE file.

package typesinternal

import (
	"go/ast"
	"go/types"
	"strconv"
)

// FileQualifier returns a [types.Qualifier] function that qualifies
// imported symbols appropriately based on the import environment of a given
// file.
// If the same package is imported multiple times, the last appearance is
// recorded.
func FileQualifier(f *ast.File, pkg *types.Package) types.Qualifier {
	// Construct mapping of import paths to their defined names.
	// It is only necessary to look at renaming imports.
	imports := make(map[string]string)
	for _, imp := range f.Imports {
		if imp.Name != nil && imp.Name.Name != "_" {
			path, _ := strconv.Unquote(imp.Path.Value)
			imports[path] = imp.Name.Name
		}
	}

	// Define qualifier to replace full package paths with names of the imports.
	return func(p *types.Package) string {
		if p == nil || p == pkg {
			return ""
		}

		if name, ok := imports[p.Path()]; ok {
			if name == "." {
				return ""
			} else {
				return name
			}
		}

		// If there is no local renaming, fall back to the package name.
		return p.Name()
	}
}
