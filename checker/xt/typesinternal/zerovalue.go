// Copyright 2024 The Go Authors. All rights reserved.
// Use of this source code is governed by a BSD-style
// license that can be found in the LICENSE file.

package typesinternal

import (
	"fmt"
	"go/ast"
	"go/token"
	"go/types"
	"strings"
)

// ZeroString returns the string representation of the zero value for any type t.
// The boolean result indicates whether the type is or contains an invalid type
// or a non-basic (constraint) interface type.
//
// Even for invalid input types, ZeroString may return a partially correct
// string representation. The caller should use the returned isValid boolean
// to determine the validity of the expression.
//
// When assigning to a wider type (such as 'any'), it's the caller's
// responsibility to handle any necessary type conversions.
//
// This string can be used on the right-hand side of an assignment where the
// left-hand side has that explicit type.
// References to named types are qualified by an appropriate (optional)
// qualifier function.
// Exception: This does not apply to tuples. Their string representation is
// informational only and cannot be used in an assignment.
//
// See [ZeroExpr] for a variant that returns an [ast.Expr].
func ZeroString(t types.Type, qual types.Qualifier) (_ string, isValid bool) {
	switch t := t.(type) {
	case *types.Basic:
		switch {
		case t.Info()&types.IsBoolean != 0:
			return "false", true
		case t.Info()&types.IsNumeric != 0:
			return "0", true
		case t.Info()&types.IsString != 0:
			return `""`, true
		case t.Kind() == types.UnsafePointer:
			fallthrough
		case t.Kind() == types.UntypedNil:
			return "nil", true
		case t.Kind() == types.Invalid:
			return "invalid", false
		default:
			panic(fmt.Sprintf("ZeroString for unexpected type %v", t))
		}

	case *types.Pointer, *types.Slice, *types.Chan, *types.Map, *types.Signature:
		return "nil", true

	case *types.Interface:
		if !t.IsMethodSet() {
			return "invalid", false
		}
		return "nil", true

	case *types.Named:
		switch under := t.Underlying().(type) {
		case *types.Struct, *types.Array:
			return types.TypeString(t, qual) + "{}", true
		default:
			return ZeroString(under, qual)
		}

	case *types.Alias:
		switch t.Underlying().(type) {
		case *types.Struct, *types.Array:
			return types.TypeString(t, qual) + "{}", true
		default:
			// A type parameter can have alias but alias type's underlying type
			// can never be a type parameter.
			// Use types.Unalias to preserve the info of type parameter instead
			// of call Underlying() going right through and get the underlying
			// type of the type parameter which is always an interface.
			return ZeroString(types.Unalias(t), qual)
		}

	case *types.Array, *types.Struct:
		return types.TypeString(t, qual) + "{}", true

	case *types.TypeParam:
		// Assumes func new is not shadowed.
		return "*new(" + types.TypeString(t, qual) + ")", true

	case *types.Tuple:
		// Tuples are not normal values.
		// We are currently format as "(t[0], ..., t[n])". Could be something else.
		isValid := true
		components := make([]string, t.Len())
		for i := 0; i < t.Len(); i++ {
			comp, ok := ZeroString(t.At(i).Type(), qual)

			components[i] = comp
			isValid = isValid && ok
		}
		return "(" + strings.Join(components, ", ") + ")", isValid

	case *types.Union:
		// Variables of these types cannot be created, so it makes
		// no sense to ask for their zero value.
		panic(fmt.Sprintf("invalid type for a variable: %v", t))

	default:
		panic(t) // unreachable.
	}
}

// ZeroExpr returns the ast.Expr representation of the zero value for any type t.
// The boolean result indicates whether the type is or contains an invalid type
// or a non-basic (constraint) interface type.
//
// Even for invalid input types, ZeroExpr may return a partially correct ast.Expr
// representation. The caller should use the returned isValid boolean to determine
// the validity of the expression.
//
// This function is designed for types suitable for variables and should not be
// used with Tuple or Union types.References to named types are qualified by an
// appropriate (optional) qualifier function.
//
// See [ZeroString] for a variant that returns a string.
func ZeroExpr(t types.Type, qual types.Qualifier) (_ ast.Expr, isValid bool) {
	switch t := t.(type) {
	case *types.Basic:
		switch {
		case t.Info()&types.IsBoolean != 0:
			return &ast.Ident{Name: "false"}, true
		case t.Info()&types.IsNumeric != 0:
			return &ast.BasicLit{Kind: token.INT, Value: "0"}, true
		case t.Info()&types.IsString != 0:
			return &ast.BasicLit{Kind: token.STRING, Value: `""`}, true
		case t.Kind() == types.UnsafePointer:
			fallthrough
		case t.Kind() == types.UntypedNil:
			return ast.NewIdent("nil"), true
		case t.Kind() == types.Invalid:
			return &ast.BasicLit{Kind: token.STRING, Value: `"invalid"`}, false
		default:
			panic(fmt.Sprintf("ZeroExpr for unexpected type %v", t))
		}

	case *types.Pointer, *types.Slice, *types.Chan, *types.Map, *types.Signature:
		return ast.NewIdent("nil"), true

	case *types.Interface:
		if !t.IsMethodSet() {
			return &ast.BasicLit{Kind: token.STRING, Value: `"invalid"`}, false
		}
		return ast.NewIdent("nil"), true

	case *types.Named:
		switch under := t.Underlying().(type) {
		case *types.Struct, *types.Array:
			return &ast.CompositeLit{
				Type: TypeExpr(t, qual),
			}, true
		default:
			return ZeroExpr(under, qual)
		}

	case *types.Alias:
		switch t.Underlying().(type) {
		case *types.Struct, *types.Array:
			return &ast.CompositeLit{
				Type: TypeExpr(t, qual),
			}, true
		default:
			return ZeroExpr(types.Unalias(t), qual)
		}

	case *types.Array, *types.Struct:
		return &ast.CompositeLit{
			Type: TypeExpr(t, qual),
		}, true

	case *types.TypeParam:
		return &ast.StarExpr{ // *new(T)
			X: &ast.CallExpr{
				// Assumes func new is not shadowed.
				Fun: ast.NewIdent("new"),
				Args: []ast.Expr{
					ast.NewIdent(t.Obj().Name()),
				},
			},
		}, true

	case *types.Tuple:
		// Unlike ZeroString, there is no ast.Expr can express tuple by
		// "(t[0], ..., t[n])".
		panic(fmt.Sprintf("invalid type for a variable: %v", t))

	case *types.Union:
		// Variables of these types cannot be created, so it makes
		// no sense to ask for their zero value.
		panic(fmt.Sprintf("invalid type for a variable: %v", t))

	default:
		panic(t) // unreachable.
	}
}

// IsZeroExpr uses simple syntactic heuristics to report whether expr
// is a obvious zero value, such as 0, "", nil, or false.
// It cannot do better without type information.
func IsZeroExpr(expr ast.Expr) bool {
	switch e := expr.(type) {
	case *ast.BasicLit:
		return e.Value == "0" || e.Value == `""`
	case *ast.Ident:
		return e.Name == "nil" || e.Name == "false"
	default:
		return false
	}
}

// TypeExpr returns syntax for the specified type. References to named types
// are qualified by an appropriate (optional) qualifier function.
// It may panic for types such as Tuple or Union.
func TypeExpr(t types.Type, qual types.Qualifier) ast.Expr {
	switch t := t.(type) {
	case *types.Basic:
		switch t.Kind() {
		case types.UnsafePointer:
			return &ast.SelectorExpr{X: ast.NewIdent(qual(types.NewPackage("unsafe", "unsafe"))), Sel: ast.NewIdent("Pointer")}
		default:
			return ast.NewIdent(t.Name())
		}

	case *types.Pointer:
		return &ast.UnaryExpr{
			Op: token.MUL,
			X:  TypeExpr(t.Elem(), qual),
		}

	case *types.Array:
		return &ast.ArrayType{
			Len: &ast.BasicLit{
				Kind:  token.INT,
				Value: fmt.Sprintf("%d", t.Len()),
			},
			Elt: TypeExpr(t.Elem(), qual),
		}

	case *types.Slice:
		return &ast.ArrayType{
			Elt: TypeExpr(t.Elem(), qual),
		}

	case *types.Map:
		return &ast.MapType{
			Key:   TypeExpr(t.Key(), qual),
			Value: TypeExpr(t.Elem(), qual),
		}

	case *types.Chan:
		dir := ast.ChanDir(t.Dir())
		if t.Dir() == types.SendRecv {
			dir = ast.SEND | ast.RECV
		}
		return &ast.ChanType{
			Dir:   dir,
			Value: TypeExpr(t.Elem(), qual),
		}

	case *types.Signature:
		var params []*ast.Field
		for i := 0; i < t.Params().Len(); i++ {
			params = append(params, &ast.Field{
				Type: TypeExpr(t.Params().At(i).Type(), qual),
				Names: []*ast.Ident{
					{
						Name: t.Params().At(i).Name(),
					},
				},
			})
		}
		if t.Variadic() {
			last := params[len(params)-1]
			last.Type = &ast.Ellipsis{Elt: last.Type.(*ast.ArrayType).Elt}
		}
		var returns []*ast.Field
		for i := 0; i < t.Results().Len(); i++ {
			returns = append(returns, &ast.Field{
				Type: TypeExpr(t.Results().At(i).Type(), qual),
			})
		}
		return &ast.FuncType{
			Params: &ast.FieldList{
				List: params,
			},
			Results: &ast.FieldList{
				List: returns,
			},
		}

	case *types.TypeParam:
		pkgName := qual(t.Obj().Pkg())
		if pkgName == "" || t.Obj().Pkg() == nil {
			return ast.NewIdent(t.Obj().Name())
		}
		return &ast.SelectorExpr{
			X:   ast.NewIdent(pkgName),
			Sel: ast.NewIdent(t.Obj().Name()),
		}

	// types.TypeParam also implements interface NamedOrAlias. To differentiate,
	// case TypeParam need to be present before case NamedOrAlias.
	// TODO(hxjiang): remove this comment once TypeArgs() is added to interface
	// NamedOrAlias.
	case NamedOrAlias:
		var expr ast.Expr = ast.NewIdent(t.Obj().Name())
		if pkgName := qual(t.Obj().Pkg()); pkgName != "." && pkgName != "" {
			expr = &ast.SelectorExpr{
				X:   ast.NewIdent(pkgName),
				Sel: expr.(*ast.Ident),
			}
		}

		// TODO(hxjiang): call t.TypeArgs after adding method TypeArgs() to
		// typesinternal.NamedOrAlias.
		if hasTypeArgs, ok := t.(interface{ TypeArgs() *types.TypeList }); ok {
			if typeArgs := hasTypeArgs.TypeArgs(); typeArgs != nil && typeArgs.Len() > 0 {
				var indices []ast.Expr
				for i := range typeArgs.Len() {
					indices = append(indices, TypeExpr(typeArgs.At(i), qual))
				}
				expr = &ast.IndexListExpr{
					X:       expr,
					Indices: indices,
				}
			}
		}

		return expr

	case *types.Struct:
		return ast.NewIdent(t.String())

	case *types.Interface:
		return ast.NewIdent(t.String())

	case *types.Union:
		if t.Len() == 0 {
			panic("Union type should have at least one term")
		}
		// Same as go/ast, the return expression will put last term in the
		// Y field at topmost level of BinaryExpr.
		// For union of type "float32 | float64 | int64", the structure looks
		// similar to:
		// {
		// 	X: {
		// 		X: float32,
		// 		Op: |
		// 		Y: float64,
		// 	}
		// 	Op: |,
		// 	Y: int64,
		// }
		var union ast.Expr
		for i := range t.Len() {
			term := t.Term(i)
			termExpr := TypeExpr(term.Type(), qual)
			if term.Tilde() {
				termExpr = &ast.UnaryExpr{
					Op: token.TILDE,
					X:  termExpr,
				}
			}
			if i == 0 {
				union = termExpr
			} else {
				union = &ast.BinaryExpr{
					X:  union,
					Op: token.OR,
					Y:  termExpr,
				}
			}
		}
		return union

	case *types.Tuple:
		panic("invalid input type types.Tuple")

	default:
		panic("unreachable")
	}
}
