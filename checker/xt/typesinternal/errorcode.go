// Copyright 2020 The Go Authors. All rights reserved.
// Use of this source code is governed by a BSD-style
// license that can be found in the LICENSE file.

package typesinternal

//go:generate stringer -type=ErrorCode

type ErrorCode int

// This file defines the error codes that can be produced during type-checking.
// Collectively, these codes provide an identifier that may be used to
// implement special handling for certain types of errors.
//
// Error codes should be fine-grained enough that the exact nature of the error
// can be easily determined, but coarse enough that they are not an
// implementation detail of the type checking algorithm. As a rule-of-thumb,
// errors should be considered equivalent if there is a theoretical refactoring
// of the type checker in which they are emitted in exactly one place. For
// example, the type checker emits different error messages for "too many
// arguments" and "too few arguments", but one can imagine an alternative type
// checker where this check instead just emits a single "wrong number of
// arguments", so these errors should have the same code.
//
// Error code names should be as brief as possible while retaining accuracy and
// distinctiveness. In most cases names should start with an adjective
// describing the nature of the error (e.g. "invalid", "unused", "misplaced"),
// and end with a noun identifying the relevant language object. For example,
// "DuplicateDecl" or "InvalidSliceExpr". For brevity, naming follows the
// convention that "bad" implies a problem with syntax, and "invalid" implies a
// problem with types.

const (
	// InvalidSyntaxTree occurs if an invalid syntax tree is provided
	// to the type checker. It should never happen.
	InvalidSyntaxTree ErrorCode = -1
)

const (
	_ ErrorCode = iota

	// Test is reserved for errors that only apply while in self-test mode.
	Test

	/* package names */

	// BlankPkgName occurs when a package name is the blank identifier "_".
	//
	// Per the spec:
	//  "The PackageName must not be the blank identifier."
	BlankPkgName

	// MismatchedPkgName occurs when a file's package name doesn't match the
	// package name already established by other files.
	MismatchedPkgName

	// InvalidPkgUse occurs when a package identifier is used outside of a
	// selector expression.
	//
	// Example:
	//  import "fmt"
	//
	//  var _ = fmt
	InvalidPkgUse

	/* imports */

	// BadImportPath occurs when an import path is not valid.
	BadImportPath

	// BrokenImport occurs when importing a package fails.
	//
	// Example:
	//  import "amissingpackage"
	BrokenImport

	// ImportCRenamed occurs when the special import "C" is renamed. "C" is a
	// pseudo-package, and must not be renamed.
	//
	// Example:
	//  import _ "C"
	ImportCRenamed

	// UnusedImport occurs when an import is unused.
	//
	// Example:
	//  import "fmt"
	//
	//  func main() {}
	UnusedImport

	/* initialization */

	// InvalidInitCycle occurs when an invalid cycle is detected within the
	// initialization graph.
	//
	// Example:
	//  var x int = f()
	//
	//  func f() int { return x }
	InvalidInitCycle

	/* decls */

	// DuplicateDecl occurs when an identifier is declared multiple times.
	//
	// Example:
	//  var x = 1
	//  var x = 2
	DuplicateDecl

	// InvalidDeclCycle occurs when a declaration cycle is not valid.
	//
	// Example:
	//  import "unsafe"
	//
	//  type T struct {
	//  	a [n]int
	//  }
	//
	//  var n = unsafe.Sizeof(T{})
	InvalidDeclCycle

	// InvalidTypeCycle occurs when a cycle in type definitions results in a
	// type that is not well-defined.
	//
	// Example:
	//  import "unsafe"
	//
	//  type T [unsafe.Sizeof(T{})]int
	InvalidTypeCycle

	/* decls > const */

	// InvalidConstInit occurs when a const declaration has a non-constant
	// initializer.
	//
	// Example:
	//  var x int
	//  const _ = x
	InvalidConstInit

	// InvalidConstVal occurs when a const value cannot be converted to its
	// target type.
	//
	// TODO(findleyr): this error code and example are not very clear. Consider
	// removing it.
	//
	// Example:
	//  const _ = 1 << "hello"
	InvalidConstVal

	// InvalidConstType occurs when the underlying type in a const declaration
	// is not a valid constant type.
	//
	// Example:
	//  const c *int = 4
	InvalidConstType

	/* decls > var (+ other variable assignment codes) */

	// UntypedNilUse occurs when the predeclared (untyped) value nil is used to
	// initialize a variable declared without an explicit type.
	//
	// Example:
	//  var x = nil
	UntypedNilUse

	// WrongAssignCount occurs when the number of values on the right-hand side
	// of an assignment or initialization expression does not match the number
	// of variables on the left-hand side.
	//
	// Example:
	//  var x = 1, 2
	WrongAssignCount

	// UnassignableOperand occurs when the left-hand side of an assignment is
	// not assignable.
	//
	// Example:
	//  func f() {
	//  	const c = 1
	//  	c = 2
	//  }
	UnassignableOperand

	// NoNewVar occurs when a short variable declaration (':=') does not declare
	// new variables.
	//
	// Example:
	//  func f() {
	//  	x := 1
	//  	x := 2
	//  }
	NoNewVar

	// MultiValAssignOp occurs when an assignment operation (+=, *=, etc) does
	// not have single-valued left-hand or right-hand side.
	//
	// Per the spec:
	//  "In assignment operations, both the left- and right-hand expression lists
	//  must contain exactly one single-valued expression"
	//
	// Example:
	//  func f() int {
	//  	x, y := 1, 2
	//  	x, y += 1
	//  	return x + y
	//  }
	MultiValAssignOp

	// InvalidIfaceAssign occurs when a value of type T is used as an
	// interface, but T does not implement a method of the expected interface.
	//
	// Example:
	//  type I interface {
	//  	f()
	//  }
	//
	//  type T int
	//
	//  var x I = T(1)
	InvalidIfaceAssign

	// InvalidChanAssign occurs when a chan assignment is invalid.
	//
	// Per the spec, a value x is assignable to a channel type T if:
	//  "x is a bidirectional channel value, T is a channel type, x's type V and
	//  T have identical element types, and at least one of V or T is not a
	//  defined type."
	//
	// Example:
	//  type T1 chan int
	//  type T2 chan int
	//
	//  var x T1
	//  // Invalid assignment because both types are named
	//  var _ T2 = x
	InvalidChanAssign

	// IncompatibleAssign occurs when the type of the right-hand side expression
	// in an assignment cannot be assigned to the type of the variable being
	// assigned.
	//
	// Example:
	//  var x []int
	//  var _ int = x
	IncompatibleAssign

	// UnaddressableFieldAssign occurs when trying to assign to a struct field
	// in a map value.
	//
	// Example:
	//  func f() {
	//  	m := make(map[string]struct{i int})
	//  	m["foo"].i = 42
	//  }
	UnaddressableFieldAssign

	/* decls > type (+ other type expression codes) */

	// NotAType occurs when the identifier used as the underlying type in a type
	// declaration or the right-hand side of a type alias does not denote a type.
	//
	// Example:
	//  var S = 2
	//
	//  type T S
	NotAType

	// InvalidArrayLen occurs when an array length is not a constant value.
	//
	// Example:
	//  var n = 3
	//  var _ = [n]int{}
	InvalidArrayLen

	// BlankIfaceMethod occurs when a method name is '_'.
	//
	// Per the spec:
	//  "The name of each explicitly specified method must be unique and not
	//  blank."
	//
	// Example:
	//  type T interface {
	//  	_(int)
	//  }
	BlankIfaceMethod

	// IncomparableMapKey occurs when a map key type does not support the == and
	// != operators.
	//
	// Per the spec:
	//  "The comparison operators == and != must be fully defined for operands of
	//  the key type; thus the key type must not be a function, map, or slice."
	//
	// Example:
	//  var x map[T]int
	//
	//  type T []int
	IncomparableMapKey

	// InvalidIfaceEmbed occurs when a non-interface type is embedded in an
	// interface.
	//
	// Example:
	//  type T struct {}
	//
	//  func (T) m()
	//
	//  type I interface {
	//  	T
	//  }
	InvalidIfaceEmbed

	// InvalidPtrEmbed occurs when an embedded field is of the pointer form *T,
	// and T itself is itself a pointer, an unsafe.Pointer, or an interface.
	//
	// Per the spec:
	//  "An embedded field must be specified as a type name T or as a pointer to
	//  a non-interface type name *T, and T itself may not be a pointer type."
	//
	// Example:
	//  type T *int
	//
	//  type S struct {
	//  	*T
	//  }
	InvalidPtrEmbed

	/* decls > func and method */

	// BadRecv occurs when a method declaration does not have exactly one
	// receiver parameter.
	//
	// Example:
	//  func () _() {}
	BadRecv

	// InvalidRecv occurs when a receiver type expression is not of the form T
	// or *T, or T is a pointer type.
	//
	// Example:
	//  type T struct {}
	//
	//  func (**T) m() {}
	InvalidRecv

	// DuplicateFieldAndMethod occurs when an identifier appears as both a field
	// and method name.
	//
	// Example:
	//  type T struct {
	//  	m int
	//  }
	//
	//  func (T) m() {}
	DuplicateFieldAndMethod

	// DuplicateMethod occurs when two methods on the same receiver type have
	// the same name.
	//
	// Example:
	//  type T struct {}
	//  func (T) m() {}
	//  func (T) m(i int) int { return i }
	DuplicateMethod

	/* decls > special */

	// InvalidBlank occurs when a blank identifier is used as a value or type.
	//
	// Per the spec:
	//  "The blank identifier may appear as an operand only on the left-hand side
	//  of an assignment."
	//
	// Example:
	//  var x = _
	InvalidBlank

	// InvalidIota occurs when the predeclared identifier iota is used outside
	// of a constant declaration.
	//
	// Example:
	//  var x = iota
	InvalidIota

	// MissingInitBody occurs when an init function is missing its body.
	//
	// Example:
	//  func init()
	MissingInitBody

	// InvalidInitSig occurs when an init function declares parameters or
	// results.
	//
	// Example:
	//  func init() int { return 1 }
	InvalidInitSig

	// InvalidInitDecl occurs when init is declared as anything other than a
	// function.
	//
	// Example:
	//  var init = 1
	InvalidInitDecl

	// InvalidMainDecl occurs when main is declared as anything other than a
	// function, in a main package.
	InvalidMainDecl

	/* exprs */

	// TooManyValues occurs when a function returns too many values for the
	// expression context in which it is used.
	//
	// Example:
	//  func ReturnTwo() (int, int) {
	//  	return 1, 2
	//  }
	//
	//  var x = ReturnTwo()
	TooManyValues

	// NotAnExpr occurs when a type expression is used where a value expression
	// is expected.
	//
	// Example:
	//  type T struct {}
	//
	//  func f() {
	//  	T
	//  }
	NotAnExpr

	/* exprs > const */

	// TruncatedFloat occurs when a float constant is truncated to an integer
	// value.
	//
	// Example:
	//  var _ int = 98.6
	TruncatedFloat

	// NumericOverflow occurs when a numeric constant overflows its target type.
	//
	// Example:
	//  var x int8 = 1000
	NumericOverflow

	/* exprs > operation */

	// UndefinedOp occurs when an operator is not defined for the type(s) used
	// in an operation.
	//
	// Example:
	//  var c = "a" - "b"
	UndefinedOp

	// MismatchedTypes occurs when operand types are incompatible in a binary
	// operation.
	//
	// Example:
	//  var a = "hello"
	//  var b = 1
	//  var c = a - b
	MismatchedTypes

	// DivByZero occurs when a division operation is provable at compile
	// time to be a division by zero.
	//
	// Example:
	//  const divisor = 0
	//  var x int = 1/divisor
	DivByZero

	// NonNumericIncDec occurs when an increment or decrement operator is
	// applied to a non-numeric value.
	//
	// Example:
	//  func f() {
	//  	var c = "c"
	//  	c++
	//  }
	NonNumericIncDec

	/* exprs > ptr */

	// UnaddressableOperand occurs when the & operator is applied to an
	// unaddressable expression.
	//
	// Example:
	//  var x = &1
	UnaddressableOperand

	// InvalidIndirection occurs when a non-pointer value is indirected via the
	// '*' operator.
	//
	// Example:
	//  var x int
	//  var y = *x
	InvalidIndirection

	/* exprs > [] */

	// NonIndexableOperand occurs when an index operation is applied to a value
	// that cannot be indexed.
	//
	// Example:
	//  var x = 1
	//  var y = x[1]
	NonIndexableOperand

	// InvalidIndex occurs when an index argument is not of integer type,
	// negative, or out-of-bounds.
	//
	// Example:
	//  var s = [...]int{1,2,3}
	//  var x = s[5]
	//
	// Example:
	//  var s = []int{1,2,3}
	//  var _ = s[-1]
	//
	// Example:
	//  var s = []int{1,2,3}
	//  var i string
	//  var _ = s[i]
	InvalidIndex

	// SwappedSliceIndices occurs when constant indices in a slice expression
	// are decreasing in value.
	//
	// Example:
	//  var _ = []int{1,2,3}[2:1]
	SwappedSliceIndices

	/* operators > slice */

	// NonSliceableOperand occurs when a slice operation is applied to a value
	// whose type is not sliceable, or is unaddressable.
	//
	// Example:
	//  var x = [...]int{1, 2, 3}[:1]
	//
	// Example:
	//  var x = 1
	//  var y = 1[:1]
	NonSliceableOperand

	// InvalidSliceExpr occurs when a three-index slice expression (a[x:y:z]) is
	// applied to a string.
	//
	// Example:
	//  var s = "hello"
	//  var x = s[1:2:3]
	InvalidSliceExpr

	/* exprs > shift */

	// InvalidShiftCount occurs when the right-hand side of a shift operation is
	// either non-integer, negative, or too large.
	//
	// Example:
	//  var (
	//  	x string
	//  	y int = 1 << x
	//  )
	InvalidShiftCount

	// InvalidShiftOperand occurs when the shifted operand is not an integer.
	//
	// Example:
	//  var s = "hello"
	//  var x = s << 2
	InvalidShiftOperand

	/* exprs > chan */

	// InvalidReceive occurs when there is a channel receive from a value that
	// is either not a channel, or is a send-only channel.
	//
	// Example:
	//  func f() {
	//  	var x = 1
	//  	<-x
	//  }
	InvalidReceive

	// InvalidSend occurs when there is a channel send to a value that is not a
	// channel, or is a receive-only channel.
	//
	// Example:
	//  func f() {
	//  	var x = 1
	//  	x <- "hello!"
	//  }
	InvalidSend

	/* exprs > literal */

	// DuplicateLitKey occurs when an index is duplicated in a slice, array, or
	// map literal.
	//
	// Example:
	//  var _ = []int{0:1, 0:2}
	//
	// Example:
	//  var _ = map[string]int{"a": 1, "a": 2}
	DuplicateLitKey

	// MissingLitKey occurs when a map literal is missing a key expression.
	//
	// Example:
	//  var _ = map[string]int{1}
	MissingLitKey

	// InvalidLitIndex occurs when the key in a key-value element of a slice or
	// array literal is not an integer constant.
	//
	// Example:
	//  var i = 0
	//  var x = []string{i: "world"}
	InvalidLitIndex

	// OversizeArrayLit occurs when an array literal exceeds its length.
	//
	// Example:
	//  var _ = [2]int{1,2,3}
	OversizeArrayLit

	// MixedStructLit occurs when a struct literal contains a mix of positional
	// and named elements.
	//
	// Example:
	//  var _ = struct{i, j int}{i: 1, 2}
	MixedStructLit

	// InvalidStructLit occurs when a positional struct literal has an incorrect
	// number of values.
	//
	// Example:
	//  var _ = struct{i, j int}{1,2,3}
	InvalidStructLit

	// MissingLitField occurs when a struct literal refers to a field that does
	// not exist on the struct type.
	//
	// Example:
	//  var _ = struct{i int}{j: 2}
	MissingLitField

	// DuplicateLitField occurs when a struct literal contains duplicated
	// fields.
	//
	// Example:
	//  var _ = struct{i int}{i: 1, i: 2}
	DuplicateLitField

	// UnexportedLitField occurs when a positional struct literal implicitly
	// assigns an unexported field of an imported type.
	UnexportedLitField

	// InvalidLitField occurs when a field name is not a valid identifier.
	//
	// Example:
	//  var _ = struct{i int}{1: 1}
	InvalidLitField

	// UntypedLit occurs when a composite literal omits a required type
	// identifier.
	//
	// Example:
	//  type outer struct{
	//  	inner struct { i int }
	//  }
	//
	//  var _ = outer{inner: {1}}
	UntypedLit

	// InvalidLit occurs when a composite literal expression does not match its
	// type.
	//
	// Example:
	//  type P *struct{
	//  	x int
	//  }
	//  var _ = P {}
	InvalidLit

	/* exprs > selector */

	// AmbiguousSelector occurs when a selector is ambiguous.
	//
	// Example:
	//  type E1 struct { i int }
	//  type E2 struct { i int }
	//  type T struct { E1; E2 }
	//
	//  var x T
	//  var _ = x.i
	AmbiguousSelector

	// UndeclaredImportedName occurs when a package-qualified identifier is
	// undeclared by the imported package.
	//
	// Example:
	//  import "go/types"
	//
	//  var _ = types.NotAnActualIdentifier
	UndeclaredImportedName

	// UnexportedName occurs when a selector refers to an unexported identifier
	// of an imported package.
	//
	// Example:
	//  import "reflect"
	//
	//  type _ reflect.flag
	UnexportedName

	// UndeclaredName occurs when an identifier is not declared in the current
	// scope.
	//
	// Example:
	//  var x T
	UndeclaredName

	// MissingFieldOrMethod occurs when a selector references a field or method
	// that does not exist.
	//
	// Example:
	//  type T struct {}
	//
	//  var x = T{}.f
	MissingFieldOrMethod

	/* exprs > ... */

	// BadDotDotDotSyntax occurs when a "..." occurs in a context where it is
	// not valid.
	//
	// Example:
	//  var _ = map[int][...]int{0: {}}
	BadDotDotDotSyntax

	// NonVariadicDotDotDot occurs when a "..." is used on the final argument to
	// a non-variadic function.
	//
	// Example:
	//  func printArgs(s []string) {
	//  	for _, a := range s {
	//  		println(a)
	//  	}
	//  }
	//
	//  func f() {
	//  	s := []string{"a", "b", "c"}
	//  	printArgs(s...)
	//  }
	NonVariadicDotDotDot

	// MisplacedDotDotDot occurs when a "..." is used somewhere other than the
	// final argument to a function call.
	//
	// Example:
	//  func printArgs(args ...int) {
	//  	for _, a := range args {
	//  		println(a)
	//  	}
	//  }
	//
	//  func f() {
	//  	a := []int{1,2,3}
	//  	printArgs(0, a...)
	//  }
	MisplacedDotDotDot

	// InvalidDotDotDotOperand occurs when a "..." operator is applied to a
	// single-valued operand.
	//
	// Example:
	//  func printArgs(args ...int) {
	//  	for _, a := range args {
	//  		println(a)
	//  	}
	//  }
	//
	//  func f() {
	//  	a := 1
	//  	printArgs(a...)
	//  }
	//
	// Example:
	//  func args() (int, int) {
	//  	return 1, 2
	//  }
	//
	//  func printArgs(args ...int) {
	//  	for _, a := range args {
	//  		println(a)
	//  	}
	//  }
	//
	//  func g() {
	//  	printArgs(args()...)
	//  }
	InvalidDotDotDotOperand

	// InvalidDotDotDot occurs when a "..." is used in a non-variadic built-in
	// function.
	//
	// Example:
	//  var s = []int{1, 2, 3}
	//  var l = len(s...)
	InvalidDotDotDot

	/* exprs > built-in */

	// UncalledBuiltin occurs when a built-in function is used as a
	// function-valued expression, instead of being called.
	//
	// Per the spec:
	//  "The built-in functions do not have standard Go types, so they can only
	//  appear in call expressions; they cannot be used as function values."
	//
	// Example:
	//  var _ = copy
	UncalledBuiltin

	// InvalidAppend occurs when append is called with a first argument that is
	// not a slice.
	//
	// Example:
	//  var _ = append(1, 2)
	InvalidAppend

	// InvalidCap occurs when an argument to the cap built-in function is not of
	// supported type.
	//
	// See https://golang.org/ref/spec#Length_and_capacity for information on
	// which underlying types are supported as arguments to cap and len.
	//
	// Example:
	//  var s = 2
	//  var x = cap(s)
	InvalidCap

	// InvalidClose occurs when close(...) is called with an argument that is
	// not of channel type, or that is a receive-only channel.
	//
	// Example:
	//  func f() {
	//  	var x int
	//  	close(x)
	//  }
	InvalidClose

	// InvalidCopy occurs when the arguments are not of slice type or do not
	// have compatible type.
	//
	// See https://golang.org/ref/spec#Appending_and_copying_slices for more
	// information on the type requirements for the copy built-in.
	//
	// Example:
	//  func f() {
	//  	var x []int
	//  	y := []int64{1,2,3}
	//  	copy(x, y)
	//  }
	InvalidCopy

	// InvalidComplex occurs when the complex built-in function is called with
	// arguments with incompatible types.
	//
	// Example:
	//  var _ = complex(float32(1), float64(2))
	InvalidComplex

	// InvalidDelete occurs when the delete built-in function is called with a
	// first argument that is not a map.
	//
	// Example:
	//  func f() {
	//  	m := "hello"
	//  	delete(m, "e")
	//  }
	InvalidDelete

	// InvalidImag occurs when the imag built-in function is called with an
	// argument that does not have complex type.
	//
	// Example:
	//  var _ = imag(int(1))
	InvalidImag

	// InvalidLen occurs when an argument to the len built-in function is not of
	// supported type.
	//
	// See https://golang.org/ref/spec#Length_and_capacity for information on
	// which underlying types are supported as arguments to cap and len.
	//
	// Example:
	//  var s = 2
	//  var x = len(s)
	InvalidLen

	// SwappedMakeArgs occurs when make is called with three arguments, and its
	// length argument is larger than its capacity argument.
	//
	// Example:
	//  var x = make([]int, 3, 2)
	SwappedMakeArgs

	// InvalidMake occurs when make is called with an unsupported type argument.
	//
	// See https://golang.org/ref/spec#Making_slices_maps_and_channels for
	// information on the types that may be created using make.
	//
	// Example:
	//  var x = make(int)
	InvalidMake

	// InvalidReal occurs when the real built-in function is called with an
	// argument that does not have complex type.
	//
	// Example:
	//  var _ = real(int(1))
	InvalidReal

	/* exprs > assertion */

	// InvalidAssert occurs when a type assertion is applied to a
	// value that is not of interface type.
	//
	// Example:
	//  var x = 1
	//  var _ = x.(float64)
	InvalidAssert

	// ImpossibleAssert occurs for a type assertion x.(T) when the value x of
	// interface cannot have dynamic type T, due to a missing or mismatching
	// method on T.
	//
	// Example:
	//  type T int
	//
	//  func (t *T) m() int { return int(*t) }
	//
	//  type I interface { m() int }
	//
	//  var x I
	//  var _ = x.(T)
	ImpossibleAssert

	/* exprs > conversion */

	// InvalidConversion occurs when the argument type cannot be converted to the
	// target.
	//
	// See https://golang.org/ref/spec#Conversions for the rules of
	// convertibility.
	//
	// Example:
	//  var x float64
	//  var _ = string(x)
	InvalidConversion

	// InvalidUntypedConversion occurs when an there is no valid implicit
	// conversion from an untyped value satisfying the type constraints of the
	// context in which it is used.
	//
	// Example:
	//  var _ = 1 + ""
	InvalidUntypedConversion

	/* offsetof */

	// BadOffsetofSyntax occurs when unsafe.Offsetof is called with an argument
	// that is not a selector expression.
	//
	// Example:
	//  import "unsafe"
	//
	//  var x int
	//  var _ = unsafe.Offsetof(x)
	BadOffsetofSyntax

	// InvalidOffsetof occurs when unsafe.Offsetof is called with a method
	// selector, rather than a field selector, or when the field is embedded via
	// a pointer.
	//
	// Per the spec:
	//
	//  "If f is an embedded field, it must be reachable without pointer
	//  indirections through fields of the struct. "
	//
	// Example:
	//  import "unsafe"
	//
	//  type T struct { f int }
	//  type S struct { *T }
	//  var s S
	//  var _ = unsafe.Offsetof(s.f)
	//
	// Example:
	//  import "unsafe"
	//
	//  type S struct{}
	//
	//  func (S) m() {}
	//
	//  var s S
	//  var _ = unsafe.Offsetof(s.m)
	InvalidOffsetof

	/* control flow > scope */

	// UnusedExpr occurs when a side-effect free expression is used as a
	// statement. Such a statement has no effect.
	//
	// Example:
	//  func f(i int) {
	//  	i*i
	//  }
	UnusedExpr

	// UnusedVar occurs when a variable is declared but unused.
	//
	// Example:
	//  func f() {
	//  	x := 1
	//  }
	UnusedVar

	// MissingReturn occurs when a function with results is missing a return
	// statement.
	//
	// Example:
	//  func f() int {}
	MissingReturn

	// WrongResultCount occurs when a return statement returns an incorrect
	// number of values.
	//
	// Example:
	//  func ReturnOne() int {
	//  	return 1, 2
	//  }
	WrongResultCount

	// OutOfScopeResult occurs when the name of a value implicitly returned by
	// an empty return statement is shadowed in a nested scope.
	//
	// Example:
	//  func factor(n int) (i int) {
	//  	for i := 2; i < n; i++ {
	//  		if n%i == 0 {
	//  			return
	//  		}
	//  	}
	//  	return 0
	//  }
	OutOfScopeResult

	/* control flow > if */

	// InvalidCond occurs when an if condition is not a boolean expression.
	//
	// Example:
	//  func checkReturn(i int) {
	//  	if i {
	//  		panic("non-zero return")
	//  	}
	//  }
	InvalidCond

	/* control flow > for */

	// InvalidPostDecl occurs when there is a declaration in a for-loop post
	// statement.
	//
	// Example:
	//  func f() {
	//  	for i := 0; i < 10; j := 0 {}
	//  }
	InvalidPostDecl

	// InvalidChanRange occurs when a send-only channel used in a range
	// expression.
	//
	// Example:
	//  func sum(c chan<- int) {
	//  	s := 0
	//  	for i := range c {
	//  		s += i
	//  	}
	//  }
	InvalidChanRange

	// InvalidIterVar occurs when two iteration variables are used while ranging
	// over a channel.
	//
	// Example:
	//  func f(c chan int) {
	//  	for k, v := range c {
	//  		println(k, v)
	//  	}
	//  }
	InvalidIterVar

	// InvalidRangeExpr occurs when the type of a range expression is not array,
	// slice, string, map, or channel.
	//
	// Example:
	//  func f(i int) {
	//  	for j := range i {
	//  		println(j)
	//  	}
	//  }
	InvalidRangeExpr

	/* control flow > switch */

	// MisplacedBreak occurs when a break statement is not within a for, switch,
	// or select statement of the innermost function definition.
	//
	// Example:
	//  func f() {
	//  	break
	//  }
	MisplacedBreak

	// MisplacedContinue occurs when a continue statement is not within a for
	// loop of the innermost function definition.
	//
	// Example:
	//  func sumeven(n int) int {
	//  	proceed := func() {
	//  		continue
	//  	}
	//  	sum := 0
	//  	for i := 1; i <= n; i++ {
	//  		if i % 2 != 0 {
	//  			proceed()
	//  		}
	//  		sum += i
	//  	}
	//  	return sum
	//  }
	MisplacedContinue

	// MisplacedFallthrough occurs when a fallthrough statement is not within an
	// expression switch.
	//
	// Example:
	//  func typename(i interface{}) string {
	//  	switch i.(type) {
	//  	case int64:
	//  		fallthrough
	//  	case int:
	//  		return "int"
	//  	}
	//  	return "unsupported"
	//  }
	MisplacedFallthrough

	// DuplicateCase occurs when a type or expression switch has duplicate
	// cases.
	//
	// Example:
	//  func printInt(i int) {
	//  	switch i {
	//  	case 1:
	//  		println("one")
	//  	case 1:
	//  		println("One")
	//  	}
	//  }
	DuplicateCase

	// DuplicateDefault occurs when a type or expression switch has multiple
	// default clauses.
	//
	// Example:
	//  func printInt(i int) {
	//  	switch i {
	//  	case 1:
	//  		println("one")
	//  	default:
	//  		println("One")
	//  	default:
	//  		println("1")
	//  	}
	//  }
	DuplicateDefault

	// BadTypeKeyword occurs when a .(type) expression is used anywhere other
	// than a type switch.
	//
	// Example:
	//  type I interface {
	//  	m()
	//  }
	//  var t I
	//  var _ = t.(type)
	BadTypeKeyword

	// InvalidTypeSwitch occurs when .(type) is used on an expression that is
	// not of interface type.
	//
	// Example:
	//  func f(i int) {
	//  	switch x := i.(type) {}
	//  }
	InvalidTypeSwitch

	// InvalidExprSwitch occurs when a switch expression is not comparable.
	//
	// Example:
	//  func _() {
	//  	var a struct{ _ func() }
	//  	switch a /* ERROR cannot switch on a */ {
	//  	}
	//  }
	InvalidExprSwitch

	/* control flow > select */

	// InvalidSelectCase occurs when a select case is not a channel send or
	// receive.
	//
	// Example:
	//  func checkChan(c <-chan int) bool {
	//  	select {
	//  	case c:
	//  		return true
	//  	default:
	//  		return false
	//  	}
	//  }
	InvalidSelectCase

	/* control flow > labels and jumps */

	// UndeclaredLabel occurs when an undeclared label is jumped to.
	//
	// Example:
	//  func f() {
	//  	goto L
	//  }
	UndeclaredLabel

	// DuplicateLabel occurs when a label is declared more than once.
	//
	// Example:
	//  func f() int {
	//  L:
	//  L:
	//  	return 1
	//  }
	DuplicateLabel

	// MisplacedLabel occurs when a break or continue label is not on a for,
	// switch, or select statement.
	//
	// Example:
	//  func f() {
	//  L:
	//  	a := []int{1,2,3}
	//  	for _, e := range a {
	//  		if e > 10 {
	//  			break L
	//  		}
	//  		println(a)
	//  	}
	//  }
	MisplacedLabel

	// UnusedLabel occurs when a label is declared but not used.
	//
	// Example:
	//  func f() {
	//  L:
	//  }
	UnusedLabel

	// JumpOverDecl occurs when a label jumps over a variable declaration.
	//
	// Example:
	//  func f() int {
	//  	goto L
	//  	x := 2
	//  L:
	//  	x++
	//  	return x
	//  }
	JumpOverDecl

	// JumpIntoBlock occurs when a forward jump goes to a label inside a nested
	// block.
	//
	// Example:
	//  func f(x int) {
	//  	goto L
	//  	if x > 0 {
	//  	L:
	//  		print("inside block")
	//  	}
	// }
	JumpIntoBlock

	/* control flow > calls */

	// InvalidMethodExpr occurs when a pointer method is called but the argument
	// is not addressable.
	//
	// Example:
	//  type T struct {}
	//
	//  func (*T) m() int { return 1 }
	//
	//  var _ = T.m(T{})
	InvalidMethodExpr

	// WrongArgCount occurs when too few or too many arguments are passed by a
	// function call.
	//
	// Example:
	//  func f(i int) {}
	//  var x = f()
	WrongArgCount

	// InvalidCall occurs when an expression is called that is not of function
	// type.
	//
	// Example:
	//  var x = "x"
	//  var y = x()
	InvalidCall

	/* control flow > suspended */

	// UnusedResults occurs when a restricted expression-only built-in function
	// is suspended via go or defer. Such a suspension discards the results of
	// these side-effect free built-in functions, and therefore is ineffectual.
	//
	// Example:
	//  func f(a []int) int {
	//  	defer len(a)
	//  	return i
	//  }
	UnusedResults

	// InvalidDefer occurs when a deferred expression is not a function call,
	// for example if the expression is a type conversion.
	//
	// Example:
	//  func f(i int) int {
	//  	defer int32(i)
	//  	return i
	//  }
	InvalidDefer

	// InvalidGo occurs when a go expression is not a function call, for example
	// if the expression is a type conversion.
	//
	// Example:
	//  func f(i int) int {
	//  	go int32(i)
	//  	return i
	//  }
	InvalidGo

	// All codes below were added in Go 1.17.

	/* decl */

	// BadDecl occurs when a declaration has invalid syntax.
	BadDecl

	// RepeatedDecl occurs when an identifier occurs more than once on the left
	// hand side of a short variable declaration.
	//
	// Example:
	//  func _() {
	//  	x, y, y := 1, 2, 3
	//  }
	RepeatedDecl

	/* unsafe */

	// InvalidUnsafeAdd occurs when unsafe.Add is called with a
	// length argument that is not of integer type.
	//
	// Example:
	//  import "unsafe"
	//
	//  var p unsafe.Pointer
	//  var _ = unsafe.Add(p, float64(1))
	InvalidUnsafeAdd

	// InvalidUnsafeSlice occurs when unsafe.Slice is called with a
	// pointer argument that is not of pointer type or a length argument
	// that is not of integer type, negative, or out of bounds.
	//
	// Example:
	//  import "unsafe"
	//
	//  var x int
	//  var _ = unsafe.Slice(x, 1)
	//
	// Example:
	//  import "unsafe"
	//
	//  var x int
	//  var _ = unsafe.Slice(&x, float64(1))
	//
	// Example:
	//  import "unsafe"
	//
	//  var x int
	//  var _ = unsafe.Slice(&x, -1)
	//
	// Example:
	//  import "unsafe"
	//
	//  var x int
	//  var _ = unsafe.Slice(&x, uint64(1) << 63)
	InvalidUnsafeSlice

	// All codes below were added in Go 1.18.

	/* features */

	// UnsupportedFeature occurs when a language feature is used that is not
	// supported at this Go version.
	UnsupportedFeature

	/* type params */

	// NotAGenericType occurs when a non-generic type is used where a generic
	// type is expected: in type or function instantiation.
	//
	// Example:
	//  type T int
	//
	//  var _ T[int]
	NotAGenericType

	// WrongTypeArgCount occurs when a type or function is instantiated with an
	// incorrect number of type arguments, including when a generic type or
	// function is used without instantiation.
	//
	// Errors involving failed type inference are assigned other error codes.
	//
	// Example:
	//  type T[p any] int
	//
	//  var _ T[int, string]
	//
	// Example:
	//  func f[T any]() {}
	//
	//  var x = f
	WrongTypeArgCount

	// CannotInferTypeArgs occurs when type or function type argument inference
	// fails to infer all type arguments.
	//
	// Example:
	//  func f[T any]() {}
	//
	//  func _() {
	//  	f()
	//  }
	//
	// Example:
	//   type N[P, Q any] struct{}
	//
	//   var _ N[int]
	CannotInferTypeArgs

	// InvalidTypeArg occurs when a type argument does not satisfy its
	// corresponding type parameter constraints.
	//
	// Example:
	//  type T[P ~int] struct{}
	//
	//  var _ T[string]
	InvalidTypeArg // arguments? InferenceFailed

	// InvalidInstanceCycle occurs when an invalid cycle is detected
	// within the instantiation graph.
	//
	// Example:
	//  func f[T any]() { f[*T]() }
	InvalidInstanceCycle

	// InvalidUnion occurs when an embedded union or approximation element is
	// not valid.
	//
	// Example:
	//  type _ interface {
	//   	~int | interface{ m() }
	//  }
	InvalidUnion

	// MisplacedConstraintIface occurs when a constraint-type interface is used
	// outside of constraint position.
	//
	// Example:
	//   type I interface { ~int }
	//
	//   var _ I
	MisplacedConstraintIface

	// InvalidMethodTypeParams occurs when methods have type parameters.
	//
	// It cannot be encountered with an AST parsed using go/parser.
	InvalidMethodTypeParams

	// MisplacedTypeParam occurs when a type parameter is used in a place where
	// it is not permitted.
	//
	// Example:
	//  type T[P any] P
	//
	// Example:
	//  type T[P any] struct{ *P }
	MisplacedTypeParam

	// InvalidUnsafeSliceData occurs when unsafe.SliceData is called with
	// an argument that is not of slice type. It also occurs if it is used
	// in a package compiled for a language version before go1.20.
	//
	// Example:
	//  import "unsafe"
	//
	//  var x int
	//  var _ = unsafe.SliceData(x)
	InvalidUnsafeSliceData

	// InvalidUnsafeString occurs when unsafe.String is called with
	// a length argument that is not of integer type, negative, or
	// out of bounds. It also occurs if it is used in a package
	// compiled for a language version before go1.20.
	//
	// Example:
	//  import "unsafe"
	//
	//  var b [10]byte
	//  var _ = unsafe.String(&b[0], -1)
	InvalidUnsafeString

	// InvalidUnsafeStringData occurs if it is used in a package
	// compiled for a language version before go1.20.
	_ // not used anymore

)
