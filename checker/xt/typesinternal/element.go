// Copyright 2024 The Go Authors. All rights reserved.
// Use of this source code is governed by a BSD-style
// license that can be found in the LICENSE file.

package typesinternal

import (
	"fmt"
	"go/types"

	"golang.org/x/tools/go/types/typeutil"
)

// ForEachElement calls f for type T and each type reachable from its
// type through reflection. It does this by recursively stripping off
// type constructors; in addition, for each named type N, the type *N
// is added to the result as it may have additional methods.
//
// The caller must provide an initially empty set used to de-duplicate
// identical types, potentially across multiple calls to ForEachElement.
// (Its final value holds all the elements seen, matching the arguments
// passed to f.)
//
// TODO(adonovan): share/harmonize with go/callgraph/rta.
func ForEachElement(rtypes *typeutil.Map, msets *typeutil.MethodSetCache, T types.Type, f func(types.Type)) {
	var visit func(T types.Type, skip bool)
	visit = func(T types.Type, skip bool) {
		if !skip {
			if seen, _ := rtypes.Set(T, true).(bool); seen {
				return // de-dup
			}

			f(T) // notify caller of new element type
		}

		// Recursion over signatures of each method.
		tmset := msets.MethodSet(T)
		for i := 0; i < tmset.Len(); i++ {
			sig := tmset.At(i).Type().(*types.Signature)
			// It is tempting to call visit(sig, false)
			// but, as noted in golang.org/cl/65450043,
			// the Signature.Recv field is ignored by
			// types.Identical and typeutil.Map, which
			// is confusing at best.
			//
			// More importantly, the true signature rtype
			// reachable from a method using reflection
			// has no receiver but an extra ordinary parameter.
			// For the Read method of io.Reader we want:
			//   func(Reader, []byte) (int, error)
			// but here sig is:
			//   func([]byte) (int, error)
			// with .Recv = Reader (though it is hard to
			// notice because it doesn't affect Signature.String
			// or types.Identical).
			//
			// TODO(adonovan): construct and visit the correct
			// non-method signature with an extra parameter
			// (though since unnamed func types have no methods
			// there is essentially no actual demand for this).
			//
			// TODO(adonovan): document whether or not it is
			// safe to skip non-exported methods (as RTA does).
			visit(sig.Params(), true)  // skip the Tuple
			visit(sig.Results(), true) // skip the Tuple
		}

		switch T := T.(type) {
		case *types.Alias:
			visit(types.Unalias(T), skip) // emulates the pre-Alias behavior

		case *types.Basic:
			// nop

		case *types.Interface:
			// nop---handled by recursion over method set.

		case *types.Pointer:
			visit(T.Elem(), false)

		case *types.Slice:
			visit(T.Elem(), false)

		case *types.Chan:
			visit(T.Elem(), false)

		case *types.Map:
			visit(T.Key(), false)
			visit(T.Elem(), false)

		case *types.Signature:
			if T.Recv() != nil {
				panic(fmt.Sprintf("Signature %s has Recv %s", T, T.Recv()))
			}
			visit(T.Params(), true)  // skip the Tuple
			visit(T.Results(), true) // skip the Tuple

		case *types.Named:
			// A pointer-to-named type can be derived from a named
			// type via reflection.  It may have methods too.
			visit(types.NewPointer(T), false)

			// Consider 'type T struct{S}' where S has methods.
			// Reflection provides no way to get from T to struct{S},
			// only to S, so the method set of struct{S} is unwanted,
			// so set 'skip' flag during recursion.
			visit(T.Underlying(), true) // skip the unnamed type

		case *types.Array:
			visit(T.Elem(), false)

		case *types.Struct:
			for i, n := 0, T.NumFields(); i < n; i++ {
				// TODO(adonovan): document whether or not
				// it is safe to skip non-exported fields.
				visit(T.Field(i).Type(), false)
			}

		case *types.Tuple:
			for i, n := 0, T.Len(); i < n; i++ {
				visit(T.At(i).Type(), false)
			}

		case *types.TypeParam, *types.Union:
			// forEachReachable must not be called on parameterized types.
			panic(T)

		default:
			panic(T)
		}
	}
	visit(T, false)
}
