package lint

import (
	"go/types"
	"sort"

	"ikeverif/checker/xt/ssa"
)

// Callees of one call site.
type Callees struct {
	Mod      []*ssa.Function // module functions that may be called (exact for static calls, closed-world CHA for invokes)
	External []string        // names of functions / interface methods outside the module that may be called
	Dynamic  bool            // call through a function value (resolved to address-taken module functions of the same signature)
}

type callGraph struct {
	sites     map[ssa.CallInstruction]*Callees
	callers   map[*ssa.Function][]ssa.CallInstruction // module call sites that may call fn
	addrTaken map[*ssa.Function]bool
}

func (c *Ctx) cg() *callGraph {
	if c.cgCache != nil {
		return c.cgCache
	}
	g := &callGraph{sites: map[ssa.CallInstruction]*Callees{}, callers: map[*ssa.Function][]ssa.CallInstruction{}, addrTaken: map[*ssa.Function]bool{}}
	c.cgCache = g
	// address-taken module functions: used as an operand other than in call position
	for _, fn := range c.ModFuncs {
		for _, b := range fn.Blocks {
			for _, ins := range b.Instrs {
				var callVal ssa.Value
				if ci, ok := ins.(ssa.CallInstruction); ok {
					callVal = ci.Common().Value
				}
				for _, op := range ins.Operands(nil) {
					if *op == nil {
						continue
					}
					if f, ok := (*op).(*ssa.Function); ok && c.InModule(f) {
						if callVal == ssa.Value(f) && !isArgOf(ins, f) {
							continue
						}
						g.addrTaken[f] = true
					}
					if mc, ok := (*op).(*ssa.MakeClosure); ok {
						if f, ok := mc.Fn.(*ssa.Function); ok {
							g.addrTaken[f] = true
						}
					}
				}
				if mc, ok := ins.(*ssa.MakeClosure); ok {
					if f, ok := mc.Fn.(*ssa.Function); ok {
						g.addrTaken[f] = true
					}
				}
			}
		}
	}
	// package-level initialisers may also take addresses (var x = f): covered because init functions are module functions.
	for _, fn := range c.ModFuncs {
		for _, b := range fn.Blocks {
			for _, ins := range b.Instrs {
				ci, ok := ins.(ssa.CallInstruction)
				if !ok {
					continue
				}
				cs := c.resolve(ci, g)
				g.sites[ci] = cs
				for _, m := range cs.Mod {
					g.callers[m] = append(g.callers[m], ci)
				}
			}
		}
	}
	return g
}

func isArgOf(ins ssa.Instruction, f *ssa.Function) bool {
	ci, ok := ins.(ssa.CallInstruction)
	if !ok {
		return false
	}
	for _, a := range ci.Common().Args {
		if a == ssa.Value(f) {
			return true
		}
	}
	return false
}

func (c *Ctx) resolve(ci ssa.CallInstruction, g *callGraph) *Callees {
	cm := ci.Common()
	out := &Callees{}
	if cm.IsInvoke() {
		recvT := cm.Value.Type()
		iface, _ := recvT.Underlying().(*types.Interface)
		declaredInModule := false
		if nt, ok := recvT.(*types.Named); ok && nt.Obj().Pkg() != nil {
			declaredInModule = c.SSAPkgs[nt.Obj().Pkg().Path()] != nil
		}
		if iface != nil {
			for _, T := range c.Implementers(iface) {
				ms := c.Prog.MethodSets.MethodSet(T)
				sel := ms.Lookup(cm.Method.Pkg(), cm.Method.Name())
				if sel == nil {
					continue
				}
				if fn := c.Prog.MethodValue(sel); fn != nil {
					out.Mod = append(out.Mod, c.unwrap(fn))
				}
			}
		}
		if !declaredInModule {
			out.External = append(out.External, "iface:"+types.TypeString(recvT, nil)+"."+cm.Method.Name())
		}
		return out
	}
	if callee := cm.StaticCallee(); callee != nil {
		if c.InModule(callee) {
			out.Mod = append(out.Mod, callee)
		} else {
			out.External = append(out.External, callee.String())
		}
		return out
	}
	if _, ok := cm.Value.(*ssa.Builtin); ok {
		return out
	}
	// dynamic call through a function value
	out.Dynamic = true
	sig, _ := cm.Value.Type().Underlying().(*types.Signature)
	var fs []*ssa.Function
	for f := range g.addrTaken {
		if sig != nil && types.Identical(f.Signature, sig) {
			fs = append(fs, f)
		}
	}
	sort.Slice(fs, func(i, j int) bool { return fs[i].String() < fs[j].String() })
	out.Mod = fs
	return out
}

// unwrap maps a synthetic wrapper (pointer-receiver wrapper of a value method, bound method) to
// the declared method it forwards to, when that can be determined.
func (c *Ctx) unwrap(fn *ssa.Function) *ssa.Function {
	if fn.Synthetic == "" || fn.Blocks == nil {
		return fn
	}
	// a wrapper has a single static call to the declared method
	var target *ssa.Function
	n := 0
	for _, b := range fn.Blocks {
		for _, ins := range b.Instrs {
			if ci, ok := ins.(ssa.CallInstruction); ok {
				if cal := ci.Common().StaticCallee(); cal != nil {
					target = cal
					n++
				}
			}
		}
	}
	if n == 1 && target != nil && target.Name() == fn.Name() {
		return target
	}
	return fn
}

// CalleesAt returns the resolved callees of a call site in a module function.
func (c *Ctx) CalleesAt(ci ssa.CallInstruction) *Callees {
	if cs, ok := c.cg().sites[ci]; ok {
		return cs
	}
	return c.resolve(ci, c.cg())
}

// CallersOf returns module call sites that may call fn.
func (c *Ctx) CallersOf(fn *ssa.Function) []ssa.CallInstruction {
	return c.cg().callers[fn]
}

// Reachable returns the set of module functions reachable from roots (including closures
// created in reached functions), sorted by name.
// liveFunc: fn is among the analysed module functions (a function literal folded into its caller by the
// normalisations and dropped from that set no longer exists as a function of its own).
func (c *Ctx) liveFunc(fn *ssa.Function) bool {
	if c.liveSet == nil {
		c.liveSet = map[*ssa.Function]bool{}
		for _, f := range c.ModFuncs {
			c.liveSet[f] = true
		}
	}
	return c.liveSet[fn]
}

func (c *Ctx) Reachable(roots ...*ssa.Function) []*ssa.Function {
	seen := map[*ssa.Function]bool{}
	var work []*ssa.Function
	push := func(f *ssa.Function) {
		if f == nil || seen[f] || f.Blocks == nil || !c.InModule(f) {
			return
		}
		seen[f] = true
		work = append(work, f)
	}
	for _, r := range roots {
		push(r)
	}
	for len(work) > 0 {
		f := work[len(work)-1]
		work = work[:len(work)-1]
		for _, af := range f.AnonFuncs {
			if c.liveFunc(af) {
				push(af)
			}
		}
		for _, b := range f.Blocks {
			for _, ins := range b.Instrs {
				if ci, ok := ins.(ssa.CallInstruction); ok {
					for _, m := range c.CalleesAt(ci).Mod {
						push(m)
					}
				}
			}
		}
	}
	out := make([]*ssa.Function, 0, len(seen))
	for f := range seen {
		out = append(out, f)
	}
	sort.Slice(out, func(i, j int) bool { return out[i].String() < out[j].String() })
	return out
}

// HasCycle reports a function on a call cycle among fns, if any.
func (c *Ctx) HasCycle(fns []*ssa.Function) *ssa.Function {
	in := map[*ssa.Function]bool{}
	for _, f := range fns {
		in[f] = true
	}
	state := map[*ssa.Function]int{}
	var bad *ssa.Function
	var visit func(f *ssa.Function)
	visit = func(f *ssa.Function) {
		if bad != nil {
			return
		}
		state[f] = 1
		for _, b := range f.Blocks {
			for _, ins := range b.Instrs {
				if ci, ok := ins.(ssa.CallInstruction); ok {
					for _, m := range c.CalleesAt(ci).Mod {
						if !in[m] {
							continue
						}
						switch state[m] {
						case 0:
							visit(m)
						case 1:
							bad = m
						}
					}
				}
			}
		}
		state[f] = 2
	}
	for _, f := range fns {
		if state[f] == 0 {
			visit(f)
		}
	}
	return bad
}
