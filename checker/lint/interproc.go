package lint

import (
	"go/token"
	"go/types"

	"ikeverif/checker/xt/ssa"
)

// Interprocedural facts of E1 (closed world), so that extracting a helper function does not lose a proof:
//
//  1. Caller-derived entry facts. An unexported, non-address-taken module function is only called from the
//     module call sites the call graph lists; what holds for an argument at every one of them (a lower bound
//     of the length of a byte-slice argument, the interval of an integer argument) holds on entry.
//  2. Call postconditions. On the nil-error edge of a call to a module function (or, for a function without
//     an error result, after the call), the linear facts that hold at every success return of the callee and
//     speak only about lengths of its parameters and its integer results hold for the corresponding
//     arguments and results of the call.

type paramDom struct {
	hasLen bool
	lenLo  int64
	hasInt bool
	lo, hi int64
}

func (c *Ctx) eligibleForCallerFacts(fn *ssa.Function) bool {
	if fn.Parent() != nil || fn.Object() == nil || fn.Object().Exported() || !c.InModule(fn) {
		return false
	}
	if c.cg().addrTaken[fn] {
		return false
	}
	return len(c.CallersOf(fn)) > 0
}

// callerDerived computes, per parameter of fn, what every call site guarantees. nil if not eligible / cyclic.
func (c *Ctx) callerDerived(fn *ssa.Function) []paramDom {
	if c.cdMemo == nil {
		c.cdMemo = map[*ssa.Function][]paramDom{}
		c.cdOpen = map[*ssa.Function]bool{}
	}
	if v, ok := c.cdMemo[fn]; ok {
		return v
	}
	if c.cdOpen[fn] || !c.eligibleForCallerFacts(fn) {
		return nil
	}
	c.cdOpen[fn] = true
	defer delete(c.cdOpen, fn)
	out := make([]paramDom, len(fn.Params))
	first := true
	for _, ci := range c.CallersOf(fn) {
		cf := ci.Parent()
		if cf == nil || cf.Blocks == nil {
			c.cdMemo[fn] = nil
			return nil
		}
		f := c.NewFA(cf)
		common := ci.Common()
		args := common.Args
		var vals []ssa.Value
		if common.IsInvoke() {
			vals = append([]ssa.Value{common.Value}, args...)
		} else {
			vals = args
		}
		env := f.refine(f.FactsAt(ci.Block()))
		for i := range fn.Params {
			var d paramDom
			if i < len(vals) {
				a := vals[i]
				if _, ok := a.Type().Underlying().(*types.Slice); ok {
					lo, _ := f.bounds(f.SliceLen(a), env)
					d.hasLen, d.lenLo = true, lo
				} else if tlo, thi, ok := f.typeRange(a.Type()); ok {
					lo, hi := f.bounds(f.LFOf(a), env)
					if lo < tlo {
						lo = tlo
					}
					if hi > thi {
						hi = thi
					}
					d.hasInt, d.lo, d.hi = true, lo, hi
				}
			}
			if first {
				out[i] = d
				continue
			}
			o := &out[i]
			if !d.hasLen {
				o.hasLen = false
			} else if o.hasLen && d.lenLo < o.lenLo {
				o.lenLo = d.lenLo
			}
			if !d.hasInt {
				o.hasInt = false
			} else if o.hasInt {
				if d.lo < o.lo {
					o.lo = d.lo
				}
				if d.hi > o.hi {
					o.hi = d.hi
				}
			}
		}
		first = false
	}
	c.cdMemo[fn] = out
	return out
}

// injectCallerFacts adds the caller-derived facts at the entry of f.Fn.
func (f *FA) injectCallerFacts() {
	fn := f.Fn
	doms := f.C.callerDerived(fn)
	if doms == nil || len(fn.Blocks) == 0 {
		return
	}
	for i, p := range fn.Params {
		d := doms[i]
		if d.hasLen && d.lenLo > 0 {
			f.Inject(fn.Blocks[0], Fact{L: f.SliceLen(p).add(konst(d.lenLo), -1)})
			f.EntryWhy = append(f.EntryWhy, "len("+p.Name()+") >= "+itoa(d.lenLo)+" at every call site")
		}
		if d.hasInt {
			if tlo, thi, ok := f.typeRange(p.Type()); ok {
				if d.lo > tlo {
					f.Inject(fn.Blocks[0], Fact{L: f.LFOf(p).add(konst(d.lo), -1)})
				}
				if d.hi < thi {
					f.Inject(fn.Blocks[0], Fact{L: konst(d.hi).add(f.LFOf(p), -1)})
				}
			}
		}
	}
}

func itoa(v int64) string {
	neg := v < 0
	if neg {
		v = -v
	}
	if v == 0 {
		return "0"
	}
	var b []byte
	for v > 0 {
		b = append([]byte{byte('0' + v%10)}, b...)
		v /= 10
	}
	if neg {
		b = append([]byte{'-'}, b...)
	}
	return string(b)
}

// callPost returns facts about the results of call (in the caller f) that hold whenever the callee
// returned successfully (nil error if it has an error result).
func (f *FA) callPost(call *ssa.Call) []Fact {
	if f.postMemo == nil {
		f.postMemo = map[*ssa.Call][]Fact{}
	}
	if v, ok := f.postMemo[call]; ok {
		return v
	}
	f.postMemo[call] = nil
	g := call.Call.StaticCallee()
	if g == nil || g.Blocks == nil || !f.C.InModule(g) || g == f.Fn {
		return nil
	}
	c := f.C
	if c.postOpen == nil {
		c.postOpen = map[*ssa.Function]bool{}
	}
	if c.postOpen[g] {
		return nil
	}
	c.postOpen[g] = true
	defer delete(c.postOpen, g)
	gf := c.NewFA(g)
	nres := g.Signature.Results().Len()
	errIdx := -1
	if nres > 0 && isErrorType(g.Signature.Results().At(nres-1).Type()) {
		errIdx = nres - 1
	}
	// atoms of the callee that can be named in the caller: len(param k) and integer results
	var common map[string]Fact
	okAny := false
	for _, b := range g.Blocks {
		ret, ok := b.Instrs[len(b.Instrs)-1].(*ssa.Return)
		if !ok {
			continue
		}
		if errIdx >= 0 && !isNilConst(ret.Results[errIdx]) {
			continue
		}
		// translation table callee atom -> caller LF
		tr := map[int]LF{}
		for k, p := range g.Params {
			if _, ok := p.Type().Underlying().(*types.Slice); ok && k < len(call.Call.Args) {
				l := gf.SliceLen(p)
				if len(l.T) == 1 && l.C == 0 {
					for a, co := range l.T {
						if co == 1 {
							tr[a] = f.SliceLen(call.Call.Args[k])
						}
					}
				}
			} else if _, _, ok := gf.typeRange(p.Type()); ok && k < len(call.Call.Args) {
				l := gf.LFOf(p)
				if len(l.T) == 1 && l.C == 0 {
					for a, co := range l.T {
						if co == 1 {
							tr[a] = f.LFOf(call.Call.Args[k])
						}
					}
				}
			}
		}
		for j, rv := range ret.Results {
			if j == errIdx {
				continue
			}
			var callerVal ssa.Value
			if nres == 1 {
				callerVal = call
			} else {
				callerVal = resultN(call, j)
			}
			if callerVal == nil {
				continue
			}
			if _, _, ok := gf.typeRange(rv.Type()); ok {
				l := gf.LFOf(rv)
				if len(l.T) == 1 && l.C == 0 {
					for a, co := range l.T {
						if co == 1 {
							if _, dup := tr[a]; !dup {
								tr[a] = f.LFOf(callerVal)
							}
						}
					}
				}
			} else if _, ok := rv.Type().Underlying().(*types.Slice); ok {
				l := gf.SliceLen(rv)
				if len(l.T) == 1 && l.C == 0 {
					for a, co := range l.T {
						if co == 1 {
							if _, dup := tr[a]; !dup {
								tr[a] = f.SliceLen(callerVal)
							}
						}
					}
				}
			}
		}
		here := map[string]Fact{}
		for _, ft := range gf.FactsAt(b) {
			out := LF{C: ft.L.C, T: map[int]int64{}}
			good := true
			for a, co := range ft.L.T {
				t, ok := tr[a]
				if !ok {
					good = false
					break
				}
				out = out.add(t, co)
			}
			if !good || len(out.T) == 0 {
				continue
			}
			nf := Fact{L: out, NE: ft.NE}
			k := out.key()
			if ft.NE {
				k = "ne:" + k
			}
			here[k] = nf
		}
		if !okAny {
			common = here
			okAny = true
		} else {
			for k := range common {
				if _, ok := here[k]; !ok {
					delete(common, k)
				}
			}
		}
	}
	var facts []Fact
	for _, ft := range common {
		facts = append(facts, ft)
	}
	f.postMemo[call] = facts
	return facts
}

// errEdgeCall: cond tests the error result of a call against nil; returns the call and whether the
// true edge is the nil-error edge.
func errEdgeCall(cond ssa.Value) (*ssa.Call, bool, bool) {
	bo, ok := cond.(*ssa.BinOp)
	if !ok || (bo.Op != token.EQL && bo.Op != token.NEQ) {
		return nil, false, false
	}
	v := bo.X
	if isNilConst(bo.X) {
		v = bo.Y
	} else if !isNilConst(bo.Y) {
		return nil, false, false
	}
	if !isErrorType(v.Type()) {
		return nil, false, false
	}
	call := callOf(v)
	if call == nil {
		return nil, false, false
	}
	return call, bo.Op == token.EQL, true
}
