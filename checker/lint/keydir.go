package lint

import (
	"go/constant"
	"go/token"
	"go/types"
	"sort"

	"ikeverif/checker/xt/ssa"
)

// Key-direction tables (shared by C01, C02, C06): which IKESAKey field a function uses when its
// role parameter is Initiator and when it is Responder.

func isRoleType(t types.Type) bool {
	nt, ok := t.(*types.Named)
	return ok && nt.Obj().Name() == "Role" && nt.Obj().Pkg() != nil && nt.Obj().Pkg().Path() == ModulePath+"/message"
}

func roleParam(fn *ssa.Function) *ssa.Parameter {
	for _, p := range fn.Params {
		if isRoleType(p.Type()) {
			return p
		}
	}
	return nil
}

// roleInitiatorValue is the constant value of message.Role_Initiator (true on the pinned tree).
func (c *Ctx) roleInitiatorValue() (bool, bool) {
	p := c.Pkg("message")
	if p == nil {
		return false, false
	}
	nc, ok := p.Members["Role_Initiator"].(*ssa.NamedConst)
	if !ok || nc.Value.Value == nil || nc.Value.Value.Kind() != constant.Bool {
		return false, false
	}
	return constant.BoolVal(nc.Value.Value), true
}

type roleTable struct {
	Initiator []string // IKESAKey fields loaded only on the role == Initiator arm
	Responder []string
	Both      []string // loaded outside any role arm
	found     bool
}

// roleFieldTable extracts the table of fn.
func (c *Ctx) roleFieldTable(fn *ssa.Function) roleTable {
	var t roleTable
	rp := roleParam(fn)
	if rp == nil {
		return t
	}
	initVal, ok := c.roleInitiatorValue()
	if !ok {
		return t
	}
	armOf := map[*ssa.BasicBlock]string{}
	edgeArm := map[[2]*ssa.BasicBlock]string{}
	for _, b := range fn.Blocks {
		iff, ok := b.Instrs[len(b.Instrs)-1].(*ssa.If)
		if !ok {
			continue
		}
		// cond true means role == X: the condition is evaluated as a function of the role parameter
		// (role, !role, role == k, (!role) == k, ... as left by inlined selector helpers)
		var whenTrue *bool
		if v, ok := roleCondValue(iff.Cond, rp, 0); ok {
			whenTrue = &v
		}
		if whenTrue == nil {
			continue
		}
		t.found = true
		trueArm, falseArm := "Responder", "Initiator"
		if *whenTrue == initVal {
			trueArm, falseArm = "Initiator", "Responder"
		}
		for _, bb := range fn.Blocks {
			if len(b.Succs[0].Preds) == 1 && b.Succs[0].Dominates(bb) {
				armOf[bb] = trueArm
			} else if len(b.Succs[1].Preds) == 1 && b.Succs[1].Dominates(bb) {
				armOf[bb] = falseArm
			}
		}
		// the edge that goes from the test straight to the merge ("x := a; if role { x = b }": a is what the
		// other role gets)
		edgeArm[[2]*ssa.BasicBlock{b, b.Succs[0]}] = trueArm
		edgeArm[[2]*ssa.BasicBlock{b, b.Succs[1]}] = falseArm
	}
	sets := map[string]map[string]bool{"Initiator": {}, "Responder": {}, "": {}}
	for _, b := range fn.Blocks {
		for _, ins := range b.Instrs {
			v, ok := ins.(ssa.Value)
			if !ok {
				continue
			}
			base, name, ok := fieldLoad(v)
			if !ok {
				continue
			}
			pt, ok := base.Type().Underlying().(*types.Pointer)
			if !ok {
				continue
			}
			nt, ok := pt.Elem().(*types.Named)
			if !ok || nt.Obj().Name() != "IKESAKey" {
				continue
			}
			// only uses as a receiver of a method call / argument matter; nil tests do not
			used := false
			for _, ref := range *v.Referrers() {
				switch r := ref.(type) {
				case ssa.CallInstruction:
					used = true
					_ = r
				case *ssa.Phi:
					// selected by a merge: the arm is the one of the edge it comes in over
					viaEdge := true
					for i, e := range r.Edges {
						if e != v {
							continue
						}
						pred := r.Block().Preds[i]
						arm, ok := edgeArm[[2]*ssa.BasicBlock{pred, r.Block()}]
						if !ok {
							arm, ok = armOf[pred]
						}
						if !ok {
							viaEdge = false
							break
						}
						sets[arm][name] = true
					}
					if !viaEdge {
						used = true
					}
				case *ssa.MakeInterface, *ssa.Store:
					used = true
				}
			}
			if !used {
				continue
			}
			sets[armOf[b]][name] = true
		}
	}
	for k := range sets["Initiator"] {
		t.Initiator = append(t.Initiator, k)
	}
	for k := range sets["Responder"] {
		t.Responder = append(t.Responder, k)
	}
	for k := range sets[""] {
		t.Both = append(t.Both, k)
	}
	sort.Strings(t.Initiator)
	sort.Strings(t.Responder)
	sort.Strings(t.Both)
	return t
}

// roleArg classifies the value passed for a Role parameter: "same", "negated" or "other".
func roleArg(fn *ssa.Function, v ssa.Value) string {
	rp := roleParam(fn)
	if rp == nil {
		return "other"
	}
	if v == ssa.Value(rp) {
		return "same"
	}
	if u, ok := v.(*ssa.UnOp); ok && u.Op == token.NOT && u.X == ssa.Value(rp) {
		return "negated"
	}
	return "other"
}

// roleArgOfCall finds the argument bound to the callee's Role parameter.
func roleArgOfCall(call *ssa.Call, callee *ssa.Function) ssa.Value {
	for i, p := range callee.Params {
		if isRoleType(p.Type()) && i < len(call.Call.Args) {
			return call.Call.Args[i]
		}
	}
	return nil
}

// roleCondValue: cond is a boolean function of the role parameter alone; returns the value of the role for
// which cond is true.
func roleCondValue(cond ssa.Value, rp *ssa.Parameter, depth int) (bool, bool) {
	if depth > 6 {
		return false, false
	}
	switch x := cond.(type) {
	case *ssa.Parameter:
		if x == rp {
			return true, true
		}
	case *ssa.ChangeType:
		return roleCondValue(x.X, rp, depth+1)
	case *ssa.Convert:
		return roleCondValue(x.X, rp, depth+1)
	case *ssa.UnOp:
		if x.Op == token.NOT {
			if v, ok := roleCondValue(x.X, rp, depth+1); ok {
				return !v, true
			}
		}
	case *ssa.BinOp:
		if x.Op != token.EQL && x.Op != token.NEQ {
			return false, false
		}
		var k *ssa.Const
		var other ssa.Value
		if c, ok := x.Y.(*ssa.Const); ok {
			k, other = c, x.X
		} else if c, ok := x.X.(*ssa.Const); ok {
			k, other = c, x.Y
		}
		if k == nil || k.Value == nil || k.Value.Kind() != constant.Bool {
			return false, false
		}
		v, ok := roleCondValue(other, rp, depth+1)
		if !ok {
			return false, false
		}
		// other is true exactly when role == v; cond: other == kv (or !=)
		kv := constant.BoolVal(k.Value)
		if x.Op == token.NEQ {
			kv = !kv
		}
		if kv {
			return v, true
		}
		return !v, true
	}
	return false, false
}
