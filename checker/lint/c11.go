package lint

import (
	"fmt"
	"go/constant"
	"go/token"
	"go/types"
	"sort"
	"strings"

	"ikeverif/checker/xt/ssa"
)

// Reference table of the advertised algorithms (checker-side, from the defining RFCs):
// RFC 7296 3.3.2 / IANA IKEv2 parameters for identifiers, RFC 3602 (AES-CBC key sizes, attribute 14),
// RFC 2403/2404/4868 (HMAC-MD5-96, HMAC-SHA1-96, HMAC-SHA2-256-128 key and ICV lengths),
// RFC 2104 + RFC 7296 2.13 (PRF key length = output length of the hash).
type algoRow struct {
	TType   int64  // transform type 1..5
	ID      int64  // transform id
	HasAttr bool   // key-length attribute present
	AType   int64  // 14
	AVal    int64  // bits
	KeyLen  int64  // octets (0 = n/a)
	OutLen  int64  // octets (0 = n/a)
	Hash    string // hash constructor
	Name    string // human name
}

var algoSpec = []algoRow{
	{1, 12, true, 14, 128, 16, 0, "", "ENCR_AES_CBC 128"},
	{1, 12, true, 14, 192, 24, 0, "", "ENCR_AES_CBC 192"},
	{1, 12, true, 14, 256, 32, 0, "", "ENCR_AES_CBC 256"},
	{2, 1, false, 0, 0, 16, 16, "crypto/md5.New", "PRF_HMAC_MD5"},
	{2, 2, false, 0, 0, 20, 20, "crypto/sha1.New", "PRF_HMAC_SHA1"},
	{2, 5, false, 0, 0, 32, 32, "crypto/sha256.New", "PRF_HMAC_SHA2_256"},
	{3, 1, false, 0, 0, 16, 12, "crypto/md5.New", "AUTH_HMAC_MD5_96"},
	{3, 2, false, 0, 0, 20, 12, "crypto/sha1.New", "AUTH_HMAC_SHA1_96"},
	{3, 12, false, 0, 0, 32, 16, "crypto/sha256.New", "AUTH_HMAC_SHA2_256_128"},
	{4, 2, false, 0, 0, 0, 0, "", "1024-bit MODP"},
	{4, 14, false, 0, 0, 0, 0, "", "2048-bit MODP"},
	{5, 0, false, 0, 0, 0, 0, "", "ESN disabled"},
	{5, 1, false, 0, 0, 0, 0, "", "ESN enabled"},
}

type regSpec struct {
	Rel     string
	Strings string
	Types   []string
	TType   int64
	Decode  []string // decode functions, parallel to Types
	ToTrans []string // ToTransform functions, parallel to Types
}

var regSpecs = []regSpec{
	{"security/encr", "encrString", []string{"encrTypes", "encrKTypes"}, 1, []string{"DecodeTransform", "DecodeTransformChildSA"}, []string{"ToTransform", "ToTransformChildSA"}},
	{"security/prf", "prfString", []string{"prfTypes"}, 2, []string{"DecodeTransform"}, []string{"ToTransform"}},
	{"security/integ", "integString", []string{"integTypes", "integKTypes"}, 3, []string{"DecodeTransform", "DecodeTransformChildSA"}, []string{"ToTransform", "ToTransformChildSA"}},
	{"security/dh", "dhString", []string{"dhTypes"}, 4, []string{"DecodeTransform"}, []string{"ToTransform"}},
	{"security/esn", "esnString", []string{"esnTypes"}, 5, []string{"DecodeTransform"}, []string{"ToTransform"}},
}

// descInfo is what constant evaluation of a descriptor's methods yields.
type descInfo struct {
	Name    string
	D       *descriptor
	ID      int64
	HasAttr bool
	AType   int64
	AVal    int64
	AVarNil bool
	KeyLen  int64
	OutLen  int64
	HasKey  bool
	HasOut  bool
	Hash    string
	KeyArg  string // "" when Init / NewCrypto key the primitive with exactly the key they are given, else why not
	Guard   int64  // key-length guard constant of Init/NewCrypto (-1 none)
	Pos     string
	Err     string
}

func (c *Ctx) describe(name string, d *descriptor, site ssa.Instruction) descInfo {
	di := descInfo{Name: name, D: d, Guard: -1, Pos: c.InstrPos(site)}
	if d == nil || d.Named == nil {
		di.Err = "registry value is not a struct literal with constant fields"
		return di
	}
	// methods are looked up on *T
	T := types.Type(types.NewPointer(d.Named))
	one := func(method string) ([]absVal, bool) {
		m := c.methodOf(T, method)
		if m == nil {
			return nil, false
		}
		res, err := c.evalMethod(m, d, nil)
		if err != nil || len(res) != 1 {
			return nil, false
		}
		return res[0].Results, true
	}
	if res, ok := one("TransformID"); ok && res[0].K != nil {
		di.ID, _ = constant.Int64Val(res[0].K)
	} else {
		di.Err = "TransformID() does not evaluate to a constant"
		return di
	}
	// getAttribute may have an error path: take the non-error result
	if m := c.methodOf(T, "getAttribute"); m != nil {
		res, err := c.evalMethod(m, d, nil)
		if err != nil {
			di.Err = "getAttribute(): " + err.Error()
			return di
		}
		found := false
		for _, rr := range res {
			if len(rr.Results) >= 4 && rr.Results[0].K != nil {
				if len(rr.Results) == 5 && !rr.Results[4].Nil {
					continue // error path
				}
				found = true
				di.HasAttr = constant.BoolVal(rr.Results[0].K)
				if rr.Results[1].K != nil {
					di.AType, _ = constant.Int64Val(rr.Results[1].K)
				}
				if rr.Results[2].K != nil {
					di.AVal, _ = constant.Int64Val(rr.Results[2].K)
				}
				di.AVarNil = rr.Results[3].Nil
			}
		}
		if !found {
			di.Err = "getAttribute() has no constant success result"
			return di
		}
	} else {
		di.Err = "no getAttribute method"
		return di
	}
	if res, ok := one("GetKeyLength"); ok && res[0].K != nil {
		di.KeyLen, _ = constant.Int64Val(res[0].K)
		di.HasKey = true
	}
	if res, ok := one("GetOutputLength"); ok && res[0].K != nil {
		di.OutLen, _ = constant.Int64Val(res[0].K)
		di.HasOut = true
	}
	for _, mn := range []string{"Init", "NewCrypto"} {
		if m := c.methodOf(T, mn); m != nil {
			if mn == "Init" {
				for _, b := range m.Blocks {
					for _, ins := range b.Instrs {
						if call, ok := ins.(*ssa.Call); ok {
							if cal := call.Call.StaticCallee(); cal != nil && cal.String() == "crypto/hmac.New" {
								if g, ok := call.Call.Args[0].(*ssa.Function); ok {
									di.Hash = g.String()
								}
								di.Guard = c.keyLenGuard(m, call.Block(), d)
								di.KeyArg = keyArgOf(m, call.Call.Args[1], "hmac.New")
							}
						}
					}
				}
			} else {
				for _, b := range m.Blocks {
					for _, ins := range b.Instrs {
						if call, ok := ins.(*ssa.Call); ok {
							if cal := call.Call.StaticCallee(); cal != nil && cal.String() == "crypto/aes.NewCipher" {
								di.Guard = c.keyLenGuard(m, call.Block(), d)
								di.KeyArg = keyArgOf(m, call.Call.Args[0], "aes.NewCipher")
							}
						}
					}
				}
			}
		}
	}
	return di
}

// keyArgOf: "" when v, the key handed to the primitive's constructor, is the method's own key parameter (as it
// is, or sliced over its whole length); otherwise a description: a copy into a buffer of another size, a prefix
// or any other derived value makes the object compute something else than the algorithm under the given key.
func keyArgOf(m *ssa.Function, v ssa.Value, ctor string) string {
	for i := 0; i < 3; i++ {
		switch x := v.(type) {
		case *ssa.ChangeType:
			v = x.X
			continue
		case *ssa.Slice:
			if x.Low == nil && x.High == nil && x.Max == nil {
				if _, isParam := x.X.(*ssa.Parameter); isParam {
					v = x.X
					continue
				}
			}
		}
		break
	}
	if p, ok := v.(*ssa.Parameter); ok && isByteSlice(p.Type()) && p.Parent() == m {
		return ""
	}
	return ctor + " is keyed with " + v.Name() + " (" + strings.TrimSpace(v.String()) + "), not with the key parameter itself"
}

// keyLenGuard: the constant K such that block b of method m is reached only when len(key param) == K
// (K may come from a receiver field constant); -1 if there is no such guard.
func (c *Ctx) keyLenGuard(m *ssa.Function, b *ssa.BasicBlock, d *descriptor) int64 {
	var key *ssa.Parameter
	for _, p := range m.Params {
		if isByteSlice(p.Type()) {
			key = p
		}
	}
	if key == nil {
		return -1
	}
	f := c.NewFA(m)
	// bind receiver field loads to the descriptor's constants
	f.FieldRange = func(structT types.Type, field int) (int64, int64, bool) {
		if p, ok := structT.Underlying().(*types.Pointer); ok {
			structT = p.Elem()
		}
		st, ok := structT.Underlying().(*types.Struct)
		if !ok {
			return 0, 0, false
		}
		if k, ok := d.constField(st.Field(field).Name()); ok {
			if v, ok := constant.Int64Val(k); ok {
				return v, v, true
			}
		}
		return 0, 0, false
	}
	facts := f.FactsAt(b)
	l := f.SliceLen(key)
	env := f.refine(facts)
	lo, hi := f.bounds(l, env)
	if lo == hi {
		return lo
	}
	// facts of the form len(key) - x == 0 with x a pinned atom
	for _, ft := range facts {
		if ft.NE {
			continue
		}
		g := l.add(ft.L, -1)
		_ = g
	}
	// try: prove len(key) == v for each candidate v among field constants
	for _, sv := range d.Fields {
		if k, ok := sv.(*ssa.Const); ok && k.Value != nil && k.Value.Kind() == constant.Int {
			v, _ := constant.Int64Val(k.Value)
			ok1, _ := f.Prove(l.add(konst(v), -1), facts)
			ok2, _ := f.Prove(konst(v).add(l, -1), facts)
			if ok1 && ok2 {
				return v
			}
		}
	}
	return -1
}

// RunC11 decides property C11.
func RunC11(c *Ctx, r *Report) {
	prefix := "C11."
	r.Explanation = "Exhaustive over the finite registries: every registered descriptor is evaluated by constant propagation (TransformID, getAttribute, key/output lengths, hash constructor, key-length guards); (1) closure: the identifier's stringifier, run on the descriptor's own attribute, returns the descriptor's name; (2) no foreign mapping: every path of every stringifier that returns a name pins the attribute to that name's own values and the name's descriptor carries that identifier, and the Decode functions return only registry entries reached through that path; (3) IKE and Child registries agree and all lengths equal the RFC reference table; (4) ToTransform marks the attribute TV exactly when present without variable-length value; (5) SA construction fails unless every decoded descriptor is non-nil."
	r.TrustedBase = append(r.TrustedBase, "go/types and go/ssa (x/tools v0.29.0)", "the checker's constant interpreter for loop-free methods", "reference table transcribed from RFC 7296 / 3602 / 2403 / 2404 / 4868 and the IANA registry")
	r.Assumptions = append(r.Assumptions, "registries are immutable after init (C18)")
	r.NotDecided = append(r.NotDecided, "the wire round trip of the records around a transform (proposal and SA headers: slots of C03/C05); the Transform record itself is compared with the RFC layout here", "proposals with more than one transform per type")
	r.Extra["exhaustive"] = true
	c.registryRules(r, prefix, "")
	c.saBuildRules(r, prefix)
	c.saLookupUnconditionalRule(r, prefix)
	c.tvValueOnlyUnderTVRule(r, prefix+"tv-value-only-under-tv")
	c.transformWireRule(r, prefix)
	c.typedNilRule(r, prefix+"no-typed-nil")
	c.proposalFromCurrentStateRule(r, prefix+"proposal-from-current-state")
}

// typedNilRule: "unknown identifiers ... yield 'unsupported'" is observed by callers as a nil interface. A
// pointer that may be nil (the result of a map lookup that missed, a nil constant) wrapped into an interface is
// a non-nil interface holding a nil pointer: `descriptor != nil` holds, and the first method call on it
// dereferences nil. In the registry packages no interface value is made from a pointer that may be nil.
func (c *Ctx) typedNilRule(r *Report, rule string) {
	r.Rule(rule, "in the algorithm registry packages and the SA constructors no interface value is built from a pointer that may be nil (a missed map lookup, a nil constant): 'unsupported' is the nil interface, never a typed nil", 10)
	mayBeNil := func(v ssa.Value) string {
		var walk func(v ssa.Value, depth int) string
		walk = func(v ssa.Value, depth int) string {
			if depth > 3 {
				return ""
			}
			switch x := v.(type) {
			case *ssa.Const:
				if x.Value == nil {
					return "the nil pointer constant"
				}
			case *ssa.Lookup:
				if !x.CommaOk {
					return "the result of a map lookup, which is nil for a key that is not registered"
				}
			case *ssa.Extract:
				if lk, ok := x.Tuple.(*ssa.Lookup); ok && x.Index == 0 {
					// fine when the use is behind the ok test; decided by the caller through dominance
					_ = lk
					return "the value of a comma-ok map lookup"
				}
			case *ssa.Phi:
				for _, e := range x.Edges {
					if w := walk(e, depth+1); w != "" {
						return w
					}
				}
			case *ssa.Call:
				// a module function that returns a concrete pointer (a Decode function retyped from the interface
				// to *T): what it returns for an unsupported transform is a nil *T
				cal := x.Call.StaticCallee()
				if cal == nil || !c.InModule(cal) || len(cal.Blocks) == 0 || cal.Signature.Results().Len() != 1 {
					return ""
				}
				for _, b := range cal.Blocks {
					ret, ok := b.Instrs[len(b.Instrs)-1].(*ssa.Return)
					if !ok || len(ret.Results) != 1 {
						continue
					}
					if w := walk(ret.Results[0], depth+1); w != "" {
						if w == "the value of a comma-ok map lookup" {
							continue
						}
						return w + " (returned by " + c.FuncName(cal) + ")"
					}
				}
			}
			return ""
		}
		return walk(v, 0)
	}
	n := 0
	for _, fn := range c.ModFuncs {
		root := fn
		for root.Parent() != nil {
			root = root.Parent()
		}
		if root.Pkg == nil {
			continue
		}
		path := root.Pkg.Pkg.Path()
		if !strings.HasPrefix(path, ModulePath+"/security") {
			continue
		}
		for _, b := range fn.Blocks {
			for _, ins := range b.Instrs {
				mi, ok := ins.(*ssa.MakeInterface)
				if !ok {
					continue
				}
				if _, isPtr := mi.X.Type().Underlying().(*types.Pointer); !isPtr {
					continue
				}
				n++
				key := c.FuncName(fn) + ": " + c.SrcExpr(mi)
				why := mayBeNil(mi.X)
				if why == "the value of a comma-ok map lookup" {
					// behind the ok edge of its own lookup?
					ex := mi.X.(*ssa.Extract)
					guarded := false
					for _, u := range *ex.Tuple.(*ssa.Lookup).Referrers() {
						if okx, isEx := u.(*ssa.Extract); isEx && okx.Index == 1 {
							for x := b; x != nil; x = x.Idom() {
								if len(x.Preds) != 1 {
									continue
								}
								p := x.Preds[0]
								if iff, isIf := p.Instrs[len(p.Instrs)-1].(*ssa.If); isIf && iff.Cond == ssa.Value(okx) && p.Succs[0] == x {
									guarded = true
								}
							}
						}
					}
					if guarded {
						why = ""
					}
				}
				if why != "" && c.knownNonNilAt(mi.X, b) {
					why = ""
				}
				r.Check(why == "", rule, key, c.InstrPos(mi), "the wrapped pointer is an allocation, a registry entry found, or tested against nil", "the interface value is built from "+why+": a typed nil, which compares unequal to nil")
			}
		}
	}
	_ = n
}

// knownNonNilAt: block b is only reached over the non-nil edge of a nil test of v.
func (c *Ctx) knownNonNilAt(v ssa.Value, b *ssa.BasicBlock) bool {
	for x := b; x != nil; x = x.Idom() {
		if len(x.Preds) != 1 {
			continue
		}
		p := x.Preds[0]
		iff, ok := p.Instrs[len(p.Instrs)-1].(*ssa.If)
		if !ok || p.Succs[0] == p.Succs[1] {
			continue
		}
		cond, ok := iff.Cond.(*ssa.BinOp)
		if !ok || (cond.Op != token.EQL && cond.Op != token.NEQ) {
			continue
		}
		var tested ssa.Value
		if isNilConst(cond.Y) {
			tested = cond.X
		} else if isNilConst(cond.X) {
			tested = cond.Y
		}
		if tested == v && (cond.Op == token.NEQ) == (p.Succs[0] == x) {
			return true
		}
	}
	return false
}

// transformWireRule: "converts to a transform that survives the wire": the Transform record of encoder and
// decoder against the RFC 7296 3.3.2 / 3.3.5 layout (the slot tables of C05, restricted to that record). An
// attribute type read through a too narrow intermediate maps a foreign attribute (type 14 + 256k) onto Key
// Length after a wire round trip.
func (c *Ctx) transformWireRule(r *Report, prefix string) {
	w := c.slotWorld(r, prefix)
	if w == nil {
		return
	}
	saved := w.recs
	w.recs = nil
	for _, rec := range saved {
		if rec == "message.Transform" {
			w.recs = append(w.recs, rec)
		}
	}
	r.Rule(prefix+"transform-wire.encode", "the encoder writes every Transform field (type, identifier, attribute format bit, 15-bit attribute type, TV value / TLV length and value) at the RFC 7296 3.3.2 / 3.3.5 position, width and byte order", 5)
	w.specCompare(r, prefix+"transform-wire.encode", "encode", w.enc)
	r.Rule(prefix+"transform-wire.decode", "the decoder reads every Transform field from the RFC position at full width: no bit of the attribute type or identifier is dropped or taken from elsewhere", 5)
	w.specCompare(r, prefix+"transform-wire.decode", "decode", w.dec)
	w.recs = saved
}

// registryRules: the registry rules of C11, for every registry (only == "") or for the registry of one
// package (e.g. "security/dh" for C09; floors scale down accordingly).
func (c *Ctx) registryRules(r *Report, prefix string, only string) {
	ruleReg := prefix + "registry.reference"
	r.Rule(ruleReg, "every registered descriptor equals one row of the RFC reference table (identifier, key-length attribute, key length, output length, hash, key-length guard) and every row is registered", 18)
	ruleClosure := prefix + "closure"
	r.Rule(ruleClosure, "for every registered name N with descriptor D: stringifier[D.TransformID()](D.getAttribute()) == N", 18)
	ruleForeign := prefix + "no-foreign-mapping"
	r.Rule(ruleForeign, "every stringifier path returning a name N pins the attribute to N's own (type, value) and N's descriptor carries the identifier the stringifier is registered under; all other paths return \"\"", 13)
	ruleDecode := prefix + "decode-shape"
	r.Rule(ruleDecode, "Decode functions return a non-nil descriptor only as types[stringifier[transform.TransformID](AttributeType, AttributeValue, VariableLengthAttributeValue)]", 7)
	ruleAgree := prefix + "ike-child-agree"
	r.Rule(ruleAgree, "the IKE and Child-SA registries of one package register the same names with equal descriptors", 6)
	ruleTV := prefix + "totransform-format"
	r.Rule(ruleTV, "ToTransform copies TransformID and getAttribute results into the transform, sets its own transform type, and sets AttributeFormat = TV exactly when an attribute without variable-length value is present", 7)

	for _, rs := range regSpecs {
		if only != "" && rs.Rel != only {
			continue
		}
		strs, _, err := c.registryEntries(rs.Rel, rs.Strings)
		if err != nil {
			r.undecided(ruleClosure, rs.Rel+"."+rs.Strings, "-", err.Error())
			continue
		}
		// identifier -> stringifier function and its decision tree
		trees := map[int64][]treePath{}
		fnOf := map[int64]*ssa.Function{}
		for _, e := range strs {
			id, _ := constant.Int64Val(e.Key)
			fn, _ := e.Val.(*ssa.Function)
			if fn == nil {
				// a stringifier made by a generator `fixedName(N)`: a module function whose only statement returns
				// a closure over its parameter, the closure's only statement returning that captured value, called
				// with a constant: the constant function N
				if gen, ok := e.Val.(*ssa.Call); ok {
					if f2, k := c.constantClosure(gen); f2 != nil {
						r.Func(c.FuncName(f2))
						trees[id] = []treePath{{Result: absVal{K: k}}}
						fnOf[id] = f2
						continue
					}
				}
			}
			if fn == nil {
				r.undecided(ruleForeign, fmt.Sprintf("%s.%s[%d]", rs.Rel, rs.Strings, id), c.InstrPos(e.Site), "registry value is not a function")
				continue
			}
			r.Func(c.FuncName(fn))
			tp, err := c.decisionTree(fn)
			if err != nil {
				r.undecided(ruleForeign, fmt.Sprintf("%s.%s[%d]", rs.Rel, rs.Strings, id), c.InstrPos(e.Site), "stringifier is not a decision tree over its parameters: "+err.Error())
				continue
			}
			trees[id] = tp
			fnOf[id] = fn
		}
		var infos [][]descInfo
		for ti, tg := range rs.Types {
			ents, _, err := c.registryEntries(rs.Rel, tg)
			if err != nil {
				r.undecided(ruleReg, rs.Rel+"."+tg, "-", err.Error())
				continue
			}
			var dis []descInfo
			for _, e := range ents {
				name := constant.StringVal(e.Key)
				di := c.describe(name, c.descriptorOf(e.Val), e.Site)
				dis = append(dis, di)
				key := fmt.Sprintf("%s.%s[%q]", rs.Rel, tg, name)
				if di.Err != "" {
					r.undecided(ruleReg, key, di.Pos, di.Err)
					continue
				}
				// reference row
				var row *algoRow
				for i := range algoSpec {
					a := &algoSpec[i]
					if a.TType == rs.TType && a.ID == di.ID && a.HasAttr == di.HasAttr && (!a.HasAttr || (a.AType == di.AType && a.AVal == di.AVal)) {
						row = a
					}
				}
				if row == nil {
					r.bad(ruleReg, key, di.Pos, fmt.Sprintf("descriptor (transform type %d, id %d, attribute present=%v type=%d value=%d) is not in the RFC reference table", rs.TType, di.ID, di.HasAttr, di.AType, di.AVal))
				} else {
					var bad []string
					if di.HasKey && row.KeyLen != 0 && di.KeyLen != row.KeyLen {
						bad = append(bad, fmt.Sprintf("key length %d, RFC says %d", di.KeyLen, row.KeyLen))
					}
					if di.HasOut && row.OutLen != 0 && di.OutLen != row.OutLen {
						bad = append(bad, fmt.Sprintf("output length %d, RFC says %d", di.OutLen, row.OutLen))
					}
					if row.Hash != "" && ti == 0 && di.Hash != row.Hash {
						bad = append(bad, fmt.Sprintf("hash constructor %q, RFC says %s", di.Hash, row.Hash))
					}
					if ti == 0 && di.KeyArg != "" {
						bad = append(bad, di.KeyArg)
					}
					if rs.TType == 3 && ti == 0 && di.Guard != row.KeyLen {
						bad = append(bad, fmt.Sprintf("Init accepts key length %d, RFC says %d", di.Guard, row.KeyLen))
					}
					if rs.TType == 1 && ti == 0 && di.Guard != row.KeyLen {
						bad = append(bad, fmt.Sprintf("NewCrypto accepts key length %d, expected %d", di.Guard, row.KeyLen))
					}
					if di.HasAttr && !di.AVarNil {
						bad = append(bad, "getAttribute returns a variable-length value")
					}
					if len(bad) == 0 {
						r.ok(ruleReg, key, di.Pos, fmt.Sprintf("%s: id %d, attr(%v,%d,%d), key %d, out %d, hash %s, guard %d", row.Name, di.ID, di.HasAttr, di.AType, di.AVal, di.KeyLen, di.OutLen, di.Hash, di.Guard), true)
					} else {
						r.bad(ruleReg, key, di.Pos, row.Name+": "+strings.Join(bad, "; "))
					}
				}
				// closure
				tp, ok := trees[di.ID]
				if !ok {
					r.bad(ruleClosure, key, di.Pos, fmt.Sprintf("no stringifier registered for identifier %d: the advertised algorithm cannot be decoded back", di.ID))
				} else {
					args := map[int]constant.Value{0: constant.MakeInt64(di.AType), 1: constant.MakeInt64(di.AVal)}
					if !di.HasAttr {
						args = map[int]constant.Value{0: constant.MakeInt64(0), 1: constant.MakeInt64(0)}
					}
					res, found := evalTree(tp, args)
					if found && res.K != nil && res.K.Kind() == constant.String && constant.StringVal(res.K) == name {
						r.ok(ruleClosure, key, di.Pos, fmt.Sprintf("%s(%d, %d) = %q", c.FuncName(fnOf[di.ID]), args[0], args[1], name), true)
					} else {
						r.bad(ruleClosure, key, di.Pos, fmt.Sprintf("stringifier for id %d on the descriptor's own attribute (%v, %v) yields %s, not %q", di.ID, args[0], args[1], res.String(), name))
					}
				}
			}
			infos = append(infos, dis)
			// every reference row of this transform type is registered (in each registry)
			for i := range algoSpec {
				a := &algoSpec[i]
				if a.TType != rs.TType {
					continue
				}
				n := 0
				for _, di := range dis {
					if di.Err == "" && di.ID == a.ID && di.HasAttr == a.HasAttr && (!a.HasAttr || di.AVal == a.AVal) {
						n++
					}
				}
				r.Check(n == 1, ruleReg, fmt.Sprintf("%s.%s advertises %s", rs.Rel, tg, a.Name), "-", "registered exactly once", fmt.Sprintf("registered %d times", n))
			}
			// no foreign mapping: per stringifier path
			if ti == 0 {
				byName := map[string]descInfo{}
				for _, di := range dis {
					byName[di.Name] = di
				}
				var ids []int64
				for id := range trees {
					ids = append(ids, id)
				}
				sort.Slice(ids, func(i, j int) bool { return ids[i] < ids[j] })
				for _, id := range ids {
					for pi, p := range trees[id] {
						key := fmt.Sprintf("%s path %d", c.FuncName(fnOf[id]), pi)
						if p.Result.K == nil || p.Result.K.Kind() != constant.String {
							r.bad(ruleForeign, key, c.Pos(fnOf[id].Pos()), "a path does not return a string constant")
							continue
						}
						name := constant.StringVal(p.Result.K)
						if name == "" {
							r.ok(ruleForeign, key, c.Pos(fnOf[id].Pos()), "returns \"\" (unsupported)", false)
							continue
						}
						di, ok := byName[name]
						if !ok {
							r.bad(ruleForeign, key, c.Pos(fnOf[id].Pos()), fmt.Sprintf("returns %q which is not a registered name", name))
							continue
						}
						var bad []string
						if di.ID != id {
							bad = append(bad, fmt.Sprintf("registered under identifier %d but %q's descriptor has identifier %d", id, name, di.ID))
						}
						if di.HasAttr {
							at, ok1 := p.pins(0)
							av, ok2 := p.pins(1)
							if !ok1 || !ok2 {
								bad = append(bad, "the path does not pin both attribute type and value")
							} else {
								atv, _ := constant.Int64Val(at)
								avv, _ := constant.Int64Val(av)
								if atv != di.AType || avv != di.AVal {
									bad = append(bad, fmt.Sprintf("reached for attribute (%d, %d) but %q stands for (%d, %d)", atv, avv, name, di.AType, di.AVal))
								}
							}
						}
						var cs []string
						for _, cd := range p.Conds {
							cs = append(cs, cd.String())
						}
						if len(bad) == 0 {
							r.ok(ruleForeign, key, c.Pos(fnOf[id].Pos()), fmt.Sprintf("%q under {%s}", name, strings.Join(cs, ", ")), true)
						} else {
							r.bad(ruleForeign, key, c.Pos(fnOf[id].Pos()), strings.Join(bad, "; "))
						}
					}
				}
			}
			// decode shape and ToTransform
			c.decodeShapeRule(r, ruleDecode, rs, ti)
			c.toTransformRule(r, ruleTV, rs, ti)
		}
		if len(infos) == 2 {
			a, b := infos[0], infos[1]
			bn := map[string]descInfo{}
			for _, di := range b {
				bn[di.Name] = di
			}
			for _, di := range a {
				o, ok := bn[di.Name]
				same := ok && o.ID == di.ID && o.HasAttr == di.HasAttr && o.AType == di.AType && o.AVal == di.AVal && o.KeyLen == di.KeyLen && o.OutLen == di.OutLen
				r.Check(same, ruleAgree, rs.Rel+": "+di.Name, di.Pos, "IKE and Child descriptors are equal", "the Child-SA registry differs from the IKE registry for this name")
			}
			r.Check(len(a) == len(b), ruleAgree, rs.Rel+": same name sets", "-", fmt.Sprintf("%d names each", len(a)), fmt.Sprintf("%d vs %d names", len(a), len(b)))
		}
	}
	if only != "" {
		for k, v := range r.Floors {
			if strings.HasPrefix(k, prefix) && v > 1 {
				switch k {
				case ruleReg, ruleClosure, ruleForeign, ruleDecode, ruleAgree, ruleTV:
					r.Floors[k] = 1
				}
			}
		}
		r.Floors[ruleAgree] = 0 // a package with one registry has nothing to agree with
		for k := range r.Floors {
			if false {
				_ = k
			}
		}
	}
}

// tvValueOnlyUnderTVRule: the SA decoder stores the second half-word of an attribute into AttributeValue only
// for the TV format. The stringifiers decide on (type, value) alone, so a TLV attribute whose LENGTH landed
// in AttributeValue would be taken for a key-length value.
func (c *Ctx) tvValueOnlyUnderTVRule(r *Report, rule string) {
	r.Rule(rule, "every decode-side store of Transform.AttributeValue is conditioned on AttributeFormat != 0 (TV); the TLV form stores only the variable-length value", 1)
	st := c.BuildSlotTables()
	t := st.Dec["message.Transform"]
	if t == nil {
		r.undecided(rule, "decode table of message.Transform", "-", "no decode table")
		return
	}
	n, bad := 0, ""
	for _, b := range t.Bits {
		if b.Field != "message.Transform.AttributeValue" {
			continue
		}
		n++
		if !strings.Contains(b.Cond, "message.Transform.AttributeFormat != 0") && !strings.Contains(b.Cond, "message.Transform.AttributeFormat == 1") {
			bad = "bit " + fmt.Sprint(b.FBit) + " is stored when {" + b.Cond + "}"
		}
	}
	r.Check(n > 0 && bad == "", rule, "message.Transform.AttributeValue", "-", fmt.Sprintf("%d bit rows, all under the TV format", n), "AttributeValue is stored outside the TV format: "+bad)
}

// decodeShapeRule: structure of DecodeTransform*.
func (c *Ctx) decodeShapeRule(r *Report, rule string, rs regSpec, ti int) {
	fn := c.Func(rs.Rel, rs.Decode[ti])
	key := rs.Rel + "." + rs.Decode[ti]
	if fn == nil {
		r.undecided(rule, key, "-", "anchor does not resolve")
		return
	}
	r.Func(c.FuncName(fn))
	p := c.Pkg(rs.Rel)
	strG, _ := p.Members[rs.Strings].(*ssa.Global)
	typG, _ := p.Members[rs.Types[ti]].(*ssa.Global)
	// the dynamic call s := f(AttributeType, AttributeValue, VariableLengthAttributeValue), f from strings[TransformID]
	var dyn *ssa.Call
	for _, b := range fn.Blocks {
		for _, ins := range b.Instrs {
			if call, ok := ins.(*ssa.Call); ok && call.Call.StaticCallee() == nil && !call.Call.IsInvoke() {
				if _, isB := call.Call.Value.(*ssa.Builtin); !isB {
					dyn = call
				}
			}
		}
	}
	if dyn == nil || strG == nil || typG == nil {
		r.bad(rule, key, c.Pos(fn.Pos()), "no call through the stringifier table found")
		return
	}
	var bad []string
	// f = Extract(Lookup(load strG, load transform.TransformID), 0)
	fv := dyn.Call.Value
	if ex, ok := fv.(*ssa.Extract); ok {
		fv = ex.Tuple
	}
	lk, ok := fv.(*ssa.Lookup)
	if !ok {
		bad = append(bad, "the function called is not looked up in the stringifier table")
	} else {
		if u, ok := lk.X.(*ssa.UnOp); !ok || u.X != ssa.Value(strG) {
			bad = append(bad, "lookup is not in "+rs.Strings)
		}
		if _, fld, ok := fieldLoad(lk.Index); !ok || fld != "TransformID" {
			bad = append(bad, "lookup key is not transform.TransformID")
		}
	}
	wantArgs := []string{"AttributeType", "AttributeValue", "VariableLengthAttributeValue"}
	for i, w := range wantArgs {
		if i >= len(dyn.Call.Args) {
			bad = append(bad, "missing argument "+w)
			continue
		}
		if _, fld, ok := fieldLoad(dyn.Call.Args[i]); !ok || fld != w {
			bad = append(bad, fmt.Sprintf("argument %d is not transform.%s", i, w))
		}
	}
	// every return of a non-nil/non-zero descriptor is the lookup types[s]
	for _, b := range fn.Blocks {
		ret, ok := b.Instrs[len(b.Instrs)-1].(*ssa.Return)
		if !ok {
			continue
		}
		v := ret.Results[0]
		if isNilConst(v) {
			continue
		}
		if len(ret.Results) == 2 && !isNilConst(ret.Results[1]) {
			continue // error return (esn)
		}
		if !c.isRegistryLookupOf(v, typG, dyn, 0) {
			bad = append(bad, "a success return at "+c.InstrPos(ret)+" is not "+rs.Types[ti]+"[s]")
		}
	}
	r.Check(len(bad) == 0, rule, key, c.Pos(fn.Pos()), "returns "+rs.Types[ti]+"["+rs.Strings+"[TransformID](AttributeType, AttributeValue, VariableLengthAttributeValue)] or nil/error", strings.Join(bad, "; "))
}

// isRegistryLookupOf: v is (a MakeInterface/Extract/φ/call-result chain over) Lookup(load typG, s) with s the result of dyn.
func (c *Ctx) isRegistryLookupOf(v ssa.Value, typG *ssa.Global, dyn *ssa.Call, depth int) bool {
	if depth > 6 {
		return false
	}
	switch x := v.(type) {
	case *ssa.Extract:
		return c.isRegistryLookupOf(x.Tuple, typG, dyn, depth+1)
	case *ssa.MakeInterface:
		return c.isRegistryLookupOf(x.X, typG, dyn, depth+1)
	case *ssa.Lookup:
		u, ok := x.X.(*ssa.UnOp)
		return ok && u.X == ssa.Value(typG) && isDynResult(x.Index, dyn)
	case *ssa.Call:
		// esn: StrToType(s) — a module function that itself returns the lookup of its parameter
		cal := x.Call.StaticCallee()
		if cal == nil || !c.InModule(cal) || len(x.Call.Args) != 1 || !isDynResult(x.Call.Args[0], dyn) {
			return false
		}
		for _, b := range cal.Blocks {
			ret, ok := b.Instrs[len(b.Instrs)-1].(*ssa.Return)
			if !ok {
				continue
			}
			if len(ret.Results) == 2 && !isNilConst(ret.Results[1]) {
				continue
			}
			rv := ret.Results[0]
			if isNilConst(rv) {
				continue // "not registered": nil
			}
			if ex, ok := rv.(*ssa.Extract); ok {
				rv = ex.Tuple
			}
			lk, ok := rv.(*ssa.Lookup)
			if !ok {
				return false
			}
			u, ok := lk.X.(*ssa.UnOp)
			if !ok || u.X != ssa.Value(typG) || paramIndex(cal, lk.Index) != 0 {
				return false
			}
		}
		return true
	}
	return false
}

// toTransformRule: structure of ToTransform*.
func (c *Ctx) toTransformRule(r *Report, rule string, rs regSpec, ti int) {
	fn := c.Func(rs.Rel, rs.ToTrans[ti])
	key := rs.Rel + "." + rs.ToTrans[ti]
	if fn == nil {
		r.undecided(rule, key, "-", "anchor does not resolve")
		return
	}
	r.Func(c.FuncName(fn))
	// a twin folded into the other: `return ToTransformChildSA(t)` (the IKE interface contains the Child SA
	// one) - the whole body is that call on the parameter, and the twin is held to the rule itself
	if len(fn.Blocks) == 1 && len(fn.Params) == 1 && len(rs.ToTrans) == 2 {
		if twin := c.Func(rs.Rel, rs.ToTrans[1-ti]); twin != nil && twin != fn {
			if ret, ok := fn.Blocks[0].Instrs[len(fn.Blocks[0].Instrs)-1].(*ssa.Return); ok && len(ret.Results) == 1 {
				if call, ok := ret.Results[0].(*ssa.Call); ok && call.Call.StaticCallee() == twin && len(call.Call.Args) == 1 {
					arg := call.Call.Args[0]
					if ci, ok := arg.(*ssa.ChangeInterface); ok {
						arg = ci.X
					}
					pure := true
					for _, ins := range fn.Blocks[0].Instrs {
						switch ins.(type) {
						case *ssa.Call, *ssa.ChangeInterface, *ssa.Return, *ssa.DebugRef:
						default:
							pure = false
						}
					}
					if arg == ssa.Value(fn.Params[0]) && pure {
						r.ok(rule, key, c.Pos(fn.Pos()), "delegates to "+rs.ToTrans[1-ti]+" on its own argument, which is checked by this rule", true)
						return
					}
				}
			}
		}
	}
	var bad []string
	stores := map[string]*ssa.Store{}
	for _, b := range fn.Blocks {
		for _, ins := range b.Instrs {
			if st, ok := ins.(*ssa.Store); ok {
				if fa, ok := st.Addr.(*ssa.FieldAddr); ok {
					k := FieldKey(fa.X.Type(), fa.Field)
					if strings.HasPrefix(k, "field:message.Transform.") {
						name := strings.TrimPrefix(k, "field:message.Transform.")
						if _, dup := stores[name]; dup && name != "AttributeFormat" {
							bad = append(bad, name+" assigned twice")
						}
						stores[name] = st
					}
				}
			}
		}
	}
	// TransformType constant
	if st := stores["TransformType"]; st == nil {
		bad = append(bad, "TransformType not set")
	} else if k, ok := st.Val.(*ssa.Const); !ok {
		bad = append(bad, "TransformType not a constant")
	} else if v, _ := constInt64(k.Value); v != rs.TType {
		bad = append(bad, fmt.Sprintf("TransformType = %d, expected %d", v, rs.TType))
	}
	// TransformID from invoke TransformID on the parameter
	isInvokeOnParam := func(v ssa.Value, method string, idx int) bool {
		if ex, ok := v.(*ssa.Extract); ok {
			if ex.Index != idx {
				return false
			}
			v = ex.Tuple
		} else if idx > 0 {
			return false
		}
		call, ok := v.(*ssa.Call)
		if !ok {
			return false
		}
		if call.Call.IsInvoke() {
			recv := call.Call.Value
			// the descriptor viewed through a narrower local interface (a shared helper's parameter type)
			for i := 0; i < 3; i++ {
				if ci, ok := recv.(*ssa.ChangeInterface); ok {
					recv = ci.X
					continue
				}
				break
			}
			return call.Call.Method.Name() == method && paramIndex(fn, recv) == 0
		}
		// ESN is a struct: static call (*ESN).Method(&local copy of the parameter)
		cal := call.Call.StaticCallee()
		return cal != nil && cal.Name() == method
	}
	if st := stores["TransformID"]; st == nil || !isInvokeOnParam(st.Val, "TransformID", 0) {
		bad = append(bad, "TransformID is not the descriptor's TransformID()")
	}
	for i, f := range []string{"AttributePresent", "AttributeType", "AttributeValue", "VariableLengthAttributeValue"} {
		if st := stores[f]; st == nil || !isInvokeOnParam(st.Val, "getAttribute", i) {
			bad = append(bad, f+" is not result "+fmt.Sprint(i)+" of the descriptor's getAttribute()")
		}
	}
	// AttributeFormat = 1 under present && varlen == nil
	if st := stores["AttributeFormat"]; st == nil {
		bad = append(bad, "AttributeFormat never set to TV")
	} else {
		k, ok := st.Val.(*ssa.Const)
		v, _ := int64(0), false
		if ok {
			v, _ = constInt64(k.Value)
		}
		if !ok || v != 1 {
			bad = append(bad, "AttributeFormat is not set to the constant TV (1)")
		}
		// dominating conditions
		present, varnil := false, false
		for x := st.Block(); x != nil; x = x.Idom() {
			if len(x.Preds) != 1 {
				continue
			}
			p := x.Preds[0]
			iff, ok := p.Instrs[len(p.Instrs)-1].(*ssa.If)
			if !ok {
				continue
			}
			onTrue := p.Succs[0] == x
			// the field itself, or the very value that is stored into it (tested before the transform is built)
			isField := func(v ssa.Value, name string) bool {
				if _, fld, ok := fieldLoad(v); ok && fld == name {
					return true
				}
				st := stores[name]
				return st != nil && st.Val == v
			}
			if isField(iff.Cond, "AttributePresent") && onTrue {
				present = true
			}
			if cond, ok := iff.Cond.(*ssa.BinOp); ok {
				var other ssa.Value
				if isNilConst(cond.Y) {
					other = cond.X
				} else if isNilConst(cond.X) {
					other = cond.Y
				}
				if other != nil {
					if isField(other, "VariableLengthAttributeValue") {
						if (cond.Op == token.EQL && onTrue) || (cond.Op == token.NEQ && !onTrue) {
							varnil = true
						}
					}
				}
			}
		}
		if !present || !varnil {
			bad = append(bad, "the TV assignment is not guarded by AttributePresent && VariableLengthAttributeValue == nil")
		}
	}
	r.Check(len(bad) == 0, rule, key, c.Pos(fn.Pos()), "fields copied from the descriptor; TV exactly when an attribute without variable-length value is present", strings.Join(bad, "; "))
}

// saBuildRules: C11 rule 5.
func (c *Ctx) saBuildRules(r *Report, prefix string) {
	rule := prefix + "sa-build-fails-on-unsupported"
	r.Rule(rule, "NewIKESAKey / NewChildSAKeyByProposal return success only if every descriptor decoded from the proposal is non-nil (tested locally, or by a callee whose nil-error edge dominates success)", 7)
	type want struct {
		fn     *ssa.Function
		fields []string
	}
	gen := c.Method("security", "IKESAKey", "GenerateKeyForIKESA")
	for _, w := range []want{
		{c.Func("security", "NewIKESAKey"), []string{"DhInfo", "EncrInfo", "IntegInfo", "PrfInfo"}},
		{c.Func("security", "NewChildSAKeyByProposal"), []string{"DhInfo", "EncrKInfo", "IntegKInfo", "EsnInfo"}},
	} {
		if w.fn == nil {
			r.undecided(rule, "anchor", "-", "constructor does not resolve")
			continue
		}
		r.Func(c.FuncName(w.fn))
		for _, fld := range w.fields {
			key := c.FuncName(w.fn) + ": " + fld
			// the store of the decoded descriptor
			var st *ssa.Store
			for _, b := range w.fn.Blocks {
				for _, ins := range b.Instrs {
					if s, ok := ins.(*ssa.Store); ok {
						if fa, ok := s.Addr.(*ssa.FieldAddr); ok && strings.HasSuffix(FieldKey(fa.X.Type(), fa.Field), "."+fld) {
							st = s
						}
					}
				}
			}
			if st == nil {
				r.bad(rule, key, c.Pos(w.fn.Pos()), "the descriptor is never assigned")
				continue
			}
			// error-returning decoder (esn): ErrorChecked
			if ex, ok := st.Val.(*ssa.Extract); ok {
				if call, ok := ex.Tuple.(*ssa.Call); ok && errResult(call) != nil {
					ok2, why := c.errorChecked(call)
					r.Check(ok2, rule, key, c.InstrPos(st), "decoder error is checked: "+why, why)
					continue
				}
			}
			// success returns reachable from the store must be dominated by a non-nil test of this field's value
			okAll, n := true, 0
			detail := ""
			for _, b := range w.fn.Blocks {
				ret, ok := b.Instrs[len(b.Instrs)-1].(*ssa.Return)
				if !ok || !isNilConst(ret.Results[len(ret.Results)-1]) {
					continue
				}
				if !st.Block().Dominates(b) && !c.blockReaches(st.Block(), b) {
					continue
				}
				if !c.blockReaches(st.Block(), b) {
					continue
				}
				n++
				if c.nonNilTestedBetween(w.fn, st, b, fld, gen) || c.decodedValueTestedBefore(st.Val, b) {
					continue
				}
				okAll = false
				detail = "success return at " + c.InstrPos(ret) + " is reachable with a nil " + fld
			}
			r.Check(okAll && n > 0, rule, key, c.InstrPos(st), fmt.Sprintf("%d success return(s) after the assignment, each behind a nil test of the decoded value", n), detail)
		}
	}
}

// saLookupUnconditionalRule: whether a transform of the proposal is looked up in the registry may depend
// only on how many transforms of that type the proposal lists (and on earlier lookups having succeeded),
// never on the transform's own content: a lookup skipped for some identifier is that identifier accepted
// without a descriptor.
func (c *Ctx) saLookupUnconditionalRule(r *Report, prefix string) {
	rule := prefix + "sa-build-lookup-unconditional"
	r.Rule(rule, "in NewIKESAKey / NewChildSAKeyByProposal every registry lookup (DecodeTransform*) is controlled only by nil tests and by the lengths of the proposal's transform lists, not by fields of the transform being looked up", 8)
	for _, fn := range []*ssa.Function{c.Func("security", "NewIKESAKey"), c.Func("security", "NewChildSAKeyByProposal")} {
		if fn == nil {
			r.undecided(rule, "anchor", "-", "constructor does not resolve")
			continue
		}
		f := c.NewFA(fn)
		for _, b := range fn.Blocks {
			for _, ins := range b.Instrs {
				call, ok := ins.(*ssa.Call)
				if !ok {
					continue
				}
				cal := call.Call.StaticCallee()
				if cal == nil || !strings.HasPrefix(cal.Name(), "DecodeTransform") || !c.InModule(cal) {
					continue
				}
				key := c.FuncName(fn) + ": " + c.SrcExpr(call)
				var bad []string
				n := 0
				for x := b; x != nil; x = x.Idom() {
					if len(x.Preds) != 1 {
						continue
					}
					p := x.Preds[0]
					iff, ok := p.Instrs[len(p.Instrs)-1].(*ssa.If)
					if !ok || p.Succs[0] == p.Succs[1] {
						continue
					}
					n++
					cond := iff.Cond
					for {
						u, ok := cond.(*ssa.UnOp)
						if !ok || u.Op != token.NOT {
							break
						}
						cond = u.X
					}
					bo, ok := cond.(*ssa.BinOp)
					if !ok {
						bad = append(bad, "branch on "+cond.String())
						continue
					}
					if isNilConst(bo.X) || isNilConst(bo.Y) {
						continue
					}
					if _, _, isInt := f.typeRange(bo.X.Type()); !isInt {
						bad = append(bad, "`"+c.SrcExpr(bo)+"`")
						continue
					}
					for _, side := range []ssa.Value{bo.X, bo.Y} {
						for a := range f.LFOf(side).T {
							if f.fieldOfLenAtom(a) == "" {
								bad = append(bad, "`"+c.SrcExpr(bo)+"`")
							}
						}
					}
				}
				r.Check(len(bad) == 0, rule, key, c.InstrPos(call), fmt.Sprintf("%d controlling test(s): nil tests and list lengths only", n), "the lookup is skipped depending on "+strings.Join(bad, ", ")+": a transform for which it is skipped is accepted without a descriptor")
			}
		}
	}
}

func (c *Ctx) blockReaches(a, b *ssa.BasicBlock) bool {
	if a == b {
		return true
	}
	seen := map[*ssa.BasicBlock]bool{}
	st := []*ssa.BasicBlock{a}
	for len(st) > 0 {
		x := st[len(st)-1]
		st = st[:len(st)-1]
		if seen[x] {
			continue
		}
		seen[x] = true
		if x == b {
			return true
		}
		st = append(st, x.Succs...)
	}
	return false
}

// nonNilTestedBetween: every path from the store to block b passes the non-nil edge of a test of
// load(recv.fld) == nil (field name match on the same struct), or the nil-error edge of a call to
// `gen` (GenerateKeyForIKESA) which itself guards the field on entry.
func (c *Ctx) nonNilTestedBetween(fn *ssa.Function, st *ssa.Store, b *ssa.BasicBlock, fld string, gen *ssa.Function) bool {
	// guarded edges: (test block, successor index) taken only when the value is non-nil / the guarding callee succeeded
	type edge struct {
		from *ssa.BasicBlock
		to   int
	}
	guarded := map[edge]bool{}
	n := 0
	for _, x := range fn.Blocks {
		iff, ok := x.Instrs[len(x.Instrs)-1].(*ssa.If)
		if !ok {
			continue
		}
		cond, ok := iff.Cond.(*ssa.BinOp)
		if !ok || (cond.Op != token.EQL && cond.Op != token.NEQ) {
			continue
		}
		var other ssa.Value
		if isNilConst(cond.Y) {
			other = cond.X
		} else if isNilConst(cond.X) {
			other = cond.Y
		} else {
			continue
		}
		if _, f2, ok := fieldLoad(other); ok && f2 == fld {
			// the load must come after the store
			ld := other.(*ssa.UnOp)
			after := (st.Block() == ld.Block() && instrIndex(st) < instrIndex(ld)) || (st.Block() != ld.Block() && st.Block().Dominates(ld.Block()))
			if !after {
				continue
			}
			nn := 1
			if cond.Op == token.NEQ {
				nn = 0
			}
			guarded[edge{x, nn}] = true
			n++
			continue
		}
		// nil-error edge of a call to gen that guards the field on entry
		if gen != nil && c.calleeGuardsField(gen, fld) {
			for _, call := range c.callsTo(fn, gen) {
				if other == errResult(call) {
					nn := 1 // err == nil side
					if cond.Op == token.EQL {
						nn = 0
					}
					guarded[edge{x, nn}] = true
					n++
				}
			}
		}
	}
	if n == 0 {
		return false
	}
	// is b reachable from the store without taking a guarded edge?
	seen := map[*ssa.BasicBlock]bool{}
	var dfs func(x *ssa.BasicBlock) bool
	dfs = func(x *ssa.BasicBlock) bool {
		if x == b {
			return true
		}
		if seen[x] {
			return false
		}
		seen[x] = true
		for i, s := range x.Succs {
			if guarded[edge{x, i}] {
				continue
			}
			if dfs(s) {
				return true
			}
		}
		return false
	}
	if st.Block() == b {
		return false
	}
	seen[st.Block()] = true
	for i, s := range st.Block().Succs {
		if guarded[edge{st.Block(), i}] {
			continue
		}
		if dfs(s) {
			return false
		}
	}
	return true
}

// decodedValueTestedBefore: the stored value is assembled from locals (the struct is filled at the end);
// every origin of it is the nil constant (transform type absent) or a call result, and block b is not
// reachable from that call without taking the non-nil edge of a nil test of the result.
func (c *Ctx) decodedValueTestedBefore(v ssa.Value, b *ssa.BasicBlock) bool {
	var leaves []ssa.Value
	seen := map[ssa.Value]bool{}
	var walk func(x ssa.Value) bool
	walk = func(x ssa.Value) bool {
		if seen[x] {
			return true
		}
		seen[x] = true
		switch t := x.(type) {
		case *ssa.Phi:
			for _, e := range t.Edges {
				if !walk(e) {
					return false
				}
			}
			return true
		case *ssa.ChangeInterface:
			return walk(t.X)
		case *ssa.Const:
			return t.IsNil()
		case *ssa.Call:
			leaves = append(leaves, t)
			return true
		}
		return false
	}
	if !walk(v) || len(leaves) == 0 {
		return false
	}
	for _, leaf := range leaves {
		call := leaf.(*ssa.Call)
		type edge struct {
			from *ssa.BasicBlock
			to   int
		}
		guarded := map[edge]bool{}
		for _, ref := range *call.Referrers() {
			cond, ok := ref.(*ssa.BinOp)
			if !ok || (cond.Op != token.EQL && cond.Op != token.NEQ) || !(isNilConst(cond.X) || isNilConst(cond.Y)) {
				continue
			}
			for _, r2 := range *cond.Referrers() {
				if iff, ok := r2.(*ssa.If); ok {
					nn := 1
					if cond.Op == token.NEQ {
						nn = 0
					}
					guarded[edge{iff.Block(), nn}] = true
				}
			}
		}
		if len(guarded) == 0 {
			return false
		}
		seenB := map[*ssa.BasicBlock]bool{}
		var dfs func(x *ssa.BasicBlock) bool
		dfs = func(x *ssa.BasicBlock) bool {
			if x == b {
				return true
			}
			if seenB[x] {
				return false
			}
			seenB[x] = true
			for i, s := range x.Succs {
				if guarded[edge{x, i}] {
					continue
				}
				if dfs(s) {
					return true
				}
			}
			return false
		}
		if dfs(call.Block()) {
			return false
		}
	}
	return true
}

// calleeGuardsField: every nil-error return of gen is dominated by the non-nil edge of `recv.fld == nil`.
func (c *Ctx) calleeGuardsField(gen *ssa.Function, fld string) bool {
	var guards []*ssa.BasicBlock
	for _, x := range gen.Blocks {
		iff, ok := x.Instrs[len(x.Instrs)-1].(*ssa.If)
		if !ok {
			continue
		}
		cond, ok := iff.Cond.(*ssa.BinOp)
		if !ok || (cond.Op != token.EQL && cond.Op != token.NEQ) {
			continue
		}
		var other ssa.Value
		if isNilConst(cond.Y) {
			other = cond.X
		} else if isNilConst(cond.X) {
			other = cond.Y
		} else {
			continue
		}
		base, f2, ok := fieldLoad(other)
		if !ok || f2 != fld || paramIndex(gen, base) != 0 {
			continue
		}
		nn := x.Succs[1]
		if cond.Op == token.NEQ {
			nn = x.Succs[0]
		}
		guards = append(guards, nn)
	}
	if len(guards) == 0 {
		return false
	}
	for _, b := range gen.Blocks {
		ret, ok := b.Instrs[len(b.Instrs)-1].(*ssa.Return)
		if !ok || !isNilConst(ret.Results[len(ret.Results)-1]) {
			continue
		}
		dom := false
		for _, g := range guards {
			if g.Dominates(b) {
				dom = true
			}
		}
		if !dom {
			return false
		}
	}
	return true
}

// isDynResult: v is the stringifier's result, possibly merged with the empty string of the "no stringifier
// for this identifier" path (a helper that returns "" when the identifier is unknown).
func isDynResult(v ssa.Value, dyn *ssa.Call) bool {
	if v == ssa.Value(dyn) {
		return true
	}
	ph, ok := v.(*ssa.Phi)
	if !ok {
		return false
	}
	seen := false
	for _, e := range ph.Edges {
		if e == ssa.Value(dyn) {
			seen = true
			continue
		}
		k, ok := e.(*ssa.Const)
		if !ok || k.Value == nil || k.Value.ExactString() != `""` {
			return false
		}
	}
	return seen
}

// constantClosure: call is G(..., K, ...) with G a module function `return func(...) T { return p }` over its
// parameter p, and K a constant: the closure and the constant it returns for every argument.
func (c *Ctx) constantClosure(call *ssa.Call) (*ssa.Function, constant.Value) {
	g := call.Call.StaticCallee()
	if g == nil || !c.InModule(g) || len(g.Blocks) != 1 {
		return nil, nil
	}
	ret, ok := g.Blocks[0].Instrs[len(g.Blocks[0].Instrs)-1].(*ssa.Return)
	if !ok || len(ret.Results) != 1 {
		return nil, nil
	}
	mc, ok := ret.Results[0].(*ssa.MakeClosure)
	if !ok || len(mc.Bindings) != 1 {
		return nil, nil
	}
	f2, ok := mc.Fn.(*ssa.Function)
	if !ok || len(f2.Blocks) != 1 || len(f2.FreeVars) != 1 {
		return nil, nil
	}
	// the closure returns its captured variable (captured by reference: *fv) and does nothing else
	instrs := f2.Blocks[0].Instrs
	r2, ok := instrs[len(instrs)-1].(*ssa.Return)
	if !ok || len(r2.Results) != 1 || len(instrs) > 2 {
		return nil, nil
	}
	switch v := r2.Results[0].(type) {
	case *ssa.FreeVar:
	case *ssa.UnOp:
		if _, isFV := v.X.(*ssa.FreeVar); !isFV {
			return nil, nil
		}
	default:
		return nil, nil
	}
	// the binding is the generator's parameter (or the cell it was copied into), written nowhere else
	pi := -1
	switch b := mc.Bindings[0].(type) {
	case *ssa.Parameter:
		pi = paramIndex(g, b)
	case *ssa.Alloc:
		n := 0
		for _, ref := range *b.Referrers() {
			if st, ok := ref.(*ssa.Store); ok && st.Addr == ssa.Value(b) {
				n++
				if p, ok := st.Val.(*ssa.Parameter); ok {
					pi = paramIndex(g, p)
				}
			}
		}
		if n != 1 {
			return nil, nil
		}
	}
	if pi < 0 || pi >= len(call.Call.Args) {
		return nil, nil
	}
	k, ok := call.Call.Args[pi].(*ssa.Const)
	if !ok || k.Value == nil {
		return nil, nil
	}
	return f2, k.Value
}
