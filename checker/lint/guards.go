package lint

import (
	"fmt"
	"go/token"
	"sort"
	"strings"

	"ikeverif/checker/xt/ssa"
)

// Value-guard agreement between the two sides of the codec (sibling cross-check).
//
// decode(encode(m)) = m for every m of the encodable domain needs more than matching layouts: the decoder
// must accept everything the encoder emits. A decoder that rejects a datagram because of the VALUE of a
// message field is only right if the encoder refuses to emit that value as well (then the value is outside
// the encodable domain) or if the field is structural (a type, format, size or count that determines the
// layout of what follows). The rule collects, on each side, the set of integer message fields whose value
// can decide an error exit:
//   decoder: an If with a successor from which every path ends in an error return, whose condition depends
//            (through arithmetic, conversions, φ) on a load of the field or on wire octets that the same
//            function stores into the field;
//   encoder: the same with loads of the field.
// and requires  guarded(decoder) ⊆ guarded(encoder) ∪ structural,  the structural fields being a frozen,
// reasoned table. Length tests (len(x) ...) are not value guards and are decided by the layout rules.

type guardSite struct {
	Fn   string
	Pos  string
	Cond string
}

type guardAn struct {
	c *Ctx
}

// deps collects the integer field loads ("field:K") and wire reads ("wire:KEY") v depends on.
func (g *guardAn) deps(x *bvCtx, v ssa.Value, depth int, out map[string]bool) {
	if depth > 6 {
		return
	}
	if id, ok := x.wireLeafOf(v); ok {
		out["wire:"+x.leaves[id].Key] = true
		return
	}
	if fk, ok := fieldKeyOfLoad(v); ok {
		if _, isInt := typeBits(v.Type()); isInt {
			out["field:"+fk] = true
			return
		}
	}
	if u, ok := v.(*ssa.UnOp); ok && u.Op == token.MUL {
		if ia, ok := u.X.(*ssa.IndexAddr); ok {
			if fk, ok := fieldKeyOfLoad(ia.X); ok && !isByteSlice(ia.X.Type()) {
				if _, isInt := typeBits(v.Type()); isInt {
					out["field:"+fk+"[]"] = true
					return
				}
			}
		}
	}
	switch e := v.(type) {
	case *ssa.BinOp:
		g.deps(x, e.X, depth+1, out)
		g.deps(x, e.Y, depth+1, out)
	case *ssa.UnOp:
		if e.Op != token.MUL {
			g.deps(x, e.X, depth+1, out)
		}
	case *ssa.Convert:
		g.deps(x, e.X, depth+1, out)
	case *ssa.ChangeType:
		g.deps(x, e.X, depth+1, out)
	case *ssa.Phi:
		for _, ed := range e.Edges {
			g.deps(x, ed, depth+2, out)
		}
	}
}

// guardedFields returns field -> sites for the functions fns (closures included through Reachable by the caller).
func (g *guardAn) guardedFields(fns []*ssa.Function, decode bool) map[string][]guardSite {
	c := g.c
	out := map[string][]guardSite{}
	for _, fn := range fns {
		f := c.NewFA(fn)
		x := newBVCtx(c, f)
		type w2f struct {
			field string
			blk   *ssa.BasicBlock
		}
		wire2field := map[string][]w2f{}
		fwd := forwardReach(fn)
		if decode {
			for _, b := range fn.Blocks {
				for _, ins := range b.Instrs {
					st, ok := ins.(*ssa.Store)
					if !ok {
						continue
					}
					fa, ok := st.Addr.(*ssa.FieldAddr)
					if !ok {
						continue
					}
					if _, isInt := typeBits(st.Val.Type()); !isInt {
						continue
					}
					fk := strings.TrimPrefix(FieldKey(fa.X.Type(), fa.Field), "field:")
					d := map[string]bool{}
					g.deps(x, st.Val, 0, d)
					for k := range d {
						if strings.HasPrefix(k, "wire:") {
							wire2field[k] = append(wire2field[k], w2f{fk, b})
						}
					}
				}
			}
		}
		for _, b := range fn.Blocks {
			if f.Dead[b] {
				continue
			}
			iff, ok := b.Instrs[len(b.Instrs)-1].(*ssa.If)
			if !ok || b.Succs[0] == b.Succs[1] {
				continue
			}
			if !c.onlyErrorExit(b.Succs[0]) && !c.onlyErrorExit(b.Succs[1]) {
				continue
			}
			d := map[string]bool{}
			g.deps(x, iff.Cond, 0, d)
			text := ""
			if v, ok := iff.Cond.(ssa.Instruction); ok {
				text = c.SrcExpr(v)
			}
			if text == "" {
				text = iff.Cond.String()
			}
			site := guardSite{Fn: c.FuncName(fn), Pos: c.InstrPos(iff), Cond: text}
			for k := range d {
				switch {
				case strings.HasPrefix(k, "field:"):
					fk := strings.TrimPrefix(k, "field:")
					out[fk] = append(out[fk], site)
				case strings.HasPrefix(k, "wire:"):
					// the octets feed the field only if the store and the test lie on a common path of one
					// iteration (a TV value and a TLV length share their octets on exclusive branches)
					for _, w := range wire2field[k] {
						if w.blk == b || fwd[b][w.blk] || fwd[w.blk][b] {
							out[w.field] = append(out[w.field], site)
						}
					}
				}
			}
		}
	}
	return out
}

// forwardReach: reachability between blocks without back edges (edges into a dominator).
func forwardReach(fn *ssa.Function) map[*ssa.BasicBlock]map[*ssa.BasicBlock]bool {
	out := map[*ssa.BasicBlock]map[*ssa.BasicBlock]bool{}
	for _, b := range fn.Blocks {
		seen := map[*ssa.BasicBlock]bool{}
		st := []*ssa.BasicBlock{b}
		for len(st) > 0 {
			x := st[len(st)-1]
			st = st[:len(st)-1]
			for _, s := range x.Succs {
				if s.Dominates(x) || seen[s] {
					continue
				}
				seen[s] = true
				st = append(st, s)
			}
		}
		out[b] = seen
	}
	return out
}

// structuralFields: fields whose value the decoder may test although the encoder does not: they select or
// size the layout of what follows, so a value the decoder refuses is one whose encoding could not be parsed.
var structuralFields = map[string]string{
	"message.Delete.SPISize":       "SPI size times SPI count bounds the payload body (RFC 7296 3.11); the test is the bounds check of the SPI list",
	"eap.EapAkaPrimeAttr.reserved": "for AT_RES / AT_KDF_INPUT these two octets are the exact value length in bits (RFC 4187 10.8, RFC 5448 3.1): they size the value that is read next",
}

func (c *Ctx) valueGuardRule(r *Report, rule string) {
	r.Rule(rule, "the decoder rejects a datagram because of the value of an integer message field only if the encoder refuses to emit that value too (sibling agreement on value checks) or the field is structural (frozen table with reasons): guarded(decoder) ⊆ guarded(encoder) ∪ structural", 3)
	dec, enc, _ := c.codecFuncs()
	var dfn, efn []*ssa.Function
	seen := map[*ssa.Function]bool{}
	for _, fn := range c.Reachable(dec...) {
		if !seen[fn] {
			seen[fn] = true
			dfn = append(dfn, fn)
		}
	}
	seen = map[*ssa.Function]bool{}
	for _, fn := range c.Reachable(enc...) {
		if !seen[fn] {
			seen[fn] = true
			efn = append(efn, fn)
		}
	}
	g := &guardAn{c: c}
	gd := g.guardedFields(dfn, true)
	ge := g.guardedFields(efn, false)
	var keys []string
	for k := range gd {
		keys = append(keys, k)
	}
	sort.Strings(keys)
	for _, fk := range keys {
		sites := gd[fk]
		key := "decoder value guard on " + fk
		where := fmt.Sprintf("%s (%s)", sites[0].Pos, sites[0].Cond)
		if es, ok := ge[fk]; ok {
			r.ok(rule, key, sites[0].Pos, fmt.Sprintf("the encoder tests the field as well (%s: %s)", es[0].Pos, es[0].Cond), true)
			continue
		}
		if why, ok := structuralFields[fk]; ok {
			r.ok(rule, key, sites[0].Pos, "structural field: "+why, true)
			continue
		}
		r.bad(rule, key, sites[0].Pos, "the decoder can reject a datagram depending on the value of "+fk+" at "+where+", but the encoder emits every value of that field: a message carrying a refused value encodes and then fails to decode")
	}
}
