package lint

import (
	"fmt"
	"go/token"
	"go/types"

	"ikeverif/checker/xt/ssa"
)

// Concatenation normal form of a byte-slice value: the ordered list of the pieces it is made of, whether
// the code builds it by appending (append(append(a, b...), c)) or by filling a buffer of the final size
// (make(len(a)+len(b)+1); copy; copy; buf[n] = c). Shape rules of the derivation properties compare these
// lists, so the two styles are the same thing to them.

type cpart struct {
	Kind string    // "slice" (Val is the source slice), "byte" (Val is the octet value), "zeros"
	Val  ssa.Value // nil for zeros
	Len  LF
}

func (p cpart) String(f *FA) string {
	switch p.Kind {
	case "zeros":
		return "zeros(" + f.Show(p.Len) + ")"
	case "byte":
		return "byte(" + p.Val.Name() + ")"
	}
	return p.Val.Name()
}

func partsString(f *FA, ps []cpart) string {
	s := ""
	for i, p := range ps {
		if i > 0 {
			s += " | "
		}
		s += p.String(f)
	}
	return s
}

// concatOf describes v at the point of use `use`. ok=false when v is not understood as a concatenation.
func (c *Ctx) concatOf(f *FA, v ssa.Value, use ssa.Instruction, depth int) ([]cpart, bool) {
	if depth > 6 {
		return nil, false
	}
	switch x := v.(type) {
	case *ssa.ChangeType:
		return c.concatOf(f, x.X, use, depth+1)
	case *ssa.Const:
		if x.Value == nil {
			return nil, true // nil slice: empty
		}
	case *ssa.Call:
		if ap := isAppendCall(x); ap != nil {
			base, ok := c.concatOf(f, ap.Call.Args[0], use, depth+1)
			if !ok {
				// an opaque base (a parameter, a loop-carried slice): one piece
				base = []cpart{{Kind: "slice", Val: ap.Call.Args[0], Len: f.SliceLen(ap.Call.Args[0])}}
			}
			src := ap.Call.Args[1]
			// append(x, e1, e2): a slice over a fresh array holding the elements
			if sl, ok := src.(*ssa.Slice); ok {
				if al, ok := sl.X.(*ssa.Alloc); ok && isByteArrayPtr(al.Type()) {
					n, _ := arrayLen(al.Type())
					elems := make([]ssa.Value, n)
					for _, ref := range *al.Referrers() {
						ia, ok := ref.(*ssa.IndexAddr)
						if !ok {
							continue
						}
						k, ok := ia.Index.(*ssa.Const)
						if !ok {
							return nil, false
						}
						idx, _ := constInt64(k.Value)
						for _, r2 := range *ia.Referrers() {
							if st, ok := r2.(*ssa.Store); ok && idx >= 0 && idx < n {
								elems[idx] = st.Val
							}
						}
					}
					for _, e := range elems {
						if e == nil {
							base = append(base, cpart{Kind: "zeros", Len: konst(1)})
						} else {
							base = append(base, cpart{Kind: "byte", Val: e, Len: konst(1)})
						}
					}
					return base, true
				}
			}
			if sub, ok := c.concatOf(f, src, use, depth+1); ok && len(sub) > 0 {
				return append(base, sub...), true
			}
			return append(base, cpart{Kind: "slice", Val: src, Len: f.SliceLen(src)}), true
		}
	case *ssa.MakeSlice:
		return c.presizedParts(f, x, use)
	case *ssa.Slice:
		// x[:0]: the empty prefix of a scratch buffer that is refilled (append(buf[:0], ...)); as a value it is
		// the empty string whatever the buffer held (that the storage is reused is an aliasing matter, decided
		// by the alias rules)
		if x.High != nil && x.Max == nil {
			if hk, ok := x.High.(*ssa.Const); ok && hk.Value != nil {
				if hv, ok := constInt64(hk.Value); ok && hv == 0 {
					return nil, true
				}
			}
		}
		// scratch[:n] refilled completely before the use (copy / indexed stores that tile [0, n)): the value is
		// what was written, whatever the scratch buffer held before
		if x.Low == nil && x.High != nil && x.Max == nil && isByteSlice(x.Type()) {
			if _, isK := x.High.(*ssa.Const); !isK {
				if _, isArr := x.X.(*ssa.Alloc); !isArr {
					if ps, ok := c.tiledParts(f, x, f.LFOf(x.High), use, true); ok {
						return ps, true
					}
				}
			}
		}
		// a slice literal of explicit octets: []byte{a, b}
		if al, ok := x.X.(*ssa.Alloc); ok && isByteArrayPtr(al.Type()) && x.Low == nil && x.High == nil {
			n, _ := arrayLen(al.Type())
			elems := make([]ssa.Value, n)
			for _, ref := range *al.Referrers() {
				ia, ok := ref.(*ssa.IndexAddr)
				if !ok {
					continue
				}
				k, ok := ia.Index.(*ssa.Const)
				if !ok {
					return nil, false
				}
				idx, _ := constInt64(k.Value)
				for _, r2 := range *ia.Referrers() {
					if st, ok := r2.(*ssa.Store); ok && idx >= 0 && idx < n {
						elems[idx] = st.Val
					}
				}
			}
			var out []cpart
			for _, e := range elems {
				if e == nil {
					out = append(out, cpart{Kind: "zeros", Len: konst(1)})
				} else {
					out = append(out, cpart{Kind: "byte", Val: e, Len: konst(1)})
				}
			}
			return out, true
		}
	}
	return nil, false
}

// presizedParts: buf := make([]byte, L[, cap]) filled by copy / indexed stores that dominate the use.
func (c *Ctx) presizedParts(f *FA, mk *ssa.MakeSlice, use ssa.Instruction) ([]cpart, bool) {
	if !isByteSlice(mk.Type()) {
		return nil, false
	}
	return c.tiledParts(f, mk, f.LFOf(mk.Len), use, false)
}

// tiledParts: the octets of a buffer value of length total, as the pieces written into it before use. With
// strict, the buffer's earlier contents are unknown (a reused scratch buffer cut to x[:total]): the pieces must
// tile it completely, no gap counts as zeros.
func (c *Ctx) tiledParts(f *FA, mk ssa.Value, total LF, use ssa.Instruction, strict bool) ([]cpart, bool) {
	type piece struct {
		off    LF
		p      cpart
		offVal ssa.Value // the low bound expression of the destination slice, if it is a single expression
	}
	var pieces []piece
	bad := false
	dominatesUse := func(ins ssa.Instruction) bool {
		if use == nil {
			return true
		}
		return dominatesInstr(ins, use) && ins.Block().Parent() == use.Block().Parent()
	}
	// every use of mk: slices of it (recursively), IndexAddr stores, copy destinations, appends (not allowed), reads
	var visit func(v ssa.Value, base LF, depth int)
	var curLow ssa.Value
	visit = func(v ssa.Value, base LF, depth int) {
		if depth > 4 {
			bad = true
			return
		}
		for _, ref := range *v.Referrers() {
			switch r := ref.(type) {
			case *ssa.Slice:
				if r.X != v {
					continue
				}
				lo := base
				saved := curLow
				if r.Low != nil {
					lo = base.add(f.LFOf(r.Low), 1)
					if base.isConst() && base.C == 0 {
						curLow = r.Low
					} else {
						curLow = nil
					}
				}
				visit(r, lo, depth+1)
				curLow = saved
			case *ssa.IndexAddr:
				if r.X != v {
					continue
				}
				for _, r2 := range *r.Referrers() {
					if st, ok := r2.(*ssa.Store); ok && st.Addr == ssa.Value(r) {
						if !dominatesUse(st) {
							bad = true
						}
						pieces = append(pieces, piece{base.add(f.LFOf(r.Index), 1), cpart{Kind: "byte", Val: st.Val, Len: konst(1)}, nil})
					}
				}
			case *ssa.Call:
				if bi, ok := r.Call.Value.(*ssa.Builtin); ok {
					switch bi.Name() {
					case "copy":
						if r.Call.Args[0] == v {
							if !dominatesUse(r) {
								bad = true
							}
							src := r.Call.Args[1]
							// the copy must take the whole source: destination at least as long
							dl := total.add(base, -1)
							if sl, ok := v.(*ssa.Slice); ok && sl.High != nil {
								dl = f.SliceLen(v)
							} else if sub, ok := curLow.(*ssa.BinOp); ok && sub.Op == token.SUB && f.LFOf(sub.X).key() == total.key() {
								dl = f.LFOf(sub.Y) // buf[L-n:] has n octets
							}
							if lo, _ := f.bounds(dl.add(f.SliceLen(src), -1), f.refine(f.FactsAt(r.Block()))); lo < 0 {
								bad = true
							}
							pieces = append(pieces, piece{base, cpart{Kind: "slice", Val: src, Len: f.SliceLen(src)}, curLow})
						}
					}
				}
			}
		}
	}
	visit(mk, konst(0), 0)
	if bad {
		return nil, false
	}
	if len(pieces) == 0 {
		if strict {
			return nil, false
		}
		return []cpart{{Kind: "zeros", Len: total}}, true
	}
	// tile [0, total)
	var out []cpart
	cur := konst(0)
	used := make([]bool, len(pieces))
	for n := 0; n <= len(pieces); n++ {
		if cur.key() == total.key() {
			break
		}
		found := -1
		for i, pc := range pieces {
			if !used[i] && pc.off.key() == cur.key() {
				found = i
				break
			}
		}
		if found >= 0 {
			used[found] = true
			out = append(out, pieces[found].p)
			cur = cur.add(pieces[found].p.Len, 1)
			continue
		}
		// a gap of untouched (zero) octets up to the next piece or the end
		var next *piece
		cnt := 0
		for i := range pieces {
			if !used[i] {
				cnt++
				next = &pieces[i]
			}
		}
		if strict {
			return nil, false
		}
		switch cnt {
		case 0:
			out = append(out, cpart{Kind: "zeros", Len: total.add(cur, -1)})
			cur = total
		case 1:
			// buf[L-len(x):] with L the buffer length: the piece is the tail, whatever E1 makes of L-len(x)
			if sub, ok := next.offVal.(*ssa.BinOp); ok && sub.Op == token.SUB && f.LFOf(sub.X).key() == total.key() && f.LFOf(sub.Y).key() == next.p.Len.key() {
				out = append(out, cpart{Kind: "zeros", Len: total.add(next.p.Len, -1).add(cur, -1)})
				out = append(out, next.p)
				for i := range pieces {
					used[i] = true
				}
				cur = total
				continue
			}
			gap := next.off.add(cur, -1)
			if lo, _ := f.bounds(gap, nil); lo < 0 && !gap.isConst() {
				// the gap length must be non-negative by construction of the slice expression; accept symbolic
			}
			out = append(out, cpart{Kind: "zeros", Len: gap})
			cur = next.off
		default:
			return nil, false
		}
	}
	for i := range pieces {
		if !used[i] {
			return nil, false
		}
	}
	if cur.key() != total.key() {
		return nil, false
	}
	return out, true
}

// sameParts compares a concatenation with an expected list of (kind, value) pairs; for zeros the expected
// length is compared.
// dropEmpty removes zero-length pieces (make([]byte, 0, n) as an append base).
func dropEmpty(ps []cpart) []cpart {
	var out []cpart
	for _, p := range ps {
		if p.Kind == "zeros" && p.Len.isConst() && p.Len.C == 0 {
			continue
		}
		out = append(out, p)
	}
	return out
}

func sameParts(got []cpart, want []cpart) bool {
	got = dropEmpty(got)
	if len(got) != len(want) {
		return false
	}
	for i := range got {
		if got[i].Kind != want[i].Kind {
			return false
		}
		switch got[i].Kind {
		case "zeros":
			if got[i].Len.key() != want[i].Len.key() {
				return false
			}
		default:
			if unwrapByteConv(got[i].Val) != unwrapByteConv(want[i].Val) {
				return false
			}
		}
	}
	return true
}

func unwrapByteConv(v ssa.Value) ssa.Value {
	for {
		switch x := v.(type) {
		case *ssa.Convert:
			if b, ok := x.Type().Underlying().(*types.Basic); ok && b.Kind() == types.Uint8 {
				v = x.X
				continue
			}
		case *ssa.ChangeType:
			v = x.X
			continue
		}
		return v
	}
}

var _ = fmt.Sprint
