package lint

import (
	"fmt"
	"go/token"
	"go/types"
	"os"
	"sort"
	"strings"

	"ikeverif/checker/xt/ssa"
)

// Encode side of E5: flow-insensitive "buffer families" (DESIGN 3.6).

type encRow struct {
	Off    LF
	Octets int
	Val    BV
	Cond   string
	Ins    ssa.Instruction
	Facts  []Fact
}

type encSeg struct {
	At     LF        // offset at which the segment starts (length of the buffer before the append)
	Src    ssa.Value // appended value
	Kind   string    // field | family | param | zeros | elem | other
	Field  string    // Struct.Field for field segments
	Fam    *family   // nested family
	Cond   string
	Ins    ssa.Instruction
	InLoop bool
	Iter   bool // moved into a virtual per-iteration record: its end is spelled by its length, like that of a record built in a buffer of its own inside the loop
	First  *LF  // position of the first element of a list written at a cursor (the cursor's entry value)
}

type family struct {
	Root     ssa.Value
	Name     string
	InitLen  LF
	Rows     []encRow
	Segs     []encSeg
	Returned bool
	Parent   *family // family this one is appended to (first seen)
	ParentAt LF
	X        *bvCtx
	F        *FA
	Fn       *ssa.Function
}

type encFunc struct {
	c     *Ctx
	fn    *ssa.Function
	f     *FA
	x     *bvCtx
	fams  map[ssa.Value]*family
	order []*family
	// returned non-family values (fields returned directly)
	RetFields []string
	Unres     []string
}

func isByteArrayPtr(t types.Type) bool {
	p, ok := t.Underlying().(*types.Pointer)
	if !ok {
		return false
	}
	a, ok := p.Elem().Underlying().(*types.Array)
	if !ok {
		return false
	}
	b, ok := a.Elem().Underlying().(*types.Basic)
	return ok && b.Kind() == types.Uint8
}

// famOf resolves a byte-slice value to (family, offset of its first octet inside the family).
func (e *encFunc) famOf(v ssa.Value) (*family, LF, bool) {
	off := konst(0)
	seen := map[ssa.Value]bool{}
	for !seen[v] {
		seen[v] = true
		switch x := v.(type) {
		case *ssa.Slice:
			// append(acc, block...)[len(acc):] is the block just appended (the output grown by a zeroed
			// record that is then filled in place): the same memory as the record's own buffer
			if x.Low != nil && x.High == nil {
				if ap := isAppendCall(x.X); ap != nil && len(ap.Call.Args) == 2 {
					if e.f.LFOf(x.Low).key() == e.f.SliceLen(ap.Call.Args[0]).key() {
						if _, isMk := ap.Call.Args[1].(*ssa.MakeSlice); isMk {
							v = ap.Call.Args[1]
							continue
						}
					}
				}
			}
			if x.Low != nil {
				off = off.add(e.f.LFOf(x.Low), 1)
			}
			v = x.X
			continue
		case *ssa.ChangeType:
			v = x.X
			continue
		case *ssa.Call:
			if ap := isAppendCall(x); ap != nil {
				v = ap.Call.Args[0]
				continue
			}
		case *ssa.Phi:
			// all non-nil, non-self edges must lead to the same family
			var next ssa.Value
			for _, ed := range x.Edges {
				if ed == ssa.Value(x) || isNilConst(ed) {
					continue
				}
				if seen[ed] {
					continue
				}
				if next == nil {
					next = ed
				}
			}
			if next == nil {
				return nil, off, false
			}
			v = next
			continue
		case *ssa.MakeSlice:
			return e.family(x, "buf:"+x.Name(), e.f.LFOf(x.Len)), off, true
		case *ssa.Alloc:
			if isByteArrayPtr(x.Type()) {
				n, _ := arrayLen(x.Type())
				return e.family(x, "arr:"+x.Name(), konst(n)), off, true
			}
		case *ssa.Const:
			if x.Value == nil {
				// nil slice used as an append base: an anonymous empty family per φ/variable
				return nil, off, false
			}
		}
		break
	}
	return nil, off, false
}

// altCond: the variant condition under which alternative a of a merged value is the one stored.
func (c *Ctx) altCond(f *FA, x *bvCtx, a valAlt) string {
	var parts []string
	if base := c.variantCond(f, x, a.blk); base != "" {
		parts = append(parts, strings.Split(base, " && ")...)
	}
	if a.to != nil {
		if iff, ok := a.blk.Instrs[len(a.blk.Instrs)-1].(*ssa.If); ok && a.blk.Succs[0] != a.blk.Succs[1] {
			if _, _, dec := c.condKnown(iff.Cond); !dec {
				taken := a.blk.Succs[0] == a.to
				if tok := moreLastTokenF(f, f.Fn, a.blk, iff, taken); tok != "" {
					parts = append(parts, tok)
				} else {
					parts = append(parts, c.condText(f, x, iff.Cond, taken))
				}
			}
		}
	}
	return cleanConds(parts)
}

// mergeByteRows joins single-octet stores that spell one big-endian integer octet by octet
// (b[2] = byte(n >> 8); b[3] = byte(n)) into the row a PutUintN call would give.
func mergeByteRows(rows []encRow) []encRow {
	// whole-octet slice of one leaf: returns leaf and the index of the slice's lowest bit
	octetOf := func(r encRow) (int, int, bool) {
		if r.Octets != 1 || len(r.Val) < 8 {
			return 0, 0, false
		}
		first := r.Val[0]
		if first.K != bRef || first.Idx%8 != 0 {
			return 0, 0, false
		}
		for i := 0; i < 8; i++ {
			b := r.Val[i]
			if b.K != bRef || b.Leaf != first.Leaf || b.Idx != first.Idx+i {
				return 0, 0, false
			}
		}
		return first.Leaf, first.Idx, true
	}
	used := make([]bool, len(rows))
	var out []encRow
	for i, r := range rows {
		if used[i] {
			continue
		}
		leaf, idx, ok := octetOf(r)
		if !ok || idx == 0 {
			continue
		}
		// r is a higher octet: collect the lower octets at the following offsets
		group := []int{i}
		want := idx - 8
		off := int64(1) // distance from r's offset (offsets may be symbolic: len(nonce)+k)
		for want >= 0 {
			found := -1
			for j, q := range rows {
				if used[j] || j == i || q.Cond != r.Cond {
					continue
				}
				l2, i2, ok2 := octetOf(q)
				if d := q.Off.add(r.Off, -1); ok2 && l2 == leaf && i2 == want && d.isConst() && d.C == off {
					found = j
					break
				}
			}
			if found < 0 {
				break
			}
			group = append(group, found)
			want -= 8
			off++
		}
		if want >= 0 || len(group) < 2 {
			continue
		}
		n := len(group)
		val := make(BV, n*8)
		for k, gi := range group {
			for b := 0; b < 8; b++ {
				val[(n-1-k)*8+b] = rows[gi].Val[b]
			}
			used[gi] = true
		}
		m := r
		m.Octets, m.Val = n, val
		out = append(out, m)
	}
	for i, r := range rows {
		if !used[i] {
			out = append(out, r)
		}
	}
	return out
}

// hasAppend: something is appended to the buffer after its allocation (its length is not its initial length).
func (fm *family) hasAppend() bool {
	for _, s := range fm.Segs {
		if isAppendCall(valueOf(s.Ins)) != nil {
			return true
		}
	}
	return false
}

func (e *encFunc) family(root ssa.Value, name string, initLen LF) *family {
	if fm, ok := e.fams[root]; ok {
		return fm
	}
	fm := &family{Root: root, Name: name, InitLen: initLen, X: e.x, F: e.f, Fn: e.fn}
	e.fams[root] = fm
	e.order = append(e.order, fm)
	return fm
}

// nilFamily gives append chains that start from a nil slice their own family, keyed by the first append.
func (e *encFunc) famOfAppendBase(ap *ssa.Call) (*family, LF, bool) {
	if fm, off, ok := e.famOf(ap.Call.Args[0]); ok {
		return fm, off, true
	}
	// walk to the origin: nil const or φ of nil
	v := ap.Call.Args[0]
	var key ssa.Value = ap
	seen := map[ssa.Value]bool{}
	for !seen[v] {
		seen[v] = true
		switch x := v.(type) {
		case *ssa.Call:
			if a2 := isAppendCall(x); a2 != nil {
				key = a2
				v = a2.Call.Args[0]
				continue
			}
		case *ssa.Phi:
			key = x
			var next ssa.Value
			for _, ed := range x.Edges {
				if ed != ssa.Value(x) && !isNilConst(ed) && !seen[ed] {
					next = ed
				}
			}
			if next == nil {
				return e.family(key, "nil:"+key.Name(), konst(0)), konst(0), true
			}
			v = next
			continue
		case *ssa.Const:
			if x.Value == nil {
				return e.family(key, "nil:"+key.Name(), konst(0)), konst(0), true
			}
		}
		break
	}
	return nil, konst(0), false
}

func (c *Ctx) encodeFamilies(fn *ssa.Function) *encFunc {
	f := c.NewFA(fn)
	e := &encFunc{c: c, fn: fn, f: f, x: newBVCtx(c, f), fams: map[ssa.Value]*family{}}
	e.x.FieldBits = c.fieldBits
	loops := naturalLoops(fn)
	inLoop := func(b *ssa.BasicBlock) bool {
		for _, li := range loops {
			if li.body[b] {
				return true
			}
		}
		return false
	}
	for _, b := range fn.Blocks {
		if f.Dead[b] {
			continue
		}
		cond := ""
		condDone := false
		getCond := func() string {
			if !condDone {
				cond = c.variantCond(f, e.x, b)
				condDone = true
			}
			return cond
		}
		for _, ins := range b.Instrs {
			switch x := ins.(type) {
			case *ssa.Store:
				ia, ok := x.Addr.(*ssa.IndexAddr)
				if !ok {
					continue
				}
				if !isByteSlice(ia.X.Type()) && !isByteArrayPtr(ia.X.Type()) {
					continue
				}
				fm, off, ok := e.famOf(ia.X)
				if !ok {
					e.Unres = append(e.Unres, "store into a byte buffer of unknown origin at "+c.InstrPos(ins))
					continue
				}
				facts := f.FactsAt(b)
				at := f.pin(off.add(f.LFOf(ia.Index), 1), facts)
				// a merged value (if/else result, inlined helper result) is one conditional store per alternative
				if alts := phiAlternatives(x.Val, b, 0); len(alts) > 1 {
					for _, a := range alts {
						fm.Rows = append(fm.Rows, encRow{Off: at, Octets: 1, Val: e.x.Eval(a.val), Cond: c.altCond(f, e.x, a), Ins: ins, Facts: facts})
					}
					continue
				}
				fm.Rows = append(fm.Rows, encRow{Off: at, Octets: 1, Val: e.x.Eval(x.Val), Cond: getCond(), Ins: ins, Facts: facts})
			case *ssa.Call:
				if cal := x.Call.StaticCallee(); cal != nil {
					n := 0
					switch cal.String() {
					case "(encoding/binary.bigEndian).PutUint16":
						n = 2
					case "(encoding/binary.bigEndian).PutUint32":
						n = 4
					case "(encoding/binary.bigEndian).PutUint64":
						n = 8
					}
					if n > 0 {
						fm, off, ok := e.famOf(x.Call.Args[1])
						if !ok {
							e.Unres = append(e.Unres, "PutUint into a byte buffer of unknown origin at "+c.InstrPos(ins))
							continue
						}
						facts := f.FactsAt(b)
						fm.Rows = append(fm.Rows, encRow{Off: f.pin(off, facts), Octets: n, Val: e.x.Eval(x.Call.Args[2]), Cond: getCond(), Ins: ins, Facts: facts})
						continue
					}
				}
				if ap := isAppendCall(x); ap != nil && isByteSlice(ap.Type()) {
					fm, off, ok := e.famOfAppendBase(ap)
					if !ok {
						e.Unres = append(e.Unres, "append onto a byte slice of unknown origin at "+c.InstrPos(ins))
						continue
					}
					facts := f.FactsAt(b)
					at := f.pin(off.add(f.SliceLen(ap.Call.Args[0]), 1), facts)
					// the appended value chosen among several buffers (a helper with one return per variant, inlined):
					// one segment per alternative, under the condition of its edge
					if ph, isPhi := ap.Call.Args[1].(*ssa.Phi); isPhi {
						type alt struct {
							v    ssa.Value
							pred *ssa.BasicBlock
						}
						var alts []alt
						okAlts := true
						for i, ed := range ph.Edges {
							if isNilConst(ed) {
								continue
							}
							if _, _, isFam := e.famOf(ed); !isFam {
								if a2 := isAppendCall(ed); a2 == nil {
									okAlts = false
								} else if _, _, ok2 := e.famOfAppendBase(a2); !ok2 {
									okAlts = false
								}
							}
							alts = append(alts, alt{ed, ph.Block().Preds[i]})
						}
						if okAlts && len(alts) >= 2 {
							for _, a := range alts {
								seg := encSeg{At: at, Src: a.v, Cond: c.variantCond(f, e.x, a.pred), Ins: ins, InLoop: inLoop(b)}
								e.classifySeg(&seg, fm, facts)
								fm.Segs = append(fm.Segs, seg)
							}
							continue
						}
					}
					seg := encSeg{At: at, Src: ap.Call.Args[1], Cond: getCond(), Ins: ins, InLoop: inLoop(b)}
					e.classifySeg(&seg, fm, facts)
					fm.Segs = append(fm.Segs, seg)
					continue
				}
				if bi, ok := x.Call.Value.(*ssa.Builtin); ok && bi.Name() == "copy" && isByteSlice(x.Call.Args[0].Type()) {
					fm, off, ok := e.famOf(x.Call.Args[0])
					if !ok {
						continue
					}
					facts := f.FactsAt(b)
					seg := encSeg{At: f.pin(off, facts), Src: x.Call.Args[1], Cond: getCond(), Ins: ins, InLoop: inLoop(b)}
					e.classifySeg(&seg, fm, facts)
					fm.Segs = append(fm.Segs, seg)
				}
			case *ssa.Return:
				for _, rv := range x.Results {
					if !isByteSlice(rv.Type()) || isNilConst(rv) {
						continue
					}
					if fm, _, ok := e.famOf(rv); ok {
						fm.Returned = true
					} else if ap := isAppendCall(rv); ap != nil {
						if fm, _, ok := e.famOfAppendBase(ap); ok {
							fm.Returned = true
						}
					} else if fk, ok := fieldKeyOfLoad(rv); ok {
						e.RetFields = appendUniq(e.RetFields, fk)
					} else if ph, ok := rv.(*ssa.Phi); ok {
						for _, ed := range ph.Edges {
							if ap := isAppendCall(ed); ap != nil {
								if fm, _, ok := e.famOfAppendBase(ap); ok {
									fm.Returned = true
								}
							}
						}
					}
				}
			}
		}
	}
	e.splitIterationRecords(loops)
	e.splitCursorRecords(loops)
	return e
}

// splitCursorRecords: a pre-sized buffer filled inside a loop at an integer cursor (offset += size per iteration,
// or base + k*i with a counter i) carries one record per iteration at k*φ + base. The rows written relative to
// the cursor are regrouped into a virtual family appended at that (variable) position - what
//
//	rec := make([]byte, size); PutUint32(rec, v); out = append(out, rec...)
//
// would have produced - so that the cursor and the append way of writing a list give the same tables.
func (e *encFunc) splitCursorRecords(loops []*loopInfo) {
	loopOf := func(b *ssa.BasicBlock) *loopInfo {
		var best *loopInfo
		for _, li := range loops {
			if li.body[b] && (best == nil || len(li.body) < len(best.body)) {
				best = li
			}
		}
		return best
	}
	f := e.f
	for _, fm := range append([]*family(nil), e.order...) {
		type gkey struct {
			ph *ssa.Phi
			k  int64
		}
		groups := map[gkey][]int{}
		var gorder []gkey
		for i, r := range fm.Rows {
			li := loopOf(r.Ins.Block())
			if li == nil {
				continue
			}
			fm.Rows[i].Off = f.unwrapOffset(r.Off)
			r = fm.Rows[i]
			for a, k := range r.Off.T {
				ph, ok := f.atomDef(a).(*ssa.Phi)
				if os.Getenv("IKELINT_DEBUG_CURSOR") != "" {
					fmt.Fprintf(os.Stderr, "cursor: row %s atom %d def %v k %d loop header %v\n", f.Show(r.Off), a, f.atomDef(a), k, li.header)
				}
				if !ok || ph.Block() != li.header || k <= 0 {
					continue
				}
				g := gkey{ph, k}
				if _, seen := groups[g]; !seen {
					gorder = append(gorder, g)
				}
				groups[g] = append(groups[g], i)
				break
			}
		}
		drop := map[int]bool{}
		for _, g := range gorder {
			li := loopOf(g.ph.Block())
			// the cursor: one entry value, one back-edge value φ + step with a step that does not depend on φ. A step
			// computed inside the loop (4 + len(value)) makes records of variable length: accepted below when the
			// step is exactly the extent of what one iteration writes
			var init ssa.Value
			okPhi := true
			var step LF
			haveStep, varStep := false, false
			for i, ed := range g.ph.Edges {
				if li.body[g.ph.Block().Preds[i]] {
					d := f.unwrapOffset(f.LFOf(ed)).add(f.LFOf(g.ph), -1)
					for a := range d.T {
						if f.atomDef(a) == ssa.Value(g.ph) {
							okPhi = false
						}
						if ai, isIns := f.atomDef(a).(ssa.Instruction); isIns && ai.Block() != nil && li.body[ai.Block()] {
							varStep = true
						}
					}
					if haveStep && d.key() != step.key() {
						okPhi = false
					}
					step, haveStep = d, true
					continue
				}
				if init != nil && init != ed {
					okPhi = false
				}
				init = ed
			}
			if os.Getenv("IKELINT_DEBUG_CURSOR") != "" {
				fmt.Fprintf(os.Stderr, "cursor: group %s k=%d okPhi=%v init=%v step=%s var=%v\n", g.ph.Name(), g.k, okPhi, init, f.Show(step), varStep)
			}
			if !okPhi || init == nil || !haveStep || (varStep && g.k != 1) {
				continue
			}
			phLF := f.LFOf(g.ph)
			// base: the smallest cursor-relative offset among the rows; all others a constant distance behind it
			var base LF
			haveBase := false
			okRows := true
			for _, i := range groups[g] {
				rest := fm.Rows[i].Off.add(phLF, -g.k)
				if !haveBase {
					base, haveBase = rest, true
					continue
				}
				d := rest.add(base, -1)
				if !d.isConst() {
					okRows = false
					break
				}
				if d.C < 0 {
					base = rest
				}
			}
			if !okRows {
				continue
			}
			start := phLF.scale(g.k).add(base, 1)
			V := &family{Root: g.ph, Name: "iter:" + g.ph.Name(), InitLen: konst(0), X: e.x, F: e.f, Fn: e.fn}
			var first encRow
			for n, i := range groups[g] {
				r := fm.Rows[i]
				if n == 0 {
					first = r
				}
				r.Off = r.Off.add(start, -1)
				V.Rows = append(V.Rows, r)
				if end := r.Off.add(konst(int64(r.Octets)), 1); end.isConst() && V.InitLen.isConst() && end.C > V.InitLen.C {
					V.InitLen = end
				}
			}
			// what the same iteration copies in behind those octets belongs to the record too
			segMoved := map[int]bool{}
			if varStep {
				for i, sg := range fm.Segs {
					if !sg.InLoop || loopOf(sg.Ins.Block()) != li {
						continue
					}
					d := f.unwrapOffset(sg.At).add(start, -1)
					if !d.isConst() || d.C < 0 {
						continue
					}
					sg.At, sg.InLoop, sg.Iter = d, false, true
					V.Segs = append(V.Segs, sg)
					segMoved[i] = true
				}
				sort.SliceStable(V.Segs, func(a, b int) bool { return V.Segs[a].At.C < V.Segs[b].At.C })
				// the records lie back to back only if the cursor moves by exactly what one iteration wrote
				if os.Getenv("IKELINT_DEBUG_CURSOR") != "" {
					fmt.Fprintf(os.Stderr, "cursor: group %s extent %s step %s segs %d\n", g.ph.Name(), f.Show(e.familyFinalLen(V)), f.Show(step), len(V.Segs))
				}
				if e.familyFinalLen(V).key() != step.key() {
					continue
				}
				var keepSegs []encSeg
				for i, sg := range fm.Segs {
					if !segMoved[i] {
						keepSegs = append(keepSegs, sg)
					} else if sg.Kind == "family" && sg.Fam != nil && sg.Fam.Parent == fm {
						sg.Fam.Parent, sg.Fam.ParentAt = V, sg.At.add(start, -1)
					}
				}
				fm.Segs = keepSegs
			}
			for _, i := range groups[g] {
				drop[i] = true
			}
			e.fams[g.ph] = V
			e.order = append(e.order, V)
			V.Parent, V.ParentAt = fm, start
			firstAt := f.LFOf(init).scale(g.k).add(base, 1)
			fm.Segs = append(fm.Segs, encSeg{At: start, Src: g.ph, Kind: "family", Fam: V, Cond: first.Cond, Ins: first.Ins, InLoop: true, First: &firstAt})
		}
		if len(drop) > 0 {
			var keep []encRow
			for i, r := range fm.Rows {
				if !drop[i] {
					keep = append(keep, r)
				}
			}
			fm.Rows = keep
		}
	}
}

// splitIterationRecords: an accumulator that receives, in every iteration of a loop, a few explicit octets
// (a record header written as append(out, b0, b1, b2, b3)) followed by further appends (the body) carries the
// records themselves rather than a list of separately built record buffers. The octets and segments appended
// in one iteration are regrouped into a virtual family - exactly what
//
//	rec := []byte{b0, b1, b2, b3}; rec = append(rec, body...); out = append(out, rec...)
//
// would have produced - so that both ways of writing the encoder give the same tables.
func (e *encFunc) splitIterationRecords(loops []*loopInfo) {
	loopOf := func(b *ssa.BasicBlock) *loopInfo {
		var best *loopInfo
		for _, li := range loops {
			if li.body[b] && (best == nil || len(li.body) < len(best.body)) {
				best = li
			}
		}
		return best
	}
	for _, fm := range append([]*family(nil), e.order...) {
		hi := -1
		for i, sg := range fm.Segs {
			if !sg.InLoop || sg.Kind != "elem" {
				continue
			}
			if hi < 0 || dominatesInstr(sg.Ins, fm.Segs[hi].Ins) {
				hi = i
			}
		}
		if hi < 0 {
			continue
		}
		H := fm.Segs[hi]
		li := loopOf(H.Ins.Block())
		sl, ok := H.Src.(*ssa.Slice)
		if !ok || li == nil {
			continue
		}
		al, ok := sl.X.(*ssa.Alloc)
		if !ok {
			continue
		}
		n, _ := arrayLen(al.Type())
		// at least one more append of the same iteration must follow the header octets
		follows := false
		for i, sg := range fm.Segs {
			if i != hi && sg.InLoop && loopOf(sg.Ins.Block()) == li && dominatesInstr(H.Ins, sg.Ins) {
				follows = true
			}
		}
		if !follows {
			// the explicit octets are the whole record (a list element appended as append(out, b0, b1, b2, b3),
			// which is what AppendUint32 is): the only append of the iteration, at least two octets
			only := n >= 2
			for i, sg := range fm.Segs {
				if i != hi && sg.InLoop && loopOf(sg.Ins.Block()) == li {
					only = false
				}
			}
			if !only {
				continue
			}
		}
		root := valueOf(H.Ins)
		V := &family{Root: root, Name: "iter:" + root.Name(), InitLen: konst(n), X: e.x, F: e.f, Fn: e.fn}
		e.fams[root] = V
		e.order = append(e.order, V)
		intoAlloc := func(st *ssa.Store) bool {
			ia, ok := st.Addr.(*ssa.IndexAddr)
			return ok && ia.X == ssa.Value(al)
		}
		var keepRows []encRow
		for _, r := range fm.Rows {
			st, isStore := r.Ins.(*ssa.Store)
			d := r.Off.add(H.At, -1)
			if isStore && intoAlloc(st) && d.isConst() && d.C >= 0 && d.C < n {
				// a merged value (the next-payload octet chosen by if/else or switch) is one row per alternative
				if alts := phiAlternatives(st.Val, st.Block(), 0); len(alts) > 1 {
					for _, a := range alts {
						V.Rows = append(V.Rows, encRow{Off: konst(d.C), Octets: 1, Val: e.x.Eval(a.val), Cond: e.c.altCond(e.f, e.x, a), Ins: st, Facts: r.Facts})
					}
					continue
				}
				r.Off = konst(d.C)
				V.Rows = append(V.Rows, r)
				continue
			}
			// a field of the record header written afterwards through the accumulator itself (the length patched
			// in once the body is appended: PutUint16(out[pos+2:pos+4], len(out)-pos))
			if li.body[r.Ins.Block()] && dominatesInstr(H.Ins, r.Ins) && d.isConst() && d.C >= 0 && d.C+int64(r.Octets) <= n {
				r.Off = konst(d.C)
				V.Rows = append(V.Rows, r)
				continue
			}
			keepRows = append(keepRows, r)
		}
		fm.Rows = keepRows
		var keep []encSeg
		for i, sg := range fm.Segs {
			if i == hi {
				continue
			}
			if sg.InLoop && loopOf(sg.Ins.Block()) == li && dominatesInstr(H.Ins, sg.Ins) {
				d := sg.At.add(H.At, -1)
				if lo, _ := e.f.bounds(d, nil); lo >= 0 {
					sg.At, sg.InLoop, sg.Iter = d, false, true
					if sg.Kind == "family" && sg.Fam != nil && sg.Fam.Parent == fm {
						sg.Fam.Parent, sg.Fam.ParentAt = V, d
					}
					V.Segs = append(V.Segs, sg)
					continue
				}
			}
			keep = append(keep, sg)
		}
		keep = append(keep, encSeg{At: H.At, Src: root, Kind: "family", Fam: V, Cond: H.Cond, Ins: H.Ins, InLoop: true})
		fm.Segs = keep
		V.Parent, V.ParentAt = fm, H.At
		// the temporary array of the explicit octets is V's fixed part, not a record of its own
		if afm, ok := e.fams[al]; ok {
			var order []*family
			for _, o := range e.order {
				if o != afm {
					order = append(order, o)
				}
			}
			e.order = order
			delete(e.fams, al)
		}
	}
}

func (e *encFunc) classifySeg(seg *encSeg, into *family, facts []Fact) {
	src := seg.Src
	if fk, ok := fieldKeyOfLoad(src); ok {
		seg.Kind, seg.Field = "field", fk
		return
	}
	if p, ok := src.(*ssa.Parameter); ok {
		seg.Kind, seg.Field = "param", "param:"+p.Name()
		return
	}
	// single element through a varargs array
	if sl, ok := src.(*ssa.Slice); ok {
		// (explicit octets only: a buffer made with a constant size, make([]byte, 4), is a family of its own)
		if al, ok := sl.X.(*ssa.Alloc); ok && isByteArrayPtr(al.Type()) && al.Comment != "makeslice" {
			if n, _ := arrayLen(al.Type()); n >= 1 {
				// rows of that array become rows of the target at seg.At + index
				for _, ref := range *al.Referrers() {
					ia, ok := ref.(*ssa.IndexAddr)
					if !ok {
						continue
					}
					for _, r2 := range *ia.Referrers() {
						if st, ok := r2.(*ssa.Store); ok {
							into.Rows = append(into.Rows, encRow{Off: seg.At.add(e.f.LFOf(ia.Index), 1), Octets: 1, Val: e.x.Eval(st.Val), Cond: seg.Cond, Ins: st, Facts: facts})
						}
					}
				}
				seg.Kind = "elem"
				// the temporary array only carries the explicit octets to this append: its rows are the target's now
				if afm, ok := e.fams[al]; ok && len(afm.Segs) == 0 && !afm.Returned {
					only := true
					for _, ref := range *al.Referrers() {
						switch r := ref.(type) {
						case *ssa.IndexAddr:
						case *ssa.Slice:
							if r != sl || len(*sl.Referrers()) != 1 {
								only = false
							}
						default:
							only = false
						}
					}
					if only {
						var order []*family
						for _, o := range e.order {
							if o != afm {
								order = append(order, o)
							}
						}
						e.order = order
						delete(e.fams, al)
					}
				}
				return
			}
		}
	}
	if fm, off, ok := e.famOf(src); ok && off.isConst() && off.C == 0 {
		seg.Kind, seg.Fam = "family", fm
		if fm.Parent == nil {
			fm.Parent, fm.ParentAt = into, seg.At
		}
		return
	}
	if ap := isAppendCall(src); ap != nil {
		if fm, _, ok := e.famOfAppendBase(ap); ok {
			seg.Kind, seg.Fam = "family", fm
			if fm.Parent == nil {
				fm.Parent, fm.ParentAt = into, seg.At
			}
			return
		}
	}
	if ph, ok := src.(*ssa.Phi); ok {
		// "var x []byte; if present { x = ... }": nil on the other edges contributes no octets
		var only ssa.Value
		n := 0
		for _, ed := range ph.Edges {
			if !isNilConst(ed) {
				only = ed
				n++
			}
		}
		if n == 1 && only != ssa.Value(ph) {
			if _, isPhi := only.(*ssa.Phi); !isPhi {
				s2 := *seg
				s2.Src = only
				e.classifySeg(&s2, into, facts)
				if s2.Kind != "other" {
					seg.Kind, seg.Field, seg.Fam = s2.Kind, s2.Field, s2.Fam
					return
				}
			}
		}
		for _, ed := range ph.Edges {
			if ap := isAppendCall(ed); ap != nil {
				if fm, _, ok := e.famOfAppendBase(ap); ok {
					seg.Kind, seg.Fam = "family", fm
					if fm.Parent == nil {
						fm.Parent, fm.ParentAt = into, seg.At
					}
					return
				}
			}
		}
	}
	if ex, ok := src.(*ssa.Extract); ok {
		if call, ok := ex.Tuple.(*ssa.Call); ok {
			seg.Kind = "call"
			if call.Call.IsInvoke() {
				seg.Field = "call:" + e.x.describeRecv(call.Call.Value) + "." + call.Call.Method.Name() + "()"
			} else if cal := call.Call.StaticCallee(); cal != nil {
				seg.Field = "call:" + cal.String()
			}
			return
		}
	}
	if mk, ok := src.(*ssa.MakeSlice); ok {
		_ = mk
		seg.Kind = "zeros"
		return
	}
	seg.Kind = "other"
}

// recordOf guesses the record (struct) a family encodes: the struct most of its field leaves belong to.
func (fm *family) recordOf() string {
	cnt := map[string]int{}
	for _, r := range fm.Rows {
		for _, b := range r.Val {
			if b.K == bRef {
				l := fm.X.leaves[b.Leaf]
				if l.Kind == "field" {
					rec, _ := structOfField(l.Key)
					cnt[rec]++
				}
			}
		}
	}
	for _, s := range fm.Segs {
		if s.Kind == "field" {
			rec, _ := structOfField(s.Field)
			cnt[rec] += 8
		}
	}
	best, bn := "", 0
	var ks []string
	for k := range cnt {
		ks = append(ks, k)
	}
	sort.Strings(ks)
	for _, k := range ks {
		if cnt[k] > bn {
			best, bn = k, cnt[k]
		}
	}
	return best
}

// isAccumulator: a family with no rows of its own that only collects other families inside loops
// (a list of sub-records).
func (fm *family) isAccumulator() bool {
	if len(fm.Rows) > 0 || len(fm.Segs) == 0 {
		return false
	}
	if !(fm.InitLen.isConst() && fm.InitLen.C == 0) {
		return false
	}
	for _, s := range fm.Segs {
		if s.Kind != "family" {
			return false
		}
	}
	return true
}

// listOf names the element records of an accumulator (recursively).
func listOf(fm *family, recOf map[*family]string, depth int) string {
	if depth > 4 {
		return "?"
	}
	var names []string
	for _, s := range fm.Segs {
		if s.Kind != "family" {
			continue
		}
		n := recOf[s.Fam]
		if s.Fam.isAccumulator() {
			n = listOf(s.Fam, recOf, depth+1)
		}
		if n == "" {
			n = s.Fam.Name
		}
		names = appendUniq(names, n)
	}
	sort.Strings(names)
	return strings.Join(names, "|")
}

// encodeTablesOf extracts the encode rows of fn into st. recvRecord is the record of the receiver
// (used for families that carry no field of their own, e.g. a pure count octet); recName may rename
// the record guessed for a family.
func (c *Ctx) encodeTablesOf(fn *ssa.Function, st *slotTables, recvRecord string, recName func(fm *family, guess string) string) *encFunc {
	e := c.encodeFamilies(fn)
	x := e.x
	f := e.f
	recOf := map[*family]string{}
	for _, fm := range e.order {
		g := fm.recordOf()
		if recName != nil {
			g = recName(fm, g)
		}
		recOf[fm] = g
	}
	for _, fm := range e.order {
		if recOf[fm] == "" && fm.Returned && !fm.isAccumulator() {
			recOf[fm] = recvRecord
		}
	}
	// a family that encodes the same record as the family it is appended to, at a variable offset,
	// is a repeated element of that record
	for _, fm := range e.order {
		if fm.Parent != nil && !fm.Parent.isAccumulator() && recOf[fm] != "" && recOf[fm.Parent] == recOf[fm] && !fm.ParentAt.isConst() {
			recOf[fm] += "[]"
		}
	}
	// flatten families appended at a constant offset into their parent when they encode the same record
	base := map[*family]LF{}
	target := map[*family]*family{}
	for _, fm := range e.order {
		t, off := fm, konst(0)
		for t.Parent != nil && t.ParentAt.isConst() && !t.Parent.isAccumulator() && recOf[t.Parent] == recOf[fm] && recOf[fm] != "" {
			off = off.add(t.ParentAt, 1)
			t = t.Parent
		}
		target[fm], base[fm] = t, off
	}
	if os.Getenv("IKELINT_DEBUG_ENC") != "" {
		for _, fm := range e.order {
			pn := "-"
			if fm.Parent != nil {
				pn = fm.Parent.Name + "@" + f.Show(fm.ParentAt)
			}
			tn := "-"
			if target[fm] != nil {
				tn = target[fm].Name
			}
			fmt.Fprintf(os.Stderr, "enc %s: family %s rec=%q rows=%d segs=%d parent=%s target=%s base=%s acc=%v\n", c.FuncName(fn), fm.Name, recOf[fm], len(fm.Rows), len(fm.Segs), pn, tn, f.Show(base[fm]), fm.isAccumulator())
			for _, sg := range fm.Segs {
				fn2 := "-"
				if sg.Fam != nil {
					fn2 = sg.Fam.Name
				}
				fmt.Fprintf(os.Stderr, "    seg at %s kind %s fam %s cond [%s] inloop=%v\n", f.Show(sg.At), sg.Kind, fn2, sg.Cond, sg.InLoop)
			}
		}
	}
	for _, fm := range e.order {
		if fm.isAccumulator() {
			if fm.Returned && recvRecord != "" {
				t := st.table("encode", recvRecord)
				t.Funcs = appendUniq(t.Funcs, c.FuncName(fn))
				t.Segs = append(t.Segs, segRow{Nested: "list<" + listOf(fm, recOf, 0) + ">", Lo: "0", Hi: "end", LoLF: konst(0), Open: true, Pos: c.Pos(fn.Pos())})
			}
			continue
		}
		tfm := target[fm]
		rec := recOf[tfm]
		if rec == "" {
			continue
		}

		t := st.table("encode", rec)
		t.Funcs = appendUniq(t.Funcs, c.FuncName(fn))
		if strings.HasSuffix(rec, "[]") && tfm == fm && !fm.hasAppend() {
			// an element written into a buffer of its own: the size that buffer is made with is the element's size
			t.ElemLen = appendUniq(t.ElemLen, c.symOffset(f, x, fm.InitLen))
		}
		nb0, ns0 := len(t.Bits), len(t.Segs)
		defer func(t *recTable, nb0, ns0 int) {
			for i := nb0; i < len(t.Bits); i++ {
				if t.Bits[i].Fn == "" {
					t.Bits[i].Fn = c.FuncName(fn)
				}
			}
			for i := ns0; i < len(t.Segs); i++ {
				if t.Segs[i].Fn == "" {
					t.Segs[i].Fn = c.FuncName(fn)
				}
			}
		}(t, nb0, ns0)
		for _, r := range mergeByteRows(fm.Rows) {
			off := base[fm].add(r.Off, 1)
			pos := c.InstrPos(r.Ins)
			if !off.isConst() {
				t.Elems = appendUniq(t.Elems, fmt.Sprintf("@%s w%d := %s [%s]", c.symOffset(f, x, off), r.Octets, x.Describe(r.Val), r.Cond))
				continue
			}
			c.addEncodeRow(f, x, t, off.C, r, pos, e, fm)
		}
		for _, s := range fm.Segs {
			at := base[fm].add(s.At, 1)
			lo := c.symOffset(f, x, at)
			if s.InLoop && !at.isConst() {
				// position of the first element of a list: the lower bound of the accumulated length
				blo, _ := f.bounds(at, nil)
				if s.First != nil {
					blo, _ = f.bounds(base[fm].add(*s.First, 1), nil)
				}
				lo = fmt.Sprintf("%d+", blo)
			}
			switch s.Kind {
			case "field", "param", "call":
				hi := f.pin(at.add(f.SliceLen(s.Src), 1), f.FactsAt(s.Ins.Block()))
				his := c.symOffset(f, x, hi)
				open := false
				// the last thing appended to a record that is not in a loop ends the record
				if isAppendCall(valueOf(s.Ins)) != nil && !s.InLoop && !s.Iter && e.isFinalSeg(tfm, fm, s) {
					his, open = "end", true
				}
				// copied into a pre-sized buffer up to its very end, and nothing is appended to that buffer
				if isAppendCall(valueOf(s.Ins)) == nil && !s.InLoop && fm == tfm && !fm.hasAppend() {
					total := f.pin(fm.InitLen, f.FactsAt(s.Ins.Block()))
					if hi.key() == total.key() {
						his, open = "end", true
					}
				}
				t.Segs = append(t.Segs, segRow{Field: s.Field, LoLF: at, HiLF: hi, Lo: lo, Hi: his, Open: open, Cond: s.Cond, Pos: c.InstrPos(s.Ins)})
			case "family":
				if target[s.Fam] == tfm && s.Fam != fm && !s.Fam.isAccumulator() {
					continue // flattened
				}
				name := recOf[s.Fam]
				if s.Fam.isAccumulator() {
					name = "list<" + listOf(s.Fam, recOf, 0) + ">"
				} else if s.InLoop {
					name = "list<" + name + ">"
				}
				if name == "" {
					name = s.Fam.Name
				}
				t.Segs = append(t.Segs, segRow{Nested: name, LoLF: at, Lo: lo, Hi: "end", Open: true, Cond: s.Cond, Pos: c.InstrPos(s.Ins)})
			case "elem", "zeros":
			default:
				t.addUnresolved(fmt.Sprintf("appended value %s not understood (%s)", s.Src.Name(), c.InstrPos(s.Ins)))
			}
		}
	}
	for _, fk := range e.RetFields {
		rec, _ := structOfField(fk)
		t := st.table("encode", rec)
		t.Funcs = appendUniq(t.Funcs, c.FuncName(fn))
		t.Segs = append(t.Segs, segRow{Field: fk, Lo: "0", Hi: "end", LoLF: konst(0), Open: true, Pos: c.Pos(fn.Pos())})
	}
	for _, u := range e.Unres {
		if recvRecord != "" {
			st.table("encode", recvRecord).addUnresolved(u)
		}
	}
	return e
}

// familyTotalLen: InitLen plus the lengths of all appended segments, when every append is unconditional
// or conditional on a guard that does not change the sum (appending an empty slice).
func (e *encFunc) familyFinalLen(fm *family) LF {
	total := fm.InitLen
	for _, s := range fm.Segs {
		if s.InLoop {
			return LF{C: 0, T: map[int]int64{-1: 1}}
		}
		total = total.add(e.f.SliceLen(s.Src), 1)
	}
	return total
}

// classifyLen decides what a length/count slot carries.
func (c *Ctx) classifyLen(e *encFunc, fm *family, r encRow, l leaf) string {
	f, x := e.f, e.x
	// Leaves are identified by their linear form, so two len() calls with the same form in different branches
	// share one leaf (and its first value). The call that feeds THIS write is the one to classify.
	lv := l.V
	if own := ownLenCall(r.Ins); own != nil {
		lv = own
	}
	if call, ok := lv.(*ssa.Call); ok {
		if bi, ok := call.Call.Value.(*ssa.Builtin); ok && bi.Name() == "len" {
			arg := call.Call.Args[0]
			if fk, ok := fieldKeyOfLoad(arg); ok {
				return "len(" + fk + ")"
			}
			// length of (a version of) a byte buffer
			if afm, off, ok := e.famOf(arg); ok && off.isConst() && off.C == 0 && (isByteSlice(arg.Type()) || isAppendCall(arg) == nil) {
				// final? no append to that family can execute after this write
				final := true
				for _, s := range afm.Segs {
					if _, isCopy := s.Ins.(*ssa.Call); isCopy {
						if bi, ok := s.Ins.(*ssa.Call).Call.Value.(*ssa.Builtin); ok && bi.Name() == "copy" {
							continue
						}
					}
					// the append whose result is `arg` itself or an earlier version is fine; a later one is not
					if s.Ins == ssa.Instruction(arg.(ssa.Instruction)) {
						continue
					}
					// a later append in the same "generation" of the buffer: reachable from the write
					// without re-executing the buffer's allocation
					if c.reachesAvoiding(r.Ins, s.Ins, afm.Root) {
						final = false
					}
				}
				name := afm.Name
				if afm == fm || targetSame(afm, fm) {
					name = "record"
				}
				if final {
					return "len(" + name + ")"
				}
				return "len(" + name + " before a later append)"
			}
			if ap := isAppendCall(arg); ap != nil && !isByteSlice(arg.Type()) {
				// concatenation of pointer lists: name the appended fields in order
				var names []string
				cur := ssa.Value(ap)
				for i := 0; i < 16; i++ {
					a2 := isAppendCall(cur)
					if a2 == nil {
						break
					}
					if fk, ok := fieldKeyOfLoad(a2.Call.Args[1]); ok {
						names = append([]string{fk}, names...)
					} else {
						names = append([]string{"?"}, names...)
					}
					cur = a2.Call.Args[0]
				}
				// the chain has to start from an empty list (nil, or make with length 0): anything else adds elements
				if k, isK := cur.(*ssa.Const); !(isK && k.Value == nil) {
					if mk, isMk := cur.(*ssa.MakeSlice); !isMk || !f.LFOf(mk.Len).isConst() || f.LFOf(mk.Len).C != 0 {
						if isAppendCall(cur) == nil {
							names = append([]string{"?"}, names...)
						}
					}
				}
				return "count(" + strings.Join(names, "+") + ")"
			}
			// element count of a pointer list
			return "len:" + c.symOffset(f, x, f.SliceLen(arg))
		}
	}
	if l.Kind == "arith" && l.V != nil && fm != nil {
		// the value equals the final length of the record's family (its fixed part plus everything appended to
		// it): the record length, computed before the record is assembled
		total := e.familyFinalLen(fm)
		if _, open := total.T[-1]; !open && len(fm.Segs) > 0 {
			got := f.pin(f.LFOf(l.V), r.Facts)
			if got.key() == f.pin(total, r.Facts).key() {
				onlyFields := true
				for a := range got.T {
					if f.fieldOfLenAtom(a) == "" {
						onlyFields = false
					}
				}
				if !onlyFields {
					return "len(record)"
				}
			}
		}
	}
	if l.Kind == "arith" && l.V != nil {
		// the value equals the length the record's buffer was allocated with (and nothing is appended to it
		// later): it is the final record length, computed before the buffer instead of read from it
		if fm != nil && !fm.hasAppend() {
			if _, isMk := fm.Root.(*ssa.MakeSlice); isMk && f.pin(f.LFOf(l.V), r.Facts).key() == f.pin(fm.InitLen, r.Facts).key() {
				// a length that is a sum of field lengths keeps its symbolic form (the reference names it so);
				// one that involves computed pieces (the body returned by a nested encoder) is the record length
				onlyFields := true
				for a := range f.pin(f.LFOf(l.V), r.Facts).T {
					if f.fieldOfLenAtom(a) == "" {
						onlyFields = false
					}
				}
				if !onlyFields {
					return "len(record)"
				}
			}
		}
		return "val:" + c.symOffset(f, x, f.pin(f.LFOf(l.V), r.Facts))
	}
	if l.Kind == "call" {
		return l.Key
	}
	return l.Key
}

func targetSame(a, b *family) bool {
	for t := a; t != nil; t = t.Parent {
		if t == b {
			return true
		}
	}
	return false
}

func (c *Ctx) addEncodeRow(f *FA, x *bvCtx, t *recTable, off int64, r encRow, pos string, e *encFunc, fm *family) {
	w := r.Octets * 8
	// a value whose only non-constant content is one len/arith/call leaf covering the slot is a length or count slot
	runs, _, tops := runsOf(r.Val)
	if len(tops) > 0 {
		t.addUnresolved(fmt.Sprintf("@%d w%d has bits of unknown provenance (%s)", off, r.Octets, pos))
		return
	}
	if len(runs) == 1 && runs[0].DstLo == 0 && runs[0].SrcLo == 0 {
		l := x.leaves[runs[0].Leaf]
		switch l.Kind {
		case "len", "arith", "call", "phi", "param", "extract", "opaque":
			// must cover the whole slot (after truncation the conversion guard is C19's / E2's concern)
			of := c.classifyLen(e, fm, r, l)
			if runs[0].N < w && runs[0].N < l.Width {
				t.addUnresolved(fmt.Sprintf("@%d w%d carries only %d bits of %s (%s)", off, r.Octets, runs[0].N, l.Key, pos))
			}
			t.LenSlots = append(t.LenSlots, lenSlot{Off: off, Octets: r.Octets, Of: of, Cond: r.Cond, Pos: pos})
			return
		}
	}
	for i := 0; i < w; i++ {
		b := bitAt(r.Val, i)
		wb := beBit(off, r.Octets, i)
		switch b.K {
		case bRef:
			l := x.leaves[b.Leaf]
			if l.Kind == "field" {
				t.Bits = append(t.Bits, bitRow{Field: l.Key, FBit: b.Idx, W: wb, Cond: r.Cond})
			} else {
				t.addUnresolved(fmt.Sprintf("@%d bit %d <- %s (%s)", off, i, l.Key, pos))
			}
		case bOne:
			t.Consts = append(t.Consts, constRow{W: wb, Val: 1, Cond: r.Cond})
		case bZero:
			t.Consts = append(t.Consts, constRow{W: wb, Val: 0, Cond: r.Cond})
		}
	}
	// a field wider than the slot that is silently truncated (e.g. uint16 field into one octet) is visible as missing high bits: checked by the comparison rules
	_ = token.ADD
}

// DumpSlots renders all tables (debugging / evidence).
func (s *slotTables) Dump() string {
	var sb strings.Builder
	dump := func(side string, m map[string]*recTable) {
		var ks []string
		for k := range m {
			ks = append(ks, k)
		}
		sort.Strings(ks)
		for _, k := range ks {
			t := m[k]
			fmt.Fprintf(&sb, "== %s %s (%s)\n", side, k, strings.Join(t.Funcs, ", "))
			for _, l := range summarizeBits(t.Bits) {
				fmt.Fprintf(&sb, "   %s\n", l)
			}
			for _, l := range summarizeConsts(t.Consts) {
				fmt.Fprintf(&sb, "   const %s\n", l)
			}
			for _, ls := range t.LenSlots {
				fmt.Fprintf(&sb, "   lenslot @%d w%d := %s [%s]\n", ls.Off, ls.Octets, ls.Of, ls.Cond)
			}
			for _, sg := range t.Segs {
				fmt.Fprintf(&sb, "   seg %s%s [%s : %s] nested=%s alias=%v [%s]\n", sg.Field, "", sg.Lo, sg.Hi, sg.Nested, sg.Alias, sg.Cond)
			}
			for _, el := range t.Elems {
				fmt.Fprintf(&sb, "   elem %s\n", el)
			}
			for _, cu := range t.Cursors {
				fmt.Fprintf(&sb, "   cursor %s from %s [%s : %s] step %s\n", cu.Root, cu.Parent, cu.InitLo, cu.InitHi, cu.Step)
			}
			for _, u := range t.Unresolved {
				fmt.Fprintf(&sb, "   UNRESOLVED %s\n", u)
			}
		}
	}
	dump("decode", s.Dec)
	dump("encode", s.Enc)
	return sb.String()
}

// summarizeBits groups bit rows into runs "Field[j..k] <-> @off bits[b..c] [cond]".
func summarizeBits(rows []bitRow) []string {
	type key struct {
		f, c string
	}
	sorted := append([]bitRow(nil), rows...)
	sort.Slice(sorted, func(i, j int) bool {
		a, b := sorted[i], sorted[j]
		if a.Field != b.Field {
			return a.Field < b.Field
		}
		if a.Cond != b.Cond {
			return a.Cond < b.Cond
		}
		return a.FBit < b.FBit
	})
	var out []string
	i := 0
	for i < len(sorted) {
		j := i
		for j+1 < len(sorted) && sorted[j+1].Field == sorted[i].Field && sorted[j+1].Cond == sorted[i].Cond && sorted[j+1].FBit == sorted[j].FBit+1 && wireNext(sorted[j].W, sorted[j+1].W) {
			j++
		}
		out = append(out, fmt.Sprintf("%s[%d..%d] = @%d.%d .. @%d.%d [%s]", sorted[i].Field, sorted[i].FBit, sorted[j].FBit, sorted[i].W.Off, sorted[i].W.Bit, sorted[j].W.Off, sorted[j].W.Bit, sorted[i].Cond))
		i = j + 1
	}
	return out
}

// wireNext: b is the next more significant wire bit after a in big-endian order.
func wireNext(a, b wbit) bool {
	if a.Off == b.Off {
		return b.Bit == a.Bit+1
	}
	return b.Off == a.Off-1 && a.Bit == 7 && b.Bit == 0
}

func summarizeConsts(rows []constRow) []string {
	m := map[string][]string{}
	for _, r := range rows {
		if r.Val == 0 {
			continue
		}
		k := r.Cond
		m[k] = append(m[k], fmt.Sprintf("@%d.%d=1", r.W.Off, r.W.Bit))
	}
	var out []string
	for k, v := range m {
		sort.Strings(v)
		out = append(out, strings.Join(v, ",")+" ["+k+"]")
	}
	sort.Strings(out)
	return out
}

// reachesAvoiding: instruction `to` can execute after `from` on a path that does not execute the
// allocation `avoid` (i.e. within the same generation of a per-iteration buffer).
func (c *Ctx) reachesAvoiding(from, to ssa.Instruction, avoid ssa.Value) bool {
	var avoidBlock *ssa.BasicBlock
	if ai, ok := avoid.(ssa.Instruction); ok {
		avoidBlock = ai.Block()
	}
	if from.Block() == to.Block() && instrIndex(to) > instrIndex(from) {
		return true
	}
	seen := map[*ssa.BasicBlock]bool{}
	st := append([]*ssa.BasicBlock(nil), from.Block().Succs...)
	for len(st) > 0 {
		x := st[len(st)-1]
		st = st[:len(st)-1]
		if seen[x] || x == avoidBlock {
			continue
		}
		seen[x] = true
		if x == to.Block() {
			return true
		}
		st = append(st, x.Succs...)
	}
	return false
}

// isFinalSeg: no other append to the record's families can execute after seg s within the same
// generation of the buffer, and the record's family is what is returned / appended to its parent.
func (e *encFunc) isFinalSeg(tfm, fm *family, s encSeg) bool {
	for _, o := range e.order {
		t := o
		for t.Parent != nil && t != tfm {
			t = t.Parent
		}
		if o != fm && o != tfm && t != tfm {
			continue
		}
		for _, s2 := range o.Segs {
			if s2.Ins == s.Ins {
				continue
			}
			if isAppendCall(valueOf(s2.Ins)) == nil {
				continue
			}
			if (o == fm || o == tfm) && e.c.reachesAvoiding(s.Ins, s2.Ins, o.Root) {
				return false
			}
		}
	}
	return true
}

// ownLenCall: the len(...) call whose value (through integer conversions) is what instruction ins writes.
func ownLenCall(ins ssa.Instruction) ssa.Value {
	var v ssa.Value
	switch x := ins.(type) {
	case *ssa.Store:
		v = x.Val
	case *ssa.Call:
		if cal := x.Call.StaticCallee(); cal != nil && strings.HasPrefix(cal.String(), "(encoding/binary.bigEndian).PutUint") && len(x.Call.Args) == 3 {
			v = x.Call.Args[2]
		}
	}
	for i := 0; i < 4 && v != nil; i++ {
		switch y := v.(type) {
		case *ssa.Convert:
			v = y.X
			continue
		case *ssa.ChangeType:
			v = y.X
			continue
		case *ssa.Call:
			if bi, ok := y.Call.Value.(*ssa.Builtin); ok && bi.Name() == "len" {
				return y
			}
		}
		break
	}
	return nil
}
