package lint

import (
	"bytes"
	"go/ast"
	"go/printer"
	"go/token"
	"strings"

	"golang.org/x/tools/go/ast/astutil"
	"ikeverif/checker/xt/ssa"
)

func (c *Ctx) fileOf(pos token.Pos) *ast.File {
	if !pos.IsValid() {
		return nil
	}
	for _, p := range c.Pkgs {
		for _, f := range p.Syntax {
			if f.FileStart <= pos && pos <= f.FileEnd {
				return f
			}
		}
	}
	return nil
}

// SrcExpr renders the source expression an SSA instruction stems from ("b[8:8+spiSize]").
// It is used for construct keys (stable across unrelated edits, unlike SSA register names) and
// for diagnostics. Falls back to the SSA text with register names blanked.
func (c *Ctx) SrcExpr(ins ssa.Instruction) string {
	pos := ins.Pos()
	if f := c.fileOf(pos); f != nil {
		path, _ := astutil.PathEnclosingInterval(f, pos, pos)
		for _, n := range path {
			var e ast.Node
			switch x := n.(type) {
			case *ast.IndexExpr:
				if x.Lbrack == pos {
					e = x
				}
			case *ast.SliceExpr:
				if x.Lbrack == pos {
					e = x
				}
			case *ast.CallExpr:
				if x.Lparen == pos {
					e = x
				}
			case *ast.TypeAssertExpr:
				if x.Lparen == pos {
					e = x
				}
			case *ast.BinaryExpr:
				if x.OpPos == pos {
					e = x
				}
			case *ast.StarExpr:
				if x.Star == pos {
					e = x
				}
			case *ast.SelectorExpr:
				if x.Sel.Pos() == pos {
					e = x
				}
			case *ast.RangeStmt:
				if x.For == pos || x.Range == pos {
					return "range " + c.nodeText(x.X)
				}
			case *ast.UnaryExpr:
				if x.OpPos == pos {
					e = x
				}
			case *ast.IncDecStmt:
				if x.TokPos == pos {
					e = x
				}
			case *ast.AssignStmt:
				if x.TokPos == pos {
					e = x
				}
			}
			if e != nil {
				return c.nodeText(e)
			}
		}
	}
	return blankRegs(ins.String())
}

func (c *Ctx) nodeText(n ast.Node) string {
	var buf bytes.Buffer
	_ = printer.Fprint(&buf, c.Fset, n)
	s := buf.String()
	s = strings.Join(strings.Fields(s), " ")
	if len(s) > 160 {
		s = s[:157] + "..."
	}
	return s
}

func blankRegs(s string) string {
	// replace SSA register names t<digits> by t_
	var sb strings.Builder
	for i := 0; i < len(s); i++ {
		if s[i] == 't' && i+1 < len(s) && s[i+1] >= '0' && s[i+1] <= '9' && (i == 0 || !isIdent(s[i-1])) {
			sb.WriteString("t_")
			i++
			for i < len(s) && s[i] >= '0' && s[i] <= '9' {
				i++
			}
			i--
			continue
		}
		sb.WriteByte(s[i])
	}
	return sb.String()
}

func isIdent(b byte) bool {
	return b == '_' || (b >= 'a' && b <= 'z') || (b >= 'A' && b <= 'Z') || (b >= '0' && b <= '9')
}
