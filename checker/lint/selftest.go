package lint

import (
	"fmt"
	"os"
	"sort"
	"strings"

	"ikeverif/checker/xt/ssa"
)

// SelfTest analyses the fixture module (/verif/fixtures): every MustFlag_* miniature must produce a
// violated obligation of the rule class named in its identifier, every MustPass_* miniature none.
// It guards against rules that silently stop matching (vacuous passes) and against regressions of
// the engines. Returns human-readable failures.
func SelfTest(dir string) (ran int, failures []string) {
	c, err := Load(dir, "", ModulePath, 1)
	if err != nil {
		return 0, []string{"cannot load fixtures: " + err.Error()}
	}
	var fns []*ssa.Function
	for _, fn := range c.ModFuncs {
		if fn.Parent() == nil {
			fns = append(fns, fn)
		}
	}
	sort.Slice(fns, func(i, j int) bool { return fns[i].Name() < fns[j].Name() })
	for _, fn := range fns {
		name := fn.Name()
		switch {
		case strings.HasPrefix(name, "MustFlag_"), strings.HasPrefix(name, "MustPass_"):
			// E2: class = identifier between the prefix and the last '_' group, '_' -> '.'
			rest := strings.TrimPrefix(strings.TrimPrefix(name, "MustFlag_"), "MustPass_")
			parts := strings.Split(rest, "_")
			class := parts[0] + "." + parts[1]
			r := NewReport("SELF", "other")
			e := &E2{C: c, R: r, Prefix: "", Strict: true}
			e.Run([]*ssa.Function{fn})
			bad := 0
			for _, o := range r.Obls {
				if o.Verdict != Discharged && strings.HasPrefix(o.Rule, class) {
					bad++
					if os.Getenv("IKELINT_DEBUG_SELFTEST") != "" {
						fmt.Fprintf(os.Stderr, "selftest %s: %s %s: %s\n", name, o.Rule, o.Key, o.Detail)
					}
				}
			}
			ran++
			if strings.HasPrefix(name, "MustFlag_") && bad == 0 {
				failures = append(failures, fmt.Sprintf("%s: rule %s did not fire", name, class))
			}
			if strings.HasPrefix(name, "MustPass_") && bad > 0 {
				failures = append(failures, fmt.Sprintf("%s: rule %s fired %d time(s)", name, class, bad))
			}
		case strings.HasPrefix(name, "MustFlagTypestate_"), strings.HasPrefix(name, "MustPassTypestate_"):
			r := NewReport("SELF", "other")
			c.hashTypestate(r, "ts", fn)
			bad := 0
			for _, o := range r.Obls {
				if o.Verdict != Discharged {
					bad++
				}
			}
			ran++
			if strings.HasPrefix(name, "MustFlag") && bad == 0 {
				failures = append(failures, name+": typestate rule did not fire")
			}
			if strings.HasPrefix(name, "MustPass") && (bad > 0 || len(r.Obls) == 0) {
				failures = append(failures, fmt.Sprintf("%s: typestate rule fired %d time(s) on %d write(s)", name, bad, len(r.Obls)))
			}
		case strings.HasPrefix(name, "MustFlagAlias_"), strings.HasPrefix(name, "MustPassAlias_"):
			ar := c.Alias(&AliasCfg{Scope: []*ssa.Function{fn}, Source: func(f *ssa.Function, v ssa.Value) bool {
				p, ok := v.(*ssa.Parameter)
				return ok && isByteSlice(p.Type())
			}})
			n := len(ar.WritesThrough)
			for k := range ar.HeapKeys {
				if !strings.HasPrefix(k, "alloc:") {
					n++
				}
			}
			ran++
			if strings.HasPrefix(name, "MustFlag") && n == 0 {
				failures = append(failures, name+": alias analysis found nothing")
			}
			if strings.HasPrefix(name, "MustPass") && n > 0 {
				failures = append(failures, fmt.Sprintf("%s: alias analysis reported %d event(s)", name, n))
			}
		case strings.HasPrefix(name, "MustFlagGlobal_"), strings.HasPrefix(name, "MustPassGlobal_"):
			globals := map[*ssa.Global]bool{}
			for _, g := range c.moduleGlobals() {
				globals[g] = true
			}
			ar := c.Alias(&AliasCfg{Scope: []*ssa.Function{fn}, Source: func(f *ssa.Function, v ssa.Value) bool {
				g, ok := v.(*ssa.Global)
				return ok && globals[g]
			}})
			n := len(ar.WritesThrough)
			for k := range c.DirectEffects(fn) {
				if strings.HasPrefix(k, "global:") {
					n++
				}
			}
			ran++
			if strings.HasPrefix(name, "MustFlag") && n == 0 {
				failures = append(failures, name+": global-write analysis found nothing")
			}
			if strings.HasPrefix(name, "MustPass") && n > 0 {
				failures = append(failures, fmt.Sprintf("%s: global-write analysis reported %d event(s)", name, n))
			}
		case strings.HasPrefix(name, "MustMask_"):
			st := &slotTables{Dec: map[string]*recTable{}, Enc: map[string]*recTable{}}
			c.decodeTablesOf(fn, st, func(string) string { return "message.fix" })
			want := map[string]int{"MustMask_7f": 7, "MustMask_7fff": 15}[name]
			got := 0
			if t := st.Dec["message.fix"]; t != nil {
				for _, b := range t.Bits {
					if strings.HasSuffix(b.Field, ".Value") {
						got++
					}
				}
			}
			ran++
			if got != want {
				failures = append(failures, fmt.Sprintf("%s: bit provenance found %d field bits, expected %d", name, got, want))
			}
		}
	}
	// rules of rounds 14-15 on the eap fixture package: Flag* reported, Pass* discharged
	{
		r := NewReport("SELF", "other")
		c.noSilentSkipRule(r, "skip", "eap")
		c.lostReceiverStoreRule(r, "recv", "eap")
		c.formatRecursionRule(r, "fmt")
		var eapFns []*ssa.Function
		for _, fn := range c.ModFuncs {
			if c.relPkg(fn) == "eap" && len(fn.Blocks) > 0 {
				eapFns = append(eapFns, fn)
			}
		}
		c.readFullRule(r, "read", eapFns)
		c.wrapOfNilRule(r, "wrap", eapFns, 0)
		for _, w := range []struct {
			rule, typ string
			flag      bool
		}{{"skip", "FlagSkip", true}, {"skip", "PassSkip", false}, {"recv", "FlagRecv", true}, {"recv", "PassRecv", false}, {"fmt", "FlagFmt", true}, {"fmt", "PassFmt", false},
			{"read", "FlagRead", true}, {"read", "PassRead", false}, {"wrap", "FlagWrap", true}, {"wrap", "PassWrap", false}} {
			seen, bad := 0, 0
			for _, o := range r.Obls {
				if o.Rule == w.rule && strings.Contains(o.Key, w.typ) {
					seen++
					if o.Verdict != Discharged {
						bad++
					}
				}
			}
			ran++
			switch {
			case w.flag && bad == 0:
				failures = append(failures, fmt.Sprintf("%s: rule %s did not fire", w.typ, w.rule))
			case !w.flag && bad > 0:
				failures = append(failures, fmt.Sprintf("%s: rule %s fired", w.typ, w.rule))
			case !w.flag && seen == 0 && w.rule != "recv":
				failures = append(failures, fmt.Sprintf("%s: rule %s has no obligation for it", w.typ, w.rule))
			}
		}
	}
	if ran < 25 {
		failures = append(failures, fmt.Sprintf("only %d fixture functions were analysed (expected at least 25)", ran))
	}
	return ran, failures
}
