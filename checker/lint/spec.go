package lint

import (
	"encoding/json"
	"fmt"
	"os"
	"path/filepath"
	"sort"
	"strings"
)

// SpecDir is the directory of the reference tables (/verif/spec).
var SpecDir = "/verif/spec"

type specField struct {
	Off    int64  `json:"off"`
	Octets int    `json:"octets"`
	Shift  int    `json:"shift"`
	Bits   int    `json:"bits"`
	When   string `json:"when"`
}

type specLen struct {
	Off    int64  `json:"off"`
	Octets int    `json:"octets"`
	Of     string `json:"of"`
	Decode string `json:"decode"`
	When   string `json:"when"`
}

type specSeg struct {
	Field  string `json:"field"`
	Nested string `json:"nested"`
	Lo     string `json:"lo"`
	Hi     string `json:"hi"`
	When   string `json:"when"`
}

type specMarker struct {
	Off    int64 `json:"off"`
	Octets int   `json:"octets"`
	More   int   `json:"more"`
	Last   int   `json:"last"`
}

type specConst struct {
	Off    int64 `json:"off"`
	Octets int   `json:"octets"`
	Value  int64 `json:"value"`
}

type specRecord struct {
	Source     string               `json:"source"`
	Fields     map[string]specField `json:"fields"`
	Lengths    []specLen            `json:"lengths"`
	Segments   []specSeg            `json:"segments"`
	Markers    []specMarker         `json:"markers"`
	Constants  []specConst          `json:"constants"`
	Derived    map[string]string    `json:"derived"`
	DomainBits map[string]int       `json:"domain_bits"`
	External   map[string]string    `json:"external"`
	WhenDefs   map[string]string    `json:"when_defs"`
	Filing     map[string]int       `json:"transform_filing"`
	// MinOctets: length of the shortest encoding of the record on the encodable domain (nil: not stated)
	MinOctets *int64 `json:"min_octets"`
}

func (r *specRecord) when(tag string) string {
	if tag == "" {
		return ""
	}
	if v, ok := r.WhenDefs[tag]; ok {
		return v
	}
	return tag
}

type wireSpec struct {
	Records map[string]*specRecord `json:"records"`
	Aka     struct {
		MaxValueOctets map[string]int64 `json:"max_value_octets"`
		HeaderOctets   int64            `json:"header_octets"`
		LengthInBits   []int64          `json:"length_in_bits"`
		LengthInOctets []int64          `json:"length_in_octets"`
		ReservedZero   []int64          `json:"reserved_zero"`
		ValueIn23      []int64          `json:"value_in_octets_2_3"`
	} `json:"eap_aka_prime"`
}

func loadWireSpec() (*wireSpec, error) {
	b, err := os.ReadFile(filepath.Join(SpecDir, "wire_layout.json"))
	if err != nil {
		return nil, err
	}
	var ws wireSpec
	if err := json.Unmarshal(b, &ws); err != nil {
		return nil, fmt.Errorf("wire_layout.json: %v", err)
	}
	return &ws, nil
}

// domainBits collects "Struct.Field" -> bits over all records.
func (ws *wireSpec) domainBits() map[string]int {
	out := map[string]int{}
	for rec, r := range ws.Records {
		for f, n := range r.DomainBits {
			out[rec+"."+f] = n
		}
	}
	return out
}

// specBits expands the fields of a record into bit rows.
func (r *specRecord) bitRows(rec string) map[string]wbit {
	out := map[string]wbit{}
	for name, f := range r.Fields {
		bits := f.Bits
		if bits == 0 {
			bits = f.Octets * 8
		}
		for j := 0; j < bits; j++ {
			out[fmt.Sprintf("%s.%s#%d", strings.TrimSuffix(rec, "[]"), name, j)] = beBit(f.Off, f.Octets, f.Shift+j)
		}
	}
	return out
}

func sortedKeysW(m map[string]wbit) []string {
	out := make([]string, 0, len(m))
	for k := range m {
		out = append(out, k)
	}
	sort.Strings(out)
	return out
}

// normOffset rewrites an offset string into the neutral slot vocabulary.
// decode: wire(<root> @o wN) -> slot(o,N); encode: len(F) -> slot(..) through the encoder's length slots.
func normOffset(s string, lenToSlot map[string]string) string {
	out := s
	// wire leaves
	for {
		i := strings.Index(out, "wire(")
		if i < 0 {
			break
		}
		j := strings.Index(out[i:], ")")
		if j < 0 {
			break
		}
		inner := out[i+5 : i+j] // "<root> @o wN"
		at := strings.LastIndex(inner, "@")
		rep := "slot(?)"
		if at >= 0 {
			parts := strings.Fields(inner[at+1:])
			if len(parts) == 2 {
				rep = "slot(" + parts[0] + "," + strings.TrimPrefix(parts[1], "w") + ")"
			}
		}
		out = out[:i] + rep + out[i+j+1:]
	}
	for k, v := range lenToSlot {
		out = strings.ReplaceAll(out, k, v)
	}
	return canonTerms(out)
}

// canonTerms sorts the "+k*term" parts of an offset expression.
func canonTerms(s string) string {
	fs := strings.Fields(s)
	if len(fs) <= 1 {
		return s
	}
	head := fs[0]
	rest := fs[1:]
	sort.Strings(rest)
	return head + " " + strings.Join(rest, " ")
}
