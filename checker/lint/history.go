package lint

import (
	"fmt"
	"go/token"
	"go/types"
	"sort"

	"ikeverif/checker/xt/ssa"
)

// Decoders as functions of their input. Two rules for "the second use of an object": what a decoder returns
// must not depend on what an earlier call left in the object it decodes into, beyond appending to it.
//
// decodeInputOnlyRule: in the functions of the decode scope that have a receiver, no branch is decided by a
// field of the receiver (or of an object reached from it through pointer fields) that this call has not stored
// before: `if prev := m.IKEHeader; prev != nil && ...` or `if eap.EapTypeData != nil && eap.EapTypeData.Type()
// == t` make the outcome depend on the previous datagram. A field that the function itself stores first (the
// decoded AttributeFormat tested afterwards) is this call's own data.
//
// noTruncateInPlaceRule: no function of the given scope stores `x[:k]` back into the slice-typed field or
// container it was loaded from: the shortened list keeps its backing array, so the next append overwrites
// elements that whoever took the earlier contents still sees (two decoded messages sharing payload slots).
func (c *Ctx) decodeInputOnlyRule(r *Report, rule string, scope []*ssa.Function) {
	r.Rule(rule, "in the decode scope no branch is decided by a field of the object being decoded into that the same call has not stored before: the result is a function of the input octets, not of what an earlier call left behind", 10)
	fns := append([]*ssa.Function(nil), scope...)
	sort.Slice(fns, func(i, j int) bool { return c.FuncName(fns[i]) < c.FuncName(fns[j]) })
	for _, fn := range fns {
		if fn.Blocks == nil || fn.Signature.Recv() == nil || len(fn.Params) == 0 {
			continue
		}
		recv := fn.Params[0]
		if _, isPtr := recv.Type().Underlying().(*types.Pointer); !isPtr {
			continue
		}
		// the objects decoded into: receivers of the decode methods (a cipher or hash object consulted on the way
		// is configuration, not a decode target)
		switch fn.Name() {
		case "Unmarshal", "unmarshal", "Decode", "DecodePayload":
		default:
			continue
		}
		// values that are (or are loaded through pointer fields from) the receiver
		fromRecv := func(v ssa.Value) bool {
			for depth := 0; depth < 4; depth++ {
				if v == ssa.Value(recv) {
					return true
				}
				u, ok := v.(*ssa.UnOp)
				if !ok || u.Op != token.MUL {
					return false
				}
				fa, ok := u.X.(*ssa.FieldAddr)
				if !ok {
					return false
				}
				v = fa.X
			}
			return false
		}
		// stores of this call, by field key
		type stRec struct {
			ins  *ssa.Store
			base ssa.Value
		}
		stores := map[string][]stRec{}
		for _, b := range fn.Blocks {
			for _, ins := range b.Instrs {
				if st, ok := ins.(*ssa.Store); ok {
					if fa, ok := st.Addr.(*ssa.FieldAddr); ok {
						k := FieldKey(fa.X.Type(), fa.Field)
						stores[k] = append(stores[k], stRec{st, fa.X})
					}
				}
			}
		}
		var loadsIn func(v ssa.Value, depth int, out *[]*ssa.UnOp)
		loadsIn = func(v ssa.Value, depth int, out *[]*ssa.UnOp) {
			if depth > 6 {
				return
			}
			switch x := v.(type) {
			case *ssa.UnOp:
				if x.Op == token.MUL {
					if fa, ok := x.X.(*ssa.FieldAddr); ok && fromRecv(fa.X) {
						*out = append(*out, x)
					}
					return
				}
				loadsIn(x.X, depth+1, out)
			case *ssa.BinOp:
				loadsIn(x.X, depth+1, out)
				loadsIn(x.Y, depth+1, out)
			case *ssa.Convert:
				loadsIn(x.X, depth+1, out)
			case *ssa.ChangeType:
				loadsIn(x.X, depth+1, out)
			case *ssa.Extract:
				loadsIn(x.Tuple, depth+1, out)
			case *ssa.TypeAssert:
				loadsIn(x.X, depth+1, out) // p, ok := x.f.(*T)
			case *ssa.Call:
				if bi, ok := x.Call.Value.(*ssa.Builtin); ok && (bi.Name() == "len" || bi.Name() == "cap") {
					loadsIn(x.Call.Args[0], depth+1, out)
				} else if x.Call.IsInvoke() {
					loadsIn(x.Call.Value, depth+1, out) // prev.Type() == t
				}
			}
		}
		nOwn, nLazy, nBad := 0, 0, 0
		for _, b := range fn.Blocks {
			iff, ok := b.Instrs[len(b.Instrs)-1].(*ssa.If)
			if !ok {
				continue
			}
			var ls []*ssa.UnOp
			loadsIn(iff.Cond, 0, &ls)
			for _, l := range ls {
				fa := l.X.(*ssa.FieldAddr)
				k := FieldKey(fa.X.Type(), fa.Field)
				own := false
				for _, s := range stores[k] {
					if dominatesInstr(s.ins, l) {
						own = true
					}
				}
				if own {
					nOwn++
					continue
				}
				// lazy initialisation of a container that is only added to: `if x.f == nil { x.f = make(...) }`
				if bo, isB := iff.Cond.(*ssa.BinOp); isB && (bo.Op == token.EQL || bo.Op == token.NEQ) && (isNilConst(bo.X) || isNilConst(bo.Y)) {
					nilSide := b.Succs[0]
					if bo.Op == token.NEQ {
						nilSide = b.Succs[1]
					}
					lazy := false
					for _, i2 := range nilSide.Instrs {
						if st, isSt := i2.(*ssa.Store); isSt {
							if fa2, isFA := st.Addr.(*ssa.FieldAddr); isFA && fa2.X == fa.X && fa2.Field == fa.Field {
								switch st.Val.(type) {
								case *ssa.MakeMap, *ssa.MakeSlice:
									lazy = true
								}
							}
						}
					}
					if lazy && (bo.X == ssa.Value(l) || bo.Y == ssa.Value(l)) {
						nLazy++
						continue
					}
					// a guard against a missing object: the nil side only fails, and the other side goes on to use
					// the object exactly as the code without the guard would (which crashed on nil) - what the call
					// reads of the object afterwards is judged where it is read
					if (bo.X == ssa.Value(l) || bo.Y == ssa.Value(l)) && isPointerLike(l.Type()) && c.onlyErrorExit(nilSide) {
						nLazy++
						continue
					}
				}
				nBad++
				what := "test"
				if cv, isIns := iff.Cond.(ssa.Instruction); isIns {
					what = c.SrcExpr(cv)
				}
				r.bad(rule, fmt.Sprintf("%s: %s reads %s", c.FuncName(fn), what, k), c.InstrPos(iff), "the branch depends on "+k+" as an earlier call left it (no store of this call reaches the read): decoding the same octets into a used object and into a fresh one can give different results")
			}
		}
		if nBad == 0 {
			r.ok(rule, c.FuncName(fn), c.Pos(fn.Pos()), fmt.Sprintf("%d test(s) of fields this call stored first, %d lazy initialisation(s) of a container that is only added to, no test of state left by an earlier call", nOwn, nLazy), true)
		}
	}
}

func (c *Ctx) noTruncateInPlaceRule(r *Report, rule string, scope []*ssa.Function) {
	r.Rule(rule, "no function of the scope stores x[:k] back into the slice field or container it was loaded from (the backing array would be shared with whoever holds the earlier contents)", 0)
	n := 0
	for _, fn := range scope {
		for _, b := range fn.Blocks {
			for _, ins := range b.Instrs {
				st, ok := ins.(*ssa.Store)
				if !ok {
					continue
				}
				v := st.Val
				if ct, ok := v.(*ssa.ChangeType); ok {
					v = ct.X
				}
				sl, ok := v.(*ssa.Slice)
				if !ok {
					continue
				}
				if _, isSlice := sl.Type().Underlying().(*types.Slice); !isSlice {
					continue
				}
				src := sl.X
				if ct, ok := src.(*ssa.ChangeType); ok {
					src = ct.X
				}
				u, ok := src.(*ssa.UnOp)
				if !ok || u.Op != token.MUL {
					continue
				}
				same := u.X == st.Addr
				if !same {
					fa1, ok1 := u.X.(*ssa.FieldAddr)
					fa2, ok2 := st.Addr.(*ssa.FieldAddr)
					same = ok1 && ok2 && fa1.X == fa2.X && fa1.Field == fa2.Field
				}
				if !same || sl.Low != nil {
					continue
				}
				// lists of payloads / records (pointer-like elements), not octet strings cut to length
				if es, ok := sl.Type().Underlying().(*types.Slice); !ok || !pointerLike(es.Elem()) {
					continue
				}
				n++
				r.bad(rule, c.FuncName(fn)+": "+c.SrcExpr(st), c.InstrPos(st), "the list is shortened in place ("+c.SrcExpr(sl)+"): the next append overwrites elements that a holder of the earlier contents still refers to")
			}
		}
	}
	if n == 0 {
		r.ok(rule, fmt.Sprintf("%d functions", len(scope)), "-", "no list is re-sliced into itself", true)
	}
}

// proposalFromCurrentStateRule (C11): what an SA advertises is computed from its current descriptors every time:
// ToProposal of IKESAKey / ChildSAKey writes no field of an SA object and no package variable (no cache), and the
// only fields of the SA it reads are the descriptor fields (*Info).
func (c *Ctx) proposalFromCurrentStateRule(r *Report, rule string) {
	r.Rule(rule, "ToProposal of IKESAKey / ChildSAKey is a function of the SA's current descriptors: it writes no SA field and no package variable, and reads no SA field other than the *Info descriptors", 2)
	for _, tn := range []string{"IKESAKey", "ChildSAKey"} {
		fn := c.Method("security", tn, "ToProposal")
		if fn == nil {
			r.undecided(rule, "anchor security."+tn+".ToProposal", "-", "anchor does not resolve")
			continue
		}
		var bad []string
		for _, k := range c.ModSet(fn).sorted() {
			if len(k) > 15 && (k[:15] == "field:security." || k[:7] == "global:") {
				bad = append(bad, "writes "+k)
			} else if len(k) > 7 && k[:7] == "global:" {
				bad = append(bad, "writes "+k)
			}
		}
		for _, g := range c.Reachable(fn) {
			if g.Blocks == nil {
				continue
			}
			for _, b := range g.Blocks {
				for _, ins := range b.Instrs {
					u, ok := ins.(*ssa.UnOp)
					if !ok || u.Op != token.MUL {
						continue
					}
					fa, ok := u.X.(*ssa.FieldAddr)
					if !ok {
						continue
					}
					k := FieldKey(fa.X.Type(), fa.Field)
					if len(k) > 15 && k[:15] == "field:security." {
						name := fieldNameOf(fa)
						if len(name) < 4 || name[len(name)-4:] != "Info" {
							bad = appendUniq(bad, "reads "+k+" at "+c.InstrPos(ins))
						}
					}
				}
			}
		}
		sort.Strings(bad)
		if len(bad) == 0 {
			r.ok(rule, c.FuncName(fn), c.Pos(fn.Pos()), "no SA field or package variable written; only the descriptor fields of the SA are read", true)
		} else {
			r.bad(rule, c.FuncName(fn), c.Pos(fn.Pos()), "the advertised proposal depends on more than the SA's current descriptors: "+joinMax(bad, 4))
		}
	}
}

func joinMax(a []string, n int) string {
	if len(a) > n {
		a = append(append([]string(nil), a[:n]...), fmt.Sprintf("... (%d more)", len(a)-n))
	}
	out := ""
	for i, s := range a {
		if i > 0 {
			out += "; "
		}
		out += s
	}
	return out
}

// builderPathsRule (C19): a builder extends its container on every way to a normal return and on no way to an
// error return. "Extends" is the store of an append into the container parameter, or a call of another Build*
// method on the same container (delegation). A builder that returns early without appending (a duplicate
// filter) loses an element its caller asked for; one that appends before an argument check fails leaves a
// half-built element behind the error.
func (c *Ctx) builderPathsRule(r *Report, rule string) {
	r.Rule(rule, "every Build* method extends its container on every path to a normal return and on no path to an error return", 15)
	pkg := c.Pkg("message")
	var fns []*ssa.Function
	for _, fn := range c.ModFuncs {
		if fn.Pkg != pkg || fn.Parent() != nil || fn.Signature.Recv() == nil || fn.Blocks == nil || len(fn.Params) == 0 {
			continue
		}
		if len(fn.Name()) < 5 || fn.Name()[:5] != "Build" {
			continue
		}
		pt, ok := fn.Params[0].Type().(*types.Pointer)
		if !ok {
			continue
		}
		if _, isSlice := pt.Elem().Underlying().(*types.Slice); !isSlice {
			continue
		}
		fns = append(fns, fn)
	}
	sort.Slice(fns, func(i, j int) bool { return fns[i].Name() < fns[j].Name() })
	for _, fn := range fns {
		recv := fn.Params[0]
		// sites that extend the container
		var sites []ssa.Instruction
		for _, b := range fn.Blocks {
			for _, ins := range b.Instrs {
				switch x := ins.(type) {
				case *ssa.Store:
					if x.Addr == ssa.Value(recv) && isAppendCall(x.Val) != nil {
						sites = append(sites, ins)
					}
				case *ssa.Call:
					if cal := x.Call.StaticCallee(); cal != nil && !x.Call.IsInvoke() && len(x.Call.Args) > 0 && x.Call.Args[0] == ssa.Value(recv) &&
						len(cal.Name()) >= 5 && (cal.Name()[:5] == "Build" || cal.Name()[:5] == "build") {
						sites = append(sites, ins)
					}
				}
			}
		}
		var bad []string
		nRet := 0
		for _, b := range fn.Blocks {
			ret, ok := b.Instrs[len(b.Instrs)-1].(*ssa.Return)
			if !ok {
				continue
			}
			nRet++
			isErr := false
			if n := len(ret.Results); n > 0 && isErrorType(ret.Results[n-1].Type()) && !isNilConst(ret.Results[n-1]) {
				isErr = true
			}
			if isErr {
				for _, s := range sites {
					if s.Block() == b || s.Block().Dominates(b) || blockReaches(s.Block(), b) {
						bad = append(bad, fmt.Sprintf("the container is extended at %s on a path to the error return at %s", c.InstrPos(s), c.InstrPos(ret)))
					}
				}
				continue
			}
			// every path from the entry to this return extends the container or leaves through the "nothing to
			// build" edge of a zero-valued argument (an empty address string, port 0: outside the builders'
			// domain, a documented no-op)
			siteBlock := map[*ssa.BasicBlock]bool{}
			for _, s := range sites {
				siteBlock[s.Block()] = true
			}
			zeroEdge := func(from, to *ssa.BasicBlock) bool {
				iff, isIf := from.Instrs[len(from.Instrs)-1].(*ssa.If)
				if !isIf {
					return false
				}
				bo, isB := iff.Cond.(*ssa.BinOp)
				if !isB || !((bo.Op == token.EQL && from.Succs[0] == to) || (bo.Op == token.NEQ && from.Succs[1] == to)) {
					return false
				}
				for _, pr := range [][2]ssa.Value{{bo.X, bo.Y}, {bo.Y, bo.X}} {
					p, isP := pr[0].(*ssa.Parameter)
					k, isK := pr[1].(*ssa.Const)
					if !isP || !isK || p == recv {
						continue
					}
					if k.Value == nil || k.Value.ExactString() == "0" || k.Value.ExactString() == `""` {
						return true
					}
				}
				return false
			}
			dom := true
			if !siteBlock[b] {
				seen := map[*ssa.BasicBlock]bool{}
				var walk func(x *ssa.BasicBlock)
				walk = func(x *ssa.BasicBlock) {
					if seen[x] || !dom {
						return
					}
					seen[x] = true
					if x == b {
						dom = false
						return
					}
					if siteBlock[x] {
						return
					}
					for _, sc := range x.Succs {
						if zeroEdge(x, sc) {
							continue
						}
						walk(sc)
					}
				}
				walk(fn.Blocks[0])
			}
			if !dom {
				bad = append(bad, fmt.Sprintf("the normal return at %s can be reached without extending the container", c.InstrPos(ret)))
			}
		}
		sort.Strings(bad)
		if len(bad) == 0 {
			r.ok(rule, fn.Name(), c.Pos(fn.Pos()), fmt.Sprintf("%d site(s) extend the container; %d return(s) checked", len(sites), nRet), true)
		} else {
			r.bad(rule, fn.Name(), c.Pos(fn.Pos()), joinMax(bad, 3))
		}
	}
}
