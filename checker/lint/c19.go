package lint

import (
	"encoding/json"
	"fmt"
	"go/constant"
	"go/token"
	"go/types"
	"os"
	"path/filepath"
	"regexp"
	"sort"
	"strings"

	"ikeverif/checker/xt/ssa"
)

type builderSpec struct {
	Type    string            `json:"type"`
	Fields  map[string]string `json:"fields"`
	Returns bool              `json:"returns"`
	Skips   []string          `json:"skips"`
}

type buildersFile struct {
	Builders map[string]builderSpec `json:"builders"`
	ThreeGPP map[string]any         `json:"three_gpp"`
	Header   map[string]any         `json:"header"`
}

func loadBuilders() (*buildersFile, error) {
	b, err := os.ReadFile(filepath.Join(SpecDir, "builders.json"))
	if err != nil {
		return nil, err
	}
	var bf buildersFile
	if err := json.Unmarshal(b, &bf); err != nil {
		return nil, fmt.Errorf("builders.json: %v", err)
	}
	return &bf, nil
}

func (bf *buildersFile) gppInt(k string) int64 {
	if v, ok := bf.ThreeGPP[k].(float64); ok {
		return int64(v)
	}
	return -1
}

// originOf describes where a stored value comes from, in the vocabulary of builders.json.
func (c *Ctx) originOf(fn *ssa.Function, v ssa.Value, zeroField func(ssa.Value) bool) string {
	switch x := v.(type) {
	case *ssa.Const:
		if x.Value == nil {
			return "nil"
		}
		if x.Value.Kind() == constant.Bool {
			if constant.BoolVal(x.Value) {
				return "const:true"
			}
			return "const:false"
		}
		return "const:" + x.Value.ExactString()
	case *ssa.Parameter:
		return fmt.Sprintf("p%d", paramIndex(fn, x))
	case *ssa.Convert:
		return c.originOf(fn, x.X, zeroField)
	case *ssa.ChangeType:
		return c.originOf(fn, x.X, zeroField)
	case *ssa.UnOp:
		if x.Op == token.MUL {
			if p, ok := x.X.(*ssa.Parameter); ok {
				return fmt.Sprintf("*p%d", paramIndex(fn, p))
			}
		}
	case *ssa.Call:
		if ap := isAppendCall(x); ap != nil && len(ap.Call.Args) == 2 {
			if p, ok := ap.Call.Args[1].(*ssa.Parameter); ok && zeroField(ap.Call.Args[0]) {
				return fmt.Sprintf("copy:p%d", paramIndex(fn, p))
			}
			// append([]byte(nil), p...) / append(make([]byte, 0, n), p...)
			if p, ok := ap.Call.Args[1].(*ssa.Parameter); ok {
				if isNilConst(ap.Call.Args[0]) {
					return fmt.Sprintf("copy:p%d", paramIndex(fn, p))
				}
				if mk, ok := ap.Call.Args[0].(*ssa.MakeSlice); ok {
					if k, ok := mk.Len.(*ssa.Const); ok {
						if n, _ := constInt64(k.Value); n == 0 {
							return fmt.Sprintf("copy:p%d", paramIndex(fn, p))
						}
					}
				}
			}
		}
	case *ssa.MakeSlice:
		// value := make([]byte, len(p)); copy(value, p): the same private copy an append would make
		if mk := x; isByteSlice(mk.Type()) {
			f := c.NewFA(fn)
			var src *ssa.Parameter
			n := 0
			for _, ref := range *mk.Referrers() {
				call, ok := ref.(*ssa.Call)
				if !ok {
					continue
				}
				if bi, ok := call.Call.Value.(*ssa.Builtin); ok && bi.Name() == "copy" && call.Call.Args[0] == ssa.Value(mk) {
					n++
					src, _ = call.Call.Args[1].(*ssa.Parameter)
				}
			}
			if n == 1 && src != nil && f.LFOf(mk.Len).key() == f.SliceLen(src).key() {
				return fmt.Sprintf("copy:p%d", paramIndex(fn, src))
			}
		}
	}
	return "?" + v.Name()
}

// builderTable extracts the field <- origin table of the object a builder creates and appends.
type builderInfo struct {
	Type     string
	Fields   map[string][]string // field -> origins (with path condition when conditional)
	Appends  int                 // number of append-to-container stores
	Returns  bool
	StoresEx []string // stores into pre-existing memory other than the container slot
	appendSites []*ssa.Store
	Obj      *ssa.Alloc
}

var builderDepth = map[*ssa.Function]int{}

func depthOf(fn *ssa.Function) int { return builderDepth[fn] }

// builderDelegation: the one call in fn, executed on every path to a return, of another method on fn's own
// receiver (the container) in the same package; nil when there is none or more than one.
func (c *Ctx) builderDelegation(fn *ssa.Function) *ssa.Call {
	var found *ssa.Call
	for _, b := range fn.Blocks {
		for _, ins := range b.Instrs {
			call, ok := ins.(*ssa.Call)
			if !ok {
				continue
			}
			g := call.Call.StaticCallee()
			if g == nil || g == fn || g.Pkg != fn.Pkg || g.Signature.Recv() == nil || len(call.Call.Args) == 0 || len(fn.Params) == 0 || call.Call.Args[0] != ssa.Value(fn.Params[0]) {
				continue
			}
			if !strings.HasPrefix(strings.ToLower(g.Name()), "build") {
				continue
			}
			if found != nil {
				return nil
			}
			found = call
		}
	}
	if found == nil {
		return nil
	}
	for _, b := range fn.Blocks {
		if _, ok := b.Instrs[len(b.Instrs)-1].(*ssa.Return); ok && !found.Block().Dominates(b) {
			return nil
		}
	}
	return found
}

func (c *Ctx) builderTable(fn *ssa.Function) *builderInfo {
	bi := &builderInfo{Fields: map[string][]string{}}
	f := c.NewFA(fn)
	x := newBVCtx(c, f)
	// the object: the heap Alloc that is wrapped into an interface / appended to *container
	var obj *ssa.Alloc
	for _, b := range fn.Blocks {
		for _, ins := range b.Instrs {
			st, ok := ins.(*ssa.Store)
			if !ok {
				continue
			}
			if paramIndex(fn, st.Addr) == 0 {
				// *container = append(*container, obj); several sites on mutually exclusive paths count once
				// (an early `append; return` for the simple case): no site can be followed by another
				exclusive := len(bi.appendSites) > 0
				for _, o := range bi.appendSites {
					if o.Block() == st.Block() || c.blockReaches(o.Block(), st.Block()) || c.blockReaches(st.Block(), o.Block()) {
						exclusive = false
					}
				}
				bi.appendSites = append(bi.appendSites, st)
				if !exclusive {
					bi.Appends++
				}
				if ap := isAppendCall(st.Val); ap != nil {
					if sl, ok := ap.Call.Args[1].(*ssa.Slice); ok {
						if arr, ok := sl.X.(*ssa.Alloc); ok {
							for _, ref := range *arr.Referrers() {
								if ia, ok := ref.(*ssa.IndexAddr); ok {
									for _, r2 := range *ia.Referrers() {
										if es, ok := r2.(*ssa.Store); ok {
											v := es.Val
											if mi, ok := v.(*ssa.MakeInterface); ok {
												v = mi.X
											}
											if a, ok := v.(*ssa.Alloc); ok {
												obj = a
											}
										}
									}
								}
							}
						}
					}
					// the append base must be the container's current content
					if u, ok := ap.Call.Args[0].(*ssa.UnOp); !ok || paramIndex(fn, u.X) != 0 {
						bi.StoresEx = append(bi.StoresEx, "the container is not extended from its current content at "+c.InstrPos(st))
					}
				} else {
					bi.StoresEx = append(bi.StoresEx, "the container is overwritten at "+c.InstrPos(st))
				}
				continue
			}
			if !freshRoot(st.Addr) {
				bi.StoresEx = append(bi.StoresEx, "store into existing memory at "+c.InstrPos(st)+" ["+c.SrcExpr(st)+"]")
			}
		}
	}
	// a builder that hands its whole job to a sibling builder on the same container (BuildEAPSuccess calling
	// BuildEAP with a constant code): the sibling's table with this builder's arguments substituted
	var delegate *ssa.Call
	if obj == nil && bi.Appends == 0 && depthOf(fn) < 2 {
		delegate = c.builderDelegation(fn)
	}
	// calls that write memory the builder did not allocate (the container itself, an argument)
	for _, b := range fn.Blocks {
		for _, ins := range b.Instrs {
			ci, ok := ins.(ssa.CallInstruction)
			if !ok {
				continue
			}
			if _, isBuiltin := ci.Common().Value.(*ssa.Builtin); isBuiltin {
				continue
			}
			if delegate != nil && ins == ssa.Instruction(delegate) {
				continue
			}
			for _, m := range c.CalleesAt(ci).Mod {
				ms := c.ModSet(m)
				if len(ms) == 0 {
					continue
				}
				for _, a := range ci.Common().Args {
					if !isPointerLike(a.Type()) && !isSliceType(a.Type()) {
						continue
					}
					if freshRoot(a) {
						continue
					}
					bi.StoresEx = append(bi.StoresEx, fmt.Sprintf("calls %s at %s with memory the builder did not allocate (%s); the callee writes %s", c.FuncName(m), c.InstrPos(ins), a.Name(), strings.Join(ms.sorted(), ", ")))
					break
				}
			}
		}
	}
	bi.Obj = obj
	if obj == nil && delegate != nil {
		g := delegate.Call.StaticCallee()
		builderDepth[fn]++
		sub := c.builderTable(g)
		builderDepth[fn]--
		if sub.Obj == nil {
			return bi
		}
		subst := map[string]string{}
		okSub := true
		for i, a := range delegate.Call.Args {
			o := c.originOf(fn, a, func(ssa.Value) bool { return false })
			if i > 0 && !(strings.HasPrefix(o, "p") || strings.HasPrefix(o, "const:")) {
				okSub = false
			}
			subst[fmt.Sprintf("p%d", i)] = o
		}
		if !okSub {
			return bi
		}
		re := regexp.MustCompile(`\bp\d+\b`)
		for fld, origins := range sub.Fields {
			for _, o := range origins {
				bi.Fields[fld] = append(bi.Fields[fld], re.ReplaceAllStringFunc(o, func(m string) string {
					if r, ok := subst[m]; ok {
						return r
					}
					return m
				}))
			}
		}
		bi.Obj, bi.Type, bi.Appends = sub.Obj, sub.Type, sub.Appends
		bi.StoresEx = append(bi.StoresEx, sub.StoresEx...)
		for _, b := range fn.Blocks {
			if ret, ok := b.Instrs[len(b.Instrs)-1].(*ssa.Return); ok {
				for _, rv := range ret.Results {
					if rv == ssa.Value(delegate) && sub.Returns {
						bi.Returns = true
					}
				}
			}
		}
		return bi
	}
	if obj == nil {
		return bi
	}
	bi.Type = typeKey(obj.Type().(*types.Pointer).Elem())
	var collect func(al *ssa.Alloc, prefix string, depth int)
	collect = func(al *ssa.Alloc, prefix string, depth int) {
		st, ok := al.Type().(*types.Pointer).Elem().Underlying().(*types.Struct)
		if !ok || depth > 2 {
			return
		}
		for _, ref := range *al.Referrers() {
			fa, ok := ref.(*ssa.FieldAddr)
			if !ok {
				continue
			}
			name := prefix + st.Field(fa.Field).Name()
			for _, r2 := range *fa.Referrers() {
				s, ok := r2.(*ssa.Store)
				if !ok || s.Addr != ssa.Value(fa) {
					continue
				}
				if inner, ok := s.Val.(*ssa.Alloc); ok {
					collect(inner, name+".", depth+1)
					continue
				}
				zero := func(v ssa.Value) bool {
					// append base is the (still zero) field of the fresh object, or nil
					if isNilConst(v) {
						return true
					}
					if b2, _, ok := fieldLoad(v); ok && b2 == ssa.Value(al) {
						return true
					}
					return false
				}
				o := c.originOf(fn, s.Val, zero)
				if cond := c.paramCond(f, x, s.Block(), fn); cond != "" {
					o += " when " + cond
				}
				bi.Fields[name] = append(bi.Fields[name], o)
			}
		}
	}
	collect(obj, "", 0)
	for _, b := range fn.Blocks {
		if ret, ok := b.Instrs[len(b.Instrs)-1].(*ssa.Return); ok {
			for _, rv := range ret.Results {
				if rv == ssa.Value(obj) {
					bi.Returns = true
				}
			}
		}
	}
	return bi
}

// paramCond renders dominating conditions on pointer parameters (p != nil) and lengths of parameters.
func (c *Ctx) paramCond(f *FA, x *bvCtx, b *ssa.BasicBlock, fn *ssa.Function) string {
	var parts []string
	for bb := b; bb != nil; bb = bb.Idom() {
		if len(bb.Preds) != 1 {
			continue
		}
		p := bb.Preds[0]
		iff, ok := p.Instrs[len(p.Instrs)-1].(*ssa.If)
		if !ok {
			continue
		}
		cond, ok := iff.Cond.(*ssa.BinOp)
		if !ok {
			continue
		}
		taken := p.Succs[0] == bb
		var lhs string
		if pi := paramIndex(fn, cond.X); pi >= 0 && isNilConst(cond.Y) {
			lhs = fmt.Sprintf("p%d", pi)
			op := cond.Op
			if !taken {
				if op == token.EQL {
					op = token.NEQ
				} else {
					op = token.EQL
				}
			}
			parts = append(parts, fmt.Sprintf("%s %s nil", lhs, op))
			continue
		}
		if call, ok := cond.X.(*ssa.Call); ok {
			if bi, ok := call.Call.Value.(*ssa.Builtin); ok && bi.Name() == "len" {
				if pi := paramIndex(fn, call.Call.Args[0]); pi >= 0 {
					if k, ok := cond.Y.(*ssa.Const); ok {
						op := cond.Op
						if !taken {
							switch op {
							case token.EQL:
								op = token.NEQ
							case token.NEQ:
								op = token.EQL
							}
						}
						parts = append(parts, fmt.Sprintf("len(p%d) %s %s", pi, op, k.Value.ExactString()))
					}
				}
			}
		}
	}
	sort.Strings(parts)
	return strings.Join(parts, " && ")
}

// RunC19 decides property C19.
func RunC19(c *Ctx, r *Report) {
	prefix := "C19."
	r.Explanation = "Builders and constructors against a reference table: every Build* method allocates one fresh element, fills its fields from its arguments exactly as spec/builders.json says (scalars assigned, slices copied), appends it once to its container's current content and touches nothing else; NewHeader/NewMessage set version 2.0, pass their arguments through and or the flag bits 0x20/0x08 exactly under 'response'/'initiator', which the accessors test; the 3GPP helpers emit the TS 24.502 layouts (vendor id 10415, type 3, message ids, spare, 16-bit NAS length, PDU; 5G_QOS_INFO octet list with DCSI/DSCPI flag bits; notify type constants); every narrowing conversion of a length is provably lossless under a guard whose failing edge returns an error."
	r.TrustedBase = append(r.TrustedBase, "go/types and go/ssa (x/tools v0.29.0)", "spec/builders.json (written from the builders' documented meaning and TS 24.502)", "the checker's linear-form engine (truncation proofs) and bit-provenance engine (3GPP layouts)")
	r.NotDecided = append(r.NotDecided, "IP address string parsing (net.ParseIP)", "values of the constructed payloads beyond the field <- argument table")
	bf, err := loadBuilders()
	if err != nil {
		r.undecided(prefix+"spec", "builders.json", "-", err.Error())
		return
	}
	// rule 1+2: builders
	rule := prefix + "builders"
	r.Rule(rule, "each Build* method: one fresh element, fields = arguments as in the reference table, appended exactly once to the container's current content, nothing else stored, element returned iff documented", 20)
	pkg := c.Pkg("message")
	var names []string
	for name := range bf.Builders {
		names = append(names, name)
	}
	sort.Strings(names)
	found := map[string]bool{}
	for _, fn := range c.ModFuncs {
		if fn.Pkg != pkg || fn.Parent() != nil || fn.Signature.Recv() == nil {
			continue
		}
		if !strings.HasPrefix(strings.ToLower(fn.Name()), "build") {
			continue
		}
		spec, ok := bf.Builders[fn.Name()]
		if !ok {
			continue // 3GPP helpers (rule 4) and non-payload builders
		}
		found[fn.Name()] = true
		r.Func(c.FuncName(fn))
		bi := c.builderTable(fn)
		var bad []string
		if bi.Obj == nil {
			r.bad(rule, fn.Name(), c.Pos(fn.Pos()), "no freshly allocated element is appended to the container")
			continue
		}
		if bi.Type != spec.Type {
			bad = append(bad, "builds "+bi.Type+", expected "+spec.Type)
		}
		if bi.Appends != 1 {
			bad = append(bad, fmt.Sprintf("%d append sites to the container, expected 1", bi.Appends))
		}
		bad = append(bad, bi.StoresEx...)
		if bi.Returns != spec.Returns {
			bad = append(bad, fmt.Sprintf("returns the element: %v, expected %v", bi.Returns, spec.Returns))
		}
		// fields
		for fld, want := range spec.Fields {
			got := bi.Fields[fld]
			if !c.originMatches(got, want) {
				bad = append(bad, fmt.Sprintf("%s <- %v, expected %s", fld, got, want))
			}
		}
		for fld, got := range bi.Fields {
			if _, ok := spec.Fields[fld]; !ok {
				// explicit zero/false assignments are harmless
				harmless := true
				for _, g := range got {
					if !(strings.HasPrefix(g, "const:false") || strings.HasPrefix(g, "const:0")) {
						harmless = false
					}
				}
				if !harmless {
					bad = append(bad, fmt.Sprintf("%s <- %v is not in the reference table", fld, got))
				}
			}
		}
		sort.Strings(bad)
		desc := fmt.Sprintf("%s{%s}", bi.Type, describeFields(bi.Fields))
		r.Check(len(bad) == 0, rule, fn.Name(), c.Pos(fn.Pos()), desc, strings.Join(bad, "; "))
	}
	for _, n := range names {
		if !found[n] {
			r.bad(rule, n, "-", "the reference table lists this builder but it does not exist")
		}
	}
	c.containerResetRule(r, prefix+"reset-drops-storage")
	c.builderPathsRule(r, prefix+"builders.every-path")
	c.headerCtorRules(r, prefix, bf)
	c.threeGPPRules(r, prefix, bf)
	c.truncationRules(r, prefix)
	c.builderTotality(r, prefix)
}

// containerResetRule: "each builder ... leaves earlier payloads untouched, for all prior container contents"
// includes the contents a container had before it was emptied: a list handed on (to NewMessage, to a proposal)
// and then Reset must not be overwritten by the next Build* call. A method of a container type that shortens
// the container keeps its backing array unless it stores nil (or a freshly made slice).
func (c *Ctx) containerResetRule(r *Report, rule string) {
	r.Rule(rule, "a method that empties or shortens a container stores nil or a fresh slice, never a re-slicing of the container itself (the next append would overwrite elements a previous holder of the list still sees)", 3)
	pkg := c.Pkg("message")
	for _, fn := range c.ModFuncs {
		if fn.Pkg != pkg || fn.Parent() != nil || fn.Signature.Recv() == nil || len(fn.Params) == 0 {
			continue
		}
		pt, ok := fn.Params[0].Type().(*types.Pointer)
		if !ok {
			continue
		}
		if _, isSlice := pt.Elem().Underlying().(*types.Slice); !isSlice {
			continue
		}
		for _, b := range fn.Blocks {
			for _, ins := range b.Instrs {
				st, ok := ins.(*ssa.Store)
				if !ok || st.Addr != ssa.Value(fn.Params[0]) {
					continue
				}
				key := c.FuncName(fn) + ": " + c.SrcExpr(st)
				v := st.Val
				if ct, ok := v.(*ssa.ChangeType); ok {
					v = ct.X
				}
				switch x := v.(type) {
				case *ssa.Const:
					r.Check(x.Value == nil, rule, key, c.InstrPos(st), "the container becomes nil", "the container is assigned a constant that is not nil")
				case *ssa.Call:
					if ap := isAppendCall(x); ap != nil {
						base := ap.Call.Args[0]
						if ct, ok := base.(*ssa.ChangeType); ok {
							base = ct.X
						}
						u, isLoad := base.(*ssa.UnOp)
						r.Check(isLoad && u.X == ssa.Value(fn.Params[0]) || isNilConst(base) || freshRoot(base), rule, key, c.InstrPos(st), "append onto the container's current content (a builder)", "the container is rebuilt by appending onto something that is neither its current content nor fresh")
						continue
					}
					r.undecided(rule, key, c.InstrPos(st), "the container is assigned the result of a call")
				case *ssa.Slice:
					src := x.X
					if ct, ok := src.(*ssa.ChangeType); ok {
						src = ct.X
					}
					if u, ok := src.(*ssa.UnOp); ok && u.X == ssa.Value(fn.Params[0]) {
						r.bad(rule, key, c.InstrPos(st), "the container is re-sliced in place ("+c.SrcExpr(x)+"): its length shrinks but the backing array stays, so the next Build* call overwrites elements that a message or proposal built from the previous contents still refers to")
						continue
					}
					r.Check(freshRoot(src), rule, key, c.InstrPos(st), "a slice of freshly allocated storage", "the container is assigned a slice of existing storage")
				case *ssa.MakeSlice:
					r.ok(rule, key, c.InstrPos(st), "a freshly made slice", true)
				default:
					r.undecided(rule, key, c.InstrPos(st), "the value assigned to the container is not understood")
				}
			}
		}
	}
}

func describeFields(m map[string][]string) string {
	var ks []string
	for k := range m {
		ks = append(ks, k)
	}
	sort.Strings(ks)
	var parts []string
	for _, k := range ks {
		parts = append(parts, k+" <- "+strings.Join(m[k], " | "))
	}
	return strings.Join(parts, ", ")
}

// originMatches compares extracted origins with the reference entry.
func (c *Ctx) originMatches(got []string, want string) bool {
	switch {
	case strings.HasPrefix(want, "const:1 if "):
		// AttributeFormat: 1 under p4 != nil, 0 (explicit or default) otherwise
		ok1 := false
		for _, g := range got {
			if strings.HasPrefix(g, "const:1 when ") && strings.Contains(g, "p4 != nil") {
				ok1 = true
			}
			if strings.HasPrefix(g, "const:1") && !strings.Contains(g, "p4 != nil") {
				return false
			}
		}
		return ok1
	case strings.HasSuffix(want, " != nil"):
		// AttributePresent: true under pN != nil, false otherwise
		p := strings.TrimSuffix(want, " != nil")
		okT := false
		for _, g := range got {
			if strings.HasPrefix(g, "const:true") {
				if !strings.Contains(g, p+" != nil") {
					return false
				}
				okT = true
			}
		}
		return okT
	}
	if len(got) == 0 {
		return false
	}
	for _, g := range got {
		base := g
		if i := strings.Index(g, " when "); i >= 0 {
			base = g[:i]
			cond := g[i+6:]
			// a conditional assignment is fine when the condition only says the source is present / non-empty
			if !c.condAboutSource(base, cond) {
				return false
			}
		}
		if base != want {
			return false
		}
	}
	return true
}

// condAboutSource: the condition only mentions parameters (presence of optional arguments).
func (c *Ctx) condAboutSource(base, cond string) bool {
	for _, p := range strings.Split(cond, " && ") {
		if !(strings.HasPrefix(p, "p") || strings.HasPrefix(p, "len(p")) {
			return false
		}
	}
	return true
}

// headerCtorRules: C19 rule 3.
func (c *Ctx) headerCtorRules(r *Report, prefix string, bf *buildersFile) {
	rule := prefix + "header-ctor"
	r.Rule(rule, "NewHeader: version 2.0, SPIs/exchange type/message id/next payload/payload bytes = arguments, Flags |= 0x20 exactly under 'response' and |= 0x08 exactly under 'initiator'; IsResponse/IsInitiator test those bits; NewMessage passes its arguments through", 5)
	nh := c.Func("message", "NewHeader")
	nm := c.Func("message", "NewMessage")
	if nh == nil || nm == nil {
		r.undecided(rule, "anchors", "-", "NewHeader / NewMessage do not resolve")
		return
	}
	r.Func(c.FuncName(nh))
	r.Func(c.FuncName(nm))
	hv := func(k string) int64 {
		if v, ok := bf.Header[k].(float64); ok {
			return int64(v)
		}
		return -1
	}
	// composite literal stores
	want := map[string]string{"InitiatorSPI": "p0", "ResponderSPI": "p1", "ExchangeType": "p2", "MajorVersion": fmt.Sprintf("const:%d", hv("major")), "MinorVersion": fmt.Sprintf("const:%d", hv("minor")), "MessageID": "p5", "NextPayload": "p6", "PayloadBytes": "p7"}
	got := map[string][]string{}
	type flagStore struct {
		k     int64
		param int
		ok    bool
		pos   string
	}
	var flags []flagStore
	for _, b := range nh.Blocks {
		for _, ins := range b.Instrs {
			st, ok := ins.(*ssa.Store)
			if !ok {
				continue
			}
			fa, ok := st.Addr.(*ssa.FieldAddr)
			if !ok {
				continue
			}
			fk := strings.TrimPrefix(FieldKey(fa.X.Type(), fa.Field), "field:message.IKEHeader.")
			if fk == "Flags" {
				fs := flagStore{param: -1, pos: c.InstrPos(st)}
				if bo, ok := st.Val.(*ssa.BinOp); ok && bo.Op == token.OR {
					if _, fld, ok := fieldLoad(bo.X); ok && fld == "Flags" {
						if k, ok := bo.Y.(*ssa.Const); ok {
							fs.k, _ = constInt64(k.Value)
							fs.ok = true
						}
					}
				}
				// dominating bool parameter
				for bb := b; bb != nil; bb = bb.Idom() {
					if len(bb.Preds) != 1 {
						continue
					}
					p := bb.Preds[0]
					if iff, ok := p.Instrs[len(p.Instrs)-1].(*ssa.If); ok && p.Succs[0] == bb {
						if pi := paramIndex(nh, iff.Cond); pi >= 0 {
							fs.param = pi
						}
					}
				}
				flags = append(flags, fs)
				continue
			}
			got[fk] = append(got[fk], c.originOf(nh, st.Val, func(ssa.Value) bool { return false }))
		}
	}
	var bad []string
	for k, w := range want {
		if g := got[k]; len(g) != 1 || g[0] != w {
			bad = append(bad, fmt.Sprintf("%s <- %v, expected %s", k, g, w))
		}
	}
	sort.Strings(bad)
	r.Check(len(bad) == 0, rule, "message.NewHeader: fields", c.Pos(nh.Pos()), "version 2.0 and all arguments stored in their fields", strings.Join(bad, "; "))
	// Flags as a function of (response, initiator): the four cases are evaluated on the SSA form (branches on
	// the two parameters followed, the Flags cell and φ-nodes tracked), so "h.Flags |= k under if p" and
	// "flags := 0; if p { flags |= k }; Flags: flags" are the same thing
	okF := true
	var fdetail []string
	for _, cse := range [][2]bool{{false, false}, {true, false}, {false, true}, {true, true}} {
		want := int64(0)
		if cse[0] {
			want |= hv("flag_response")
		}
		if cse[1] {
			want |= hv("flag_initiator")
		}
		got, ok := evalFlagsField(nh, map[int]bool{3: cse[0], 4: cse[1]}, "Flags")
		if !ok || got != want {
			okF = false
			fdetail = append(fdetail, fmt.Sprintf("response=%v initiator=%v gives %#x (evaluated=%v), expected %#x", cse[0], cse[1], got, ok, want))
		}
	}
	_ = flags
	r.Check(okF, rule, "message.NewHeader: flags", c.Pos(nh.Pos()), "Flags = 0x20 iff response (p3) | 0x08 iff initiator (p4), evaluated for the four cases", strings.Join(fdetail, "; "))
	// accessors
	for _, acc := range []struct {
		name string
		bit  int64
	}{{"IsResponse", hv("flag_response")}, {"IsInitiator", hv("flag_initiator")}} {
		fn := c.Method("message", "IKEHeader", acc.name)
		if fn == nil {
			r.undecided(rule, "message.IKEHeader."+acc.name, "-", "anchor does not resolve")
			continue
		}
		okA := false
		for _, b := range fn.Blocks {
			ret, ok := b.Instrs[len(b.Instrs)-1].(*ssa.Return)
			if !ok {
				continue
			}
			leaves := map[ssa.Value]bool{}
			exprLeaves(ret.Results[0], leaves, 0)
			if len(leaves) != 1 {
				continue
			}
			var leaf ssa.Value
			for l := range leaves {
				leaf = l
			}
			if _, fld, ok := fieldLoad(leaf); !ok || fld != "Flags" {
				continue
			}
			all := true
			for x := int64(0); x < 256; x++ {
				v, ok := evalExpr(ret.Results[0], leaf, x, 0)
				if !ok || (v != 0) != (x&acc.bit != 0) {
					all = false
				}
			}
			okA = all
		}
		r.Check(okA, rule, "message.IKEHeader."+acc.name, c.Pos(fn.Pos()), fmt.Sprintf("evaluated for all 256 flag values: true exactly when bit 0x%02x is set", acc.bit), "the accessor does not report exactly the bit the constructor sets")
	}
	// NewMessage
	okM := false
	for _, call := range c.callsTo(nm, nh) {
		okM = true
		for i := 0; i < 6; i++ {
			if paramIndex(nm, call.Call.Args[i]) != i {
				okM = false
			}
		}
		if k, ok := call.Call.Args[6].(*ssa.Const); !ok {
			okM = false
		} else if kv, _ := constInt64(k.Value); kv != 0 {
			okM = false
		}
	}
	// Payloads field = payloads param
	okP := false
	for _, b := range nm.Blocks {
		for _, ins := range b.Instrs {
			if st, ok := ins.(*ssa.Store); ok {
				if fa, ok := st.Addr.(*ssa.FieldAddr); ok && strings.HasSuffix(FieldKey(fa.X.Type(), fa.Field), "IKEMessage.Payloads") {
					okP = paramIndex(nm, st.Val) == 6
				}
			}
		}
	}
	if len(c.callsTo(nm, nh)) == 0 {
		// NewMessage builds the header itself: the same table and the same four flag cases, on its own body
		wantM := map[string]string{"InitiatorSPI": "p0", "ResponderSPI": "p1", "ExchangeType": "p2", "MajorVersion": fmt.Sprintf("const:%d", hv("major")), "MinorVersion": fmt.Sprintf("const:%d", hv("minor")), "MessageID": "p5"}
		gotM := map[string][]string{}
		for _, b := range nm.Blocks {
			for _, ins := range b.Instrs {
				st, ok := ins.(*ssa.Store)
				if !ok {
					continue
				}
				fa, ok := st.Addr.(*ssa.FieldAddr)
				if !ok || !strings.HasPrefix(FieldKey(fa.X.Type(), fa.Field), "field:message.IKEHeader.") {
					continue
				}
				fk := strings.TrimPrefix(FieldKey(fa.X.Type(), fa.Field), "field:message.IKEHeader.")
				if fk == "Flags" {
					continue
				}
				gotM[fk] = append(gotM[fk], c.originOf(nm, st.Val, func(ssa.Value) bool { return false }))
			}
		}
		var badM []string
		for k, w := range wantM {
			if g := gotM[k]; len(g) != 1 || g[0] != w {
				badM = append(badM, fmt.Sprintf("%s <- %v, expected %s", k, g, w))
			}
		}
		for k, g := range gotM {
			if _, ok := wantM[k]; !ok {
				// NextPayload / PayloadBytes: only the zero values NewHeader would have been given
				for _, o := range g {
					if o != "const:0" && o != "const:nil" && o != "nil" {
						badM = append(badM, fmt.Sprintf("%s <- %s, expected the zero value", k, o))
					}
				}
			}
		}
		for _, cse := range [][2]bool{{false, false}, {true, false}, {false, true}, {true, true}} {
			want := int64(0)
			if cse[0] {
				want |= hv("flag_response")
			}
			if cse[1] {
				want |= hv("flag_initiator")
			}
			got, ok := evalFlagsField(nm, map[int]bool{3: cse[0], 4: cse[1]}, "Flags")
			if !ok || got != want {
				badM = append(badM, fmt.Sprintf("response=%v initiator=%v gives flags %#x (evaluated=%v), expected %#x", cse[0], cse[1], got, ok, want))
			}
		}
		sort.Strings(badM)
		r.Check(len(badM) == 0 && okP, rule, "message.NewMessage", c.Pos(nm.Pos()), "builds the header itself: version 2.0, SPIs / exchange type / message id = arguments, flags as NewHeader; Payloads = payloads", "NewMessage builds a header that differs from NewHeader's: "+strings.Join(badM, "; "))
		return
	}
	r.Check(okM && okP, rule, "message.NewMessage", c.Pos(nm.Pos()), "NewHeader(iSPI, rSPI, exchgType, response, initiator, mId, NoNext, nil) and Payloads = payloads", "NewMessage does not pass its arguments through in order")
}

// threeGPPRules: C19 rule 4.
func (c *Ctx) threeGPPRules(r *Report, prefix string, bf *buildersFile) {
	rule := prefix + "3gpp-layouts"
	r.Rule(rule, "EAP-5G Start/NAS, 5G_QOS_INFO and the IPv4 / TCP-port notifies follow TS 24.502: vendor id 10415, vendor type 3, message ids 1/2, spare 0, 16-bit NAS length at [2,4), PDU at 4; QOS_INFO = len | pdu session id | count | QFIs | flags (DCSI 0x02, DSCPI 0x01) | dscp?; notify types 55501/55502/55504/55506", 7)
	cont := "IKEPayloadContainer"
	buildExp := c.Func("message", "BuildEapExpanded")
	buildEAP := c.Method("message", cont, "BuildEAP")
	buildNotif := c.Method("message", cont, "BuildNotification")
	if buildExp == nil || buildEAP == nil || buildNotif == nil {
		r.undecided(rule, "anchors", "-", "BuildEapExpanded / BuildEAP / BuildNotification do not resolve")
		return
	}
	constArg := func(v ssa.Value) (int64, bool) {
		if cv, ok := v.(*ssa.Convert); ok {
			v = cv.X
		}
		k, ok := v.(*ssa.Const)
		if !ok {
			return 0, false
		}
		return constInt64(k.Value)
	}
	// BuildEapExpanded: fields = arguments
	{
		got := map[string]string{}
		for _, b := range buildExp.Blocks {
			for _, ins := range b.Instrs {
				if st, ok := ins.(*ssa.Store); ok {
					if fa, ok := st.Addr.(*ssa.FieldAddr); ok {
						fk := strings.TrimPrefix(FieldKey(fa.X.Type(), fa.Field), "field:eap.EapExpanded.")
						got[fk] = c.originOf(buildExp, st.Val, func(v ssa.Value) bool {
							_, _, ok := fieldLoad(v)
							return ok || isNilConst(v)
						})
					}
				}
			}
		}
		ok := got["VendorID"] == "p0" && got["VendorType"] == "p1" && got["VendorData"] == "copy:p2"
		r.Check(ok, rule, "message.BuildEapExpanded", c.Pos(buildExp.Pos()), "VendorID <- p0, VendorType <- p1, VendorData <- copy of p2", fmt.Sprintf("fields %v", got))
	}
	// EAP-5G Start
	if fn := c.Method("message", cont, "BuildEAP5GStart"); fn != nil {
		r.Func(c.FuncName(fn))
		ok, detail := false, "no BuildEapExpanded call"
		for _, call := range c.callsTo(fn, buildExp) {
			vid, ok1 := constArg(call.Call.Args[0])
			vt, ok2 := constArg(call.Call.Args[1])
			data := c.constBytes(call.Call.Args[2])
			want := []int64{bf.gppMapInt("eap5g_start", "message_id"), bf.gppMapInt("eap5g_start", "spare")}
			ok = ok1 && ok2 && vid == bf.gppInt("vendor_id") && vt == bf.gppInt("vendor_type_eap5g") && len(data) == 2 && data[0] == want[0] && data[1] == want[1]
			detail = fmt.Sprintf("vendor id %d, vendor type %d, data %v", vid, vt, data)
		}
		okReq := false
		for _, call := range c.callsTo(fn, buildEAP) {
			code, ok1 := constArg(call.Call.Args[1])
			okReq = ok1 && code == 1 && paramIndex(fn, call.Call.Args[2]) == 1
		}
		r.Check(ok && okReq, rule, "BuildEAP5GStart", c.Pos(fn.Pos()), "EAP-Request(identifier) / Expanded(10415, 3, [1, 0])", detail)
	} else {
		r.bad(rule, "BuildEAP5GStart", "-", "builder does not exist")
	}
	// EAP-5G NAS: family table
	if fn := c.Method("message", cont, "BuildEAP5GNAS"); fn != nil {
		r.Func(c.FuncName(fn))
		e := c.encodeFamilies(fn)
		var bad []string
		hdrOK, lenOK, segOK := false, false, false
		for _, fm := range e.order {
			for _, row := range mergeByteRows(fm.Rows) {
				if row.Off.isConst() && row.Off.C == 0 && row.Octets == 1 {
					if v, ok := bvConst(row.Val); ok && v == bf.gppMapInt("eap5g_nas", "message_id") {
						hdrOK = true
					}
				}
				if row.Off.isConst() && row.Off.C == 1 {
					if v, ok := bvConst(row.Val); !ok || row.Octets != 1 || v != bf.gppMapInt("eap5g_nas", "spare") {
						bad = append(bad, "the spare octet is written with something other than the spare value")
					}
				}
				if row.Off.isConst() && row.Off.C == bf.gppMapInt("eap5g_nas", "length_at") && int64(row.Octets) == bf.gppMapInt("eap5g_nas", "length_octets") {
					runs, _, _ := runsOf(row.Val)
					if len(runs) == 1 {
						l := e.x.leaves[runs[0].Leaf]
						if call, ok := l.V.(*ssa.Call); ok {
							if bi, ok := call.Call.Value.(*ssa.Builtin); ok && bi.Name() == "len" && paramIndex(fn, call.Call.Args[0]) == 2 {
								lenOK = true
							}
						}
					}
				}
			}
			for _, sg := range fm.Segs {
				if sg.Kind == "param" && sg.Field == "param:"+paramName(fn, 2) && sg.At.isConst() && sg.At.C == bf.gppMapInt("eap5g_nas", "pdu_at") {
					segOK = true
				}
			}
		}
		if !hdrOK {
			bad = append(bad, "octet 0 is not the 5G-NAS message id")
		}
		if !lenOK {
			bad = append(bad, "octets 2-3 do not carry len(nasPDU)")
		}
		if !segOK {
			bad = append(bad, "the NAS PDU does not start at octet 4 of the vendor data")
		}
		okV := false
		for _, call := range c.callsTo(fn, buildExp) {
			vid, ok1 := constArg(call.Call.Args[0])
			vt, ok2 := constArg(call.Call.Args[1])
			okV = ok1 && ok2 && vid == bf.gppInt("vendor_id") && vt == bf.gppInt("vendor_type_eap5g")
		}
		if !okV {
			// the same object written out: &EapExpanded{VendorID: 10415, VendorType: 3, VendorData: <a buffer made here>}
			var vidOK, vtOK, vdOK bool
			for _, b := range fn.Blocks {
				for _, ins := range b.Instrs {
					st, ok := ins.(*ssa.Store)
					if !ok {
						continue
					}
					fa, ok := st.Addr.(*ssa.FieldAddr)
					if !ok {
						continue
					}
					al, ok := fa.X.(*ssa.Alloc)
					if !ok || !strings.HasSuffix(typeKey(al.Type()), "eap.EapExpanded") {
						continue
					}
					switch fieldNameOf(fa) {
					case "VendorID":
						if v, ok := constArg(st.Val); ok && v == bf.gppInt("vendor_id") {
							vidOK = true
						}
					case "VendorType":
						if v, ok := constArg(st.Val); ok && v == bf.gppInt("vendor_type_eap5g") {
							vtOK = true
						}
					case "VendorData":
						if _, isMk := st.Val.(*ssa.MakeSlice); isMk {
							vdOK = true
						}
					}
				}
			}
			okV = vidOK && vtOK && vdOK
		}
		if !okV {
			bad = append(bad, "not wrapped into Expanded(10415, 3, ...)")
		}
		r.Check(len(bad) == 0, rule, "BuildEAP5GNAS", c.Pos(fn.Pos()), "[2][spare 0][BE16 len(nasPDU)][nasPDU] in Expanded(10415, 3)", strings.Join(bad, "; "))
	} else {
		r.bad(rule, "BuildEAP5GNAS", "-", "builder does not exist")
	}
	// 5G_QOS_INFO
	if fn := c.Method("message", cont, "BuildNotify5G_QOS_INFO"); fn != nil {
		r.Func(c.FuncName(fn))
		e := c.encodeFamilies(fn)
		f := e.f
		var bad []string
		var fm *family
		for _, x := range e.order {
			if len(x.Segs) > 0 {
				fm = x
			}
		}
		if fm == nil {
			bad = append(bad, "no notify data buffer found")
		} else {
			// rows
			want := map[string]bool{"len": false, "pdu": false, "count": false, "qfis": false, "flags": false, "dscp": false}
			for _, row := range fm.Rows {
				off := c.symOffset(f, e.x, row.Off)
				runs, _, _ := runsOf(row.Val)
				desc := ""
				if len(runs) == 1 {
					desc = e.x.leaves[runs[0].Leaf].Key
				}
				// octet 0 of a buffer made at its final size: the size it was made with
				sized := false
				if st, ok := row.Ins.(*ssa.Store); ok && off == "0" && !fm.hasAppend() {
					v := st.Val
					if cv, ok := v.(*ssa.Convert); ok {
						v = cv.X
					}
					sized = f.LFOf(v).key() == fm.InitLen.key() && !fm.InitLen.isConst()
				}
				switch {
				case off == "0" && (strings.HasPrefix(desc, "len:") || sized):
					want["len"] = true
				case off == "1" && desc == "param:"+paramName(fn, 1):
					want["pdu"] = true
				case off == "2" && strings.HasPrefix(desc, "len:") && strings.Contains(desc, paramName(fn, 2)):
					want["count"] = true
				case strings.HasPrefix(off, "3 ") && strings.HasPrefix(desc, "phi:"):
					want["flags"] = true
				case strings.HasPrefix(off, "4 ") && desc == "param:"+paramName(fn, 5):
					want["dscp"] = true
				}
			}
			for _, sg := range fm.Segs {
				if sg.Kind == "param" && sg.Field == "param:"+paramName(fn, 2) && sg.At.isConst() && sg.At.C == 3 {
					want["qfis"] = true
				}
			}
			for k, v := range want {
				if !v {
					bad = append(bad, "missing/misplaced element: "+k)
				}
			}
		}
		// flag bits
		flagOK := map[int64]int{}
		for _, b := range fn.Blocks {
			for _, ins := range b.Instrs {
				bo, ok := ins.(*ssa.BinOp)
				if !ok || bo.Op != token.OR {
					continue
				}
				k, ok := bo.Y.(*ssa.Const)
				if !ok {
					continue
				}
				kv, _ := constInt64(k.Value)
				for bb := b; bb != nil; bb = bb.Idom() {
					if len(bb.Preds) != 1 {
						continue
					}
					p := bb.Preds[0]
					if iff, ok := p.Instrs[len(p.Instrs)-1].(*ssa.If); ok && p.Succs[0] == bb {
						if pi := paramIndex(fn, iff.Cond); pi >= 0 {
							flagOK[kv] = pi
						}
					}
				}
			}
		}
		if flagOK[bf.gppInt("qos_flag_dcsi")] != 3 || flagOK[bf.gppInt("qos_flag_dscpi")] != 4 {
			bad = append(bad, fmt.Sprintf("flag bits %v do not match {DCSI 0x02 under isDefault, DSCPI 0x01 under isDSCPSpecified}", flagOK))
		}
		okN := false
		for _, call := range c.callsTo(fn, buildNotif) {
			pid, ok1 := constArg(call.Call.Args[1])
			nt, ok2 := constArg(call.Call.Args[2])
			okN = ok1 && ok2 && pid == 0 && nt == bf.gppInt("notify_5g_qos_info") && isNilConst(call.Call.Args[3])
		}
		if !okN {
			bad = append(bad, "not emitted as Notify(protocol 0, type 55501, no SPI)")
		}
		sort.Strings(bad)
		r.Check(len(bad) == 0, rule, "BuildNotify5G_QOS_INFO", c.Pos(fn.Pos()), "[len][pdu session id][count][QFIs][flags][dscp?] as Notify 55501", strings.Join(bad, "; "))
	} else {
		r.bad(rule, "BuildNotify5G_QOS_INFO", "-", "builder does not exist")
	}
	// address / port notifies
	for _, n := range []struct {
		name, key string
	}{{"BuildNotifyNAS_IP4_ADDRESS", "notify_nas_ip4_address"}, {"BuildNotifyUP_IP4_ADDRESS", "notify_up_ip4_address"}, {"BuildNotifyNAS_TCP_PORT", "notify_nas_tcp_port"}} {
		fn := c.Method("message", cont, n.name)
		if fn == nil {
			r.bad(rule, n.name, "-", "builder does not exist")
			continue
		}
		r.Func(c.FuncName(fn))
		ok, detail := false, "no BuildNotification call"
		for _, call := range c.callsTo(fn, buildNotif) {
			pid, ok1 := constArg(call.Call.Args[1])
			nt, ok2 := constArg(call.Call.Args[2])
			ok = ok1 && ok2 && pid == 0 && nt == bf.gppInt(n.key) && isNilConst(call.Call.Args[3])
			detail = fmt.Sprintf("protocol %d, type %d", pid, nt)
			if n.name == "BuildNotifyNAS_TCP_PORT" {
				// data = BE16(port)
				e := c.encodeFamilies(fn)
				okPort := false
				for _, fm := range e.order {
					for _, row := range fm.Rows {
						if row.Off.isConst() && row.Off.C == 0 && row.Octets == 2 {
							runs, _, _ := runsOf(row.Val)
							if len(runs) == 1 && e.x.leaves[runs[0].Leaf].Key == "param:"+paramName(fn, 1) && runs[0].N == 16 {
								okPort = true
							}
						}
					}
				}
				if !okPort {
					ok = false
					detail += "; data is not the 16-bit big-endian port"
				}
			} else {
				// data = net.ParseIP(param).To4()
				dataArg := call.Call.Args[4]
				if ct, ok := dataArg.(*ssa.ChangeType); ok {
					dataArg = ct.X
				}
				if to4 := staticCallTo(dataArg, "(net.IP).To4"); to4 == nil {
					ok = false
					detail += "; data is not ParseIP(addr).To4()"
				} else if pip := staticCallTo(to4.Call.Args[0], "net.ParseIP"); pip == nil || paramIndex(fn, pip.Call.Args[0]) != 1 {
					ok = false
					detail += "; data is not parsed from the address argument"
				}
			}
		}
		r.Check(ok, rule, n.name, c.Pos(fn.Pos()), "Notify(0, "+fmt.Sprint(bf.gppInt(n.key))+", no SPI, data)", detail)
	}
}

func (bf *buildersFile) gppMapInt(k, sub string) int64 {
	if m, ok := bf.ThreeGPP[k].(map[string]any); ok {
		if v, ok := m[sub].(float64); ok {
			return int64(v)
		}
	}
	return -1
}

// constBytes: v is a []byte composite literal of constants.
func (c *Ctx) constBytes(v ssa.Value) []int64 {
	sl, ok := v.(*ssa.Slice)
	if !ok {
		return nil
	}
	al, ok := sl.X.(*ssa.Alloc)
	if !ok {
		return nil
	}
	n, _ := arrayLen(al.Type())
	out := make([]int64, n)
	for _, ref := range *al.Referrers() {
		ia, ok := ref.(*ssa.IndexAddr)
		if !ok {
			continue
		}
		k, ok := ia.Index.(*ssa.Const)
		if !ok {
			return nil
		}
		idx, _ := constInt64(k.Value)
		for _, r2 := range *ia.Referrers() {
			if st, ok := r2.(*ssa.Store); ok {
				kv, ok := st.Val.(*ssa.Const)
				if !ok {
					return nil
				}
				out[idx], _ = constInt64(kv.Value)
			}
		}
	}
	return out
}

// builderTotality: the other half of "oversize arguments give an error, not a truncated field": arguments that do
// fit are accepted. No failure exit of the 3GPP builders that have one is reachable for arguments inside the
// limits of the layout: a NAS PDU of 1..65535 octets (the 16-bit NAS length), a QFI list that together with the
// fixed octets and the optional DSCP octet fits the one-octet length (0..250 entries with any flags).
func (c *Ctx) builderTotality(r *Report, prefix string) {
	nas := c.Method("message", "IKEPayloadContainer", "BuildEAP5GNAS")
	qos := c.Method("message", "IKEPayloadContainer", "BuildNotify5G_QOS_INFO")
	specs := map[*ssa.Function]*domSpec{}
	var roots []*ssa.Function
	byteSliceParam := func(fn *ssa.Function) string {
		for _, p := range fn.Params[1:] {
			if _, ok := p.Type().Underlying().(*types.Slice); ok {
				return p.Name()
			}
		}
		return ""
	}
	if nas != nil {
		specs[nas] = &domSpec{ExactLenParam: -1, LenDom: map[string][2]int64{byteSliceParam(nas): {1, 65535}}, EnvErr: map[string]string{}}
		roots = append(roots, nas)
	}
	if qos != nil {
		specs[qos] = &domSpec{ExactLenParam: -1, LenDom: map[string][2]int64{byteSliceParam(qos): {0, 250}}, EnvErr: map[string]string{}}
		roots = append(roots, qos)
	}
	c.domainTotalRule(r, prefix+"accepts-what-fits",
		"no failure exit of BuildEAP5GNAS / BuildNotify5G_QOS_INFO is reachable for arguments that fit the layout: a NAS PDU of 1..65535 octets, a QFI list of 0..250 entries with any flags",
		3, specs, roots)
}

// truncationRules: C19 rule 5.
func (c *Ctx) truncationRules(r *Report, prefix string) {
	// what the builders append is observed through its encoding: an oversize argument gives an error there too,
	// not a wrapped length field
	c.guardedNarrowingRule(r, prefix+"encode.guarded-narrowing")
	rule := prefix + "no-truncation"
	r.Rule(rule, "every narrowing integer conversion in the builders (message/build.go) is provably lossless from dominating guards; the guard's failing edge returns an error", 3)
	pkg := c.Pkg("message")
	for _, fn := range c.ModFuncs {
		if fn.Pkg != pkg {
			continue
		}
		pos := c.Fset.Position(fn.Pos())
		if !strings.HasSuffix(pos.Filename, "/build.go") {
			continue
		}
		f := c.NewFA(fn)
		// octet decomposition: byte(v >> 8k) for k = 0..n-1 spells v big-endian; each conversion drops the higher
		// octets on purpose, and nothing is lost as long as v < 2^(8n)
		type octetConv struct {
			cv *ssa.Convert
			k  int64
		}
		decomp := map[ssa.Value][]octetConv{}
		for _, b := range fn.Blocks {
			for _, ins := range b.Instrs {
				cv, ok := ins.(*ssa.Convert)
				if !ok {
					continue
				}
				if to, ok := typeBits(cv.Type()); !ok || to != 8 {
					continue
				}
				base, k := cv.X, int64(0)
				if sh, ok := cv.X.(*ssa.BinOp); ok && sh.Op == token.SHR {
					if kc, ok := sh.Y.(*ssa.Const); ok {
						if kv, ok := constInt64(kc.Value); ok && kv%8 == 0 {
							base, k = sh.X, kv/8
						}
					}
				}
				decomp[base] = append(decomp[base], octetConv{cv, k})
			}
		}
		partOfDecomposition := map[*ssa.Convert]string{}
		for base, ocs := range decomp {
			if len(ocs) < 2 {
				continue
			}
			have := map[int64]bool{}
			for _, oc := range ocs {
				have[oc.k] = true
			}
			n := int64(0)
			for have[n] {
				n++
			}
			if int(n) != len(have) || n > 7 {
				continue
			}
			for _, oc := range ocs {
				facts := f.FactsAt(oc.cv.Block())
				l := f.LFOf(base)
				okLo, _ := f.Prove(l, facts)
				okHi, _ := f.Prove(konst(int64(1)<<(8*uint(n))-1).add(l, -1), facts)
				if okLo && okHi {
					partOfDecomposition[oc.cv] = fmt.Sprintf("octet %d of the %d-octet big-endian spelling of a value below 2^%d", oc.k, n, 8*n)
				}
			}
		}
		for _, b := range fn.Blocks {
			for _, ins := range b.Instrs {
				cv, ok := ins.(*ssa.Convert)
				if !ok {
					continue
				}
				from, ok1 := typeBits(cv.X.Type())
				to, ok2 := typeBits(cv.Type())
				if !ok1 || !ok2 || to >= from {
					continue
				}
				if _, isConst := cv.X.(*ssa.Const); isConst {
					continue
				}
				if why, ok := partOfDecomposition[cv]; ok {
					r.ok(rule, fmt.Sprintf("%s: %s", c.FuncName(fn), c.SrcExpr(cv)), c.InstrPos(cv), why, true)
					continue
				}
				lo, hi, _ := f.typeRange(cv.Type())
				facts := f.FactsAt(b)
				l := f.LFOf(cv.X)
				ok3, _ := f.Prove(l.add(konst(lo), -1), facts)
				ok4, _ := f.Prove(konst(hi).add(l, -1), facts)
				key := fmt.Sprintf("%s: %s", c.FuncName(fn), c.SrcExpr(cv))
				blo, bhi := f.bounds(l, f.refine(facts))
				r.Check(ok3 && ok4, rule, key, c.InstrPos(cv), fmt.Sprintf("operand in [%d, %d] fits %s", blo, bhi, cv.Type()), fmt.Sprintf("the operand may lie in [%d, %s] and be truncated to %s", blo, infStr(bhi), cv.Type()))
			}
		}
	}
}

// evalFlagsField runs fn abstractly with the boolean parameters bound (index -> value) and returns the
// integer last stored into the named field of the struct the function builds, on the path to its return.
// Only what a constructor needs is interpreted: constants, | & ^ + on integers, φ-nodes, branches on the
// bound parameters (and their negation), loads/stores of the field. Anything else makes it give up.
func evalFlagsField(fn *ssa.Function, params map[int]bool, field string) (int64, bool) {
	val := map[ssa.Value]int64{}
	known := map[ssa.Value]bool{}
	var mem int64
	memSet := false
	isField := func(a ssa.Value) bool {
		fa, ok := a.(*ssa.FieldAddr)
		return ok && strings.HasSuffix(FieldKey(fa.X.Type(), fa.Field), "."+field)
	}
	var eval func(v ssa.Value) (int64, bool)
	eval = func(v ssa.Value) (int64, bool) {
		if known[v] {
			return val[v], true
		}
		switch x := v.(type) {
		case *ssa.Const:
			if x.Value == nil {
				return 0, true
			}
			if x.Value.Kind() == constant.Bool {
				if constant.BoolVal(x.Value) {
					return 1, true
				}
				return 0, true
			}
			return constInt64(x.Value)
		case *ssa.Parameter:
			if pi := paramIndex(fn, x); pi >= 0 {
				if b, ok := params[pi]; ok {
					if b {
						return 1, true
					}
					return 0, true
				}
			}
		case *ssa.Convert:
			return eval(x.X)
		case *ssa.ChangeType:
			return eval(x.X)
		}
		return 0, false
	}
	b := fn.Blocks[0]
	var prev *ssa.BasicBlock
	for steps := 0; steps < 200; steps++ {
		for _, ins := range b.Instrs {
			switch x := ins.(type) {
			case *ssa.Phi:
				for i, p := range b.Preds {
					if p == prev {
						if v, ok := eval(x.Edges[i]); ok {
							val[x], known[x] = v, true
						}
					}
				}
			case *ssa.BinOp:
				a, ok1 := eval(x.X)
				c2, ok2 := eval(x.Y)
				if ok1 && ok2 {
					ok := true
					var rv int64
					switch x.Op {
					case token.OR:
						rv = a | c2
					case token.AND:
						rv = a & c2
					case token.XOR:
						rv = a ^ c2
					case token.ADD:
						rv = a + c2
					case token.EQL:
						if a == c2 {
							rv = 1
						}
					case token.NEQ:
						if a != c2 {
							rv = 1
						}
					default:
						ok = false
					}
					if ok {
						val[x], known[x] = rv, true
					}
				}
			case *ssa.UnOp:
				if x.Op == token.MUL && isField(x.X) {
					if memSet {
						val[x], known[x] = mem, true
					} else {
						val[x], known[x] = 0, true // zero value of a fresh struct
					}
				} else if x.Op == token.NOT {
					if a, ok := eval(x.X); ok {
						val[x], known[x] = 1-a, true
					}
				}
			case *ssa.Store:
				if isField(x.Addr) {
					v, ok := eval(x.Val)
					if !ok {
						return 0, false
					}
					mem, memSet = v, true
				}
			case *ssa.If:
				cv, ok := eval(x.Cond)
				if !ok {
					return 0, false
				}
				prev = b
				if cv != 0 {
					b = b.Succs[0]
				} else {
					b = b.Succs[1]
				}
			case *ssa.Jump:
				prev = b
				b = b.Succs[0]
			case *ssa.Return:
				return mem, true
			}
		}
		if len(b.Instrs) == 0 {
			return 0, false
		}
	}
	return 0, false
}

// paramName: the current name of parameter i (receiver = 0) of fn; rules refer to parameters by position.
func paramName(fn *ssa.Function, i int) string {
	if i < len(fn.Params) {
		return fn.Params[i].Name()
	}
	return "?"
}
