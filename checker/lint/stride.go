package lint

import (
	"fmt"
	"go/token"
	"go/types"
	"sort"
	"strconv"
	"strings"

	"ikeverif/checker/xt/ssa"
)

// Record stride: a decoder that walks a list of records moves from one element to the next by exactly the
// element's extent in the reference layout (its own length slot, or the end of its last octet string, or
// its fixed size). An encoder/decoder pair that agrees on some other stride (fill octets between elements,
// alignment) still round-trips with itself, so the inclusion rules see nothing wrong on the decoder side;
// against the reference layout every element after the first is read from the wrong octets.
//
// The stride is read off the walker: the loop-carried byte slice (cursor = cursor[k:]) or the loop-carried
// offset (offset += k; element = b[offset:]). k is taken on every path into the back edge (φ-merged
// alternatives are expanded), pinned by the facts that dominate that path (a decoder that insists on
// `length == 16` and then advances by 16 advances by the length slot).

// specExtent: the extent of one element of record rec in the reference layout, in the vocabulary of
// normOffset ("0 +1*slot(2,2)", "4 +1*slot(2,2)", "4"); lenOff/lenOct name the record-length slot if any.
func specExtent(spec *specRecord) (ext string, lenOff int64, lenOct int, ok bool) {
	for _, l := range spec.Lengths {
		if l.Of == "len(record)" {
			return fmt.Sprintf("0 +1*slot(%d,%d)", l.Off, l.Octets), l.Off, l.Octets, true
		}
	}
	var sym []string
	var max int64
	for _, f := range spec.Fields {
		if e := f.Off + int64(f.Octets); e > max {
			max = e
		}
	}
	for _, l := range spec.Lengths {
		if e := l.Off + int64(l.Octets); e > max {
			max = e
		}
	}
	for _, s := range spec.Segments {
		if s.Hi == "end" || s.Hi == "" {
			return "", 0, 0, false // the record runs to the end of its container: not a list element
		}
		if strings.Contains(s.Hi, "slot") {
			sym = append(sym, canonTerms(s.Hi))
			continue
		}
		var k int64
		if _, err := fmt.Sscan(s.Hi, &k); err == nil && k > max {
			max = k
		}
	}
	sym = uniqStrings(sym)
	switch len(sym) {
	case 0:
		return fmt.Sprint(max), 0, 0, true
	case 1:
		return sym[0], 0, 0, true
	}
	return "", 0, 0, false
}

func (w *slotWorld) strideRule(r *Report, rule string) {
	r.Rule(rule, "a decoder that walks a list advances from one element to the next by exactly the element's extent in the reference layout (its record-length slot, the end of its last octet string, or its fixed size), on every path round the loop", 6)
	c := w.c
	dec, _, _ := c.codecFuncs()
	seenFn := map[*ssa.Function]bool{}
	for _, fn := range c.Reachable(dec...) {
		if seenFn[fn] || fn.Blocks == nil {
			continue
		}
		seenFn[fn] = true
		loops := naturalLoops(fn)
		if len(loops) == 0 {
			continue
		}
		fname := c.FuncName(fn)
		var f *FA
		var x *bvCtx
		setup := func() {
			if f == nil {
				f = c.NewFA(fn)
				x = newBVCtx(c, f)
			}
		}
		// the record decoded relative to a cursor name in this function
		recordOf := func(rk string) []string {
			var out []string
			for rec, t := range w.st.Dec {
				for _, b := range t.Bits {
					if b.Root == rk && b.Fn == fname {
						out = append(out, rec)
						break
					}
				}
			}
			sort.Strings(out)
			return out
		}
		// the SSA value that reads the slot (off, oct) relative to root
		slotValues := func(root ssa.Value, off int64, oct int) []ssa.Value {
			var out []ssa.Value
			for _, b := range fn.Blocks {
				for _, ins := range b.Instrs {
					v, ok := ins.(ssa.Value)
					if !ok {
						continue
					}
					id, ok := x.wireLeafOf(v)
					if !ok {
						// the same octets assembled by shifts and ors
						id, ok = x.wireGroupOf(v)
					}
					if !ok {
						continue
					}
					l := x.leaves[id]
					if l.Root == root && l.Off.isConst() && l.Off.C == off && l.Octets == oct {
						out = append(out, v)
					}
				}
			}
			return out
		}
		check := func(rec string, rootVal ssa.Value, step LF, at *ssa.BasicBlock, pos string) {
			spec := w.ws.Records[rec]
			key := fmt.Sprintf("%s: walker of %s, path through block %d", fname, rec, at.Index)
			if spec == nil {
				return
			}
			ext, lenOff, lenOct, ok := specExtent(spec)
			if !ok {
				return
			}
			facts := f.FactsAt(at)
			got := normOffset(c.symOffset(f, x, f.pin(step, facts)), nil)
			if got == canonTerms(ext) {
				r.ok(rule, key, pos, "advances by "+got+" = the element's extent in "+spec.Source, true)
				return
			}
			// the decoder insists on a particular value of the length slot and advances by that value
			if lenOct > 0 {
				for _, sv := range slotValues(rootVal, lenOff, lenOct) {
					if b := sv.(ssa.Instruction).Block(); b != at && !b.Dominates(at) {
						continue
					}
					d := f.pin(step.add(f.LFOf(sv), -1), facts)
					if d.isConst() && d.C == 0 {
						r.ok(rule, key, pos, fmt.Sprintf("advances by %s, which the dominating tests make equal to the record-length slot(%d,%d) (%s)", got, lenOff, lenOct, spec.Source), true)
						return
					}
				}
			}
			r.bad(rule, key, pos, fmt.Sprintf("the walker advances by %s per element, the reference layout (%s) makes an element %s octets long: every element after the first is read from the wrong octets", got, spec.Source, ext))
		}
		for _, li := range loops {
			for _, ins := range li.header.Instrs {
				p, ok := ins.(*ssa.Phi)
				if !ok {
					break
				}
				isBack := func(i int) bool {
					for _, bk := range li.backs {
						if li.header.Preds[i] == bk {
							return true
						}
					}
					return false
				}
				switch {
				case isByteSlice(p.Type()):
					setup()
					recs := recordOf(x.rootKey(p))
					for _, rec := range recs {
						for i, e := range p.Edges {
							if !isBack(i) {
								continue
							}
							for _, alt := range phiAlternatives(e, li.header.Preds[i], 0) {
								root, lo, _, _ := f.relSpan(alt.val)
								pos := c.Pos(p.Pos())
								if iv, ok := alt.val.(ssa.Instruction); ok {
									pos = c.InstrPos(iv)
								}
								if root != ssa.Value(p) {
									if alt.val == ssa.Value(p) {
										continue // a path that does not consume an element (continue without advance is a termination matter)
									}
									r.undecided(rule, fmt.Sprintf("%s: walker of %s, path through block %d", fname, rec, alt.blk.Index), pos, "the next cursor is not a re-slice of the current one")
									continue
								}
								check(rec, p, lo, alt.blk, pos)
							}
						}
					}
				case isIntType(p.Type()):
					// offset form: some b[p:] is the element
					var elem *ssa.Slice
					for _, ref := range *p.Referrers() {
						if sl, ok := ref.(*ssa.Slice); ok && isOffsetCursor(sl) && sl.Low == ssa.Value(p) {
							elem = sl
						}
					}
					if elem == nil {
						continue
					}
					setup()
					for _, rec := range recordOf(x.rootKey(elem)) {
						for i, e := range p.Edges {
							if !isBack(i) {
								continue
							}
							for _, alt := range phiAlternatives(e, li.header.Preds[i], 0) {
								pos := c.Pos(p.Pos())
								if iv, ok := alt.val.(ssa.Instruction); ok {
									pos = c.InstrPos(iv)
								}
								step := f.LFOf(alt.val).add(f.LFOf(p), -1)
								check(rec, elem, step, alt.blk, pos)
							}
						}
					}
				}
			}
		}
	}
	// indexed walkers (element i at base + i*stride): the stride recorded by the extractor
	for rec, t := range w.st.Dec {
		if !strings.HasSuffix(rec, "[]") {
			continue
		}
		spec := w.ws.Records[rec]
		if spec == nil {
			continue
		}
		ext, _, _, ok := specExtent(spec)
		if !ok {
			continue
		}
		for _, cu := range t.Cursors {
			key := "indexed walker of " + rec
			if cu.Step == ext {
				r.ok(rule, key, "-", "element i at "+cu.InitLo+" + i*"+cu.Step+" ("+spec.Source+")", true)
			} else {
				r.bad(rule, key, "-", fmt.Sprintf("elements are %s octets apart, the reference layout (%s) makes them %s octets long", cu.Step, spec.Source, ext))
			}
		}
	}
}

// listStrideAgreement: an encoder that makes every element of a list as long as a size field of the record says
// (Delete: SPI Size) and a decoder that reads the elements at a fixed stride agree only when that field equals
// the stride. A decoder that accepts other values of the field reads the elements from the wrong octets, and
// what it hands back does not survive a second encode/decode. The decoder must refuse (an error-only exit)
// a size field different from its stride, at least whenever the list is not empty.
func (w *slotWorld) listStrideAgreement(r *Report, rule string) {
	c := w.c
	r.Rule(rule, "where the encoder sizes list elements by a field of the record and the decoder reads them at a fixed stride, the decoder refuses values of that field other than its stride (for a non-empty list)", 1)
	for _, rec := range w.recs {
		if !strings.HasSuffix(rec, "[]") {
			continue
		}
		et := w.st.Enc[rec]
		parent := strings.TrimSuffix(rec, "[]")
		dt, pt := w.st.Dec[rec], w.st.Dec[parent]
		if et == nil || dt == nil || pt == nil || len(et.ElemLen) == 0 || len(pt.Funcs) == 0 {
			continue
		}
		// the decoder's stride: the extent of the element's fields
		stride := int64(0)
		for _, b := range dt.Bits {
			if b.W.Off+1 > stride {
				stride = b.W.Off + 1
			}
		}
		for _, el := range et.ElemLen {
			key := "decode " + parent + ": elements of " + fmt.Sprint(stride) + " octets, encoder makes them " + el + " long"
			if n, err := strconv.ParseInt(el, 10, 64); err == nil {
				r.Check(n == stride, rule, key, "-", "both sides use the same constant element size", "the encoder's element size differs from the decoder's stride")
				continue
			}
			field := strings.TrimPrefix(el, "0 +1*")
			if field == el || !strings.HasPrefix(field, parent+".") {
				r.undecided(rule, key, "-", "the element size is not a constant and not a single field of the record")
				continue
			}
			fname := strings.TrimPrefix(field, parent+".")
			// where the decoder reads that field from
			off, octets := int64(-1), 0
			for _, b := range pt.Bits {
				if b.Field == field || b.Field == fname {
					if off < 0 || b.W.Off < off {
						off = b.W.Off
					}
					octets = 1
				}
			}
			if off < 0 {
				r.undecided(rule, key, "-", "the decoder does not store "+field)
				continue
			}
			_ = octets
			var fn *ssa.Function
			for _, f2 := range c.ModFuncs {
				if c.FuncName(f2) == pt.Funcs[0] {
					fn = f2
				}
			}
			if fn == nil {
				r.undecided(rule, key, "-", "decoder function does not resolve")
				continue
			}
			f := c.NewFA(fn)
			x := newBVCtx(c, f)
			leafAt := func(v ssa.Value) (int64, bool) {
				for i := 0; i < 3; i++ {
					if cv, ok := v.(*ssa.Convert); ok {
						v = cv.X
						continue
					}
					break
				}
				id, ok := x.wireLeafOf(v)
				if !ok {
					id, ok = x.wireGroupOf(v)
				}
				if !ok || !x.leaves[id].Off.isConst() {
					return 0, false
				}
				return x.leaves[id].Off.C, true
			}
			// an If comparing a wire leaf with a constant: (leaf offset, constant, op, block)
			type test struct {
				off, k int64
				op     token.Token
				blk    *ssa.BasicBlock
			}
			testOf := func(b *ssa.BasicBlock) (test, bool) {
				iff, ok := b.Instrs[len(b.Instrs)-1].(*ssa.If)
				if !ok {
					return test{}, false
				}
				bo, ok := iff.Cond.(*ssa.BinOp)
				if !ok {
					return test{}, false
				}
				k, ok := bo.Y.(*ssa.Const)
				if !ok || k.Value == nil {
					return test{}, false
				}
				kv, ok := constInt64(k.Value)
				if !ok {
					return test{}, false
				}
				o, ok := leafAt(bo.X)
				if !ok {
					return test{}, false
				}
				return test{o, kv, bo.Op, b}, true
			}
			// edge of test t on which "leaf != k" holds (size) / "leaf != 0" holds (count); nil if not of that kind
			neEdge := func(t test, k int64) (ne, eq *ssa.BasicBlock) {
				if t.k != k {
					if k == 0 && t.k == 0 {
						return nil, nil
					}
					return nil, nil
				}
				switch t.op {
				case token.NEQ:
					return t.blk.Succs[0], t.blk.Succs[1]
				case token.EQL:
					return t.blk.Succs[1], t.blk.Succs[0]
				case token.GTR:
					if k == 0 {
						return t.blk.Succs[0], t.blk.Succs[1] // unsigned > 0
					}
				}
				return nil, nil
			}
			good := ""
			for _, b := range fn.Blocks {
				t, ok := testOf(b)
				if !ok {
					continue
				}
				if t.off == off {
					ne, _ := neEdge(t, stride)
					if ne == nil {
						continue
					}
					if c.onlyErrorExit(ne) {
						good = "a " + field + " other than " + fmt.Sprint(stride) + " is refused (" + c.InstrPos(b.Instrs[len(b.Instrs)-1]) + ")"
						break
					}
					// ... unless the list is empty: the != edge leads to a test of another field against 0 whose
					// non-zero edge is error-only
					if t2, ok := testOf(ne); ok && t2.off != off {
						if nz, _ := neEdge(t2, 0); nz != nil && c.onlyErrorExit(nz) {
							good = "a " + field + " other than " + fmt.Sprint(stride) + " is refused when the count is not zero (" + c.InstrPos(b.Instrs[len(b.Instrs)-1]) + ")"
							break
						}
					}
					continue
				}
				// count first: its non-zero edge leads to the size test whose != edge is error-only
				if nz, _ := neEdge(t, 0); nz != nil {
					if t2, ok := testOf(nz); ok && t2.off == off {
						if ne, _ := neEdge(t2, stride); ne != nil && c.onlyErrorExit(ne) {
							good = "a " + field + " other than " + fmt.Sprint(stride) + " is refused when the count is not zero (" + c.InstrPos(nz.Instrs[len(nz.Instrs)-1]) + ")"
							break
						}
					}
				}
			}
			r.Check(good != "", rule, key, c.Pos(fn.Pos()), good, "the decoder accepts every value of "+field+" but reads the elements "+fmt.Sprint(stride)+" octets apart, while the encoder writes them "+field+" octets apart: a list with "+field+" != "+fmt.Sprint(stride)+" that decodes and encodes again does not decode to the same message")
		}
	}
}

func isIntType(t types.Type) bool {
	b, ok := t.Underlying().(*types.Basic)
	return ok && b.Info()&types.IsInteger != 0
}

// elementFreshRule: a decoder that collects pointers to decoded elements (append(list, p), m[k] = p) inside
// a loop collects, in every iteration, a pointer to an object allocated in that iteration. A pointer to an
// object that outlives the iteration (a variable declared before the loop) makes every collected element
// the same object: a list of n elements decodes to n copies of the last one.
func (c *Ctx) elementFreshRule(r *Report, rule string) {
	r.Rule(rule, "every pointer a decoder collects inside a loop (list append, map entry) points to an object allocated in the same iteration, so the elements of a decoded list are distinct objects", 6)
	dec, _, _ := c.codecFuncs()
	if fn := c.Method("eap", "EapAkaPrime", "Unmarshal"); fn != nil {
		dec = append(dec, fn)
	}
	ruleKept := strings.TrimSuffix(rule, "element-fresh") + "element-kept"
	r.Rule(ruleKept, "an object a decoder allocates for a list element inside a loop is collected on every path of that iteration that does not end in an error; a path may leave it out only by a comparison of decoded data with a constant (a type code the decoder does not file), never depending on what was collected before or on another non-constant comparison", 6)
	seen := map[*ssa.Function]bool{}
	for _, fn := range c.Reachable(dec...) {
		if seen[fn] || fn.Blocks == nil {
			continue
		}
		seen[fn] = true
		loops := naturalLoops(fn)
		if len(loops) == 0 {
			continue
		}
		// origin (allocation or allocating call of this iteration) -> the instructions that collect it
		collectors := map[ssa.Instruction][]ssa.Instruction{}
		collLoop := map[ssa.Instruction]*loopInfo{}
		var origins []ssa.Instruction
		var leaves func(v ssa.Value, li *loopInfo, depth int, out *[]ssa.Instruction)
		leaves = func(v ssa.Value, li *loopInfo, depth int, out *[]ssa.Instruction) {
			if depth > 6 {
				return
			}
			switch x := v.(type) {
			case *ssa.Alloc:
				if li.body[x.Block()] {
					*out = append(*out, x)
				}
			case *ssa.MakeInterface:
				leaves(x.X, li, depth+1, out)
			case *ssa.ChangeType:
				leaves(x.X, li, depth+1, out)
			case *ssa.ChangeInterface:
				leaves(x.X, li, depth+1, out)
			case *ssa.Phi:
				if li.body[x.Block()] && x.Block() != li.header {
					for _, e := range x.Edges {
						leaves(e, li, depth+1, out)
					}
				}
			case *ssa.Call:
				if li.body[x.Block()] {
					*out = append(*out, x)
				}
			case *ssa.Extract:
				leaves(x.Tuple, li, depth+1, out)
			}
		}
		innermost := func(b *ssa.BasicBlock) *loopInfo {
			var best *loopInfo
			for _, li := range loops {
				if li.body[b] && (best == nil || len(li.body) < len(best.body)) {
					best = li
				}
			}
			return best
		}
		// fresh(v, li): v is allocated inside li on every path
		var fresh func(v ssa.Value, li *loopInfo, depth int) (bool, string)
		fresh = func(v ssa.Value, li *loopInfo, depth int) (bool, string) {
			if depth > 6 {
				return false, "too deep"
			}
			switch x := v.(type) {
			case *ssa.Alloc:
				if li.body[x.Block()] {
					return true, ""
				}
				return false, "the object (" + c.InstrPos(x) + ") is allocated outside the loop and shared by all iterations"
			case *ssa.MakeInterface:
				return fresh(x.X, li, depth+1)
			case *ssa.ChangeType:
				return fresh(x.X, li, depth+1)
			case *ssa.ChangeInterface:
				return fresh(x.X, li, depth+1)
			case *ssa.Phi:
				if !li.body[x.Block()] || x.Block() == li.header {
					return false, "the pointer is carried into the iteration by a φ-node at " + c.InstrPos(x)
				}
				for _, e := range x.Edges {
					if ok, why := fresh(e, li, depth+1); !ok {
						return false, why
					}
				}
				return true, ""
			case *ssa.Call:
				if !li.body[x.Block()] {
					return false, "the pointer is obtained before the loop"
				}
				g := x.Call.StaticCallee()
				if g == nil || g.Blocks == nil {
					return false, "the pointer comes from a call that is not resolved to a module function"
				}
				// the callee returns a pointer it allocates itself on every return
				for _, b := range g.Blocks {
					ret, ok := b.Instrs[len(b.Instrs)-1].(*ssa.Return)
					if !ok {
						continue
					}
					for _, rv := range ret.Results {
						if !isPointerLike(rv.Type()) {
							continue
						}
						if k, ok := rv.(*ssa.Const); ok && k.Value == nil {
							continue
						}
						w := rv
						if mi, ok := w.(*ssa.MakeInterface); ok {
							w = mi.X
						}
						if _, ok := w.(*ssa.Alloc); !ok {
							return false, "the pointer comes from " + c.FuncName(g) + ", which does not return a fresh object on every path"
						}
					}
				}
				return true, ""
			case *ssa.Extract:
				return fresh(x.Tuple, li, depth+1)
			}
			return false, "the pointer's origin (" + v.Name() + ") is not an allocation of this iteration"
		}
		for _, b := range fn.Blocks {
			li := innermost(b)
			if li == nil {
				continue
			}
			for _, ins := range b.Instrs {
				var elems []ssa.Value
				what := ""
				switch x := ins.(type) {
				case *ssa.Call:
					ap := isAppendCall(x)
					if ap == nil {
						continue
					}
					st, ok := ap.Type().Underlying().(*types.Slice)
					if !ok || !isPointerLike(st.Elem()) {
						continue
					}
					// only collections that live in the decoded message (a field or a loop-carried list of it)
					sl, ok := ap.Call.Args[1].(*ssa.Slice)
					if !ok {
						continue
					}
					al, ok := sl.X.(*ssa.Alloc)
					if !ok {
						continue
					}
					for _, ref := range *al.Referrers() {
						if ia, ok := ref.(*ssa.IndexAddr); ok {
							for _, r2 := range *ia.Referrers() {
								if s, ok := r2.(*ssa.Store); ok && s.Addr == ssa.Value(ia) {
									elems = append(elems, s.Val)
								}
							}
						}
					}
					what = "append"
				case *ssa.MapUpdate:
					if !isPointerLike(x.Value.Type()) {
						continue
					}
					elems = []ssa.Value{x.Value}
					what = "map entry"
				default:
					continue
				}
				for _, e := range elems {
					if k, ok := e.(*ssa.Const); ok && k.Value == nil {
						continue
					}
					key := fmt.Sprintf("%s: %s of %s", c.FuncName(fn), what, c.SrcExpr(ins))
					if ok, why := fresh(e, li, 0); ok {
						var ls []ssa.Instruction
						leaves(e, li, 0, &ls)
						for _, o := range ls {
							if _, known := collectors[o]; !known {
								origins = append(origins, o)
							}
							collectors[o] = append(collectors[o], ins)
							collLoop[o] = li
						}
						r.ok(rule, key, c.InstrPos(ins), "the collected pointer is allocated in the same iteration", true)
					} else {
						r.bad(rule, key, c.InstrPos(ins), "a decoded list would hold the same object several times: "+why)
					}
				}
			}
		}
		// element-kept: from the allocation, every path of the iteration collects the object, ends in an error,
		// or leaves it out by a comparison with a constant
		for _, o := range origins {
			li := collLoop[o]
			S := map[*ssa.BasicBlock]bool{}
			for _, ci := range collectors[o] {
				S[ci.Block()] = true
			}
			// blocks of the loop body from which a collecting block can be reached without re-entering the header
			// (backward closure over predecessor edges; inner loops are cycles, so no memoised recursion)
			canReach := map[*ssa.BasicBlock]bool{}
			var work []*ssa.BasicBlock
			for b := range S {
				canReach[b] = true
				work = append(work, b)
			}
			for len(work) > 0 {
				b := work[len(work)-1]
				work = work[:len(work)-1]
				if b == li.header {
					continue // paths into the header from the back edge belong to the next iteration
				}
				for _, p := range b.Preds {
					if !li.body[p] || canReach[p] {
						continue
					}
					canReach[p] = true
					work = append(work, p)
				}
			}
			reachS := func(b *ssa.BasicBlock) bool { return canReach[b] }
			key := fmt.Sprintf("%s: element allocated at %s", c.FuncName(fn), c.SrcExpr(o))
			if S[o.Block()] {
				// collected in the block that allocates it: only when the collecting instruction comes later
				r.ok(ruleKept, key, c.InstrPos(o), "collected in the block that allocates it", true)
				continue
			}
			if !reachS(o.Block()) {
				r.ok(ruleKept, key, c.InstrPos(o), "collected through another value of the same iteration", false)
				continue
			}
			bad := ""
			visited := map[*ssa.BasicBlock]bool{}
			st := []*ssa.BasicBlock{o.Block()}
			for len(st) > 0 && bad == "" {
				b := st[len(st)-1]
				st = st[:len(st)-1]
				if visited[b] || S[b] {
					continue
				}
				visited[b] = true
				for k, s2 := range b.Succs {
					if S[s2] {
						continue
					}
					leavesLoop := s2 == li.header || !li.body[s2]
					if !leavesLoop && reachS(s2) {
						st = append(st, s2)
						continue
					}
					// s2 cannot collect the object any more in this iteration
					if !leavesLoop && c.onlyErrorExit(s2) || leavesLoop && s2 != li.header && c.onlyErrorExit(s2) {
						continue
					}
					iff, isIf := b.Instrs[len(b.Instrs)-1].(*ssa.If)
					if !isIf {
						bad = "the iteration can end without collecting the object (block " + fmt.Sprint(b.Index) + ")"
						break
					}
					if why := constComparison(iff.Cond, 0); why != "" {
						bad = fmt.Sprintf("the object is left out on the %v side of `%s` at %s, %s", k == 0, c.SrcExpr(iff), c.InstrPos(iff), why)
						break
					}
				}
			}
			if bad == "" {
				r.ok(ruleKept, key, c.InstrPos(o), "every path of the iteration collects the object, fails, or leaves it out by a comparison with a constant", true)
			} else {
				r.bad(ruleKept, key, c.InstrPos(o), bad+": a decoded list can lack an element the datagram carries")
			}
		}
	}
}

// constComparison: cond is a comparison (or a bit test) of one computed value with a constant, or a negation /
// conjunction of such; "" if so, else what was found.
func constComparison(v ssa.Value, depth int) string {
	if depth > 4 {
		return "which is too deep to classify"
	}
	switch x := v.(type) {
	case *ssa.BinOp:
		switch x.Op {
		case token.EQL, token.NEQ, token.LSS, token.LEQ, token.GTR, token.GEQ:
			_, kx := x.X.(*ssa.Const)
			_, ky := x.Y.(*ssa.Const)
			if kx || ky {
				return ""
			}
			return "a comparison of two computed values"
		case token.AND, token.OR, token.LAND, token.LOR:
			if w := constComparison(x.X, depth+1); w != "" {
				return w
			}
			return constComparison(x.Y, depth+1)
		}
	case *ssa.UnOp:
		if x.Op == token.NOT {
			return constComparison(x.X, depth+1)
		}
	case *ssa.Phi:
		for _, e := range x.Edges {
			if _, isK := e.(*ssa.Const); isK {
				continue
			}
			if w := constComparison(e, depth+1); w != "" {
				return w
			}
		}
		return ""
	case *ssa.Extract:
		// the ok of a comma-ok look-up or assertion
		return "a run-time look-up result"
	}
	return "which is not a comparison with a constant"
}

// counterNoWrapRule: a loop counter of a narrow integer type in a decoder (or encoder) of the plain codec is never
// stepped past the end of its type: at the step `c' = c +/- k` the guards that dominate it keep the ideal value
// inside the type's range. A list walked by `for i := uint8(1); i <= count; i++` runs for ever (until the input
// runs out) when the count octet is 255, so a list of 255 elements that the encoder emits does not decode.
func (c *Ctx) counterNoWrapRule(r *Report, rule string) {
	r.Rule(rule, "every loop counter of a narrow integer type in the codec functions keeps its ideal value inside the type's range at its step (no wrap-around for any value of the count it is compared with)", 0)
	dec, enc, _ := c.codecFuncs()
	if fn := c.Method("eap", "EapAkaPrime", "Unmarshal"); fn != nil {
		dec = append(dec, fn)
	}
	seen := map[*ssa.Function]bool{}
	n := 0
	for _, fn := range c.Reachable(append(dec, enc...)...) {
		if seen[fn] || fn.Blocks == nil || !c.InModule(fn) {
			continue
		}
		seen[fn] = true
		loops := naturalLoops(fn)
		if len(loops) == 0 {
			continue
		}
		f := c.NewFA(fn)
		for _, li := range loops {
			for _, ins := range li.header.Instrs {
				ph, ok := ins.(*ssa.Phi)
				if !ok {
					break
				}
				tlo, thi, isInt := f.typeRange(ph.Type())
				if !isInt || thi >= 1<<62 {
					continue // int / uint / 64-bit: lengths cannot reach the end
				}
				for i, e := range ph.Edges {
					if !li.body[li.header.Preds[i]] {
						continue
					}
					step, ok := e.(*ssa.BinOp)
					if !ok || (step.Op != token.ADD && step.Op != token.SUB) || step.X != ssa.Value(ph) {
						continue
					}
					k := f.LFOf(step.Y)
					if !k.isConst() {
						continue
					}
					ideal := f.LFOf(ph).add(k, 1)
					if step.Op == token.SUB {
						ideal = f.LFOf(ph).add(k, -1)
					}
					facts := f.FactsAt(step.Block())
					okLo, _ := f.Prove(ideal.add(konst(tlo), -1), facts)
					okHi, _ := f.Prove(konst(thi).add(ideal, -1), facts)
					if !okLo || !okHi {
						okLo2, _ := f.ProveCases(ideal.add(konst(tlo), -1), facts, step.Block())
						okHi2, _ := f.ProveCases(konst(thi).add(ideal, -1), facts, step.Block())
						okLo, okHi = okLo || okLo2, okHi || okHi2
					}
					n++
					key := fmt.Sprintf("%s: %s", c.FuncName(fn), c.SrcExpr(step))
					r.Check(okLo && okHi, rule, key, c.InstrPos(step), fmt.Sprintf("the step stays within %s under the loop guard", ph.Type()), fmt.Sprintf("the counter (%s) can be stepped past the end of its type: the guard {%s} admits a value whose successor wraps around, so the loop does not stop after the count it is compared with", ph.Type(), f.ShowFacts(facts)))
				}
			}
		}
	}
	_ = n
}

// guardedNarrowingRule: where an encoder tests that a quantity fits a wire field (a comparison with 2^(8n)-1 or
// 2^(8n) whose failing side only returns an error), the value it then narrows to that width must be provably
// within the width under that guard. A guard on len(body) followed by uint16(4 + len(body)) lets bodies of
// 65532..65535 octets through with a wrapped length field.
func (c *Ctx) guardedNarrowingRule(r *Report, rule string) {
	r.Rule(rule, "a value an encoder narrows to 8 / 16 / 32 bits behind a 'does it fit' guard of that width is provably within the width under the guard (the guard tests the quantity that is written, not a part of it)", 0)
	_, enc, _ := c.codecFuncs()
	seen := map[*ssa.Function]bool{}
	for _, fn := range c.Reachable(enc...) {
		if seen[fn] || fn.Blocks == nil || !c.InModule(fn) {
			continue
		}
		seen[fn] = true
		f := c.NewFA(fn)
		// the fits-guards of the function: width -> blocks on the passing side
		type guard struct {
			bits int
			pass *ssa.BasicBlock
		}
		var guards []guard
		for _, b := range fn.Blocks {
			iff, ok := b.Instrs[len(b.Instrs)-1].(*ssa.If)
			if !ok || b.Succs[0] == b.Succs[1] {
				continue
			}
			cmp, ok := iff.Cond.(*ssa.BinOp)
			if !ok {
				continue
			}
			k, ok := cmp.Y.(*ssa.Const)
			if !ok || k.Value == nil {
				continue
			}
			kv, ok := constInt64(k.Value)
			if !ok {
				continue
			}
			bits := 0
			for _, n := range []int{8, 16, 32} {
				if kv == int64(1)<<uint(n)-1 || kv == int64(1)<<uint(n) {
					bits = n
				}
			}
			if bits == 0 {
				continue
			}
			for i := 0; i < 2; i++ {
				if c.onlyErrorExit(b.Succs[i]) && !c.onlyErrorExit(b.Succs[1-i]) {
					guards = append(guards, guard{bits, b.Succs[1-i]})
				}
			}
		}
		if len(guards) == 0 {
			continue
		}
		for _, b := range fn.Blocks {
			for _, ins := range b.Instrs {
				cv, ok := ins.(*ssa.Convert)
				if !ok {
					continue
				}
				tlo, thi, isInt := f.typeRange(cv.Type())
				slo, shi, isInt2 := f.typeRange(cv.X.Type())
				if !isInt || !isInt2 || (slo >= tlo && shi <= thi) {
					continue
				}
				bits := 0
				for _, n := range []int{8, 16, 32} {
					if thi == int64(1)<<uint(n)-1 && tlo == 0 {
						bits = n
					}
				}
				// byte(v) next to byte(v >> 8) [, byte(v >> 16), ...] spells v octet by octet: the width that
				// counts is that of the whole decomposition; a shifted octet itself is no narrowing of v
				if bits == 8 {
					if sh, isSh := cv.X.(*ssa.BinOp); isSh && sh.Op == token.SHR {
						continue
					}
					if refs := cv.X.Referrers(); refs != nil {
						maxShift := int64(0)
						for _, ref := range *refs {
							if sh, ok := ref.(*ssa.BinOp); ok && sh.Op == token.SHR && sh.X == cv.X {
								if k, ok := sh.Y.(*ssa.Const); ok {
									if kv, _ := constInt64(k.Value); kv%8 == 0 && kv > maxShift {
										maxShift = kv
									}
								}
							}
						}
						if maxShift > 0 {
							bits = int(maxShift) + 8
							thi = int64(1)<<uint(bits) - 1
						}
					}
				}
				guarded := false
				for _, g := range guards {
					if g.bits == bits && g.pass.Dominates(b) {
						guarded = true
					}
				}
				if !guarded {
					continue
				}
				// only quantities that are lengths (or sums with lengths): a field value masked to its width is
				// narrowed on purpose
				l := f.LFOf(cv.X)
				isLen := false
				for a := range l.T {
					if strings.HasPrefix(f.atoms[a].key, "len:") || f.atoms[a].lenOf != nil {
						isLen = true
					}
				}
				if !isLen {
					continue
				}
				facts := f.FactsAt(b)
				okHi, _ := f.Prove(konst(thi).add(l, -1), facts)
				okLo, _ := f.Prove(l.add(konst(tlo), -1), facts)
				key := fmt.Sprintf("%s: %s", c.FuncName(fn), c.SrcExpr(cv))
				r.Check(okHi && okLo, rule, key, c.InstrPos(cv), fmt.Sprintf("within %d bits under the guard", bits), fmt.Sprintf("%s ranges beyond %d bits under the guards {%s}: the 'does it fit' test in front of it bounds another quantity, and the field written carries the residue", f.Show(l), bits, f.ShowFacts(facts)))
			}
		}
	}
}

func isPointerLike(t types.Type) bool {
	switch t.Underlying().(type) {
	case *types.Pointer, *types.Interface:
		return true
	}
	return false
}

func isSliceType(t types.Type) bool {
	_, ok := t.Underlying().(*types.Slice)
	return ok
}
