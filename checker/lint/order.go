package lint

import (
	"go/token"
	"go/types"
	"strings"

	"ikeverif/checker/xt/ssa"
)

// E4 helpers: ordering, error discipline, who-may-call (DESIGN 3.5).

func isErrorType(t types.Type) bool {
	nt, ok := t.(*types.Named)
	return ok && nt.Obj().Pkg() == nil && nt.Obj().Name() == "error"
}

// errResult returns the SSA value carrying the error result of a call (the call itself for a
// single error result, the Extract for tuples), or nil.
func errResult(call *ssa.Call) ssa.Value {
	if isErrorType(call.Type()) {
		return call
	}
	tup, ok := call.Type().(*types.Tuple)
	if !ok {
		return nil
	}
	for _, ref := range *call.Referrers() {
		if ex, ok := ref.(*ssa.Extract); ok && isErrorType(tup.At(ex.Index).Type()) {
			return ex
		}
	}
	return nil
}

// resultN returns the Extract of result i of a tuple call (or the call for i==0 of a single result).
func resultN(call *ssa.Call, i int) ssa.Value {
	if _, ok := call.Type().(*types.Tuple); !ok {
		if i == 0 {
			return call
		}
		return nil
	}
	for _, ref := range *call.Referrers() {
		if ex, ok := ref.(*ssa.Extract); ok && ex.Index == i {
			return ex
		}
	}
	return nil
}

// errTests finds the If instructions testing errV against nil; returns (ifBlock, nilSucc, nonNilSucc).
type errTest struct {
	blk             *ssa.BasicBlock
	nilSucc, nonNil *ssa.BasicBlock
}

func errTests(errV ssa.Value) []errTest {
	var out []errTest
	if errV == nil {
		return nil
	}
	for _, ref := range *errV.Referrers() {
		cmp, ok := ref.(*ssa.BinOp)
		if !ok || (cmp.Op != token.NEQ && cmp.Op != token.EQL) {
			continue
		}
		other := cmp.Y
		if cmp.Y == errV {
			other = cmp.X
		}
		if !isNilConst(other) {
			continue
		}
		for _, r2 := range *cmp.Referrers() {
			iff, ok := r2.(*ssa.If)
			if !ok {
				continue
			}
			b := iff.Block()
			t := errTest{blk: b, nonNil: b.Succs[0], nilSucc: b.Succs[1]}
			if cmp.Op == token.EQL {
				t.nonNil, t.nilSucc = t.nilSucc, t.nonNil
			}
			out = append(out, t)
		}
	}
	if len(out) == 0 {
		// "x, err := helper()" with the helper inlined: the error that is tested is the φ merging this error with
		// the nil of the helper's other return sites; the nil edge of that test is a nil edge of this error too
		for _, ref := range *errV.Referrers() {
			ph, ok := ref.(*ssa.Phi)
			if !ok || !isErrorType(ph.Type()) {
				continue
			}
			others := true
			for _, e := range ph.Edges {
				if e != errV && !isNilConst(e) {
					others = false
				}
			}
			if others {
				out = append(out, errTests(ph)...)
			}
		}
	}
	return out
}

// onNilErrEdge reports whether block b is reached only after errV was found nil.
func onNilErrEdge(errV ssa.Value, b *ssa.BasicBlock) bool {
	for _, t := range errTests(errV) {
		if t.nilSucc != t.nonNil && len(t.nilSucc.Preds) == 1 && t.nilSucc.Dominates(b) {
			return true
		}
	}
	return false
}

// errorChecked: the error result of call is tested, and every path from the non-nil edge ends in
// a Return whose error result is non-nil (the error itself, or errors.Wrap*/Errorf/New) and whose
// other results are nil/zero constants. Returns (ok, explanation).
func (c *Ctx) errorChecked(call *ssa.Call) (bool, string) {
	errV := errResult(call)
	if errV == nil {
		return false, "call has no error result"
	}
	tests := errTests(errV)
	if len(tests) == 0 {
		// "err = f() / err = g()" in two branches tested once behind the merge: the φ carries this error
		for _, ref := range *errV.Referrers() {
			if ph, ok := ref.(*ssa.Phi); ok && isErrorType(ph.Type()) {
				if ts := errTests(ph); len(ts) > 0 {
					errV, tests = ph, ts
					break
				}
			}
		}
	}
	if len(tests) == 0 {
		// the error may be returned directly: `return f()` or `return x, wrap(err)`
		if c.errFlowsToReturn(errV) {
			return true, "the error result is returned to the caller (wrapped or as is)"
		}
		return false, "the error result is never compared with nil nor returned"
	}
	for _, t := range tests {
		// all blocks reachable from nonNil (without passing through blocks dominated by nilSucc... they are disjoint) must end in return/jump to return
		type visit struct{ b, from *ssa.BasicBlock }
		seen := map[visit]bool{}
		st := []visit{{t.nonNil, t.blk}}
		for len(st) > 0 {
			v := st[len(st)-1]
			b := v.b
			st = st[:len(st)-1]
			if seen[v] {
				continue
			}
			seen[v] = true
			last := b.Instrs[len(b.Instrs)-1]
			switch x := last.(type) {
			case *ssa.Return:
				if ok, why := c.isErrorReturnFrom(x, errV, v.from); !ok {
					return false, "on the failing edge a return at " + c.InstrPos(x) + " " + why
				}
			case *ssa.Panic:
				return false, "panic on the failing edge"
			default:
				for _, s := range b.Succs {
					if s == t.nilSucc && t.nilSucc != t.nonNil {
						// a named result set on the failing edge and returned by the one return both edges share:
						// the return is judged by the value it has when entered over this edge
						if _, isRet := s.Instrs[len(s.Instrs)-1].(*ssa.Return); !isRet {
							// ... or (the same idiom inlined into its caller) merged as a non-nil error into the
							// variable the code behind the merge goes on to test
							carried := false
							for i, p := range s.Preds {
								if p != b {
									continue
								}
								for _, ins := range s.Instrs {
									ph, ok := ins.(*ssa.Phi)
									if !ok {
										break
									}
									if isErrorType(ph.Type()) && c.nonNilError(ph.Edges[i], errV, 0) && len(errTests(ph)) > 0 {
										carried = true
									}
								}
							}
							if !carried {
								return false, "the failing edge rejoins the success path at " + c.InstrPos(last)
							}
							continue
						}
					}
					st = append(st, visit{s, b})
				}
			}
		}
	}
	return true, "non-nil error leads only to returns of a non-nil error with zero values"
}

func (c *Ctx) errFlowsToReturn(errV ssa.Value) bool {
	for _, ref := range *errV.Referrers() {
		switch x := ref.(type) {
		case *ssa.Return:
			return true
		case *ssa.Call:
			if cal := x.Call.StaticCallee(); cal != nil && strings.HasPrefix(cal.String(), "github.com/pkg/errors.Wrap") {
				for _, r2 := range *x.Referrers() {
					if _, ok := r2.(*ssa.Return); ok {
						return true
					}
				}
			}
		}
	}
	return false
}

// isErrorReturnFrom: like isErrorReturn for the return block entered from block `from`: a result that is a φ of
// the return's block stands for the value of that edge, and a value that is nil there (its own nil test
// dominates, as for a named result tested by the loop that is left) counts as the zero value.
func (c *Ctx) isErrorReturnFrom(ret *ssa.Return, errV ssa.Value, from *ssa.BasicBlock) (bool, string) {
	if from == nil {
		return c.isErrorReturn(ret, errV)
	}
	idx := -1
	for i, p := range ret.Block().Preds {
		if p == from {
			idx = i
		}
	}
	if idx < 0 {
		return c.isErrorReturn(ret, errV)
	}
	for _, res := range ret.Results {
		v := res
		if ph, ok := v.(*ssa.Phi); ok && ph.Block() == ret.Block() {
			v = ph.Edges[idx]
		}
		if isErrorType(v.Type()) {
			if !c.nonNilError(v, errV, 0) {
				return false, "may return a nil error"
			}
			continue
		}
		if k, ok := v.(*ssa.Const); ok {
			if k.Value == nil || isZeroConst(k) {
				continue
			}
			return false, "returns a non-zero value together with the error"
		}
		if pointerLike(v.Type()) && c.knownNilAt(v, from, 0) != "" {
			continue
		}
		return false, "returns a value together with the error"
	}
	return true, ""
}

// isErrorReturn: ret returns a provably non-nil error derived from errV (or freshly made) and zero other values.
func (c *Ctx) isErrorReturn(ret *ssa.Return, errV ssa.Value) (bool, string) {
	if len(ret.Results) == 0 {
		return false, "returns nothing"
	}
	for i, res := range ret.Results {
		if isErrorType(res.Type()) {
			if !c.nonNilError(res, errV, 0) {
				return false, "may return a nil error"
			}
			continue
		}
		_ = i
		if k, ok := res.(*ssa.Const); ok {
			if k.Value == nil || isZeroConst(k) {
				continue
			}
			return false, "returns a non-zero value together with the error"
		}
		return false, "returns a value together with the error"
	}
	return true, ""
}

func isZeroConst(k *ssa.Const) bool {
	if k.Value == nil {
		return true
	}
	s := k.Value.ExactString()
	return s == "0" || s == "false" || s == `""`
}

func (c *Ctx) nonNilError(v, errV ssa.Value, depth int) bool {
	if v == errV {
		return true
	}
	if depth > 4 {
		return false
	}
	switch x := v.(type) {
	case *ssa.Call:
		cal := x.Call.StaticCallee()
		if cal == nil {
			return false
		}
		switch cal.String() {
		case "github.com/pkg/errors.Errorf", "github.com/pkg/errors.New", "errors.New", "fmt.Errorf":
			return true
		case "github.com/pkg/errors.Wrapf", "github.com/pkg/errors.Wrap", "github.com/pkg/errors.WithMessage", "github.com/pkg/errors.WithStack":
			return c.nonNilError(x.Call.Args[0], errV, depth+1)
		}
	case *ssa.Phi:
		for _, e := range x.Edges {
			if !c.nonNilError(e, errV, depth+1) {
				return false
			}
		}
		return true
	case *ssa.MakeInterface:
		return true
	}
	return false
}

// callsTo lists the call instructions in fn whose (resolved) callees include target.
func (c *Ctx) callsTo(fn, target *ssa.Function) []*ssa.Call {
	var out []*ssa.Call
	for _, b := range fn.Blocks {
		for _, ins := range b.Instrs {
			call, ok := ins.(*ssa.Call)
			if !ok {
				continue
			}
			for _, m := range c.CalleesAt(call).Mod {
				if m == target {
					out = append(out, call)
				}
			}
		}
	}
	return out
}

// invokesOf lists invoke call sites of interface method name on interface type ifaceName (pkg path suffix match).
func (c *Ctx) invokesOf(fn *ssa.Function, ifaceName, method string) []*ssa.Call {
	var out []*ssa.Call
	for _, b := range fn.Blocks {
		for _, ins := range b.Instrs {
			call, ok := ins.(*ssa.Call)
			if !ok || !call.Call.IsInvoke() || call.Call.Method.Name() != method {
				continue
			}
			if nt, ok := call.Call.Value.Type().(*types.Named); ok && nt.Obj().Name() == ifaceName {
				out = append(out, call)
			}
		}
	}
	return out
}

// reaches reports whether fn transitively reaches a call site satisfying pred.
func (c *Ctx) reachesCall(fn *ssa.Function, pred func(*ssa.Call) bool) bool {
	for _, g := range c.Reachable(fn) {
		for _, b := range g.Blocks {
			for _, ins := range b.Instrs {
				if call, ok := ins.(*ssa.Call); ok && pred(call) {
					return true
				}
			}
		}
	}
	return false
}

// paramIndex returns the index of v among fn's parameters, or -1.
func paramIndex(fn *ssa.Function, v ssa.Value) int {
	for i, p := range fn.Params {
		if ssa.Value(p) == v {
			return i
		}
	}
	return -1
}

// fieldLoad decomposes v = *(&base.Field): returns base and field name.
func fieldLoad(v ssa.Value) (ssa.Value, string, bool) {
	u, ok := v.(*ssa.UnOp)
	if !ok || u.Op != token.MUL {
		return nil, "", false
	}
	fa, ok := u.X.(*ssa.FieldAddr)
	if !ok {
		return nil, "", false
	}
	pt, ok := fa.X.Type().Underlying().(*types.Pointer)
	if !ok {
		return nil, "", false
	}
	st, ok := pt.Elem().Underlying().(*types.Struct)
	if !ok {
		return nil, "", false
	}
	return fa.X, st.Field(fa.Field).Name(), true
}

// fieldNameOf: the name of the field a FieldAddr addresses ("" if its base is not a pointer to a struct).
func fieldNameOf(fa *ssa.FieldAddr) string {
	pt, ok := fa.X.Type().Underlying().(*types.Pointer)
	if !ok {
		return ""
	}
	st, ok := pt.Elem().Underlying().(*types.Struct)
	if !ok {
		return ""
	}
	return st.Field(fa.Field).Name()
}
