package lint

import (
	"fmt"
	"go/types"
	"sort"
	"strings"

	"ikeverif/checker/xt/ssa"
)

// ConstTable renders the exported integer constants of the message and eap packages (for freezing the
// assigned-number reference; the values were compared by hand with RFC 7296 section 3, the IANA IKEv2 and EAP
// registries, RFC 4187 section 11 / RFC 5448 and TS 24.502 before freezing).
func (c *Ctx) ConstTable() string {
	var sb strings.Builder
	for _, rel := range []string{"message", "eap"} {
		p := c.Pkg(rel)
		if p == nil {
			continue
		}
		var names []string
		for n, m := range p.Members {
			if nc, ok := m.(*ssa.NamedConst); ok && nc.Object().Exported() {
				if bt, ok := nc.Type().Underlying().(*types.Basic); ok && bt.Info()&types.IsInteger != 0 {
					names = append(names, n)
				}
			}
		}
		sort.Strings(names)
		for _, n := range names {
			v, _ := constInt64(p.Members[n].(*ssa.NamedConst).Value.Value)
			fmt.Fprintf(&sb, "\t%q: %d,\n", rel+"."+n, v)
		}
	}
	return sb.String()
}

// assignedNumbers: the protocol numbers the library exports under these names, as assigned by RFC 7296 section 3
// and the IANA IKEv2 registry (payload, exchange, transform, notify, identification, certificate, configuration
// and traffic selector types; header flag bits), RFC 3748 / 4187 / 5448 and the IANA EAP registries (codes, method
// types, AKA subtypes and attribute types) and TS 24.502 (EAP-5G, AN parameters, 3GPP notify types). Generated
// once with `ikelint -dump consts`, compared with those documents by hand, then frozen. A constant that is renamed
// or removed is not reported (nothing carries the number any more); one whose value differs is.
var assignedNumbers = map[string]int64{
	"message.ADDITIONAL_IP4_ADDRESS": 16397,
	"message.ADDITIONAL_IP6_ADDRESS": 16398,
	"message.ADDITIONAL_TS_POSSIBLE": 16386,
	"message.ANParametersLenEstCause": 1,
	"message.ANParametersLenGUAMI": 6,
	"message.ANParametersLenPLMNID": 3,
	"message.ANParametersTypeEstablishmentCause": 4,
	"message.ANParametersTypeGUAMI": 1,
	"message.ANParametersTypeRequestedNSSAI": 3,
	"message.ANParametersTypeSelectedPLMNID": 2,
	"message.APPLICATION_VERSION": 7,
	"message.AUTHENTICATION_FAILED": 24,
	"message.AUTH_AES_XCBC_96": 5,
	"message.AUTH_DES_MAC": 3,
	"message.AUTH_HMAC_MD5_96": 1,
	"message.AUTH_HMAC_SHA1_96": 2,
	"message.AUTH_HMAC_SHA2_256_128": 12,
	"message.AUTH_KPDK_MD5": 4,
	"message.AUTH_NONE": 0,
	"message.AttributeFormatUseTLV": 0,
	"message.AttributeFormatUseTV": 1,
	"message.AttributeTypeKeyLength": 14,
	"message.AuthorityRevocationList": 8,
	"message.CFG_ACK": 4,
	"message.CFG_REPLY": 2,
	"message.CFG_REQUEST": 1,
	"message.CFG_SET": 3,
	"message.CHILD_SA_NOT_FOUND": 44,
	"message.COOKIE": 16390,
	"message.COOKIE2": 16401,
	"message.CREATE_CHILD_SA": 36,
	"message.CertificateRevocationList": 7,
	"message.DH_1024_BIT_MODP": 2,
	"message.DH_1536_BIT_MODP": 5,
	"message.DH_2048_BIT_MODP": 14,
	"message.DH_3072_BIT_MODP": 15,
	"message.DH_4096_BIT_MODP": 16,
	"message.DH_6144_BIT_MODP": 17,
	"message.DH_768_BIT_MODP": 1,
	"message.DH_8192_BIT_MODP": 18,
	"message.DH_NONE": 0,
	"message.DNSSignedKey": 3,
	"message.DSSDigitalSignature": 3,
	"message.EAP5GType5GNAS": 2,
	"message.EAP5GType5GStart": 1,
	"message.EAP5GType5GStop": 4,
	"message.ENCR_3DES": 3,
	"message.ENCR_3IDEA": 8,
	"message.ENCR_AES_CBC": 12,
	"message.ENCR_AES_CTR": 13,
	"message.ENCR_BLOWFISH": 7,
	"message.ENCR_CAST": 6,
	"message.ENCR_DES": 2,
	"message.ENCR_DES_IV32": 9,
	"message.ENCR_DES_IV64": 1,
	"message.ENCR_IDEA": 5,
	"message.ENCR_NULL": 11,
	"message.ENCR_RC5": 4,
	"message.ESN_DISABLE": 0,
	"message.ESN_ENABLE": 1,
	"message.ESP_TFC_PADDING_NOT_SUPPORTED": 16394,
	"message.EstablishmentCauseEmergency": 0,
	"message.EstablishmentCauseHighPriorityAccess": 1,
	"message.EstablishmentCauseMCS_PriorityAccess": 9,
	"message.EstablishmentCauseMO_Data": 4,
	"message.EstablishmentCauseMO_Signaling": 3,
	"message.EstablishmentCauseMPS_PriorityAccess": 8,
	"message.FAILED_CP_REQUIRED": 37,
	"message.HTTP_CERT_LOOKUP_SUPPORTED": 16392,
	"message.HashAndURLOfX509Bundle": 13,
	"message.HashAndURLOfX509Certificate": 12,
	"message.ID_DER_ASN1_DN": 9,
	"message.ID_DER_ASN1_GN": 10,
	"message.ID_FQDN": 2,
	"message.ID_IPV4_ADDR": 1,
	"message.ID_IPV6_ADDR": 5,
	"message.ID_KEY_ID": 11,
	"message.ID_RFC822_ADDR": 3,
	"message.IKE_AUTH": 35,
	"message.IKE_SA_INIT": 34,
	"message.INFORMATIONAL": 37,
	"message.INITIAL_CONTACT": 16384,
	"message.INTERNAL_ADDRESS_FAILURE": 36,
	"message.INTERNAL_IP4_ADDRESS": 1,
	"message.INTERNAL_IP4_DHCP": 6,
	"message.INTERNAL_IP4_DNS": 3,
	"message.INTERNAL_IP4_NBNS": 4,
	"message.INTERNAL_IP4_NETMASK": 2,
	"message.INTERNAL_IP4_SUBNET": 13,
	"message.INTERNAL_IP6_ADDRESS": 8,
	"message.INTERNAL_IP6_DHCP": 12,
	"message.INTERNAL_IP6_DNS": 10,
	"message.INTERNAL_IP6_SUBNET": 15,
	"message.INVALID_IKE_SPI": 4,
	"message.INVALID_KE_PAYLOAD": 17,
	"message.INVALID_MAJOR_VERSION": 5,
	"message.INVALID_MESSAGE_ID": 9,
	"message.INVALID_SELECTORS": 39,
	"message.INVALID_SPI": 11,
	"message.INVALID_SYNTAX": 7,
	"message.IPCOMP_SUPPORTED": 16387,
	"message.IPProtocolAll": 0,
	"message.IPProtocolGRE": 47,
	"message.IPProtocolICMP": 1,
	"message.IPProtocolTCP": 6,
	"message.IPProtocolUDP": 17,
	"message.InitiatorBitCheck": 8,
	"message.KerberosToken": 6,
	"message.MOBIKE_SUPPORTED": 16396,
	"message.NAT_DETECTION_DESTINATION_IP": 16389,
	"message.NAT_DETECTION_SOURCE_IP": 16388,
	"message.NON_FIRST_FRAGMENTS_ALSO": 16395,
	"message.NO_ADDITIONAL_ADDRESSES": 16399,
	"message.NO_ADDITIONAL_SAS": 35,
	"message.NO_NATS_ALLOWED": 16402,
	"message.NO_PROPOSAL_CHOSEN": 14,
	"message.NoNext": 0,
	"message.NotifyType5G_QOS_INFOBitDCSICheck": 2,
	"message.NotifyType5G_QOS_INFOBitDSCPICheck": 1,
	"message.PGPCertificate": 2,
	"message.PKCS7WrappedX509Certificate": 1,
	"message.PRF_HMAC_MD5": 1,
	"message.PRF_HMAC_SHA1": 2,
	"message.PRF_HMAC_SHA2_256": 5,
	"message.PRF_HMAC_TIGER": 3,
	"message.REKEY_SA": 16393,
	"message.RSADigitalSignature": 1,
	"message.ResponseBitCheck": 32,
	"message.SET_WINDOW_SIZE": 16385,
	"message.SINGLE_PAIR_REQUIRED": 34,
	"message.SPKICertificate": 9,
	"message.SUPPORTED_ATTRIBUTES": 14,
	"message.SharedKeyMesageIntegrityCode": 2,
	"message.TEMPORARY_FAILURE": 43,
	"message.TS_IPV4_ADDR_RANGE": 7,
	"message.TS_IPV6_ADDR_RANGE": 8,
	"message.TS_UNACCEPTABLE": 38,
	"message.TypeAH": 2,
	"message.TypeAUTH": 39,
	"message.TypeCERT": 37,
	"message.TypeCERTreq": 38,
	"message.TypeCP": 47,
	"message.TypeD": 42,
	"message.TypeDiffieHellmanGroup": 4,
	"message.TypeEAP": 48,
	"message.TypeESP": 3,
	"message.TypeEncryptionAlgorithm": 1,
	"message.TypeExtendedSequenceNumbers": 5,
	"message.TypeIDi": 35,
	"message.TypeIDr": 36,
	"message.TypeIKE": 1,
	"message.TypeIntegrityAlgorithm": 3,
	"message.TypeKE": 34,
	"message.TypeN": 41,
	"message.TypeNiNr": 40,
	"message.TypeNone": 0,
	"message.TypePseudorandomFunction": 2,
	"message.TypeSA": 33,
	"message.TypeSK": 46,
	"message.TypeTSi": 44,
	"message.TypeTSr": 45,
	"message.TypeV": 43,
	"message.UNACCEPTABLE_ADDRESSES": 40,
	"message.UNEXPECTED_NAT_DETECTED": 41,
	"message.UNSUPPORTED_CRITICAL_PAYLOAD": 1,
	"message.UPDATE_SA_ADDRESSES": 16400,
	"message.USE_TRANSPORT_MODE": 16391,
	"message.Vendor3GPPNotifyType5G_QOS_INFO": 55501,
	"message.Vendor3GPPNotifyTypeNAS_IP4_ADDRESS": 55502,
	"message.Vendor3GPPNotifyTypeNAS_TCP_PORT": 55506,
	"message.Vendor3GPPNotifyTypeUP_IP4_ADDRESS": 55504,
	"message.VersionBitCheck": 16,
	"message.X509CertificateAttribute": 10,
	"message.X509CertificateSignature": 4,
	"eap.AT_AUTN": 2,
	"eap.AT_AUTS": 4,
	"eap.AT_CHECKCODE": 134,
	"eap.AT_CLIENT_ERROR_CODE": 22,
	"eap.AT_IDENTITY": 14,
	"eap.AT_KDF": 24,
	"eap.AT_KDF_INPUT": 23,
	"eap.AT_MAC": 11,
	"eap.AT_NOTIFICATION": 12,
	"eap.AT_RAND": 1,
	"eap.AT_RES": 3,
	"eap.EapCodeFailure": 4,
	"eap.EapCodeRequest": 1,
	"eap.EapCodeResponse": 2,
	"eap.EapCodeSuccess": 3,
	"eap.EapTypeAkaPrime": 50,
	"eap.EapTypeExpanded": 254,
	"eap.EapTypeIdentity": 1,
	"eap.EapTypeNak": 3,
	"eap.EapTypeNotification": 2,
	"eap.SubtypeAkaAuthenticationReject": 2,
	"eap.SubtypeAkaChallenge": 1,
	"eap.SubtypeAkaClientError": 14,
	"eap.SubtypeAkaIdentity": 5,
	"eap.SubtypeAkaNotification": 12,
	"eap.SubtypeAkaReauthentication": 13,
	"eap.SubtypeAkaSynchronizationFailure": 4,
	"eap.VendorId3GPP": 10415,
	"eap.VendorTypeEAP5G": 3,
}

// assignedNumbersRule: every exported constant of the given packages that the reference knows has its assigned value.
func (c *Ctx) assignedNumbersRule(r *Report, rule string, pkgs ...string) {
	r.Rule(rule, "every exported protocol-number constant (payload / exchange / transform / notify / ID / certificate / configuration / traffic-selector types, flag bits, EAP codes, method types, AKA' subtypes and attribute types, EAP-5G and 3GPP numbers) has the value its RFC / IANA / 3GPP registry assigns: a message built or interpreted through the name carries the right number on the wire", 20*len(pkgs))
	var keys []string
	for k := range assignedNumbers {
		keys = append(keys, k)
	}
	sort.Strings(keys)
	for _, k := range keys {
		rel, name, _ := strings.Cut(k, ".")
		in := false
		for _, p := range pkgs {
			if p == rel {
				in = true
			}
		}
		if !in {
			continue
		}
		got := c.constInt(rel, name)
		if got == nil {
			continue
		}
		r.Check(*got == assignedNumbers[k], rule, k, "-", fmt.Sprintf("= %d", *got), fmt.Sprintf("%s is %d, the assigned number is %d", k, *got, assignedNumbers[k]))
	}
}
