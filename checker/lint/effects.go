package lint

import (
	"go/types"
	"sort"
	"strings"

	"ikeverif/checker/xt/ssa"
)

// Effect keys (type-based alias classes; sound without unsafe/reflect, which the C18 rules check):
//
//	field:<pkg.Struct>.<Field>   store to a struct field
//	elem:<T>                     store to an element of []T / [n]T (incl. copy() and external writers)
//	global:<pkg.name>            store to a package-level variable
//	map:<maptype>                map update / delete
//	deref:<T>                    store through a *T that is not a field/element/global address
type effectSet map[string]bool

func (e effectSet) add(k string) bool {
	if e[k] {
		return false
	}
	e[k] = true
	return true
}

func (e effectSet) sorted() []string {
	out := make([]string, 0, len(e))
	for k := range e {
		out = append(out, k)
	}
	sort.Strings(out)
	return out
}

// External callees whose slice/pointer arguments are only read (frozen table, one reason each).
// Index = argument position in ssa CallCommon.Args (receiver first for static method calls);
// for interface invokes the receiver is not in Args.
var externalReadOnly = map[string]string{
	"(encoding/binary.bigEndian).Uint16": "reads 2 octets of its argument",
	"(encoding/binary.bigEndian).Uint32": "reads 4 octets of its argument",
	"(encoding/binary.bigEndian).Uint64": "reads 8 octets of its argument",
	"crypto/hmac.Equal":                  "compares two byte strings",
	"crypto/hmac.New":                    "copies the key into the new HMAC state",
	"crypto/subtle.ConstantTimeCompare":  "compares two byte strings",
	"bytes.Equal":                        "compares two byte strings",
	"bytes.Compare":                      "compares two byte strings",
	"bytes.HasPrefix":                    "compares byte strings",
	"bytes.HasSuffix":                    "compares byte strings",
	"bytes.Contains":                     "searches a byte string",
	"bytes.Index":                        "searches a byte string",
	"bytes.IndexByte":                    "searches a byte string",
	"bytes.Count":                        "searches a byte string",
	"bytes.NewReader":                    "wraps the slice read-only (bytes.Reader never writes its buffer)",
	"bufio.NewReader":                    "wraps a reader",
	"(*bufio.Reader).ReadByte":           "reads from the underlying reader into bufio's own buffer",
	"crypto/aes.NewCipher":               "expands the key into the cipher's own schedule",
	"crypto/cipher.NewCBCDecrypter":      "copies the IV (documented: NewCBCDecrypter dups iv)",
	"crypto/cipher.NewCBCEncrypter":      "copies the IV",
	"encoding/hex.EncodeToString":        "reads its argument",
	"encoding/hex.Dump":                  "reads its argument",
	"crypto/rand.Int":                    "reads max; draws from the reader (crypto/rand.Reader is safe for concurrent use)",
	"(*math/big.Int).Cmp":                "reads receiver and argument",
	"(*math/big.Int).Bytes":              "reads the receiver, returns a fresh slice",
	"(*math/big.Int).Sign":               "reads the receiver",
	"(*math/big.Int).BitLen":             "reads the receiver",
	"(*math/big.Int).CmpAbs":             "reads receiver and argument",
	"(*math/big.Int).String":             "reads the receiver",
	"(*math/big.Int).Text":               "reads the receiver",
	"(*math/big.Int).IsInt64":            "reads the receiver",
	"(*math/big.Int).Int64":              "reads the receiver",
	"(*math/big.Int).Uint64":             "reads the receiver",
	"(*math/big.Int).ProbablyPrime":      "reads the receiver",
	"math/big.NewInt":                    "constructor",
	"github.com/pkg/errors.Errorf":       "formats its arguments",
	"github.com/pkg/errors.Wrapf":        "formats its arguments",
	"github.com/pkg/errors.Wrap":         "wraps an error",
	"github.com/pkg/errors.New":          "makes an error",
	"fmt.Sprintf":                        "formats its arguments",
	"strconv.FormatUint":                 "formats an integer",
	"strings.Repeat":                     "builds a string",
	"net.ParseIP":                        "parses a string",
	"(net.IP).To4":                       "returns a sub-slice of the receiver, writes nothing",
	"sort.Slice":                         "sorts the slice passed (an element write, recorded as elem effect by the caller rule)",
	"encoding/binary.Write":              "serialises data into the writer; data is only read",
	"(*bytes.Buffer).Bytes":              "returns the buffer's contents",
	"(*bytes.Buffer).Write":              "copies p into the buffer",
	"iface:hash.Hash.Write":              "hash.Hash.Write reads p (io.Writer contract: must not modify the slice)",
	"iface:hash.Hash.Sum":                "appends to its argument; recorded as append",
	"iface:hash.Hash.Reset":              "resets the hash state",
	"iface:hash.Hash.Size":               "pure",
	"iface:error.Error":                  "pure",
	"crypto/sha256.New":                  "constructor",
	"crypto/sha1.New":                    "constructor",
	"crypto/md5.New":                     "constructor",
}

// External callees that write the elements of a slice argument: callee -> argument index in Args.
var externalWritesArg = map[string][]int{
	"(encoding/binary.bigEndian).PutUint16":     {1},
	"(encoding/binary.bigEndian).PutUint32":     {1},
	"(encoding/binary.bigEndian).PutUint64":     {1},
	"io.ReadFull":                               {0, 1}, // the reader is advanced (stateful), the buffer is filled
	"crypto/rand.Read":                          {0},
	"iface:crypto/cipher.BlockMode.CryptBlocks": {0},
	"sort.Slice":                                {0},
	"(*math/big.Int).Exp":                       {0},
	"(*math/big.Int).SetString":                 {0},
	"(*math/big.Int).SetUint64":                 {0},
	"(*math/big.Int).SetBytes":                  {0},
	// math/big arithmetic: z.Op(x, y) sets the receiver z and only reads x, y (documented for every method)
	"(*math/big.Int).Add":        {0},
	"(*math/big.Int).Sub":        {0},
	"(*math/big.Int).Mul":        {0},
	"(*math/big.Int).Div":        {0},
	"(*math/big.Int).Mod":        {0},
	"(*math/big.Int).Quo":        {0},
	"(*math/big.Int).Rem":        {0},
	"(*math/big.Int).Neg":        {0},
	"(*math/big.Int).Abs":        {0},
	"(*math/big.Int).Set":        {0},
	"(*math/big.Int).SetInt64":   {0},
	"(*math/big.Int).Lsh":        {0},
	"(*math/big.Int).Rsh":        {0},
	"(*math/big.Int).ModInverse": {0},
	"(*math/big.Int).FillBytes":  {1},
}

type funcEffects struct {
	direct effectSet
	trans  effectSet
	extern map[string]bool // external callees (transitively)
}

func typeKey(t types.Type) string {
	return types.TypeString(t, func(p *types.Package) string {
		path := p.Path()
		if strings.HasPrefix(path, ModulePath) {
			path = strings.TrimPrefix(strings.TrimPrefix(path, ModulePath), "/")
			if path == "" {
				path = "ike"
			}
		}
		return path
	})
}

// FieldKey builds the effect key of a struct field.
func FieldKey(structT types.Type, idx int) string {
	if p, ok := structT.Underlying().(*types.Pointer); ok {
		structT = p.Elem()
	}
	st, ok := structT.Underlying().(*types.Struct)
	if !ok || idx >= st.NumFields() {
		return "field:?"
	}
	return "field:" + typeKey(structT) + "." + st.Field(idx).Name()
}

// addrEffect classifies the target of a store through address value a.
func addrEffect(a ssa.Value) string {
	switch x := a.(type) {
	case *ssa.FieldAddr:
		return FieldKey(x.X.Type(), x.Field)
	case *ssa.IndexAddr:
		t := x.X.Type().Underlying()
		if p, ok := t.(*types.Pointer); ok {
			t = p.Elem().Underlying()
		}
		switch tt := t.(type) {
		case *types.Slice:
			return "elem:" + typeKey(tt.Elem())
		case *types.Array:
			return "elem:" + typeKey(tt.Elem())
		}
		return "elem:?"
	case *ssa.Global:
		return "global:" + typeKey2(x)
	case *ssa.Alloc:
		if !x.Heap {
			return "" // local
		}
		return "local-heap" // store into an object allocated by this function
	}
	if p, ok := a.Type().Underlying().(*types.Pointer); ok {
		return "deref:" + typeKey(p.Elem())
	}
	return "deref:?"
}

// freshRoot reports whether the memory addressed by a belongs to an object allocated by the
// enclosing function itself (new/make/composite literal/local array).
func freshRoot(a ssa.Value) bool {
	for i := 0; i < 16; i++ {
		switch x := a.(type) {
		case *ssa.Alloc, *ssa.MakeSlice, *ssa.MakeMap:
			return true
		case *ssa.FieldAddr:
			a = x.X
		case *ssa.IndexAddr:
			a = x.X
		case *ssa.Slice:
			a = x.X
		case *ssa.ChangeType:
			a = x.X
		default:
			return false
		}
	}
	return false
}

func typeKey2(g *ssa.Global) string {
	path := g.Pkg.Pkg.Path()
	path = strings.TrimPrefix(strings.TrimPrefix(path, ModulePath), "/")
	if path == "" {
		path = "ike"
	}
	return path + "." + g.Name()
}

func sliceElemKey(t types.Type) string {
	switch tt := t.Underlying().(type) {
	case *types.Slice:
		return "elem:" + typeKey(tt.Elem())
	case *types.Pointer:
		if a, ok := tt.Elem().Underlying().(*types.Array); ok {
			return "elem:" + typeKey(a.Elem())
		}
		return "deref:" + typeKey(tt.Elem())
	}
	return ""
}

func (c *Ctx) effects() map[*ssa.Function]*funcEffects {
	if c.effCache != nil {
		return c.effCache
	}
	m := map[*ssa.Function]*funcEffects{}
	c.effCache = m
	for _, fn := range c.ModFuncs {
		fe := &funcEffects{direct: effectSet{}, trans: effectSet{}, extern: map[string]bool{}}
		m[fn] = fe
		for _, b := range fn.Blocks {
			for _, ins := range b.Instrs {
				switch x := ins.(type) {
				case *ssa.Store:
					if k := addrEffect(x.Addr); k != "" {
						if freshRoot(x.Addr) {
							k = "fresh:" + k
						}
						fe.direct.add(k)
					}
				case *ssa.MapUpdate:
					if freshRoot(x.Map) {
						fe.direct.add("fresh:map:" + typeKey(x.Map.Type()))
					} else {
						fe.direct.add("map:" + typeKey(x.Map.Type()))
					}
				case ssa.CallInstruction:
					cm := x.Common()
					if bi, ok := cm.Value.(*ssa.Builtin); ok {
						switch bi.Name() {
						case "copy":
							if k := sliceElemKey(cm.Args[0].Type()); k != "" {
								if freshRoot(cm.Args[0]) {
									k = "fresh:" + k
								}
								fe.direct.add(k)
							}
						case "delete":
							fe.direct.add("map:" + typeKey(cm.Args[0].Type()))
						}
						continue
					}
					cs := c.CalleesAt(x)
					for _, e := range cs.External {
						fe.extern[e] = true
						if idxs, ok := externalWritesArg[e]; ok {
							for _, i := range idxs {
								if i < len(cm.Args) {
									if k := sliceElemKey(cm.Args[i].Type()); k != "" {
										if freshRoot(cm.Args[i]) {
											k = "fresh:" + k
										}
										fe.direct.add(k)
									}
								}
							}
							continue
						}
						if _, ok := externalReadOnly[e]; ok {
							continue
						}
						// unknown external callee: assume it writes through every pointer-like argument
						for _, a := range cm.Args {
							if k := sliceElemKey(a.Type()); k != "" {
								if freshRoot(a) {
									k = "fresh:" + k
								}
								fe.direct.add(k)
							}
							if fa, ok := a.(*ssa.FieldAddr); ok {
								fe.direct.add(FieldKey(fa.X.Type(), fa.Field))
							}
							if g, ok := a.(*ssa.Global); ok {
								fe.direct.add("global:" + typeKey2(g))
							}
						}
						if cm.IsInvoke() {
							// receiver state of an external interface: not a module field
							continue
						}
					}
				}
			}
		}
		for k := range fe.direct {
			fe.trans.add(k)
		}
	}
	// transitive closure
	for changed := true; changed; {
		changed = false
		for _, fn := range c.ModFuncs {
			fe := m[fn]
			for _, b := range fn.Blocks {
				for _, ins := range b.Instrs {
					ci, ok := ins.(ssa.CallInstruction)
					if !ok {
						continue
					}
					for _, cal := range c.CalleesAt(ci).Mod {
						ce := m[cal]
						if ce == nil {
							continue
						}
						for k := range ce.trans {
							if fe.trans.add(k) {
								changed = true
							}
						}
						for k := range ce.extern {
							if !fe.extern[k] {
								fe.extern[k] = true
								changed = true
							}
						}
					}
				}
			}
			// closures created here may be called by callees we cannot see (sort.Slice): include their effects
			for _, af := range fn.AnonFuncs {
				if !c.liveFunc(af) {
					continue
				}
				if ce := m[af]; ce != nil {
					for k := range ce.trans {
						if fe.trans.add(k) {
							changed = true
						}
					}
				}
			}
		}
	}
	return m
}

// ModSet is the transitive effect set of fn (module functions only).
func (c *Ctx) ModSet(fn *ssa.Function) effectSet {
	if fe := c.effects()[fn]; fe != nil {
		return fe.trans
	}
	return effectSet{}
}

// DirectEffects of fn.
func (c *Ctx) DirectEffects(fn *ssa.Function) effectSet {
	if fe := c.effects()[fn]; fe != nil {
		return fe.direct
	}
	return effectSet{}
}

// ExternCallees lists external callees reachable from fn.
func (c *Ctx) ExternCallees(fn *ssa.Function) []string {
	fe := c.effects()[fn]
	if fe == nil {
		return nil
	}
	out := make([]string, 0, len(fe.extern))
	for k := range fe.extern {
		out = append(out, k)
	}
	sort.Strings(out)
	return out
}

// CallMayWrite reports whether call site ci may write effect key k.
func (c *Ctx) CallMayWrite(ci ssa.CallInstruction, k string) bool {
	cm := ci.Common()
	if bi, ok := cm.Value.(*ssa.Builtin); ok {
		if bi.Name() == "copy" {
			return sliceElemKey(cm.Args[0].Type()) == k
		}
		return false
	}
	cs := c.CalleesAt(ci)
	for _, m := range cs.Mod {
		if c.ModSet(m)[k] {
			return true
		}
	}
	for _, e := range cs.External {
		if idxs, ok := externalWritesArg[e]; ok {
			for _, i := range idxs {
				if i < len(cm.Args) && sliceElemKey(cm.Args[i].Type()) == k {
					return true
				}
			}
			continue
		}
		if _, ok := externalReadOnly[e]; ok {
			continue
		}
		if strings.HasPrefix(k, "elem:") || strings.HasPrefix(k, "deref:") {
			for _, a := range cm.Args {
				if sliceElemKey(a.Type()) == k {
					return true
				}
			}
		}
		for _, a := range cm.Args {
			if fa, ok := a.(*ssa.FieldAddr); ok && FieldKey(fa.X.Type(), fa.Field) == k {
				return true
			}
		}
	}
	return false
}
