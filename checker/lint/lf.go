package lint

import (
	"fmt"
	"go/constant"
	"go/token"
	"go/types"
	"os"
	"sort"
	"strings"

	"ikeverif/checker/xt/ssa"
)

// INF is the saturation sentinel of the interval arithmetic: a bound equal to ±INF means "unbounded".
const INF = int64(1) << 62

// LF is a linear form c + Σ coeff·atom over integer atoms.
type LF struct {
	C int64
	T map[int]int64
}

func konst(c int64) LF { return LF{C: c, T: map[int]int64{}} }

func (a LF) add(b LF, k int64) LF {
	r := LF{C: sat(a.C, mulsat(k, b.C)), T: map[int]int64{}}
	for x, v := range a.T {
		r.T[x] = v
	}
	for x, v := range b.T {
		r.T[x] += k * v
		if r.T[x] == 0 {
			delete(r.T, x)
		}
	}
	return r
}
func (a LF) scale(k int64) LF { return konst(0).add(a, k) }
func (a LF) isConst() bool    { return len(a.T) == 0 }
func (a LF) key() string {
	ks := make([]int, 0, len(a.T))
	for x := range a.T {
		ks = append(ks, x)
	}
	sort.Ints(ks)
	var sb strings.Builder
	fmt.Fprintf(&sb, "%d", a.C)
	for _, x := range ks {
		fmt.Fprintf(&sb, "%+d*a%d", a.T[x], x)
	}
	return sb.String()
}

func mulsat(a, b int64) int64 {
	if a == 0 || b == 0 {
		return 0
	}
	neg := (a < 0) != (b < 0)
	ua, ub := a, b
	if ua < 0 {
		ua = -ua
	}
	if ub < 0 {
		ub = -ub
	}
	if ua >= INF || ub >= INF || ua > INF/ub {
		if neg {
			return -INF
		}
		return INF
	}
	return a * b
}

func sat(a, b int64) int64 {
	if a >= INF || b >= INF {
		if a <= -INF || b <= -INF {
			return 0 // undefined; callers never rely on it (both-unbounded sums are treated as unbounded by bounds())
		}
		return INF
	}
	if a <= -INF || b <= -INF {
		return -INF
	}
	r := a + b
	if r >= INF {
		return INF
	}
	if r <= -INF {
		return -INF
	}
	return r
}

type atom struct {
	key    string
	name   string
	lo, hi int64
	def    ssa.Value // a value whose linear form is exactly this atom (first seen)
	lenOf  ssa.Value // a slice/string value whose length is exactly this atom (first seen)
}

// Fact is L >= 0, or L != 0 when NE.
type Fact struct {
	L  LF
	NE bool
}

// FA is the per-function numeric analysis (E1 of DESIGN.md): wrap-aware linear forms over
// structurally numbered atoms, facts from dominating branches, a bounded entailment search.
type FA struct {
	C       *Ctx
	Fn      *ssa.Function
	atoms   []atom
	byKey   map[string]int
	lfMemo  map[ssa.Value]LF
	lenMemo map[ssa.Value]LF
	inprog  map[ssa.Value]bool
	loadCls map[*ssa.UnOp]string // canonical class of field loads
	reach   map[*ssa.BasicBlock]map[*ssa.BasicBlock]bool
	extra   map[*ssa.BasicBlock][]Fact // extra facts injected by entry contracts / lemmas (hold in every block dominated by the key)
	// FieldRange, if set, gives the closed-world value interval of a field load (E6 tables).
	FieldRange func(structT types.Type, field int) (lo, hi int64, ok bool)
	// CallRange, if set, gives an interval for the integer result of a call.
	CallRange func(call *ssa.Call) (lo, hi int64, ok bool)
	// CallLen, if set, gives the length (as LF) of the slice result of a call.
	CallLen   func(f *FA, call *ssa.Call) (LF, bool)
	intBits   int
	maxLen    int64
	Dead      map[*ssa.BasicBlock]bool // blocks unreachable under closed-world assumptions
	DeadWhy   []string
	prepared  bool
	EntryWhy  []string // caller-derived entry facts (closed world), for the evidence
	postMemo  map[*ssa.Call][]Fact
	narrowDef map[int]narrowDef // atoms that stand for an operation narrowed to its type
	mulDef    map[int][2]LF     // atoms that stand for a product of two non-constant factors that cannot wrap
}

// NewFA prepares the analysis of fn.
func (c *Ctx) NewFA(fn *ssa.Function) *FA {
	f := &FA{C: c, Fn: fn, byKey: map[string]int{}, lfMemo: map[ssa.Value]LF{}, lenMemo: map[ssa.Value]LF{}, inprog: map[ssa.Value]bool{}, extra: map[*ssa.BasicBlock][]Fact{}}
	f.intBits = 64
	f.maxLen = int64(1) << 48 // no Go slice is longer than 2^48 elements on a 64-bit platform
	if c.GOARCH == "386" || c.GOARCH == "arm" {
		f.intBits = 32
		f.maxLen = 1<<31 - 1
	}
	f.Dead, f.DeadWhy = c.DeadBlocks(fn)
	f.FieldRange = c.FieldIntRange
	f.CallRange = c.callRange
	f.CallLen = c.callLen
	f.computeLoadClasses()
	f.injectCallerFacts()
	return f
}

func (f *FA) newAtom(key, name string, lo, hi int64) int {
	if id, ok := f.byKey[key]; ok {
		return id
	}
	f.atoms = append(f.atoms, atom{key: key, name: name, lo: lo, hi: hi})
	id := len(f.atoms) - 1
	f.byKey[key] = id
	return id
}

func (f *FA) atomLF(key, name string, lo, hi int64) LF {
	id := f.newAtom(key, name, lo, hi)
	return LF{T: map[int]int64{id: 1}}
}

// typeRange gives the value range of an integer type; unbounded sides are ±INF.
func (f *FA) typeRange(t types.Type) (int64, int64, bool) {
	b, ok := t.Underlying().(*types.Basic)
	if !ok {
		return 0, 0, false
	}
	switch b.Kind() {
	case types.Uint8:
		return 0, 255, true
	case types.Uint16:
		return 0, 65535, true
	case types.Uint32:
		return 0, 1<<32 - 1, true
	case types.Uint64:
		return 0, INF, true
	case types.Uint, types.Uintptr:
		if f.intBits == 32 {
			return 0, 1<<32 - 1, true
		}
		return 0, INF, true
	case types.Int8:
		return -128, 127, true
	case types.Int16:
		return -32768, 32767, true
	case types.Int32:
		return -1 << 31, 1<<31 - 1, true
	case types.Int:
		if f.intBits == 32 {
			return -1 << 31, 1<<31 - 1, true
		}
		return -INF, INF, true
	case types.Int64, types.UntypedInt:
		return -INF, INF, true
	}
	return 0, 0, false
}

type env struct{ lo, hi map[int]int64 }

func (f *FA) atomBounds(x int, e *env) (int64, int64) {
	alo, ahi := f.atoms[x].lo, f.atoms[x].hi
	if e != nil {
		if v, ok := e.lo[x]; ok && v > alo {
			alo = v
		}
		if v, ok := e.hi[x]; ok && v < ahi {
			ahi = v
		}
	}
	return alo, ahi
}

// bounds returns an interval enclosing l under env e.
func (f *FA) bounds(l LF, e *env) (int64, int64) {
	lo, hi := l.C, l.C
	loInf, hiInf := false, false
	for x, k := range l.T {
		alo, ahi := f.atomBounds(x, e)
		var tlo, thi int64
		if k > 0 {
			tlo, thi = mulsat(k, alo), mulsat(k, ahi)
		} else {
			tlo, thi = mulsat(k, ahi), mulsat(k, alo)
		}
		if tlo <= -INF {
			loInf = true
		} else {
			lo = sat(lo, tlo)
		}
		if thi >= INF {
			hiInf = true
		} else {
			hi = sat(hi, thi)
		}
	}
	if loInf || lo <= -INF {
		lo = -INF
	}
	if hiInf || hi >= INF {
		hi = INF
	}
	return lo, hi
}

// ---- value numbering of field loads ----

func (f *FA) blockReach() {
	if f.reach != nil {
		return
	}
	f.reach = map[*ssa.BasicBlock]map[*ssa.BasicBlock]bool{}
	for _, b := range f.Fn.Blocks {
		seen := map[*ssa.BasicBlock]bool{}
		var st []*ssa.BasicBlock
		st = append(st, b.Succs...)
		for len(st) > 0 {
			x := st[len(st)-1]
			st = st[:len(st)-1]
			if seen[x] {
				continue
			}
			seen[x] = true
			st = append(st, x.Succs...)
		}
		f.reach[b] = seen // blocks reachable from b by at least one edge
	}
}

func instrIndex(ins ssa.Instruction) int {
	for i, x := range ins.Block().Instrs {
		if x == ins {
			return i
		}
	}
	return -1
}

// mayPassBetween reports whether instruction k can execute after a and before b on some path
// that does not execute a again (a re-execution of a starts a new value class, so only kills on
// a-free paths from a to b matter; a dominates b).
func (f *FA) mayPassBetween(a, k, b ssa.Instruction) bool {
	A := a.Block()
	reachAvoidA := func(from *ssa.BasicBlock) map[*ssa.BasicBlock]bool {
		seen := map[*ssa.BasicBlock]bool{}
		var st []*ssa.BasicBlock
		st = append(st, from.Succs...)
		for len(st) > 0 {
			x := st[len(st)-1]
			st = st[:len(st)-1]
			if seen[x] || x == A {
				continue
			}
			seen[x] = true
			st = append(st, x.Succs...)
		}
		return seen
	}
	ia, ik, ib := instrIndex(a), instrIndex(k), instrIndex(b)
	if k.Block() == A {
		if ik <= ia {
			return false // reaching k again means re-executing a first
		}
		if b.Block() == A {
			return ib > ik
		}
		return reachAvoidA(A)[b.Block()]
	}
	if !reachAvoidA(A)[k.Block()] {
		return false
	}
	if b.Block() == A {
		return false // b follows a in A: getting there from k re-executes a
	}
	if b.Block() == k.Block() && ib > ik {
		return true
	}
	return reachAvoidA(k.Block())[b.Block()]
}

// canonBase gives a canonical string for an SSA value used as the base of a field address.
func (f *FA) canon(v ssa.Value) string {
	switch x := v.(type) {
	case *ssa.UnOp:
		if x.Op == token.MUL {
			if c, ok := f.loadCls[x]; ok {
				return c
			}
		}
	case *ssa.FieldAddr:
		return fmt.Sprintf("&(%s).%d", f.canon(x.X), x.Field)
	case *ssa.Parameter:
		return "param:" + x.Name()
	case *ssa.Global:
		return "global:" + x.String()
	case *ssa.Const:
		return "const:" + x.String()
	}
	return "v:" + v.Name()
}

func (f *FA) computeLoadClasses() {
	f.loadCls = map[*ssa.UnOp]string{}
	type rep struct {
		load *ssa.UnOp
		cls  string
	}
	reps := map[string][]rep{}
	// kills per effect key
	type kill struct {
		ins ssa.Instruction
	}
	blocks := f.Fn.DomPreorder()
	for _, b := range blocks {
		for _, ins := range b.Instrs {
			u, ok := ins.(*ssa.UnOp)
			if !ok || u.Op != token.MUL {
				continue
			}
			var key, ek string
			switch a := u.X.(type) {
			case *ssa.FieldAddr:
				key = fmt.Sprintf("%s.%d", f.canon(a.X), a.Field)
				ek = FieldKey(a.X.Type(), a.Field)
			case *ssa.IndexAddr:
				// element loads of pointer-like elements (payloads[i] read twice in one iteration): same base
				// value and same index value, no write to elements of that type in between
				ek = sliceElemKey(a.X.Type())
				if ek == "" || !pointerLike(u.Type()) {
					continue
				}
				key = fmt.Sprintf("%s[%s]", f.canon(a.X), f.canon(a.Index))
			case *ssa.Parameter:
				// *p read several times (a container passed by pointer): the same value as long as nothing is
				// stored through a pointer of that type in between
				if _, isPtr := a.Type().Underlying().(*types.Pointer); !isPtr {
					continue
				}
				key = "*" + f.canon(a)
				ek = addrEffect(a)
			default:
				continue
			}
			assigned := false
			for _, r := range reps[key] {
				if !dominatesInstr(r.load, u) {
					continue
				}
				if f.killedBetween(r.load, u, ek) {
					continue
				}
				f.loadCls[u] = r.cls
				assigned = true
				break
			}
			if !assigned {
				cls := fmt.Sprintf("load(%s)#%d", key, len(reps[key]))
				f.loadCls[u] = cls
				reps[key] = append(reps[key], rep{u, cls})
			}
		}
	}
}

func dominatesInstr(a, b ssa.Instruction) bool {
	if a.Block() == b.Block() {
		return instrIndex(a) <= instrIndex(b)
	}
	return a.Block().Dominates(b.Block())
}

func (f *FA) killedBetween(a, b ssa.Instruction, effKey string) bool {
	for _, blk := range f.Fn.Blocks {
		for _, ins := range blk.Instrs {
			switch x := ins.(type) {
			case *ssa.Store:
				if addrEffect(x.Addr) == effKey && f.mayPassBetween(a, ins, b) {
					return true
				}
			case ssa.CallInstruction:
				if f.C.CallMayWrite(x, effKey) && f.mayPassBetween(a, ins, b) {
					return true
				}
			}
		}
	}
	return false
}

// ---- linear forms of SSA values ----

// prepare evaluates every integer φ-node first, so that the induction-variable rule never runs
// nested inside the evaluation of a value that depends on the φ (which would make the result
// depend on the order of queries).
func (f *FA) prepare() {
	if f.prepared {
		return
	}
	f.prepared = true
	for _, b := range f.Fn.DomPreorder() {
		for _, ins := range b.Instrs {
			p, ok := ins.(*ssa.Phi)
			if !ok {
				break
			}
			if _, _, isInt := f.typeRange(p.Type()); isInt {
				f.LFOf(p)
			}
		}
	}
	f.injectAccumulatorInvariants()
	// q = a / k with a constant k > 0 and a >= 0 (a length): k*q <= a <= k*q + k-1, from the definition on
	for _, b := range f.Fn.DomPreorder() {
		for _, ins := range b.Instrs {
			bo, ok := ins.(*ssa.BinOp)
			if !ok || bo.Op != token.QUO {
				continue
			}
			if _, _, isInt := f.typeRange(bo.Type()); !isInt {
				continue
			}
			k := f.LFOf(bo.Y)
			if !k.isConst() {
				// a divisor that is not a constant but is at least m >= 1 (a hash size): m*q <= a for a >= 0
				if m, _ := f.bounds(k, nil); m >= 1 && m <= 1<<16 {
					a := f.LFOf(bo.X)
					if lo, _ := f.bounds(a, nil); lo >= 0 || isLenCall(bo.X) {
						f.Inject(b, Fact{L: a.add(f.LFOf(bo), -m)})
					}
				}
				continue
			}
			if k.C <= 0 || k.C > 1<<16 {
				continue
			}
			a := f.LFOf(bo.X)
			if lo, _ := f.bounds(a, nil); lo < 0 && !isLenCall(bo.X) {
				continue
			}
			q := f.LFOf(bo)
			f.Inject(b, Fact{L: a.add(q, -k.C)})
			f.Inject(b, Fact{L: q.scale(k.C).add(konst(k.C-1), 1).add(a, -1)})
		}
	}
}

// injectAccumulatorInvariants: a loop with one back edge that, in every iteration, appends a constant number c of
// octets to a byte slice p (p' = append(p, x...) with len(x) = c, in a block every iteration passes) and adds 1
// to a counter q keeps len(p) - c*q constant: len(p) = len(p0) + c*(q - q0). The fact is attached to the loop
// header (p and q are its φ-nodes, fixed during one iteration, so it holds wherever the header dominates).
func (f *FA) injectAccumulatorInvariants() {
	for _, li := range naturalLoops(f.Fn) {
		h := li.header
		if len(h.Preds) != 2 || len(li.backs) != 1 {
			continue
		}
		latch := li.backs[0]
		bi := -1
		for i, p := range h.Preds {
			if p == latch {
				bi = i
			}
		}
		if bi < 0 {
			continue
		}
		var accs, ctrs []*ssa.Phi
		for _, ins := range h.Instrs {
			p, ok := ins.(*ssa.Phi)
			if !ok {
				break
			}
			if isByteSlice(p.Type()) {
				accs = append(accs, p)
			} else if _, _, isInt := f.typeRange(p.Type()); isInt {
				ctrs = append(ctrs, p)
			}
		}
		for _, q := range ctrs {
			q0 := f.LFOf(q.Edges[1-bi])
			step, ok := q.Edges[bi].(*ssa.BinOp)
			if !q0.isConst() || !ok || step.Op != token.ADD || step.X != ssa.Value(q) || !step.Block().Dominates(latch) {
				continue
			}
			if k := f.LFOf(step.Y); !k.isConst() || k.C != 1 {
				continue
			}
			for _, p := range accs {
				l0 := f.SliceLen(p.Edges[1-bi])
				ap := isAppendCall(p.Edges[bi])
				if !l0.isConst() || ap == nil || len(ap.Call.Args) != 2 || ap.Call.Args[0] != ssa.Value(p) || !ap.Block().Dominates(latch) {
					continue
				}
				c := f.SliceLen(ap.Call.Args[1])
				if !c.isConst() || c.C <= 0 || c.C > 1<<16 {
					continue
				}
				// len(p) - c*q - (l0 - c*q0) == 0
				d := f.SliceLen(p).add(f.LFOf(q), -c.C).add(konst(l0.C-c.C*q0.C), -1)
				f.Inject(h, Fact{L: d})
				f.Inject(h, Fact{L: d.scale(-1)})
			}
		}
	}
}

// isLenCall: v is len(x) of a slice, string or array, possibly converted between integer types that hold it.
func isLenCall(v ssa.Value) bool {
	c, ok := v.(*ssa.Call)
	if !ok {
		return false
	}
	b, ok := c.Call.Value.(*ssa.Builtin)
	return ok && b.Name() == "len"
}

// LFOf returns the linear form of an integer SSA value.
func (f *FA) LFOf(v ssa.Value) LF {
	f.prepare()
	if r, ok := f.lfMemo[v]; ok {
		return r
	}
	if f.inprog[v] {
		lo, hi, ok := f.typeRange(v.Type())
		if !ok {
			lo, hi = -INF, INF
		}
		return f.atomLF("cyc:"+v.Name(), v.Name(), lo, hi)
	}
	f.inprog[v] = true
	r := f.lf0(v)
	delete(f.inprog, v)
	f.lfMemo[v] = r
	if id, ok := singleAtom(r); ok && f.atoms[id].def == nil {
		if _, isConv := v.(*ssa.Convert); !isConv {
			f.atoms[id].def = v
		}
	}
	return r
}

// phiAtom: the atom that stands for the integer φ ph (-1 if its linear form is not a single atom).
func (f *FA) phiAtom(ph *ssa.Phi) int {
	if id, ok := singleAtom(f.LFOf(ph)); ok {
		return id
	}
	return -1
}

// atomDef returns a value whose linear form is exactly atom a, if one was seen.
func (f *FA) atomDef(a int) ssa.Value { return f.atoms[a].def }

// fieldOfLenAtom: if atom a is the length of a field load, the field's "Struct.Field" key.
func (f *FA) fieldOfLenAtom(a int) string {
	if v := f.atoms[a].lenOf; v != nil {
		if fk, ok := fieldKeyOfLoad(v); ok {
			return fk
		}
	}
	return ""
}

// fit returns l if the mathematical value provably lies in range(t) (no wrap-around), else a fresh atom.
func (f *FA) fit(l LF, t types.Type, key, name string) LF {
	lo, hi, ok := f.typeRange(t)
	if !ok {
		return f.atomLF(key, name, -INF, INF)
	}
	blo, bhi := f.bounds(l, nil)
	okLo := blo >= lo && blo > -INF
	okHi := bhi <= hi && bhi < INF
	if okLo && okHi {
		return l
	}
	if os.Getenv("IKELINT_DEBUG_PHI") != "" {
		fmt.Fprintf(os.Stderr, "fit %s in %s: %s bounds [%d,%d] type [%d,%d]\n", name, f.Fn.Name(), f.Show(l), blo, bhi, lo, hi)
	}
	// partially bounded: keep what the type guarantees; remember what the atom is when nothing wraps, so that a
	// proof under guards that bound the operands (attr.length == 1 before 4*attr.length in uint8) can use it
	r := f.atomLF(key, name, lo, hi)
	if id, ok := singleAtom(r); ok {
		if f.narrowDef == nil {
			f.narrowDef = map[int]narrowDef{}
		}
		if _, had := f.narrowDef[id]; !had {
			f.narrowDef[id] = narrowDef{inner: l, lo: lo, hi: hi}
		}
	}
	return r
}

// narrowDef: atom = inner whenever lo <= inner <= hi (the operation did not wrap in its type).
type narrowDef struct {
	inner  LF
	lo, hi int64
}

// withNarrowFacts adds, for every narrowed atom whose un-narrowed value provably lies in its type's range under
// facts, the equality atom = value. Two rounds (a narrowed value may feed another narrowing).
func (f *FA) withNarrowFacts(facts []Fact) []Fact {
	if len(f.narrowDef) == 0 {
		return facts
	}
	out := facts
	added := map[int]bool{}
	for round := 0; round < 2; round++ {
		e := f.refine(out)
		grew := false
		for id, d := range f.narrowDef {
			if added[id] {
				continue
			}
			blo, bhi := f.bounds(d.inner, e)
			if blo >= d.lo && bhi <= d.hi && blo > -INF && bhi < INF {
				a := LF{T: map[int]int64{id: 1}}
				out = append(append(out[:len(out):len(out)], Fact{L: a.add(d.inner, -1)}), Fact{L: d.inner.add(a, -1)})
				added[id] = true
				grew = true
			}
		}
		if !grew {
			break
		}
	}
	return out
}

// unwrapOffset rewrites atoms that stand for int-wide arithmetic which might have wrapped (cursor + 4 in int) into
// the arithmetic itself. Only for positions in a buffer the code writes through: such a position is at most the
// buffer's capacity, which is far below the range of int, so the sum that produced it did not wrap.
func (f *FA) unwrapOffset(l LF) LF {
	ilo, ihi, _ := f.typeRange(types.Typ[types.Int])
	for round := 0; round < 6; round++ {
		changed := false
		for a, k := range l.T {
			d, ok := f.narrowDef[a]
			if !ok || d.lo > ilo || d.hi < ihi {
				continue
			}
			l = l.add(LF{T: map[int]int64{a: 1}}, -k).add(d.inner, k)
			changed = true
			break
		}
		if !changed {
			break
		}
	}
	return l
}

func (f *FA) lf0(v ssa.Value) LF {
	tlo, thi, isInt := f.typeRange(v.Type())
	opaqueKey := func(key string) LF {
		lo, hi := tlo, thi
		if !isInt {
			lo, hi = -INF, INF
		}
		return f.atomLF(key, f.vname(v), lo, hi)
	}
	opaque := func() LF { return opaqueKey("v:" + v.Name()) }
	switch x := v.(type) {
	case *ssa.Extract:
		// n of `n, err := h.Write(p)` on a hash.Hash: hash.Hash's Write never fails and takes all of p
		if isInt && x.Index == 0 {
			if call, ok := x.Tuple.(*ssa.Call); ok && call.Call.IsInvoke() && call.Call.Method.Name() == "Write" && len(call.Call.Args) == 1 {
				if cs := f.C.CalleesAt(call); len(cs.Mod) == 0 && len(cs.External) == 1 && cs.External[0] == "iface:hash.Hash.Write" {
					return f.SliceLen(call.Call.Args[0])
				}
			}
		}
		return opaque()
	case *ssa.Const:
		if x.Value != nil && x.Value.Kind() == constant.Int {
			if i, ok := constant.Int64Val(x.Value); ok && i > -INF && i < INF {
				return konst(i)
			}
		}
		return opaque()
	case *ssa.Convert:
		if _, _, ok := f.typeRange(x.X.Type()); ok && isInt {
			in := f.LFOf(x.X)
			return f.fit(in, v.Type(), "conv:"+v.Type().String()+":"+in.key(), f.vname(v))
		}
		return opaque()
	case *ssa.ChangeType:
		if _, _, ok := f.typeRange(x.X.Type()); ok && isInt {
			return f.LFOf(x.X)
		}
		return opaque()
	case *ssa.BinOp:
		if !isInt {
			return opaque()
		}
		a, b := f.LFOf(x.X), f.LFOf(x.Y)
		k := fmt.Sprintf("%s:%s:(%s),(%s)", x.Op, v.Type(), a.key(), b.key())
		name := f.vname(v)
		switch x.Op {
		case token.ADD:
			return f.fit(a.add(b, 1), v.Type(), k, name)
		case token.SUB:
			return f.fit(a.add(b, -1), v.Type(), k, name)
		case token.MUL:
			if a.isConst() {
				return f.fit(b.scale(a.C), v.Type(), k, name)
			}
			if b.isConst() {
				return f.fit(a.scale(b.C), v.Type(), k, name)
			}
			alo, ahi := f.bounds(a, nil)
			blo, bhi := f.bounds(b, nil)
			if alo >= 0 && blo >= 0 && ahi < INF && bhi < INF {
				p := mulsat(ahi, bhi)
				if p <= thi && p < INF {
					// the product does not wrap: remember its factors, so that a guard pinning one of them
					// makes it linear (withProductFacts)
					r := f.atomLF(k, name, mulsat(alo, blo), p)
					if id, ok := singleAtom(r); ok {
						if f.mulDef == nil {
							f.mulDef = map[int][2]LF{}
						}
						f.mulDef[id] = [2]LF{a, b}
					}
					return r
				}
			}
			return f.atomLF(k, name, tlo, thi)
		case token.AND:
			if b.isConst() && b.C >= 0 {
				return f.atomLF(k, name, 0, b.C)
			}
			if a.isConst() && a.C >= 0 {
				return f.atomLF(k, name, 0, a.C)
			}
		case token.OR:
			alo, ahi := f.bounds(a, nil)
			blo, bhi := f.bounds(b, nil)
			if alo >= 0 && blo >= 0 && ahi < INF && bhi < INF {
				// a|b <= a+b
				hi := sat(ahi, bhi)
				if hi <= thi {
					lo := alo
					if blo > lo {
						lo = blo
					}
					return f.atomLF(k, name, lo, hi)
				}
			}
		case token.SHR:
			alo, ahi := f.bounds(a, nil)
			if b.isConst() && alo >= 0 && b.C >= 0 && b.C < 62 && ahi < INF {
				return f.atomLF(k, name, alo>>uint(b.C), ahi>>uint(b.C))
			}
		case token.SHL:
			alo, ahi := f.bounds(a, nil)
			if b.isConst() && alo >= 0 && b.C >= 0 && b.C < 40 && ahi < INF {
				hi := mulsat(ahi, int64(1)<<uint(b.C))
				if hi <= thi && hi < INF {
					return f.fit(a.scale(int64(1)<<uint(b.C)), v.Type(), k, name)
				}
			}
		case token.REM:
			alo, _ := f.bounds(a, nil)
			if b.isConst() && b.C > 0 && alo >= 0 {
				return f.atomLF(k, name, 0, b.C-1)
			}
			if b.isConst() && b.C > 0 {
				return f.atomLF(k, name, -(b.C - 1), b.C-1)
			}
		case token.QUO:
			alo, ahi := f.bounds(a, nil)
			if b.isConst() && b.C > 0 && alo >= 0 {
				hi := ahi
				if hi < INF {
					hi = ahi / b.C
				}
				return f.atomLF(k, name, alo/b.C, hi)
			}
			if b.isConst() && b.C > 0 && alo > -INF && ahi < INF {
				// Go's division truncates towards zero, so the quotient lies between the quotients of the ends
				lo, hi := alo/b.C, ahi/b.C
				if isLenCall(x.X) {
					lo = 0
				}
				return f.atomLF(k, name, lo, hi)
			}
			// a non-negative dividend over a divisor that is at least 1: between 0 and dividend / smallest divisor
			if blo, _ := f.bounds(b, nil); blo >= 1 && alo >= 0 {
				hi := ahi
				if hi < INF {
					hi = ahi / blo
				}
				return f.atomLF(k, name, 0, hi)
			}
		}
		return f.atomLF(k, name, tlo, thi)
	case *ssa.Call:
		if b, ok := x.Call.Value.(*ssa.Builtin); ok {
			switch b.Name() {
			case "len":
				if _, isMap := x.Call.Args[0].Type().Underlying().(*types.Map); isMap {
					return f.atomLF("v:"+v.Name(), f.vname(v), 0, f.maxLen)
				}
				return f.SliceLen(x.Call.Args[0])
			case "cap":
				return f.atomLF("v:"+v.Name(), f.vname(v), 0, f.maxLen)
			case "copy":
				// copy returns min(len(dst), len(src)); when one is never longer than the other it is that length
				d, sl := f.SliceLen(x.Call.Args[0]), f.SliceLen(x.Call.Args[1])
				if lo, _ := f.bounds(d.add(sl, -1), nil); lo >= 0 {
					return sl
				}
				// a buffer sized by a first pass over the same list (sumloop.go)
				if f.C.fullCopies(f.Fn)[x] {
					return sl
				}
				if lo, _ := f.bounds(sl.add(d, -1), nil); lo >= 0 {
					return d
				}
				return f.atomLF("v:"+v.Name(), f.vname(v), 0, f.maxLen)
			}
		}
		if isInt && x.Call.IsInvoke() && x.Call.Method.Name() == "Size" && len(x.Call.Args) == 0 {
			// h.Size() of a hash.Hash: one value per object (the atom callLen uses for what Sum appends)
			if cs := f.C.CalleesAt(x); len(cs.Mod) == 0 && len(cs.External) == 1 && cs.External[0] == "iface:hash.Hash.Size" {
				return f.C.hashSizeLF(f, x.Call.Value)
			}
		}
		if isInt && x.Call.IsInvoke() && len(x.Call.Args) == 0 && f.C.pureGetter(x) {
			// a getter of an immutable descriptor (every implementer returns a field of its receiver or a
			// constant): one value per receiver object, however often it is called
			if ld, ok := x.Call.Value.(*ssa.UnOp); ok && ld.Op == token.MUL {
				if cls, ok := f.loadCls[ld]; ok {
					lo, hi := tlo, thi
					if f.CallRange != nil {
						if l2, h2, ok := f.CallRange(x); ok {
							lo, hi = l2, h2
						}
					}
					return f.atomLF("getter:"+x.Call.Method.Name()+":"+cls, x.Call.Method.Name()+"("+cls+")", lo, hi)
				}
			}
		}
		if f.CallRange != nil && isInt {
			if lo, hi, ok := f.CallRange(x); ok {
				return f.atomLF("v:"+v.Name(), f.vname(v), lo, hi)
			}
		}
		return opaque()
	case *ssa.UnOp:
		if x.Op == token.MUL && isInt {
			if cls, ok := f.loadCls[x]; ok {
				lo, hi := tlo, thi
				if fa, ok := x.X.(*ssa.FieldAddr); ok && f.FieldRange != nil {
					if l2, h2, ok := f.FieldRange(fa.X.Type(), fa.Field); ok {
						if l2 > lo {
							lo = l2
						}
						if h2 < hi {
							hi = h2
						}
					}
				}
				return f.atomLF("cls:"+cls, cls, lo, hi)
			}
		}
		if x.Op == token.SUB && isInt {
			a := f.LFOf(x.X)
			return f.fit(a.scale(-1), v.Type(), "neg:"+a.key(), f.vname(v))
		}
		return opaque()
	case *ssa.Phi:
		if !isInt {
			return opaque()
		}
		if key, ok := f.selectKey(x); ok {
			// `c ? a : b` over a condition and alternatives that have names of their own: one value per
			// (condition, alternatives), however often the code computes it (an accessor inlined twice)
			lo, hi := int64(INF), int64(-INF)
			for _, e := range x.Edges {
				l, h := f.bounds(f.LFOf(e), nil)
				if l < lo {
					lo = l
				}
				if h > hi {
					hi = h
				}
			}
			if lo < tlo {
				lo = tlo
			}
			if hi > thi {
				hi = thi
			}
			return f.atomLF(key, f.vname(v), lo, hi)
		}
		return f.phiLF(x, tlo, thi)
	}
	return opaque()
}

// selectKey: φ merges exactly two alternatives of an if/else whose condition is a nil test of a value with a
// canonical name (a field load by load class): a key built from the condition and the alternatives' linear forms.
func (f *FA) selectKey(ph *ssa.Phi) (string, bool) {
	b := ph.Block()
	if len(ph.Edges) != 2 || len(b.Preds) != 2 {
		return "", false
	}
	for _, p := range b.Preds {
		if b.Dominates(p) {
			return "", false // loop header
		}
	}
	d := b.Idom()
	if d == nil {
		return "", false
	}
	iff, ok := d.Instrs[len(d.Instrs)-1].(*ssa.If)
	if !ok || d.Succs[0] == d.Succs[1] {
		return "", false
	}
	cond, ok := iff.Cond.(*ssa.BinOp)
	if !ok || (cond.Op != token.EQL && cond.Op != token.NEQ) || !isNilConst(cond.Y) {
		return "", false
	}
	ld, ok := cond.X.(*ssa.UnOp)
	if !ok || ld.Op != token.MUL {
		return "", false
	}
	cls, ok := f.loadCls[ld]
	if !ok {
		return "", false
	}
	// which alternative belongs to which side
	var side [2]int
	for i, p := range b.Preds {
		switch {
		case p == d && d.Succs[0] == b:
			side[i] = 0
		case p == d && d.Succs[1] == b:
			side[i] = 1
		case d.Succs[0].Dominates(p) && !d.Succs[1].Dominates(p):
			side[i] = 0
		case d.Succs[1].Dominates(p) && !d.Succs[0].Dominates(p):
			side[i] = 1
		default:
			return "", false
		}
	}
	if side[0] == side[1] {
		return "", false
	}
	var alt [2]string
	for i, e := range ph.Edges {
		if _, isPhi := e.(*ssa.Phi); isPhi {
			return "", false
		}
		l := f.LFOf(e)
		for a := range l.T {
			if !strings.HasPrefix(f.atoms[a].key, "getter:") && !strings.HasPrefix(f.atoms[a].key, "cls:") {
				return "", false
			}
		}
		alt[side[i]] = l.key()
	}
	if cond.Op == token.EQL {
		alt[0], alt[1] = alt[1], alt[0] // normalise to the "!= nil" reading
	}
	return "sel:" + cls + "!=nil?" + alt[0] + ":" + alt[1], true
}

func (f *FA) vname(v ssa.Value) string {
	if u, ok := v.(*ssa.UnOp); ok && u.Op == token.MUL {
		if c, ok := f.loadCls[u]; ok {
			return c
		}
	}
	return v.Name()
}

// phiLF handles integer φ-nodes: the induction-variable rule of DESIGN 3.2.
// predDead: the i-th incoming edge of block b is never taken under the closed-world assumptions: its
// source block is dead, or the source ends in a branch whose condition is decided the other way.
func (f *FA) predDead(b *ssa.BasicBlock, i int) bool {
	p := b.Preds[i]
	if f.Dead[p] {
		return true
	}
	iff, ok := p.Instrs[len(p.Instrs)-1].(*ssa.If)
	if !ok || p.Succs[0] == p.Succs[1] {
		return false
	}
	val, _, known := f.C.condKnown(iff.Cond)
	if !known {
		return false
	}
	if val {
		return p.Succs[1] == b
	}
	return p.Succs[0] == b
}

func (f *FA) liveEdges(x *ssa.Phi) []ssa.Value {
	var out []ssa.Value
	for i, e := range x.Edges {
		if !f.predDead(x.Block(), i) {
			out = append(out, e)
		}
	}
	return out
}

// addendsBeside flattens a tree of additions: e = x + k + Σ rest, with x occurring exactly once.
func addendsBeside(e ssa.Value, x *ssa.Phi) (rest []ssa.Value, k int64, ok bool) {
	n := 0
	var walk func(v ssa.Value, depth int) bool
	walk = func(v ssa.Value, depth int) bool {
		if v == ssa.Value(x) {
			n++
			return true
		}
		if c, isC := v.(*ssa.Const); isC {
			if c.Value == nil || c.Value.Kind() != constant.Int {
				return false
			}
			i, exact := constant.Int64Val(c.Value)
			if !exact || i <= -INF || i >= INF {
				return false
			}
			k += i
			return true
		}
		if b, isB := v.(*ssa.BinOp); isB && b.Op == token.ADD && depth < 8 && types.Identical(b.Type(), x.Type()) {
			return walk(b.X, depth+1) && walk(b.Y, depth+1)
		}
		rest = append(rest, v)
		return true
	}
	if _, isB := e.(*ssa.BinOp); !isB {
		return nil, 0, false
	}
	if !walk(e, 0) || n != 1 {
		return nil, 0, false
	}
	return rest, k, true
}

func (f *FA) phiLF(x *ssa.Phi, tlo, thi int64) LF {
	key := "phi:" + x.Name()
	if live := f.liveEdges(x); len(live) == 1 && live[0] != ssa.Value(x) {
		return f.LFOf(live[0])
	}
	lo, hi := tlo, thi
	var inits []int64
	okUp, okDown := true, true
	var steps []int64
	var backs []int // edge indices of back edges
	var varInits []int
	// whatever is evaluated before the φ has its atom sees a placeholder for it; forget those results afterwards
	seenLF := map[ssa.Value]bool{}
	for k := range f.lfMemo {
		seenLF[k] = true
	}
	seenLen := map[ssa.Value]bool{}
	for k := range f.lenMemo {
		seenLen[k] = true
	}
	purge := func() {
		for k := range f.lfMemo {
			if !seenLF[k] {
				delete(f.lfMemo, k)
			}
		}
		for k := range f.lenMemo {
			if !seenLen[k] {
				delete(f.lenMemo, k)
			}
		}
	}
	defer func() {
		if purge != nil {
			purge()
		}
	}()
	for i, e := range x.Edges {
		if c, ok := e.(*ssa.Const); ok && c.Value != nil && c.Value.Kind() == constant.Int {
			if v, ok := constant.Int64Val(c.Value); ok {
				inits = append(inits, v)
				continue
			}
		}
		if b, ok := e.(*ssa.BinOp); ok && (b.Op == token.ADD || b.Op == token.SUB) && b.X == ssa.Value(x) {
			if c, ok := b.Y.(*ssa.Const); ok && c.Value != nil && c.Value.Kind() == constant.Int {
				if s, ok := constant.Int64Val(c.Value); ok {
					if b.Op == token.SUB {
						s = -s
					}
					if s < 0 {
						okUp = false
					}
					if s > 0 {
						okDown = false
					}
					steps = append(steps, s)
					backs = append(backs, i)
					continue
				}
			}
			// a variable, provably non-negative and small step that does not depend on the φ itself
			// (offset += int(payloadLength)): a count-up whose largest step is the step's upper bound
			if b.Op == token.ADD && !dependsOnValue(b.Y, x, 0) {
				if _, _, isInt := f.typeRange(b.Y.Type()); isInt {
					e := f.refine(f.FactsAt(x.Block().Preds[i]))
					slo, shi := f.bounds(f.LFOf(b.Y), e)
					if slo >= 0 && shi <= 1<<20 {
						okDown = okDown && shi == 0
						steps = append(steps, shi)
						backs = append(backs, i)
						continue
					}
				}
			}
		}
		// the same through intermediate values: offset = (offset + 4) + n, every addend other than the φ
		// constant or provably non-negative, small and independent of the φ
		if rest, k, ok := addendsBeside(e, x); ok && k >= 0 {
			total, good := k, true
			for _, r := range rest {
				if dependsOnValue(r, x, 0) {
					good = false
					break
				}
				if _, _, isInt := f.typeRange(r.Type()); !isInt {
					good = false
					break
				}
				env := f.refine(f.FactsAt(x.Block().Preds[i]))
				slo, shi := f.bounds(f.LFOf(r), env)
				if slo < 0 || shi > 1<<20 {
					good = false
					break
				}
				total += shi
			}
			if good && total <= 1<<21 {
				okDown = okDown && total == 0
				steps = append(steps, total)
				backs = append(backs, i)
				continue
			}
		}
		// an entry edge that is not a constant (an inner cursor that starts where the enclosing record's fixed
		// part ends): its value where the loop is entered is the first value
		if !x.Block().Dominates(x.Block().Preds[i]) {
			if _, _, isInt := f.typeRange(e.Type()); isInt {
				varInits = append(varInits, i)
				continue
			}
		}
		okUp, okDown = false, false
	}
	if len(steps) == 0 {
		// not an induction variable: a merge of values; interval join of the incoming edges
		lo2, hi2 := int64(INF), int64(-INF)
		// an edge that depends on the φ itself (offset = offset + 4 + n through intermediate values) is evaluated
		// with a placeholder for the φ; what was memoised under the placeholder is forgotten afterwards, so that
		// later uses see the φ's own atom
		beforeLF := map[ssa.Value]bool{}
		for k := range f.lfMemo {
			beforeLF[k] = true
		}
		beforeLen := map[ssa.Value]bool{}
		for k := range f.lenMemo {
			beforeLen[k] = true
		}
		defer func() {
			for k := range f.lfMemo {
				if !beforeLF[k] {
					delete(f.lfMemo, k)
				}
			}
			for k := range f.lenMemo {
				if !beforeLen[k] {
					delete(f.lenMemo, k)
				}
			}
		}()
		for i, e := range x.Edges {
			if f.predDead(x.Block(), i) {
				continue
			}
			if e == ssa.Value(x) {
				continue
			}
			blo, bhi := f.bounds(f.LFOf(e), nil)
			if blo < lo2 {
				lo2 = blo
			}
			if bhi > hi2 {
				hi2 = bhi
			}
		}
		if lo2 <= hi2 {
			if lo2 < tlo {
				lo2 = tlo
			}
			if hi2 > thi {
				hi2 = thi
			}
			return f.atomLF(key, x.Name(), lo2, hi2)
		}
		return f.atomLF(key, x.Name(), tlo, thi)
	}
	var varInitLF *LF
	if len(varInits) > 0 {
		// one variable first value, counting up only; its interval where the loop is entered, and the proof that
		// it is no larger than any length
		if len(inits) != 0 || !okUp {
			return f.atomLF(key, x.Name(), tlo, thi)
		}
		// (several ways into the loop may carry the same value)
		l := f.LFOf(x.Edges[varInits[0]])
		minLo := int64(INF)
		for _, i := range varInits {
			if x.Edges[i] != x.Edges[varInits[0]] {
				return f.atomLF(key, x.Name(), tlo, thi)
			}
			pred := x.Block().Preds[i]
			facts := f.FactsAt(pred)
			blo, _ := f.bounds(l, f.refine(facts))
			if blo <= -INF {
				return f.atomLF(key, x.Name(), tlo, thi)
			}
			if ok, _ := f.Prove(konst(f.maxLen).add(l, -1), facts); !ok {
				return f.atomLF(key, x.Name(), tlo, thi)
			}
			if blo < minLo {
				minLo = blo
			}
		}
		inits = append(inits, minLo)
		varInitLF = &l
	}
	if len(inits) == 0 || (!okUp && !okDown) {
		return f.atomLF(key, x.Name(), tlo, thi)
	}
	mn, mx := inits[0], inits[0]
	for _, i := range inits {
		if i < mn {
			mn = i
		}
		if i > mx {
			mx = i
		}
	}
	maxStep := int64(0)
	for _, s := range steps {
		if s < 0 {
			s = -s
		}
		if s > maxStep {
			maxStep = s
		}
	}
	if okUp {
		// Inductive hypothesis φ <= H with H = maxLen + 2^20; kept only if every back edge is
		// dominated by a fact bounding φ (+k) by something <= maxLen, so that φ+step <= H and the
		// increment cannot wrap.
		if mn > lo {
			lo = mn
		}
		H := f.maxLen + (1 << 20)
		if thi < H {
			H = thi
		}
		id := f.newAtom(key, x.Name(), lo, H)
		// an evaluation nested in that of an enclosing φ (whose placeholder made this one undecidable) may have
		// registered the atom with the type's range: this evaluation is the one that counts
		f.atoms[id].lo, f.atoms[id].hi = lo, H
		purge()
		purge = nil
		beforeLF := map[ssa.Value]bool{}
		for k := range f.lfMemo {
			beforeLF[k] = true
		}
		beforeLen := map[ssa.Value]bool{}
		for k := range f.lenMemo {
			beforeLen[k] = true
		}
		f.lfMemo[x] = LF{T: map[int]int64{id: 1}}
		bounded := maxStep <= 1<<20 && mx <= f.maxLen
		if varInitLF != nil {
			// the first value itself is below maxLen (proved above); counting up from it, the φ never falls below it
			f.Inject(x.Block(), Fact{L: LF{T: map[int]int64{id: 1}}.add(*varInitLF, -1)})
		}
		if bounded {
			for _, bi := range backs {
				pred := x.Block().Preds[bi]
				if !f.boundedAbove(id, pred) {
					bounded = false
					break
				}
			}
		}
		if os.Getenv("IKELINT_DEBUG_PHI") != "" {
			fmt.Fprintf(os.Stderr, "phi %s in %s: inits %v steps %v varInit %v bounded %v\n", x.Name(), f.Fn.Name(), inits, steps, varInitLF != nil, bounded)
		}
		if !bounded {
			// the hypothesis is not inductive: widen, and forget everything derived under it
			f.atoms[id].hi = thi
			for k := range f.lfMemo {
				if !beforeLF[k] {
					delete(f.lfMemo, k)
				}
			}
			for k := range f.lenMemo {
				if !beforeLen[k] {
					delete(f.lenMemo, k)
				}
			}
		}
		return LF{T: map[int]int64{id: 1}}
	}
	// count down: lower bound stays the type's (unsigned: 0), upper bound the largest init
	if mx < hi {
		hi = mx
	}
	// a signed count-down could wrap below; keep the type's lower bound
	return f.atomLF(key, x.Name(), lo, hi)
}

// dependsOnValue: v is computed (through arithmetic, conversions, φ) from target.
func dependsOnValue(v, target ssa.Value, depth int) bool {
	if v == target {
		return true
	}
	if depth > 8 {
		return true // unknown: assume it does
	}
	switch e := v.(type) {
	case *ssa.BinOp:
		return dependsOnValue(e.X, target, depth+1) || dependsOnValue(e.Y, target, depth+1)
	case *ssa.UnOp:
		if e.Op == token.MUL {
			// a value read from memory: where it is read may depend on the target, what is read is not computed
			// from it (like the result of a call on octets at the cursor)
			return false
		}
		return dependsOnValue(e.X, target, depth+1)
	case *ssa.Convert:
		return dependsOnValue(e.X, target, depth+1)
	case *ssa.ChangeType:
		return dependsOnValue(e.X, target, depth+1)
	case *ssa.Phi:
		for _, ed := range e.Edges {
			if dependsOnValue(ed, target, depth+2) {
				return true
			}
		}
		return false
	case *ssa.Const, *ssa.Parameter, *ssa.Call, *ssa.Extract:
		return false
	}
	return true
}

// boundedAbove reports whether at block b some dominating fact implies atom id <= maxLen.
func (f *FA) boundedAbove(id int, b *ssa.BasicBlock) bool {
	facts := f.FactsAt(b)
	e := f.refine(facts)
	_, hi := f.atomBounds(id, e)
	if hi <= f.maxLen {
		return true
	}
	// facts of the form  A - k*id - c >= 0 with k>=1, A bounded by maxLen, c>=0
	for _, ft := range facts {
		if ft.NE {
			continue
		}
		k, ok := ft.L.T[id]
		if !ok || k >= 0 {
			continue
		}
		rest := LF{C: ft.L.C, T: map[int]int64{}}
		for x, v := range ft.L.T {
			if x != id {
				rest.T[x] = v
			}
		}
		_, rhi := f.bounds(rest, e)
		if rhi <= f.maxLen {
			return true
		}
	}
	// relationally: the bound is itself bounded by another guard (pos < end, end <= len(b))
	if ok, _ := f.Prove(konst(f.maxLen).add(LF{T: map[int]int64{id: 1}}, -1), facts); ok {
		return true
	}
	return false
}

// SliceLen returns len(v) as a linear form, for slices, strings, arrays and pointers to arrays.
func (f *FA) SliceLen(v ssa.Value) LF {
	f.prepare()
	if r, ok := f.lenMemo[v]; ok {
		return r
	}
	if f.inprog[v] {
		return f.atomLF("len:"+f.canon(v), "len("+f.canon(v)+")", 0, f.maxLen)
	}
	f.inprog[v] = true
	r := f.sliceLen0(v)
	delete(f.inprog, v)
	f.lenMemo[v] = r
	if id, ok := singleAtom(r); ok && f.atoms[id].lenOf == nil {
		f.atoms[id].lenOf = v
	}
	return r
}

func arrayLen(t types.Type) (int64, bool) {
	if p, ok := t.Underlying().(*types.Pointer); ok {
		t = p.Elem()
	}
	if a, ok := t.Underlying().(*types.Array); ok {
		return a.Len(), true
	}
	return 0, false
}

func (f *FA) sliceLen0(v ssa.Value) LF {
	opaque := func() LF { return f.atomLF("len:"+f.canon(v), "len("+f.canon(v)+")", 0, f.maxLen) }
	if n, ok := arrayLen(v.Type()); ok {
		return konst(n)
	}
	switch x := v.(type) {
	case *ssa.Const:
		if x.Value == nil {
			return konst(0)
		}
		if x.Value.Kind() == constant.String {
			return konst(int64(len(constant.StringVal(x.Value))))
		}
	case *ssa.Slice:
		var base LF
		if n, ok := arrayLen(x.X.Type()); ok {
			base = konst(n)
		} else {
			base = f.SliceLen(x.X)
		}
		hi := base
		if x.High != nil {
			hi = f.LFOf(x.High)
		}
		lo := konst(0)
		if x.Low != nil {
			lo = f.LFOf(x.Low)
		}
		return hi.add(lo, -1)
	case *ssa.MakeSlice:
		return f.LFOf(x.Len)
	case *ssa.ChangeType:
		return f.SliceLen(x.X)
	case *ssa.Convert:
		// []byte(string) / string([]byte): same length
		if isByteSeq(x.X.Type()) && isByteSeq(x.Type()) {
			return f.SliceLen(x.X)
		}
	case *ssa.BinOp:
		if x.Op == token.ADD { // string concatenation
			return f.SliceLen(x.X).add(f.SliceLen(x.Y), 1)
		}
	case *ssa.Call:
		if b, ok := x.Call.Value.(*ssa.Builtin); ok && b.Name() == "append" {
			if len(x.Call.Args) == 2 {
				return f.SliceLen(x.Call.Args[0]).add(f.SliceLen(x.Call.Args[1]), 1)
			}
			return f.SliceLen(x.Call.Args[0])
		}
		if f.CallLen != nil {
			if l, ok := f.CallLen(f, x); ok {
				return l
			}
		}
	case *ssa.UnOp:
		if x.Op == token.MUL {
			if cls, ok := f.loadCls[x]; ok {
				return f.atomLF("len:"+cls, "len("+cls+")", 0, f.maxLen)
			}
		}
	case *ssa.Phi:
		// a φ with a single live incoming edge is that value
		if live := f.liveEdges(x); len(live) == 1 && live[0] != ssa.Value(x) {
			return f.SliceLen(live[0])
		}
		// accumulator: every edge that depends on the φ extends it by append (length never shrinks),
		// so the length is at least the smallest initial length
		if sliceDependsOn(x, x, map[ssa.Value]bool{}) {
			lo := int64(INF)
			grows := true
			for _, e := range x.Edges {
				if e == ssa.Value(x) {
					continue
				}
				if sliceDependsOn(e, x, map[ssa.Value]bool{}) || e == ssa.Value(x) {
					if !appendExtends(e, x, 0) {
						grows = false
					}
					continue
				}
				if sliceDependsOnAny(e) {
					grows = false
					continue
				}
				blo, _ := f.bounds(f.SliceLen(e), nil)
				if blo < lo {
					lo = blo
				}
			}
			if grows && lo < INF && lo >= 0 {
				return f.atomLF("len:"+f.canon(v), "len("+f.canon(v)+")", lo, f.maxLen)
			}
		}
		// non-loop φ of slices: interval join of the incoming lengths
		if !sliceDependsOn(x, x, map[ssa.Value]bool{}) {
			lo, hi := int64(INF), int64(-INF)
			for i, e := range x.Edges {
				if f.predDead(x.Block(), i) {
					continue
				}
				blo, bhi := f.bounds(f.SliceLen(e), nil)
				if blo < lo {
					lo = blo
				}
				if bhi > hi {
					hi = bhi
				}
			}
			if lo >= 0 {
				if hi > f.maxLen {
					hi = f.maxLen
				}
				return f.atomLF("len:"+f.canon(v), "len("+f.canon(v)+")", lo, hi)
			}
		}
	}
	return opaque()
}

// appendExtends: v is target, or append(w, ...) / φ of such with w extending target (never a re-slice).
func appendExtends(v ssa.Value, target *ssa.Phi, depth int) bool {
	if v == ssa.Value(target) {
		return true
	}
	if depth > 8 {
		return false
	}
	switch x := v.(type) {
	case *ssa.Call:
		if b, ok := x.Call.Value.(*ssa.Builtin); ok && b.Name() == "append" {
			return appendExtends(x.Call.Args[0], target, depth+1)
		}
	case *ssa.Phi:
		for _, e := range x.Edges {
			if e == ssa.Value(x) {
				continue
			}
			if !appendExtends(e, target, depth+1) {
				return false
			}
		}
		return true
	}
	return false
}

// sliceDependsOnAny: v is itself a φ-dependent value we cannot bound (another loop φ).
func sliceDependsOnAny(v ssa.Value) bool {
	if p, ok := v.(*ssa.Phi); ok {
		return sliceDependsOn(p, p, map[ssa.Value]bool{})
	}
	return false
}

// sliceDependsOn reports whether slice value v is derived (through slicing, append, φ) from target.
func sliceDependsOn(v ssa.Value, target *ssa.Phi, seen map[ssa.Value]bool) bool {
	var ops []ssa.Value
	switch x := v.(type) {
	case *ssa.Phi:
		ops = x.Edges
	case *ssa.Slice:
		ops = []ssa.Value{x.X}
	case *ssa.ChangeType:
		ops = []ssa.Value{x.X}
	case *ssa.Call:
		if b, ok := x.Call.Value.(*ssa.Builtin); ok && b.Name() == "append" {
			ops = x.Call.Args
		}
	}
	for _, o := range ops {
		if o == ssa.Value(target) {
			return true
		}
		if seen[o] {
			continue
		}
		seen[o] = true
		if sliceDependsOn(o, target, seen) {
			return true
		}
	}
	return false
}

func isByteSeq(t types.Type) bool {
	switch u := t.Underlying().(type) {
	case *types.Basic:
		return u.Info()&types.IsString != 0
	case *types.Slice:
		if b, ok := u.Elem().Underlying().(*types.Basic); ok {
			return b.Kind() == types.Uint8
		}
	}
	return false
}

// ---- facts ----

func (f *FA) condFacts(c ssa.Value, truth bool, out *[]Fact) {
	switch x := c.(type) {
	case *ssa.UnOp:
		if x.Op == token.NOT {
			f.condFacts(x.X, !truth, out)
		}
	case *ssa.BinOp:
		if _, _, ok := f.typeRange(x.X.Type()); !ok {
			return
		}
		a, b := f.LFOf(x.X), f.LFOf(x.Y)
		op := x.Op
		if !truth {
			switch op {
			case token.LSS:
				op = token.GEQ
			case token.LEQ:
				op = token.GTR
			case token.GTR:
				op = token.LEQ
			case token.GEQ:
				op = token.LSS
			case token.EQL:
				op = token.NEQ
			case token.NEQ:
				op = token.EQL
			}
		}
		d := a.add(b, -1) // a-b
		switch op {
		case token.LSS: // a<b : b-a-1>=0
			*out = append(*out, Fact{L: d.scale(-1).add(konst(1), -1)})
		case token.LEQ:
			*out = append(*out, Fact{L: d.scale(-1)})
		case token.GTR:
			*out = append(*out, Fact{L: d.add(konst(1), -1)})
		case token.GEQ:
			*out = append(*out, Fact{L: d})
		case token.EQL:
			*out = append(*out, Fact{L: d}, Fact{L: d.scale(-1)})
		case token.NEQ:
			*out = append(*out, Fact{L: d, NE: true})
		}
	}
}

// FactsAt returns the facts that hold on entry to block b: branch conditions of every
// edge all paths to b must take, plus injected facts.
func (f *FA) FactsAt(b *ssa.BasicBlock) []Fact {
	var out []Fact
	for x := b; x != nil; x = x.Idom() {
		if fs, ok := f.extra[x]; ok {
			out = append(out, fs...)
		}
		if len(x.Preds) == 1 {
			p := x.Preds[0]
			if iff, ok := p.Instrs[len(p.Instrs)-1].(*ssa.If); ok && p.Succs[0] != p.Succs[1] {
				f.condFacts(iff.Cond, p.Succs[0] == x, &out)
				if call, nilOnTrue, ok := errEdgeCall(iff.Cond); ok && nilOnTrue == (p.Succs[0] == x) {
					out = append(out, f.callPost(call)...)
				}
			}
		}
	}
	return out
}

// Inject adds a fact holding in every block dominated by b.
func (f *FA) Inject(b *ssa.BasicBlock, ft Fact) { f.extra[b] = append(f.extra[b], ft) }

func (f *FA) refine(facts []Fact) *env {
	e := &env{lo: map[int]int64{}, hi: map[int]int64{}}
	for it := 0; it < 4; it++ {
		for _, ft := range facts {
			if len(ft.L.T) != 1 {
				continue
			}
			for x, k := range ft.L.T {
				alo, ahi := f.atomBounds(x, e)
				if ft.NE {
					if (-ft.L.C)%k == 0 {
						v := -ft.L.C / k
						if v == alo {
							e.lo[x] = alo + 1
						}
						if v == ahi {
							e.hi[x] = ahi - 1
						}
					}
					continue
				}
				if k > 0 { // k*x + c >= 0  =>  x >= ceil(-c/k)
					v := ceilDiv(-ft.L.C, k)
					if v > alo {
						e.lo[x] = v
					}
				} else { // x <= floor(c/-k)
					v := floorDiv(ft.L.C, -k)
					if v < ahi {
						e.hi[x] = v
					}
				}
			}
		}
	}
	return e
}

func floorDiv(a, b int64) int64 {
	q := a / b
	if (a%b != 0) && ((a < 0) != (b < 0)) {
		q--
	}
	return q
}
func ceilDiv(a, b int64) int64 { return -floorDiv(-a, b) }

// Prove tries to show g >= 0 from facts. Sound, incomplete. The returned string names the facts used.
// withProductFacts: a product atom whose one factor the facts pin to a constant c equals c times the other factor;
// the atom is replaced by that linear form in every fact (and, by substProducts, in the goal).
func (f *FA) productSubst(facts []Fact) map[int]LF {
	if len(f.mulDef) == 0 {
		return nil
	}
	e := f.refine(facts)
	var sub map[int]LF
	for id, d := range f.mulDef {
		for i := 0; i < 2; i++ {
			lo, hi := f.bounds(d[i], e)
			if lo != hi || lo < 0 || lo > 1<<16 {
				continue
			}
			if sub == nil {
				sub = map[int]LF{}
			}
			sub[id] = d[1-i].scale(lo)
			break
		}
	}
	return sub
}

func substLF(l LF, sub map[int]LF) LF {
	for id, r := range sub {
		if k, ok := l.T[id]; ok && k != 0 {
			l = l.add(LF{T: map[int]int64{id: 1}}, -k).add(r, k)
		}
	}
	return l
}

func (f *FA) withProductFacts(facts []Fact) []Fact {
	sub := f.productSubst(facts)
	if sub == nil {
		return facts
	}
	out := make([]Fact, len(facts))
	for i, ft := range facts {
		out[i] = Fact{L: substLF(ft.L, sub), NE: ft.NE}
	}
	return out
}

// infeasible: the facts contradict each other as far as intervals show (an atom's interval is empty, or a fact's
// left side cannot reach 0).
func (f *FA) infeasible(facts []Fact) bool {
	facts = f.withProductFacts(f.withNarrowFacts(facts))
	e := f.refine(facts)
	for x, lo := range e.lo {
		if _, hi := f.atomBounds(x, e); lo > hi {
			return true
		}
	}
	for x, hi := range e.hi {
		if lo, _ := f.atomBounds(x, e); lo > hi {
			return true
		}
	}
	for _, ft := range facts {
		if ft.NE {
			continue
		}
		if _, hi := f.bounds(ft.L, e); hi < 0 {
			return true
		}
	}
	return false
}

// edgeFacts: what is known when control enters x from its predecessor p, beyond the facts of x's immediate
// dominator: the guards between that dominator and p, and the condition of the edge itself.
func (f *FA) edgeFacts(p, x *ssa.BasicBlock) []Fact {
	var out []Fact
	if iff, ok := p.Instrs[len(p.Instrs)-1].(*ssa.If); ok && p.Succs[0] != p.Succs[1] {
		f.condFacts(iff.Cond, p.Succs[0] == x, &out)
	}
	// the integer φ-nodes of x take the value of this edge
	for i, q := range x.Preds {
		if q != p {
			continue
		}
		for _, ins := range x.Instrs {
			ph, ok := ins.(*ssa.Phi)
			if !ok {
				break
			}
			if _, _, isInt := f.typeRange(ph.Type()); !isInt {
				// a merged byte slice has the length of the value that came in
				if isByteSlice(ph.Type()) {
					a, b := f.SliceLen(ph), f.SliceLen(ph.Edges[i])
					if a.key() != b.key() {
						out = append(out, Fact{L: a.add(b, -1)}, Fact{L: b.add(a, -1)})
					}
				}
				continue
			}
			a, b := f.LFOf(ph), f.LFOf(ph.Edges[i])
			out = append(out, Fact{L: a.add(b, -1)}, Fact{L: b.add(a, -1)})
		}
		break
	}
	stop := x.Idom()
	for y := p; y != nil && y != stop; y = y.Idom() {
		if fs, ok := f.extra[y]; ok {
			out = append(out, fs...)
		}
		if len(y.Preds) == 1 {
			q := y.Preds[0]
			if iff, ok := q.Instrs[len(q.Instrs)-1].(*ssa.If); ok && q.Succs[0] != q.Succs[1] {
				f.condFacts(iff.Cond, q.Succs[0] == y, &out)
			}
		}
	}
	return out
}

// DisjAt lists the case distinctions that hold at b: for every merge block on b's dominator chain that is not a
// loop header, control came in through one of its predecessors, with that edge's facts. (At a loop header the
// facts of the back edge speak about the previous iteration's values; everywhere else the values an edge's
// facts mention are defined in blocks that dominate the predecessor and cannot be redefined before b without
// passing the merge again.)
func (f *FA) DisjAt(b *ssa.BasicBlock) [][][]Fact {
	var out [][][]Fact
	for x := b; x != nil; x = x.Idom() {
		if len(x.Preds) < 2 || len(x.Preds) > 4 {
			continue
		}
		header := false
		for _, p := range x.Preds {
			if x.Dominates(p) {
				header = true
			}
		}
		if header {
			continue
		}
		var alts [][]Fact
		informative := false
		for i, p := range x.Preds {
			if f.predDead(x, i) {
				continue
			}
			fs := f.edgeFacts(p, x)
			if len(fs) > 0 {
				informative = true
			}
			alts = append(alts, fs)
		}
		if informative && len(alts) >= 2 {
			out = append(out, alts)
		}
		if len(out) >= 4 {
			break
		}
	}
	return out
}

// EqualAt: a == b at block blk, from the dominating facts or by a case distinction over a dominating merge.
func (f *FA) EqualAt(a, b LF, blk *ssa.BasicBlock) bool {
	if a.key() == b.key() {
		return true
	}
	facts := f.FactsAt(blk)
	for _, g := range []LF{a.add(b, -1), b.add(a, -1)} {
		if ok, _ := f.Prove(g, facts); ok {
			continue
		}
		if ok, _ := f.ProveCases(g, facts, blk); !ok {
			return false
		}
	}
	return true
}

// ProveCases proves g by a case distinction over one of the disjunctions that hold at b: in every case the goal
// follows or the case contradicts the facts.
func (f *FA) ProveCases(g LF, facts []Fact, b *ssa.BasicBlock) (bool, string) {
	for _, alts := range f.DisjAt(b) {
		all := true
		for _, alt := range alts {
			fs := append(append([]Fact(nil), facts...), alt...)
			if f.infeasible(fs) {
				continue
			}
			if ok, _ := f.Prove(g, fs); !ok {
				all = false
				break
			}
		}
		if all {
			return true, fmt.Sprintf("case distinction over the %d ways into a dominating merge: in each the goal follows or the case is contradictory", len(alts))
		}
	}
	return false, ""
}

func (f *FA) Prove(g LF, facts []Fact) (bool, string) {
	facts = f.withNarrowFacts(facts)
	if sub := f.productSubst(facts); sub != nil {
		g = substLF(g, sub)
		facts = f.withProductFacts(facts)
	}
	e := f.refine(facts)
	if lo, _ := f.bounds(g, e); lo >= 0 {
		if lo0, _ := f.bounds(g, nil); lo0 >= 0 {
			return true, "interval of the goal is non-negative"
		}
		return true, "atom intervals refined by dominating guards"
	}
	var fs []LF
	for _, ft := range facts {
		if !ft.NE {
			fs = append(fs, ft.L)
		}
	}
	for _, a := range fs {
		for k := int64(1); k <= 4; k++ {
			if lo, _ := f.bounds(g.add(a, -k), e); lo >= 0 {
				return true, fmt.Sprintf("goal - %d*(%s >= 0) is non-negative", k, f.Show(a))
			}
		}
	}
	for i, a := range fs {
		for j, b := range fs {
			if i >= j {
				continue
			}
			for k1 := int64(1); k1 <= 4; k1++ {
				for k2 := int64(1); k2 <= 4; k2++ {
					if lo, _ := f.bounds(g.add(a, -k1).add(b, -k2), e); lo >= 0 {
						return true, fmt.Sprintf("goal - %d*(%s) - %d*(%s) is non-negative", k1, f.Show(a), k2, f.Show(b))
					}
				}
			}
		}
	}
	if len(fs) <= 18 {
		for i := range fs {
			for j := i + 1; j < len(fs); j++ {
				for k := j + 1; k < len(fs); k++ {
					if lo, _ := f.bounds(g.add(fs[i], -1).add(fs[j], -1).add(fs[k], -1), e); lo >= 0 {
						return true, fmt.Sprintf("goal - (%s) - (%s) - (%s) is non-negative", f.Show(fs[i]), f.Show(fs[j]), f.Show(fs[k]))
					}
				}
			}
		}
	}
	return false, ""
}

// ProveNE tries to show g != 0.
func (f *FA) ProveNE(g LF, facts []Fact) bool {
	facts = f.withNarrowFacts(facts)
	e := f.refine(facts)
	lo, hi := f.bounds(g, e)
	if lo > 0 || hi < 0 {
		return true
	}
	for _, ft := range facts {
		if ft.NE && ft.L.key() == g.key() {
			return true
		}
		if ft.NE && ft.L.key() == g.scale(-1).key() {
			return true
		}
	}
	if ok, _ := f.Prove(g.add(konst(1), -1), facts); ok {
		return true
	}
	if ok, _ := f.Prove(g.scale(-1).add(konst(1), -1), facts); ok {
		return true
	}
	return false
}

// Show renders a linear form.
func (f *FA) Show(l LF) string {
	ks := make([]int, 0, len(l.T))
	for x := range l.T {
		ks = append(ks, x)
	}
	sort.Ints(ks)
	s := fmt.Sprintf("%d", l.C)
	for _, x := range ks {
		s += fmt.Sprintf(" %+d*%s", l.T[x], f.atoms[x].name)
	}
	return s
}

// ShowFacts renders facts for diagnostics.
func (f *FA) ShowFacts(facts []Fact) string {
	var parts []string
	for _, ft := range facts {
		op := ">= 0"
		if ft.NE {
			op = "!= 0"
		}
		parts = append(parts, f.Show(ft.L)+" "+op)
	}
	return strings.Join(parts, "; ")
}

// pureGetter: every module implementer the invoke can reach returns a field of its receiver (or a constant) and
// does nothing else, and no external implementer exists.
func (c *Ctx) pureGetter(call *ssa.Call) bool {
	cs := c.CalleesAt(call)
	if cs.Dynamic || len(cs.External) > 0 || len(cs.Mod) == 0 {
		return false
	}
	for _, g := range cs.Mod {
		if g.Blocks == nil || len(g.Blocks) != 1 {
			return false
		}
		for _, ins := range g.Blocks[0].Instrs {
			switch x := ins.(type) {
			case *ssa.FieldAddr:
				if len(g.Params) == 0 || x.X != ssa.Value(g.Params[0]) {
					return false
				}
			case *ssa.UnOp:
				if x.Op != token.MUL {
					return false
				}
			case *ssa.Return, *ssa.DebugRef:
			default:
				return false
			}
		}
	}
	return true
}
